(* IndentTie.v -- the translated loops of indent.go (gen/IndentGen.v, written by tools/goindent2v from
   compact, newline and Indent of v5/internal/json/indent.go) compute the hand-written models of Scan.v.

     compact_run_is_model : compact_run pooled src esc out0 =
                              match compact_go esc src with Some o => ROk (out0 ++ o) | None => RErr out0 end
                            for EVERY byte string src, every content out0 of the buffer and every scanner the
                            pool may hand out: no index, slice or Truncate is out of range (RFail is not a
                            possible outcome), on an error the buffer is back to out0 and scan.err is set
     compact_gen_is_model : compact_gen esc bs = Scan.compact_go esc bs
     newline_run_spec     : newline_run prefix ind depth out = VOk (out ++ [x0a] ++ prefix ++ rep_bytes (Z.to_nat depth) ind)
                            (the counting loop ends within its fuel, also for a negative depth)
     indent_run_is_model  : indent_run pooled src [] ind out0 =
                              match indent_go ind src with Some o => ROk (out0 ++ o) | None => RErr out0 end
     indent_gen_is_model  : indent_gen [] indent bs = Scan.indent_go indent bs
     compact_run_no_failure, indent_run_no_failure, newline_run_no_failure : the guard failures are unreachable

   The model differs from the code in two unobservable ways, bridged by loop invariants (CInv, IInv):
   compact: the code keeps an index start and writes src[start:i] in one piece, the model writes byte by
   byte and counts the bytes still to skip after an escaped U+2028/9; Indent: depth is an int in the code
   and a nat in the model.  Both invariants need a fact about the scanner (P_step): from a state that is
   not the error state one step leads either to the error state with err set -- and then both sides answer
   with an error whatever they wrote -- or to a state whose nesting depth changed by +1 for an opening
   bracket, -1 for a closing one, 0 otherwise, where scanSkipSpace / scanEnd are answered for white space
   only and scanEndObject / scanEndArray for closing brackets only.

   The proofs are written against the MEANING of one execution of the loop body (compact_body_spec,
   indent_body_spec: which state follows), not against its text. *)
From Coq Require Import Lia.
From JP Require Import Bytes Utf8Rune Scan.
From JP.gen Require Import ScannerGen IndentGen.
Local Open Scope Z_scope.

(* ------------------------------------------------------------------ the scanner, one step *)

Definition opener (c : byte) : bool := (bz c =? 123) || (bz c =? 91).
Definition closer (c : byte) : bool := (bz c =? 125) || (bz c =? 93).
Definition doomed (s : scanner) : Prop := err s = true /\ step s = St_stateError.
Definition good (s : scanner) : Prop := err s = false /\ step s <> St_stateError.

(* n: the nesting depth before the step *)
Definition isEnd (v : Z) : bool := (v =? scanEndObject) || (v =? scanEndArray).
Definition lenrel (n : nat) (s' : scanner) (v : Z) (c : byte) : Prop :=
  (if (v =? scanContinue) || (v =? scanSkipSpace) || (v =? scanEnd) then length (parseState s') = n
   else if opener c then length (parseState s') = S n
   else if closer c then S (length (parseState s')) = n
   else length (parseState s') = n) /\
  (isEnd v = true -> closer c = true).

Definition P (n : nat) (c : byte) (r : scanner * Z) : Prop :=
  let (s', v) := r in
  (doomed s' /\ (v = scanError \/ v = scanEnd)) \/
  (good s' /\ 0 <= v <= 10 /\ (9 <= v -> isSpace c = true) /\ lenrel n s' v c).

Lemma bn_is c k : bn c = k -> c = nb k.
Proof. intros <-. destruct c; reflexivity. Qed.

Ltac brk := repeat match goal with |- context [if ?b then _ else _] => destruct b eqn:? end.

Ltac concretize :=
  repeat match goal with
  | H : Byte.eqb ?c _ = true |- _ => apply Byte.byte_dec_bl in H; subst c
  | H : (bn ?c =? _)%N = true |- _ => apply N.eqb_eq in H; apply bn_is in H; cbv in H; subst c
  end.

Ltac lr := split; [first [reflexivity | cbn; reflexivity]
                 | cbn; let H := fresh "H" in intro H; first [discriminate H | reflexivity]].

Ltac leafgood :=
  right; concretize; cbn -[isSpace];
  split; [split; [reflexivity | discriminate] |];
  split; [split; discriminate |];
  split; [first [intros _; assumption | let HH := fresh "HH" in intro HH; exfalso; apply HH; reflexivity] |];
  lr.

Ltac leafbad := left; cbn; split; [split; reflexivity | auto].

Lemma P_error n s c : P n c (scanner_error s c).
Proof. leafbad. Qed.

Lemma P_endtop s c : good s -> P (length (parseState s)) c (stateEndTop s c).
Proof.
  destruct s as [x e p er]. intros [He Hx]. cbn in He, Hx. subst er.
  unfold stateEndTop. destruct (isSpace c) eqn:Sp; cbn [negb].
  - right. cbn -[isSpace]. split; [split; [reflexivity | exact Hx] |]. split; [split; discriminate |].
    split; [intros _; exact Sp | lr].
  - leafbad.
Qed.

Lemma P_endvalue s c : good s -> P (length (parseState s)) c (stateEndValue s c).
Proof.
  destruct s as [x e p er]. intros [He Hx]. cbn in He, Hx. subst er.
  destruct p as [|t p'].
  - apply (P_endtop (mkScanner St_stateEndTop true [] false)). split; [reflexivity | discriminate].
  - unfold stateEndValue. cbn -[isSpace N.eqb scanner_popParseState scanner_error].
    destruct t; cbn -[isSpace N.eqb scanner_popParseState scanner_error]; brk;
      try apply P_error; try solve [leafgood].
    + right. concretize. unfold scanner_popParseState. cbn -[Z.eqb Z.add Z.of_nat]. brk; cbn;
      (split; [split; [reflexivity | discriminate] |]; split; [split; discriminate |];
       split; [intro HH; exfalso; apply HH; reflexivity | lr]).
    + right. concretize. unfold scanner_popParseState. cbn -[Z.eqb Z.add Z.of_nat]. brk; cbn;
      (split; [split; [reflexivity | discriminate] |]; split; [split; discriminate |];
       split; [intro HH; exfalso; apply HH; reflexivity | lr]).
Qed.

Lemma P_push s c t v : good s -> opener c = true -> v = scanBeginObject \/ v = scanBeginArray ->
  P (length (parseState s)) c (scanner_pushParseState s c t v).
Proof.
  destruct s as [x e p er]. intros [He Hx] Op V. cbn in He, Hx. subst er.
  unfold scanner_pushParseState. cbn -[Z.leb ps_len scanner_error]. brk; [|apply P_error].
  right. cbn. split; [split; [reflexivity | exact Hx] |].
  unfold lenrel. rewrite Op. destruct V as [-> | ->]; (split; [split; discriminate |]);
    (split; [let HH := fresh "HH" in intro HH; exfalso; apply HH; reflexivity | split; [reflexivity | cbn; discriminate]]).
Qed.

Lemma good_set_step s x : good s -> x <> St_stateError -> good (set_step s x).
Proof. intros [A _] X. split; [exact A | exact X]. Qed.

Lemma good_settop s t : good s -> good (set_parseState s (ps_settop (parseState s) t)).
Proof. intros [A B]. split; [exact A | exact B]. Qed.

Lemma len_settop (l : list ps) t : length (ps_settop l t) = length l.
Proof. destruct l; reflexivity. Qed.

Lemma P_beginvalue s c : good s -> P (length (parseState s)) c (stateBeginValue s c).
Proof.
  intro G. unfold stateBeginValue. brk.
  all: try solve [apply P_error].
  all: try solve [apply (P_push (set_step s _) c); [apply good_set_step; [exact G | discriminate] | concretize; reflexivity | auto]].
  all: destruct s as [x e p er]; destruct G as [He Hx]; cbn in He, Hx; subst er.
  all: try solve [leafgood].
  all: try solve [right; cbn -[isSpace]; split; [split; [reflexivity | exact Hx] |]; split; [split; discriminate |];
                  split; [intros _; assumption | lr]].
  destruct c; try discriminate; leafgood.
Qed.

Lemma P_cont s c x : good s -> x <> St_stateError -> P (length (parseState s)) c (set_step s x, scanContinue).
Proof.
  destruct s as [x0 e p er]. intros [He Hx] X. cbn in He. subst er. right. cbn.
  split; [split; [reflexivity | exact X] |]. split; [split; discriminate |].
  split; [let HH := fresh "HH" in intro HH; exfalso; apply HH; reflexivity | lr].
Qed.

Lemma P_cont0 s c : good s -> P (length (parseState s)) c (s, scanContinue).
Proof.
  intros G. right. split; [exact G|]. split; [split; discriminate |].
  split; [let HH := fresh "HH" in intro HH; exfalso; apply HH; reflexivity | lr].
Qed.

Lemma P_skip s c : good s -> isSpace c = true -> P (length (parseState s)) c (s, scanSkipSpace).
Proof.
  intros G Sp. right. split; [exact G|]. split; [split; discriminate |].
  split; [intros _; exact Sp | lr].
Qed.

Lemma P_beginstring s c : good s -> P (length (parseState s)) c (stateBeginString s c).
Proof.
  intro G. unfold stateBeginString. brk; [apply P_skip; assumption | | apply P_error].
  destruct s as [x e p er]; destruct G as [He Hx]; cbn in He, Hx; subst er. leafgood.
Qed.

Ltac states := unfold stateInString, stateInStringEsc, stateInStringEscU, stateInStringEscU1, stateInStringEscU12,
  stateInStringEscU123, stateNeg, state1, state0, stateDot, stateDot0, stateE, stateESign, stateE0, stateT, stateTr,
  stateTru, stateF, stateFa, stateFal, stateFals, stateN, stateNu, stateNul.

Lemma P_step s c : good s -> P (length (parseState s)) c (step_fn (step s) s c).
Proof.
  intro G. pose proof G as [He Hx].
  destruct (step s) eqn:X; cbn [step_fn].
  all: try solve [apply P_endvalue; exact G].
  all: try solve [apply P_endtop; exact G].
  all: try solve [apply P_beginvalue; exact G].
  all: try solve [apply P_beginstring; exact G].
  all: try solve [exfalso; apply Hx; reflexivity].
  all: try solve [unfold stateBeginValueOrEmpty; brk;
                  [apply P_skip; assumption | apply P_endvalue; exact G | apply P_beginvalue; exact G]].
  all: try solve [states; brk;
                  first [apply P_error | apply P_endvalue; exact G | apply P_cont0; exact G
                        | apply P_cont; [exact G | discriminate]]].
  unfold stateBeginStringOrEmpty. brk; [apply P_skip; assumption | | apply P_beginstring; exact G].
  cbv zeta. rewrite <- (len_settop (parseState s) parseObjectValue).
  apply (P_endvalue (set_parseState s (ps_settop (parseState s) parseObjectValue)) c).
  apply good_settop. exact G.
Qed.

(* the scanner in the error state: every further step answers scanError, and so does eof *)
Lemma doomed_step s c : doomed s -> step_fn (step s) s c = (s, scanError).
Proof. intros [_ X]. rewrite X. reflexivity. Qed.

Lemma eof_err s : err s = true -> scanner_eof s = (s, scanError).
Proof. intro E. unfold scanner_eof. rewrite E. reflexivity. Qed.

Lemma eof_error_err s : snd (scanner_eof s) = scanError -> err (fst (scanner_eof s)) = true.
Proof.
  unfold scanner_eof. destruct (err s) eqn:E; [intros _; exact E|].
  destruct (endTop s); [discriminate|].
  destruct (endTop (fst _)); [discriminate|].
  destruct (err (fst _)) eqn:E2; cbn [negb]; intros _; [exact E2 | reflexivity].
Qed.

Lemma good_or_doomed n c s' v : P n c (s', v) -> good s' \/ doomed s'.
Proof. intros [[D _]|[G _]]; auto. Qed.

Lemma scanner0_good pooled : good (scanner_reset pooled) /\ scanner_reset pooled = scanner0.
Proof. split; [split; [reflexivity | discriminate] | reflexivity]. Qed.

(* ------------------------------------------------------------------ lists, len, at_, slice *)

Lemma it_skipn_skipn {A} a b (l : list A) : skipn a (skipn b l) = skipn (b + a) l.
Proof.
  revert l. induction b as [|b IH]; intro l; [reflexivity|].
  destruct l as [|x l]; [now rewrite !skipn_nil|]. cbn [Nat.add skipn]. apply IH.
Qed.

Lemma it_firstn_add {A} a k (u : list A) : (a <= length u)%nat -> firstn (a + k) u = firstn a u ++ firstn k (skipn a u).
Proof.
  revert u. induction a as [|a IH]; intros u L; [reflexivity|].
  destruct u as [|x u]; [simpl in L; lia|]. cbn [Nat.add firstn skipn app]. f_equal. apply IH. simpl in L. lia.
Qed.

Lemma len_nonneg s : 0 <= len s.
Proof. unfold len. lia. Qed.

Lemma len_app a b : len (a ++ b) = len a + len b.
Proof. unfold len. rewrite app_length. lia. Qed.

Lemma slice_ge s a b : (a <? b) = false -> slice s a b = [].
Proof. intro H. apply Z.ltb_ge in H. unfold slice. replace (Z.to_nat (b - a)) with 0%nat by lia. reflexivity. Qed.

Lemma slice_to_end s a : 0 <= a -> slice s a (len s) = skipn (Z.to_nat a) s.
Proof. intro H. unfold slice, len. apply firstn_all2. rewrite skipn_length. lia. Qed.

Lemma rest_len s i t : 0 <= i -> skipn (Z.to_nat i) s = t -> t <> [] -> i + len t = len s.
Proof.
  intros H E N. assert (L : length t = (length s - Z.to_nat i)%nat) by (rewrite <- E; apply skipn_length).
  unfold len. destruct t; [contradiction|]. simpl in L. simpl. lia.
Qed.

Lemma at_rest s i t k : 0 <= i -> skipn (Z.to_nat i) s = t -> (k < length t)%nat ->
  at_ s (i + Z.of_nat k) = nth k t x00.
Proof.
  intros H E K. unfold at_. rewrite <- E in *. rewrite skipn_length in K.
  rewrite <- (firstn_skipn (Z.to_nat i) s) at 1.
  assert (L : length (firstn (Z.to_nat i) s) = Z.to_nat i) by (apply firstn_length_le; lia).
  rewrite app_nth2 by lia. f_equal. lia.
Qed.

Lemma advance1 s i c r : 0 <= i -> skipn (Z.to_nat i) s = c :: r ->
  skipn (Z.to_nat (i + 1)) s = r /\ forall a, 0 <= a <= i -> slice s a (i + 1) = slice s a i ++ [c].
Proof.
  intros H E.
  assert (L : length (c :: r) = (length s - Z.to_nat i)%nat) by (rewrite <- E; apply skipn_length).
  simpl in L. split.
  - replace (Z.to_nat (i + 1)) with (Z.to_nat i + 1)%nat by lia. rewrite <- it_skipn_skipn, E. reflexivity.
  - intros a Ha. unfold slice.
    replace (Z.to_nat (i + 1 - a)) with (Z.to_nat (i - a) + 1)%nat by lia.
    rewrite it_firstn_add by (rewrite skipn_length; lia).
    f_equal. rewrite it_skipn_skipn. replace (Z.to_nat a + Z.to_nat (i - a))%nat with (Z.to_nat i) by lia.
    rewrite E. reflexivity.
Qed.

Lemma trunc_app (out0 w : bytes) :
  in_slice 0 (len out0) (len (out0 ++ w)) = true /\ firstn (Z.to_nat (len out0)) (out0 ++ w) = out0.
Proof.
  split.
  - unfold in_slice. rewrite len_app. pose proof (len_nonneg out0). pose proof (len_nonneg w).
    rewrite !andb_true_iff, !Z.leb_le. lia.
  - unfold len. rewrite Nat2Z.id, firstn_app, Nat.sub_diag, firstn_all. cbn. apply app_nil_r.
Qed.

(* ------------------------------------------------------------------ compact: one execution of the body *)

Definition spc (esc : bool) (c : byte) : bool := esc && (((bz c =? 60) || (bz c =? 62)) || (bz c =? 38)).
Definition lsc (esc : bool) (src : bytes) (i : Z) (c : byte) : bool :=
  (((esc && (bz c =? 226)) && (i + 2 <? len src)) && (bz (at_ src (i + 1)) =? 128)) && (Z.ldiff (bz (at_ src (i + 2))) 1 =? 168).

Lemma hexg_hi c : in_idx (Z.shiftr (bz c) 4) (len go_hex) = true.
Proof. destruct c; reflexivity. Qed.
Lemma hexg_lo c : in_idx (Z.land (bz c) 15) (len go_hex) = true.
Proof. destruct c; reflexivity. Qed.
Lemma hexv_hi c : at_ go_hex (Z.shiftr (bz c) 4) = hex_hi c.
Proof. destruct c; reflexivity. Qed.
Lemma hexv_lo c : at_ go_hex (Z.land (bz c) 15) = hex_lo c.
Proof. destruct c; reflexivity. Qed.

Lemma ltb_succ_false i k : 0 < k -> (i + k <? i) = false.
Proof. intro. apply Z.ltb_ge. lia. Qed.

Lemma slice_guard s a b : 0 <= a -> (a <? b) = true -> b <= len s -> in_slice a b (len s) = true.
Proof. intros A B C. apply Z.ltb_lt in B. unfold in_slice. rewrite !andb_true_iff, !Z.leb_le. lia. Qed.

Lemma compact_body_spec src esc oL i c scan start out : 0 <= start -> 0 <= i -> i <= len src ->
  compact_body src esc oL i c scan start out =
  let '(start1, out1) := if spc esc c then (i + 1, out ++ slice src start i ++ [x5c; x75; x30; x30; hex_hi c; hex_lo c])
                         else (start, out) in
  let '(start2, out2) := if lsc esc src i c
                         then (i + 3, out1 ++ slice src start1 i ++ [x5c; x75; x32; x30; x32; hex_lo (at_ src (i + 2))])
                         else (start1, out1) in
  let '(scan', v) := step_fn (step scan) scan c in
  if scanSkipSpace <=? v then
    if v =? scanError then compact_BBreak scan' start2 out2 else compact_BNext scan' (i + 1) (out2 ++ slice src start2 i)
  else compact_BNext scan' start2 out2.
Proof.
  intros Hs Hi Hl. unfold compact_body, spc. fold (lsc esc src i c).
  assert (G2 : (negb (esc && (bz c =? 226) && (i + 2 <? len src)) || in_idx (i + 1) (len src)) &&
               (negb (esc && (bz c =? 226) && (i + 2 <? len src) && (bz (at_ src (i + 1)) =? 128)) || in_idx (i + 2) (len src)) = true).
  { destruct (i + 2 <? len src) eqn:L2.
    - apply Z.ltb_lt in L2.
      assert (A1 : in_idx (i + 1) (len src) = true) by (unfold in_idx; rewrite andb_true_iff, Z.leb_le, Z.ltb_lt; lia).
      assert (A2 : in_idx (i + 2) (len src) = true) by (unfold in_idx; rewrite andb_true_iff, Z.leb_le, Z.ltb_lt; lia).
      rewrite A1, A2, !orb_true_r. reflexivity.
    - rewrite !andb_false_r. reflexivity. }
  rewrite G2. clear G2.
  assert (G3 : lsc esc src i c = true -> in_idx (i + 2) (len src) = true).
  { unfold lsc. rewrite !andb_true_iff. intros [[[[_ _] L2] _] _]. apply Z.ltb_lt in L2.
    unfold in_idx. rewrite andb_true_iff, Z.leb_le, Z.ltb_lt. lia. }
  rewrite !hexg_hi, !hexg_lo, !hexv_hi, !hexv_lo, !(ltb_succ_false i 1), !(ltb_succ_false i 3) by lia.
  cbn [negb andb].
  destruct (start <? i) eqn:SI;
    [rewrite (slice_guard src start i Hs SI Hl) | rewrite (slice_ge src start i SI)]; cbn [negb];
    (* the tests for < > & one by one: their order does not matter *)
    (destruct esc, (bz c =? 60), (bz c =? 62), (bz c =? 38); cbn [andb orb];
     (destruct (lsc _ src i c) eqn:L; [rewrite (G3 eq_refl)|]); cbn [negb andb];
     destruct (step_fn (step scan) scan c) as [scan' v];
     (destruct (scanSkipSpace <=? v); [destruct (v =? scanError)|]);
     rewrite ?(slice_ge src (i + 1) i), ?(slice_ge src (i + 3) i) by (apply ltb_succ_false; lia);
     rewrite ?(slice_ge src start i) by exact SI;
     rewrite <- ?app_assoc, ?app_nil_r; cbn [app]; reflexivity).
Qed.

(* ------------------------------------------------------------------ compact: the model, one byte *)

Definition lsm (r : bytes) : bool :=
  match r with
  | x80 :: xa8 :: _ | x80 :: xa9 :: _ => true
  | _ => false
  end.

Lemma compact_loop_cons esc s c r skip out :
  compact_loop esc s (c :: r) skip out =
  let (s', v) := step_fn (step s) s c in
  if (v =? scanError) then None else
  match skip with
  | S k => compact_loop esc s' r k out
  | O =>
      if esc && (Byte.eqb c x3c || Byte.eqb c x3e || Byte.eqb c x26) then
        compact_loop esc s' r 0 (hex_lo c :: hex_hi c :: x30 :: x30 :: x75 :: x5c :: out)
      else if esc && Byte.eqb c xe2 && lsm r then
        compact_loop esc s' r 2 (hex_lo (nth 1 r x00) :: x32 :: x30 :: x32 :: x75 :: x5c :: out)
      else if (scanSkipSpace <=? v) then compact_loop esc s' r 0 out
      else compact_loop esc s' r 0 (c :: out)
  end.
Proof.
  cbn [compact_loop]. destruct (step_fn (step s) s c) as [s' v]. destruct (v =? scanError); [reflexivity|].
  destruct skip; [|reflexivity].
  destruct (esc && (Byte.eqb c x3c || Byte.eqb c x3e || Byte.eqb c x26)); [reflexivity|].
  unfold lsm. destruct r as [|c1 [|c2 r']]; reflexivity.
Qed.

Lemma spc_eq esc c : spc esc c = esc && (Byte.eqb c x3c || Byte.eqb c x3e || Byte.eqb c x26).
Proof. destruct esc; [|reflexivity]. destruct c; reflexivity. Qed.

Lemma lsc_eq esc src i c r : 0 <= i -> skipn (Z.to_nat i) src = c :: r ->
  lsc esc src i c = esc && Byte.eqb c xe2 && lsm r /\
  (lsc esc src i c = true -> exists d r', r = x80 :: d :: r' /\ (d = xa8 \/ d = xa9) /\ at_ src (i + 2) = d /\ i + 3 <= len src).
Proof.
  intros Hi E. pose proof (rest_len src i (c :: r) Hi E ltac:(discriminate)) as L.
  unfold len in L. cbn [length] in L. unfold lsc.
  destruct r as [|c1 [|c2 r']].
  - replace (i + 2 <? len src) with false by (symmetry; apply Z.ltb_ge; unfold len; cbn [length] in L; lia).
    rewrite !andb_false_r. split; [reflexivity | discriminate].
  - replace (i + 2 <? len src) with false by (symmetry; apply Z.ltb_ge; unfold len; cbn [length] in L; lia).
    rewrite !andb_false_r. split; [|discriminate]. cbn [andb]. destruct c1; cbn; rewrite ?andb_false_r; reflexivity.
  - replace (i + 2 <? len src) with true by (symmetry; apply Z.ltb_lt; unfold len; cbn [length] in L; lia).
    assert (A1 : at_ src (i + 1) = c1) by (apply (at_rest src i _ 1%nat Hi E); cbn; lia).
    assert (A2 : at_ src (i + 2) = c2) by (apply (at_rest src i _ 2%nat Hi E); cbn; lia).
    rewrite A1, A2, andb_true_r.
    assert (Q : (bz c =? 226) = Byte.eqb c xe2) by (destruct c; reflexivity). rewrite Q.
    assert (R : (bz c1 =? 128) && (Z.ldiff (bz c2) 1 =? 168) = lsm (c1 :: c2 :: r')).
    { destruct c1; try reflexivity. destruct c2; reflexivity. }
    rewrite <- !andb_assoc, R. split; [reflexivity|].
    rewrite !andb_true_iff. intros (_ & _ & M). exists c2, r'.
    assert (c1 = x80 /\ (c2 = xa8 \/ c2 = xa9)) as [-> D].
    { revert M. clear. destruct c1; try discriminate. destruct c2; try discriminate; auto. }
    split; [reflexivity|]. split; [exact D|]. split; [reflexivity|]. unfold len. cbn [length] in L. lia.
Qed.

Definition nsp (c : byte) : Prop := c = x80 \/ c = xa8 \/ c = xa9.

Lemma nsp_facts esc src i c : nsp c -> spc esc c = false /\ lsc esc src i c = false /\ isSpace c = false.
Proof. intros [-> | [-> | ->]]; (split; [|split]); try reflexivity; destruct esc; reflexivity. Qed.

Lemma post_doomed src esc out0 scan start w : doomed scan ->
  compact_post src esc (len out0) scan start (out0 ++ w) = RErr out0.
Proof.
  intros [E X]. unfold compact_post. rewrite (eof_err scan E). rewrite Z.eqb_refl.
  destruct (trunc_app out0 w) as [T1 T2]. rewrite T1, T2, E. reflexivity.
Qed.

(* ------------------------------------------------------------------ compact: the simulation *)

Definition pre (out0 o : bytes) : Prop := exists w, o = out0 ++ w.

Lemma pre_refl out0 : pre out0 out0.
Proof. exists []. symmetry. apply app_nil_r. Qed.

Lemma pre_app out0 o x : pre out0 o -> pre out0 (o ++ x).
Proof. intros [w ->]. exists (w ++ x). symmetry. apply app_assoc. Qed.

Lemma post_doomed' src esc out0 scan start o : pre out0 o -> doomed scan ->
  compact_post src esc (len out0) scan start o = RErr out0.
Proof. intros [w ->]. apply post_doomed. Qed.

Lemma spc_lsc esc src i c : spc esc c = true -> lsc esc src i c = false.
Proof.
  unfold spc, lsc. destruct esc; [|discriminate]. cbn [andb].
  destruct c; try discriminate; reflexivity.
Qed.

Definition cfin (out0 : bytes) (m : option (scanner * bytes)) : res :=
  match m with
  | None => RErr out0
  | Some (s, o) => if snd (scanner_eof s) =? scanError then RErr out0 else ROk (out0 ++ rev o)
  end.

Definition gfin (src : bytes) (esc : bool) (out0 : bytes) (l : compact_l) : res :=
  match l with
  | compact_LFail f => RFail f
  | compact_LDone scan start out => compact_post src esc (len out0) scan start out
  end.

(* i: the index of the next byte, rest: the bytes from there on.  The model has written rev outm; the code
   has written outg and still holds back src[start:i]; after an escaped U+2028/9 the model skips the
   remaining bytes of the sequence one by one, where the code has moved start behind them. *)
Definition CInv (src out0 : bytes) (i : Z) (rest : bytes) (scan : scanner) (start : Z) (outg : bytes)
  (skip : nat) (outm : bytes) : Prop :=
  0 <= start <= len src /\ pre out0 outg /\
  (doomed scan \/
   (good scan /\
    match skip with
    | O => start <= i /\ outg ++ slice src start i = out0 ++ rev outm
    | S _ => start = i + Z.of_nat skip /\ outg = out0 ++ rev outm /\
             length (firstn skip rest) = skip /\ Forall nsp (firstn skip rest)
    end)).

Lemma compact_sim esc src out0 : forall rest i scan start outg skip outm,
  0 <= i -> skipn (Z.to_nat i) src = rest -> i + len rest = len src ->
  CInv src out0 i rest scan start outg skip outm ->
  gfin src esc out0 (compact_iter src esc (len out0) rest i scan start outg) =
  cfin out0 (compact_loop esc scan rest skip outm).
Proof.
  induction rest as [|c r IH]; intros i scan start outg skip outm Hi E L (Hs & HW & I).
  - (* end of the input *)
    cbn [compact_iter compact_loop gfin cfin]. change (len []) with 0 in L. assert (i = len src) by lia. subst i.
    unfold compact_post. destruct (scanner_eof scan) as [s2 v2] eqn:EO. cbn [snd].
    destruct (v2 =? scanError) eqn:V.
    + destruct HW as [w ->]. destruct (trunc_app out0 w) as [T1 T2]. rewrite T1, T2. cbn [negb].
      pose proof (eof_error_err scan) as EE. rewrite EO in EE. cbn [fst snd] in EE.
      rewrite EE; [reflexivity|]. apply Z.eqb_eq. exact V.
    + destruct I as [D | [G I]].
      { destruct D as [De _]. rewrite (eof_err scan De) in EO. injection EO as <- <-. discriminate V. }
      destruct skip as [|k].
      * destruct I as [I1 I2]. destruct (start <? len src) eqn:SL.
        -- rewrite (slice_guard src start (len src) (proj1 Hs) SL (Z.le_refl _)). cbn [negb]. rewrite I2. reflexivity.
        -- rewrite (slice_ge _ _ _ SL), app_nil_r in I2. rewrite I2. reflexivity.
      * destruct I as (_ & _ & I3 & _). discriminate I3.
  - (* one more byte *)
    assert (Hl : i <= len src) by (pose proof (len_nonneg (c :: r)); lia).
    destruct (advance1 src i c r Hi E) as [E' SL].
    assert (L' : (i + 1) + len r = len src) by (unfold len in *; cbn [length] in L; lia).
    assert (Hi' : 0 <= i + 1) by lia.
    assert (Hl1 : i + 1 <= len src) by (pose proof (len_nonneg r); lia).
    cbn [compact_iter]. rewrite (compact_body_spec src esc (len out0) i c scan start outg) by lia.
    rewrite compact_loop_cons.
    destruct (lsc_eq esc src i c r Hi E) as [LQ LT]. rewrite <- spc_eq, <- LQ.
    destruct I as [D | [G I]].
    + (* the scanner is in the error state *)
      rewrite (doomed_step scan c D). change (scanError =? scanError) with true.
      change (scanSkipSpace <=? scanError) with true. cbn [cfin].
      destruct (spc esc c); destruct (lsc esc src i c); cbv beta iota zeta; cbn [gfin];
        apply post_doomed'; try exact D; repeat apply pre_app; exact HW.
    + pose proof (P_step scan c G) as HP. destruct (step_fn (step scan) scan c) as [s' v].
      destruct (v =? scanError) eqn:VE.
      { (* break *)
        apply Z.eqb_eq in VE. subst v.
        assert (D' : doomed s').
        { destruct HP as [[D' _]|[_ [[_ B] _]]]; [exact D' | exfalso; unfold scanError in B; lia]. }
        change (scanSkipSpace <=? scanError) with true. change (scanError =? scanError) with true. cbn [cfin].
        destruct (spc esc c); destruct (lsc esc src i c); cbv beta iota zeta; cbn [gfin];
          apply post_doomed'; try exact D'; repeat apply pre_app; exact HW. }
      assert (K1 : (scanSkipSpace <=? v) = true -> isSpace c = false -> doomed s').
      { intros A B. destruct HP as [[D' _]|[_ (_ & Sp & _)]]; [exact D'|].
        apply Z.leb_le in A. unfold scanSkipSpace in A. rewrite Sp in B by lia. discriminate B. }
      assert (K2 : (scanSkipSpace <=? v) = false -> good s').
      { intros A. apply Z.leb_gt in A. destruct HP as [[_ [-> | ->]]|[G' _]];
          [discriminate VE | unfold scanEnd, scanSkipSpace in A; lia | exact G']. }
      assert (K3 : good s' \/ doomed s') by (apply (good_or_doomed _ _ _ _ HP)).
      destruct skip as [|k].
      * (* the model is not skipping *)
        destruct I as [I1 I2].
        destruct (spc esc c) eqn:SP.
        { rewrite (spc_lsc esc src i c SP). cbv beta iota zeta.
          rewrite (slice_ge src (i + 1) i), app_nil_r by (apply ltb_succ_false; lia).
          destruct (scanSkipSpace <=? v); cbv beta iota zeta;
            (apply IH; [exact Hi' | exact E' | exact L' |];
             split; [lia|]; split; [repeat apply pre_app; exact HW|];
             destruct K3 as [G'|D']; [right; split; [exact G'|]; split; [lia|] | left; exact D'];
             rewrite (slice_ge src (i + 1) (i + 1)), app_nil_r by (apply Z.ltb_irrefl);
             rewrite app_assoc, I2; cbn [rev]; rewrite <- !app_assoc; reflexivity). }
        destruct (lsc esc src i c) eqn:LS.
        { destruct (LT eq_refl) as (d & r' & -> & Dd & Ad & L3). rewrite Ad. cbv beta iota zeta.
          rewrite (slice_ge src (i + 3) i) by (apply ltb_succ_false; lia).
          assert (NS : isSpace c = false).
          { revert LS. unfold lsc. clear. destruct esc; [|discriminate]. cbn [andb]. destruct c; try discriminate; reflexivity. }
          destruct (scanSkipSpace <=? v) eqn:SK; cbv beta iota zeta.
          - apply IH; [exact Hi' | exact E' | exact L' |].
            split; [lia|]. split; [repeat apply pre_app; exact HW|]. left. apply K1; [reflexivity | exact NS].
          - apply IH; [exact Hi' | exact E' | exact L' |].
            split; [lia|]. split; [repeat apply pre_app; exact HW|]. right. split; [apply K2; reflexivity|].
            split; [lia|]. split.
            + rewrite app_assoc, I2. cbn [rev nth]. rewrite <- !app_assoc. reflexivity.
            + cbn [firstn length]. split; [reflexivity|].
              apply Forall_cons; [left; reflexivity | apply Forall_cons; [right; exact Dd | apply Forall_nil]]. }
        cbv beta iota zeta.
        destruct (scanSkipSpace <=? v) eqn:SK; cbv beta iota zeta.
        { apply IH; [exact Hi' | exact E' | exact L' |].
          split; [lia|]. split; [repeat apply pre_app; exact HW|].
          destruct K3 as [G'|D']; [right; split; [exact G'|]; split; [lia|] | left; exact D'].
          rewrite (slice_ge src (i + 1) (i + 1)), app_nil_r by (apply Z.ltb_irrefl). exact I2. }
        apply IH; [exact Hi' | exact E' | exact L' |].
        split; [lia|]. split; [exact HW|]. right. split; [apply K2; reflexivity|]. split; [lia|].
        rewrite (SL start) by lia. rewrite app_assoc, I2. cbn [rev]. rewrite <- app_assoc. reflexivity.
      * (* the model skips the rest of an escaped sequence *)
        destruct I as (I1 & I2 & I3 & I4). cbn [firstn length] in I3, I4.
        apply Forall_cons_iff in I4 as [Nc I4]. injection I3 as I3.
        destruct (nsp_facts esc src i c Nc) as (F1 & F2 & F3). rewrite F1, F2. cbv beta iota zeta.
        destruct (scanSkipSpace <=? v) eqn:SK; cbv beta iota zeta.
        { apply IH; [exact Hi' | exact E' | exact L' |].
          split; [lia|]. split; [repeat apply pre_app; exact HW|]. left. apply K1; [reflexivity | exact F3]. }
        apply IH; [exact Hi' | exact E' | exact L' |].
        split; [lia|]. split; [exact HW|]. right. split; [apply K2; reflexivity|].
        destruct k as [|k'].
        -- split; [lia|]. rewrite slice_ge by (apply Z.ltb_ge; lia). rewrite app_nil_r. exact I2.
        -- split; [lia|]. split; [exact I2|]. split; [exact I3 | exact I4].
Qed.

(* ------------------------------------------------------------------ compact: the tie *)

Theorem compact_run_is_model : forall pooled esc src out0,
  compact_run pooled src esc out0 =
  match compact_go esc src with Some o => ROk (out0 ++ o) | None => RErr out0 end.
Proof.
  intros pooled esc src out0. unfold compact_run. cbv zeta. rewrite (proj2 (scanner0_good pooled)).
  change (gfin src esc out0 (compact_iter src esc (len out0) src 0 scanner0 0 out0) =
          match compact_go esc src with Some o => ROk (out0 ++ o) | None => RErr out0 end).
  rewrite (compact_sim esc src out0 src 0 scanner0 0 out0 0%nat []).
  - unfold compact_go, cfin. destruct (compact_loop esc scanner0 src 0 []) as [[s o]|]; [|reflexivity].
    destruct (snd (scanner_eof s) =? scanError); reflexivity.
  - lia.
  - reflexivity.
  - lia.
  - split; [pose proof (len_nonneg src); lia|]. split; [apply pre_refl|]. right.
    split; [apply (scanner0_good scanner0)|]. split; [lia|]. rewrite slice_ge by reflexivity. reflexivity.
Qed.

Theorem compact_gen_is_model : forall esc bs, compact_gen esc bs = Scan.compact_go esc bs.
Proof.
  intros esc bs. unfold compact_gen. rewrite compact_run_is_model. destruct (compact_go esc bs); reflexivity.
Qed.

Corollary compact_run_no_failure : forall pooled esc src out0 f, compact_run pooled src esc out0 <> RFail f.
Proof. intros pooled esc src out0 f. rewrite compact_run_is_model. destruct (compact_go esc src); discriminate. Qed.

(* ------------------------------------------------------------------ newline *)

Definition nlw (ind : bytes) (depth : Z) : bytes := x0a :: rep_bytes (Z.to_nat depth) ind.

Lemma newline_iter_spec prefix ind depth : forall fuel i out, (Z.to_nat (depth - i) < fuel)%nat ->
  newline_iter fuel prefix ind depth i out = newline_LDone (out ++ rep_bytes (Z.to_nat (depth - i)) ind).
Proof.
  induction fuel as [|fuel IH]; intros i out F; [lia|].
  cbn [newline_iter]. destruct (i <? depth) eqn:C.
  - apply Z.ltb_lt in C. unfold newline_body. rewrite IH by lia.
    replace (Z.to_nat (depth - i)) with (S (Z.to_nat (depth - (i + 1)))) by lia.
    cbn [rep_bytes]. rewrite <- app_assoc. reflexivity.
  - apply Z.ltb_ge in C. replace (Z.to_nat (depth - i)) with 0%nat by lia. cbn [rep_bytes]. rewrite app_nil_r. reflexivity.
Qed.

Theorem newline_run_spec : forall prefix ind depth out,
  newline_run prefix ind depth out = VOk (out ++ [x0a] ++ prefix ++ rep_bytes (Z.to_nat depth) ind).
Proof.
  intros prefix ind depth out. unfold newline_run. cbv zeta. rewrite newline_iter_spec by lia.
  unfold newline_post. rewrite Z.sub_0_r, <- !app_assoc. reflexivity.
Qed.

(* ------------------------------------------------------------------ Indent: one execution of the body *)

(* the bytes that the switch of Indent tells apart *)
Inductive cclass (c : byte) : Prop :=
| CO : opener c = true -> closer c = false -> (bz c =? 44) = false -> (bz c =? 58) = false -> isSpace c = false -> cclass c
| CC : opener c = false -> closer c = true -> (bz c =? 44) = false -> (bz c =? 58) = false -> isSpace c = false -> cclass c
| C44 : opener c = false -> closer c = false -> (bz c =? 44) = true -> (bz c =? 58) = false -> isSpace c = false -> cclass c
| C58 : opener c = false -> closer c = false -> (bz c =? 44) = false -> (bz c =? 58) = true -> isSpace c = false -> cclass c
| CD : opener c = false -> closer c = false -> (bz c =? 44) = false -> (bz c =? 58) = false -> cclass c.

Lemma cclass_all c : cclass c.
Proof.
  destruct c; first [apply CO; reflexivity | apply CC; reflexivity | apply C44; reflexivity
                    | apply C58; reflexivity | apply CD; reflexivity].
Qed.

Lemma indent_body_spec src ind oL c scan need depth out :
  indent_body src [] ind oL c scan need depth out =
  let '(scan', v) := step_fn (step scan) scan c in
  if v =? scanSkipSpace then indent_BNext scan' need depth out
  else if v =? scanError then indent_BBreak scan' need depth out
  else
    let '(need1, depth1, out1) :=
      if need && negb (v =? scanEndObject) && negb (v =? scanEndArray)
      then (false, depth + 1, out ++ nlw ind (depth + 1)) else (need, depth, out) in
    if v =? scanContinue then indent_BNext scan' need1 depth1 (out1 ++ [c])
    else if opener c then indent_BNext scan' true depth1 (out1 ++ [c])
    else if bz c =? 44 then indent_BNext scan' need1 depth1 (out1 ++ [c] ++ nlw ind depth1)
    else if bz c =? 58 then indent_BNext scan' need1 depth1 (out1 ++ [c; x20])
    else if closer c then
      (if need1 then indent_BNext scan' false depth1 (out1 ++ [c])
       else indent_BNext scan' need1 (depth1 - 1) (out1 ++ nlw ind (depth1 - 1) ++ [c]))
    else indent_BNext scan' need1 depth1 (out1 ++ [c]).
Proof.
  unfold indent_body. rewrite !newline_run_spec. unfold opener, closer.
  destruct (step_fn (step scan) scan c) as [scan' v].
  destruct (v =? scanSkipSpace); [reflexivity|]. destruct (v =? scanError); [reflexivity|].
  unfold nlw.
  (* all tests on c at once: the order of the case arms does not matter *)
  destruct (cclass_all c) as [C1 C2 C3 C4 C5 | C1 C2 C3 C4 C5 | C1 C2 C3 C4 C5 | C1 C2 C3 C4 C5 | C1 C2 C3 C4];
    unfold opener, closer in C1, C2;
    apply orb_true_iff in C1 || apply orb_false_iff in C1; apply orb_true_iff in C2 || apply orb_false_iff in C2;
    destruct (bz c =? 123), (bz c =? 91), (bz c =? 125), (bz c =? 93), (bz c =? 44), (bz c =? 58);
    try (exfalso; clear - C1 C2 C3 C4; intuition discriminate);
    (destruct (need && negb (v =? scanEndObject) && negb (v =? scanEndArray)); cbv beta iota zeta;
     rewrite ?newline_run_spec; cbn [orb];
     (destruct (v =? scanContinue); [reflexivity|]); try (destruct need); rewrite <- ?app_assoc; reflexivity).
Qed.

(* ------------------------------------------------------------------ Indent: the model, one byte *)

Lemma indent_loop_cons ind s c r need depth out :
  indent_loop ind s (c :: r) need depth out =
  let (s', v) := step_fn (step s) s c in
  if v =? scanSkipSpace then indent_loop ind s' r need depth out
  else if v =? scanError then None
  else
    let '(need1, depth1, out1) :=
      if need && negb (v =? scanEndObject) && negb (v =? scanEndArray)
      then (false, S depth, newline_rev ind (S depth) out) else (need, depth, out) in
    if v =? scanContinue then indent_loop ind s' r need1 depth1 (c :: out1)
    else if opener c then indent_loop ind s' r true depth1 (c :: out1)
    else if bz c =? 44 then indent_loop ind s' r need1 depth1 (newline_rev ind depth1 (c :: out1))
    else if bz c =? 58 then indent_loop ind s' r need1 depth1 (x20 :: c :: out1)
    else if closer c then
      (if need1 then indent_loop ind s' r false depth1 (c :: out1)
       else indent_loop ind s' r need1 (pred depth1) (c :: newline_rev ind (pred depth1) out1))
    else indent_loop ind s' r need1 depth1 (c :: out1).
Proof.
  cbn [indent_loop]. destruct (step_fn (step s) s c) as [s' v].
  destruct (v =? scanSkipSpace); [reflexivity|]. destruct (v =? scanError); [reflexivity|].
  destruct (need && negb (v =? scanEndObject) && negb (v =? scanEndArray)); cbv beta iota zeta;
    (destruct (v =? scanContinue); [reflexivity|]); destruct c; reflexivity.
Qed.

Lemma rev_newline ind n o : rev (newline_rev ind n o) = rev o ++ x0a :: rep_bytes n ind.
Proof. unfold newline_rev. rewrite rev_app_distr, rev_involutive. reflexivity. Qed.

(* ------------------------------------------------------------------ Indent: the simulation *)

Definition ifin (src ind out0 : bytes) (l : indent_l) : res :=
  match l with
  | indent_LFail f => RFail f
  | indent_LDone scan need depth out => indent_post src [] ind (len out0) scan need depth out
  end.

Lemma ipost_doomed src ind out0 scan need depth o : pre out0 o -> doomed scan ->
  indent_post src [] ind (len out0) scan need depth o = RErr out0.
Proof.
  intros [w ->] [E X]. unfold indent_post. rewrite (eof_err scan E). rewrite Z.eqb_refl.
  destruct (trunc_app out0 w) as [T1 T2]. rewrite T1, T2, E. reflexivity.
Qed.

(* The depth of the code is an int, that of the model a nat: they agree as long as the scanner is not in
   its error state, because then  depth + (1 if an indent is pending) = nesting depth of the scanner.
   A closing bracket after a complete top-level value makes the depth of the code negative and that of
   the model stay 0: the scanner is in the error state from then on and both answers are errors. *)
Definition IInv (out0 : bytes) (scan : scanner) (needg : bool) (depthg : Z) (outg : bytes)
  (needm : bool) (depthm : nat) (outm : bytes) : Prop :=
  pre out0 outg /\
  (doomed scan \/
   (good scan /\ needm = needg /\ 0 <= depthg /\ depthm = Z.to_nat depthg /\
    depthg + (if needg then 1 else 0) = Z.of_nat (length (parseState scan)) /\ outg = out0 ++ rev outm)).

Ltac codes := cbn [Z.eqb Pos.eqb negb andb orb scanContinue scanBeginLiteral scanBeginObject scanObjectKey
  scanObjectValue scanEndObject scanBeginArray scanArrayValue scanEndArray scanSkipSpace scanEnd scanError isEnd].

Ltac codesin H := cbn [Z.eqb Pos.eqb negb andb orb scanContinue scanBeginLiteral scanBeginObject scanObjectKey
  scanObjectValue scanEndObject scanBeginArray scanArrayValue scanEndArray scanSkipSpace scanEnd scanError isEnd] in H.

Ltac outeq := unfold nlw; cbn [rev]; rewrite ?rev_newline; cbn [rev]; rewrite ?rev_newline;
  rewrite <- ?app_assoc; cbn [app]; repeat f_equal; lia.

Ltac prefix H := first [exact H | apply pre_app; prefix H].

Lemma indent_sim ind src out0 : forall rest scan needg depthg outg needm depthm outm,
  IInv out0 scan needg depthg outg needm depthm outm ->
  ifin src ind out0 (indent_iter src [] ind (len out0) rest scan needg depthg outg) =
  cfin out0 (indent_loop ind scan rest needm depthm outm).
Proof.
  induction rest as [|c r IH]; intros scan needg depthg outg needm depthm outm (HW & I).
  - cbn [indent_iter indent_loop ifin cfin]. unfold indent_post.
    destruct (scanner_eof scan) as [s2 v2] eqn:EO. cbn [snd].
    destruct (v2 =? scanError) eqn:V.
    + destruct HW as [w ->]. destruct (trunc_app out0 w) as [T1 T2]. rewrite T1, T2. cbn [negb].
      pose proof (eof_error_err scan) as EE. rewrite EO in EE. cbn [fst snd] in EE.
      rewrite EE; [reflexivity|]. apply Z.eqb_eq. exact V.
    + destruct I as [D | (G & _ & _ & _ & _ & ->)]; [|reflexivity].
      destruct D as [De _]. rewrite (eof_err scan De) in EO. injection EO as <- <-. discriminate V.
  - cbn [indent_iter]. rewrite indent_body_spec, indent_loop_cons.
    destruct I as [D | (G & -> & Hd & -> & HN & ->)].
    + rewrite (doomed_step scan c D). codes. cbv beta iota zeta. cbn [ifin cfin].
      apply ipost_doomed; assumption.
    + pose proof (P_step scan c G) as HP. destruct (step_fn (step scan) scan c) as [s' v].
      destruct HP as [[D' Vd] | (G' & Vr & Sp & LR1 & LR2)].
      * (* the scanner goes into its error state *)
        destruct Vd as [-> | ->]; codes; cbv beta iota zeta.
        { cbn [ifin cfin]. apply ipost_doomed; [exact HW | exact D']. }
        destruct needg; cbv beta iota zeta;
          destruct (opener c); [| destruct (bz c =? 44); [| destruct (bz c =? 58); [| destruct (closer c)]] | |
                                  destruct (bz c =? 44); [| destruct (bz c =? 58); [| destruct (closer c)]]];
          cbv beta iota zeta; apply IH; (split; [prefix HW | left; exact D']).
      * assert (Vs : v = 0 \/ v = 1 \/ v = 2 \/ v = 3 \/ v = 4 \/ v = 5 \/ v = 6 \/ v = 7 \/ v = 8 \/ v = 9 \/ v = 10) by lia.
        unfold lenrel in LR1.
        destruct (cclass_all c) as [C1 C2 C3 C4 C5 | C1 C2 C3 C4 C5 | C1 C2 C3 C4 C5 | C1 C2 C3 C4 C5 | C1 C2 C3 C4];
          rewrite ?C1, ?C2, ?C3, ?C4; rewrite ?C1, ?C2 in LR1; rewrite ?C2 in LR2;
          (destruct Vs as [-> | [-> | [-> | [-> | [-> | [-> | [-> | [-> | [-> | [-> | ->]]]]]]]]]]; codes; codesin LR1; codesin LR2;
           try (discriminate (LR2 eq_refl));
           try (rewrite Sp in C5 by lia; discriminate C5);
           destruct needg; cbv beta iota zeta; apply IH;
           (split; [prefix HW |];
            right; split; [exact G'|]; split; [reflexivity|]; split; [lia|]; split; [lia|]; split; [lia|]; outeq)).
Qed.

(* ------------------------------------------------------------------ Indent: the tie *)

Theorem indent_run_is_model : forall pooled ind src out0,
  indent_run pooled src [] ind out0 =
  match indent_go ind src with Some o => ROk (out0 ++ o) | None => RErr out0 end.
Proof.
  intros pooled ind src out0. unfold indent_run. cbv zeta. rewrite (proj2 (scanner0_good pooled)).
  change (ifin src ind out0 (indent_iter src [] ind (len out0) src scanner0 false 0 out0) =
          match indent_go ind src with Some o => ROk (out0 ++ o) | None => RErr out0 end).
  rewrite (indent_sim ind src out0 src scanner0 false 0 out0 false 0%nat []).
  - unfold indent_go, cfin. destruct (indent_loop ind scanner0 src false 0 []) as [[s o]|]; [|reflexivity].
    destruct (snd (scanner_eof s) =? scanError); reflexivity.
  - split; [apply pre_refl|]. right. split; [apply (scanner0_good scanner0)|].
    split; [reflexivity|]. split; [lia|]. split; [reflexivity|]. split; [reflexivity|].
    symmetry. apply app_nil_r.
Qed.

Theorem indent_gen_is_model : forall indent bs, indent_gen [] indent bs = Scan.indent_go indent bs.
Proof.
  intros ind bs. unfold indent_gen. rewrite indent_run_is_model. destruct (indent_go ind bs); reflexivity.
Qed.

Corollary indent_run_no_failure : forall pooled ind src out0 f, indent_run pooled src [] ind out0 <> RFail f.
Proof. intros pooled ind src out0 f. rewrite indent_run_is_model. destruct (indent_go ind src); discriminate. Qed.

(* newline never fails, whatever its arguments (a negative depth included) *)
Corollary newline_run_no_failure : forall prefix ind depth out f, newline_run prefix ind depth out <> VFail f.
Proof. intros. rewrite newline_run_spec. discriminate. Qed.

Print Assumptions compact_run_is_model.
Print Assumptions compact_gen_is_model.
Print Assumptions indent_run_is_model.
Print Assumptions indent_gen_is_model.
Print Assumptions newline_run_spec.

(* ------------------------------------------------------------------ examples
   The right-hand sides were printed by the Go code itself (compact and Indent of a copy of
   v5/internal/json, run once): a nested document, strings with < > & and U+2028 / U+2029 (and U+202A,
   which stays) with escape off and on, ill-formed inputs (a closing bracket after a complete value, which
   makes the depth of Indent negative; a truncated document; U+2028 after the top-level value; all None),
   trailing white space (dropped by compact, kept by Indent), a string that ends in E2 80 (the index guard
   of src[i+2]), and Indent with a prefix (outside the theorem: json-patch always passes an empty one). *)
Example ex_compact_nested_false :
  compact_gen false [x20; x7b; x22; x61; x22; x3a; x20; x5b; x31; x2c; x20; x32; x2e; x35; x65; x33; x2c; x20; x7b; x7d; x2c; x20; x5b; x5d; x2c; x20; x7b; x22; x62; x22; x3a; x20; x6e; x75; x6c; x6c; x7d; x5d; x2c; x20; x22; x63; x22; x3a; x20; x22; x78; x20; x79; x22; x20; x2c; x22; x64; x22; x3a; x5b; x74; x72; x75; x65; x2c; x66; x61; x6c; x73; x65; x5d; x7d; x20] =
  Some [x7b; x22; x61; x22; x3a; x5b; x31; x2c; x32; x2e; x35; x65; x33; x2c; x7b; x7d; x2c; x5b; x5d; x2c; x7b; x22; x62; x22; x3a; x6e; x75; x6c; x6c; x7d; x5d; x2c; x22; x63; x22; x3a; x22; x78; x20; x79; x22; x2c; x22; x64; x22; x3a; x5b; x74; x72; x75; x65; x2c; x66; x61; x6c; x73; x65; x5d; x7d].
Proof. vm_compute. reflexivity. Qed.

Example ex_compact_nested_true :
  compact_gen true [x20; x7b; x22; x61; x22; x3a; x20; x5b; x31; x2c; x20; x32; x2e; x35; x65; x33; x2c; x20; x7b; x7d; x2c; x20; x5b; x5d; x2c; x20; x7b; x22; x62; x22; x3a; x20; x6e; x75; x6c; x6c; x7d; x5d; x2c; x20; x22; x63; x22; x3a; x20; x22; x78; x20; x79; x22; x20; x2c; x22; x64; x22; x3a; x5b; x74; x72; x75; x65; x2c; x66; x61; x6c; x73; x65; x5d; x7d; x20] =
  Some [x7b; x22; x61; x22; x3a; x5b; x31; x2c; x32; x2e; x35; x65; x33; x2c; x7b; x7d; x2c; x5b; x5d; x2c; x7b; x22; x62; x22; x3a; x6e; x75; x6c; x6c; x7d; x5d; x2c; x22; x63; x22; x3a; x22; x78; x20; x79; x22; x2c; x22; x64; x22; x3a; x5b; x74; x72; x75; x65; x2c; x66; x61; x6c; x73; x65; x5d; x7d].
Proof. vm_compute. reflexivity. Qed.

Example ex_indent_nested :
  indent_gen [] [x20; x20] [x20; x7b; x22; x61; x22; x3a; x20; x5b; x31; x2c; x20; x32; x2e; x35; x65; x33; x2c; x20; x7b; x7d; x2c; x20; x5b; x5d; x2c; x20; x7b; x22; x62; x22; x3a; x20; x6e; x75; x6c; x6c; x7d; x5d; x2c; x20; x22; x63; x22; x3a; x20; x22; x78; x20; x79; x22; x20; x2c; x22; x64; x22; x3a; x5b; x74; x72; x75; x65; x2c; x66; x61; x6c; x73; x65; x5d; x7d; x20] =
  Some [x7b; x0a; x20; x20; x22; x61; x22; x3a; x20; x5b; x0a; x20; x20; x20; x20; x31; x2c; x0a; x20; x20; x20; x20; x32; x2e; x35; x65; x33; x2c; x0a; x20; x20; x20; x20; x7b; x7d; x2c; x0a; x20; x20; x20; x20; x5b; x5d; x2c; x0a; x20; x20; x20; x20; x7b; x0a; x20; x20; x20; x20; x20; x20; x22; x62; x22; x3a; x20; x6e; x75; x6c; x6c; x0a; x20; x20; x20; x20; x7d; x0a; x20; x20; x5d; x2c; x0a; x20; x20; x22; x63; x22; x3a; x20; x22; x78; x20; x79; x22; x2c; x0a; x20; x20; x22; x64; x22; x3a; x20; x5b; x0a; x20; x20; x20; x20; x74; x72; x75; x65; x2c; x0a; x20; x20; x20; x20; x66; x61; x6c; x73; x65; x0a; x20; x20; x5d; x0a; x7d; x20].
Proof. vm_compute. reflexivity. Qed.

Example ex_compact_html_false :
  compact_gen false [x5b; x22; x3c; x61; x20; x68; x72; x65; x66; x3d; x5c; x22; x78; x5c; x22; x3e; x26; x61; x6d; x70; x3b; x3c; x2f; x61; x3e; x22; x2c; x20; x22; xe2; x80; xa8; x22; x20; x2c; x20; x22; x70; xe2; x80; xa9; x71; x22; x2c; x20; x22; xe2; x80; xaa; x22; x5d] =
  Some [x5b; x22; x3c; x61; x20; x68; x72; x65; x66; x3d; x5c; x22; x78; x5c; x22; x3e; x26; x61; x6d; x70; x3b; x3c; x2f; x61; x3e; x22; x2c; x22; xe2; x80; xa8; x22; x2c; x22; x70; xe2; x80; xa9; x71; x22; x2c; x22; xe2; x80; xaa; x22; x5d].
Proof. vm_compute. reflexivity. Qed.

Example ex_compact_html_true :
  compact_gen true [x5b; x22; x3c; x61; x20; x68; x72; x65; x66; x3d; x5c; x22; x78; x5c; x22; x3e; x26; x61; x6d; x70; x3b; x3c; x2f; x61; x3e; x22; x2c; x20; x22; xe2; x80; xa8; x22; x20; x2c; x20; x22; x70; xe2; x80; xa9; x71; x22; x2c; x20; x22; xe2; x80; xaa; x22; x5d] =
  Some [x5b; x22; x5c; x75; x30; x30; x33; x63; x61; x20; x68; x72; x65; x66; x3d; x5c; x22; x78; x5c; x22; x5c; x75; x30; x30; x33; x65; x5c; x75; x30; x30; x32; x36; x61; x6d; x70; x3b; x5c; x75; x30; x30; x33; x63; x2f; x61; x5c; x75; x30; x30; x33; x65; x22; x2c; x22; x5c; x75; x32; x30; x32; x38; x22; x2c; x22; x70; x5c; x75; x32; x30; x32; x39; x71; x22; x2c; x22; xe2; x80; xaa; x22; x5d].
Proof. vm_compute. reflexivity. Qed.

Example ex_indent_html :
  indent_gen [] [x20; x20] [x5b; x22; x3c; x61; x20; x68; x72; x65; x66; x3d; x5c; x22; x78; x5c; x22; x3e; x26; x61; x6d; x70; x3b; x3c; x2f; x61; x3e; x22; x2c; x20; x22; xe2; x80; xa8; x22; x20; x2c; x20; x22; x70; xe2; x80; xa9; x71; x22; x2c; x20; x22; xe2; x80; xaa; x22; x5d] =
  Some [x5b; x0a; x20; x20; x22; x3c; x61; x20; x68; x72; x65; x66; x3d; x5c; x22; x78; x5c; x22; x3e; x26; x61; x6d; x70; x3b; x3c; x2f; x61; x3e; x22; x2c; x0a; x20; x20; x22; xe2; x80; xa8; x22; x2c; x0a; x20; x20; x22; x70; xe2; x80; xa9; x71; x22; x2c; x0a; x20; x20; x22; xe2; x80; xaa; x22; x0a; x5d].
Proof. vm_compute. reflexivity. Qed.

Example ex_compact_bad_close_false :
  compact_gen false [x31; x7d] =
  None.
Proof. vm_compute. reflexivity. Qed.

Example ex_compact_bad_close_true :
  compact_gen true [x31; x7d] =
  None.
Proof. vm_compute. reflexivity. Qed.

Example ex_indent_bad_close :
  indent_gen [] [x20; x20] [x31; x7d] =
  None.
Proof. vm_compute. reflexivity. Qed.

Example ex_compact_bad_trunc_false :
  compact_gen false [x7b; x22; x61; x22; x3a; x20; x5b; x31; x2c; x20; x32] =
  None.
Proof. vm_compute. reflexivity. Qed.

Example ex_compact_bad_trunc_true :
  compact_gen true [x7b; x22; x61; x22; x3a; x20; x5b; x31; x2c; x20; x32] =
  None.
Proof. vm_compute. reflexivity. Qed.

Example ex_indent_bad_trunc :
  indent_gen [] [x20; x20] [x7b; x22; x61; x22; x3a; x20; x5b; x31; x2c; x20; x32] =
  None.
Proof. vm_compute. reflexivity. Qed.

Example ex_compact_bad_ls_after_top_false :
  compact_gen false [x31; x20; xe2; x80; xa8] =
  None.
Proof. vm_compute. reflexivity. Qed.

Example ex_compact_bad_ls_after_top_true :
  compact_gen true [x31; x20; xe2; x80; xa8] =
  None.
Proof. vm_compute. reflexivity. Qed.

Example ex_indent_bad_ls_after_top :
  indent_gen [] [x20; x20] [x31; x20; xe2; x80; xa8] =
  None.
Proof. vm_compute. reflexivity. Qed.

Example ex_compact_trailing_false :
  compact_gen false [x5b; x31; x2c; x7b; x22; x61; x22; x3a; x5b; x5d; x7d; x5d; x20; x20; x0a] =
  Some [x5b; x31; x2c; x7b; x22; x61; x22; x3a; x5b; x5d; x7d; x5d].
Proof. vm_compute. reflexivity. Qed.

Example ex_compact_trailing_true :
  compact_gen true [x5b; x31; x2c; x7b; x22; x61; x22; x3a; x5b; x5d; x7d; x5d; x20; x20; x0a] =
  Some [x5b; x31; x2c; x7b; x22; x61; x22; x3a; x5b; x5d; x7d; x5d].
Proof. vm_compute. reflexivity. Qed.

Example ex_indent_trailing :
  indent_gen [] [x20; x20] [x5b; x31; x2c; x7b; x22; x61; x22; x3a; x5b; x5d; x7d; x5d; x20; x20; x0a] =
  Some [x5b; x0a; x20; x20; x31; x2c; x0a; x20; x20; x7b; x0a; x20; x20; x20; x20; x22; x61; x22; x3a; x20; x5b; x5d; x0a; x20; x20; x7d; x0a; x5d; x20; x20; x0a].
Proof. vm_compute. reflexivity. Qed.

Example ex_compact_short_e2_false :
  compact_gen false [x22; xe2; x80; x22] =
  Some [x22; xe2; x80; x22].
Proof. vm_compute. reflexivity. Qed.

Example ex_compact_short_e2_true :
  compact_gen true [x22; xe2; x80; x22] =
  Some [x22; xe2; x80; x22].
Proof. vm_compute. reflexivity. Qed.

Example ex_indent_short_e2 :
  indent_gen [] [x20; x20] [x22; xe2; x80; x22] =
  Some [x22; xe2; x80; x22].
Proof. vm_compute. reflexivity. Qed.

Example ex_indent_prefix :
  indent_gen [x3e; x20] [x09] [x7b; x22; x61; x22; x3a; x5b; x31; x2c; x32; x5d; x7d] =
  Some [x7b; x0a; x3e; x20; x09; x22; x61; x22; x3a; x20; x5b; x0a; x3e; x20; x09; x09; x31; x2c; x0a; x3e; x20; x09; x09; x32; x0a; x3e; x20; x09; x5d; x0a; x3e; x20; x7d].
Proof. vm_compute. reflexivity. Qed.

