(* Pointer.v — RFC 6901 JSON Pointer pieces and Go's strconv.Atoi.  No proofs here. *)
From JP Require Import Bytes.

(* strings.Split(s, "/"): always at least one piece *)
Fixpoint split_slash (s : bytes) : list bytes :=
  match s with
  | [] => [[]]
  | c :: r =>
      if Byte.eqb c x2f then [] :: split_slash r
      else match split_slash r with
           | p :: ps => (c :: p) :: ps
           | [] => [[c]]
           end
  end.

(* strings.NewReplacer("~1", "/", "~0", "~").Replace: one left-to-right pass *)
Fixpoint decode_token (s : bytes) : bytes :=
  match s with
  | x7e :: x31 :: r => x2f :: decode_token r
  | x7e :: x30 :: r => x7e :: decode_token r
  | c :: r => c :: decode_token r
  | [] => []
  end.

(* RFC 6901: "" is the whole document; otherwise the pointer must start with '/' and is a
   sequence of reference tokens *)
Definition ptr_tokens (p : bytes) : option (list bytes) :=
  match p with
  | [] => Some []
  | x2f :: r => Some (map decode_token (split_slash r))
  | _ => None
  end.

(* ---- strconv.Atoi (64-bit int): [+-]? digit+ within int64 ---- *)
Fixpoint digits_val (acc : Z) (s : bytes) : option Z :=
  match s with
  | [] => Some acc
  | c :: r => if is_digit c then digits_val (acc * 10 + Z.of_N (bn c - 48)) r else None
  end.

Definition int64_min : Z := (- 9223372036854775808)%Z.
Definition int64_max : Z := 9223372036854775807%Z.

Definition atoi (s : bytes) : option Z :=
  let (neg, ds) :=
    match s with
    | x2d :: r => (true, r)
    | x2b :: r => (false, r)
    | _ => (false, s)
    end in
  match ds with
  | [] => None
  | _ =>
      match digits_val 0 ds with
      | None => None
      | Some v =>
          let v := if neg then (- v)%Z else v in
          if (int64_min <=? v)%Z && (v <=? int64_max)%Z then Some v else None
      end
  end.

(* strconv.Itoa for non-negative numbers *)
Fixpoint itoa_go (fuel : nat) (n : N) (acc : bytes) : bytes :=
  match fuel with
  | O => acc
  | S f =>
      let acc' := nb (48 + n mod 10) :: acc in
      if n <? 10 then acc' else itoa_go f (n / 10) acc'
  end.
Definition itoa (n : N) : bytes := itoa_go 30 n [].

(* canonical array index syntax (RFC 6901 section 4): "0" or [1-9][0-9]*; as a Z (never a nat:
   the token may spell a number far beyond any list length) *)
Definition canonical_nat (s : bytes) : option Z :=
  match s with
  | [] => None
  | [x30] => Some 0%Z
  | c :: r =>
      if is_digit19 c && forallb is_digit r then digits_val 0 s else None
  end.

(* "-k" with k a canonical positive number; returns k *)
Definition canonical_neg (s : bytes) : option Z :=
  match s with
  | x2d :: r =>
      match canonical_nat r with
      | Some k => if (0 <? k)%Z then Some k else None
      | None => None
      end
  | _ => None
  end.
