(* JsonFacts.v — facts about byte strings, association lists and the two equalities on decoded
   values (oeqb: ordered, jeq: objects as finite maps).  Proof infrastructure, no model code. *)
From Coq Require Import Lia.
From JP Require Import Bytes Json DecodeFacts.

(* ---- keys ---- *)
Lemma bseq_neq a b : bseq a b = false <-> a <> b.
Proof.
  split.
  - intros H E. subst. rewrite bseq_refl in H. discriminate.
  - intro H. destruct (bseq a b) eqn:E; auto. apply bseq_eq in E. contradiction.
Qed.

Lemma kmem_In k ks : kmem k ks = true <-> In k ks.
Proof.
  induction ks as [|k' ks IH]; simpl.
  - split; [discriminate | tauto].
  - rewrite orb_true_iff, IH, bseq_iff. split; intros [H|H]; auto.
Qed.

Lemma kmem_false_In k ks : kmem k ks = false <-> ~ In k ks.
Proof.
  split; intro H.
  - intro Hin. apply kmem_In in Hin. congruence.
  - destruct (kmem k ks) eqn:E; auto. exfalso. apply H. now apply kmem_In.
Qed.

Lemma knodup_NoDup ks : knodup ks = true <-> NoDup ks.
Proof.
  induction ks as [|k ks IH]; simpl.
  - split; [constructor | reflexivity].
  - rewrite andb_true_iff, negb_true_iff, kmem_false_In, IH. split.
    + intros [H1 H2]. now constructor.
    + intro H. inversion H; subst. tauto.
Qed.

Lemma NoDup_app_intro {A} (l m : list A) :
  NoDup l -> NoDup m -> (forall x, In x l -> In x m -> False) -> NoDup (l ++ m).
Proof.
  induction l as [|x l IH]; simpl; intros Hl Hm D; auto. inversion Hl; subst. constructor.
  - rewrite in_app_iff. intros [H|H]; auto. apply (D x); auto.
  - apply IH; auto. intros y Hy1 Hy2. apply (D y); auto.
Qed.

(* ---- association lists ---- *)
Section AssocFacts.
  Context {A : Type}.
  Implicit Types (m : list (bytes * A)) (k : bytes).

  Lemma aget_In_fst k m v : aget k m = Some v -> In k (map fst m).
  Proof.
    induction m as [|[k' v'] m IH]; simpl; try discriminate.
    destruct (bseq k k') eqn:E; auto. apply bseq_eq in E. auto.
  Qed.

  Lemma aget_None_notin k m : aget k m = None <-> ~ In k (map fst m).
  Proof.
    induction m as [|[k' v'] m IH]; simpl.
    - tauto.
    - destruct (bseq k k') eqn:E.
      + apply bseq_eq in E. subst. split; [discriminate | intro H; exfalso; auto].
      + apply bseq_neq in E. rewrite IH. split; intro H; [intros [H1|H1]; auto | auto].
  Qed.

  Lemma aget_Some_in k m : In k (map fst m) -> exists v, aget k m = Some v.
  Proof.
    intro H. destruct (aget k m) eqn:E; eauto. apply aget_None_notin in E. contradiction.
  Qed.

  Lemma amem_In k m : amem k m = true <-> In k (map fst m).
  Proof.
    unfold amem. destruct (aget k m) eqn:E.
    - split; auto. intros _. eapply aget_In_fst; eauto.
    - apply aget_None_notin in E. split; [discriminate | contradiction].
  Qed.

  Lemma aget_adel_same k m : aget k (adel k m) = None.
  Proof.
    induction m as [|[k' v'] m IH]; simpl; auto.
    destruct (bseq k k') eqn:E; simpl; auto. now rewrite E.
  Qed.

  Lemma aget_adel_other k k' m : bseq k k' = false -> aget k (adel k' m) = aget k m.
  Proof.
    intro H. induction m as [|[k2 v2] m IH]; simpl; auto.
    destruct (bseq k' k2) eqn:E; simpl.
    - apply bseq_eq in E; subst. now rewrite H.
    - destruct (bseq k k2); auto.
  Qed.

  Lemma keys_aset k v m :
    map fst (aset k v m) = if amem k m then map fst m else map fst m ++ [k].
  Proof.
    induction m as [|[k' v'] m IH]; simpl; auto.
    unfold amem in *. simpl. destruct (bseq k k') eqn:E; simpl; auto.
    rewrite IH. destruct (aget k m); auto.
  Qed.

  Lemma keys_adel_notin k m : ~ In k (map fst (adel k m)).
  Proof.
    induction m as [|[k' v'] m IH]; simpl; auto.
    destruct (bseq k k') eqn:E; simpl; auto. apply bseq_neq in E. intros [H|H]; auto.
  Qed.

  Lemma keys_adel_incl k m x : In x (map fst (adel k m)) -> In x (map fst m).
  Proof.
    induction m as [|[k' v'] m IH]; simpl; auto.
    destruct (bseq k k'); simpl; auto. intros [H|H]; auto.
  Qed.

  Lemma NoDup_keys_adel k m : NoDup (map fst m) -> NoDup (map fst (adel k m)).
  Proof.
    induction m as [|[k' v'] m IH]; simpl; auto. intro H. inversion H; subst.
    destruct (bseq k k'); simpl; auto. constructor; auto. intro Hin. apply keys_adel_incl in Hin. auto.
  Qed.

  Lemma NoDup_keys_aset k v m : NoDup (map fst m) -> NoDup (map fst (aset k v m)).
  Proof.
    intro H. rewrite keys_aset. destruct (amem k m) eqn:E; auto.
    assert (~ In k (map fst m)). { intro Hin. apply amem_In in Hin. congruence. }
    clear E. induction (map fst m) as [|x l IH]; simpl.
    - constructor; [intros []|constructor].
    - inversion H; subst. constructor.
      + rewrite in_app_iff. simpl. intros [Hx|[Hx|[]]]; [auto|]. subst. apply H0. now left.
      + apply IH; auto. intro. apply H0. now right.
  Qed.

  Lemma adel_notin k m : ~ In k (map fst m) -> adel k m = m.
  Proof.
    induction m as [|[k' v'] m IH]; simpl; auto. intro H.
    destruct (bseq k k') eqn:E.
    - apply bseq_eq in E. subst. exfalso. auto.
    - f_equal. apply IH. auto.
  Qed.

  Lemma length_keys_adel_in k m :
    NoDup (map fst m) -> In k (map fst m) -> S (length (adel k m)) = length m.
  Proof.
    induction m as [|[k' v'] m IH]; simpl; [tauto|]. intros H Hin. inversion H; subst.
    destruct (bseq k k') eqn:E.
    - apply bseq_eq in E. subst. rewrite adel_notin; auto.
    - apply bseq_neq in E. simpl. f_equal. apply IH; auto. destruct Hin; congruence.
  Qed.
End AssocFacts.

Lemma aset_same {A} k (v : A) m : aget k m = Some v -> aset k v m = m.
Proof.
  induction m as [|[k' v'] m IH]; simpl; try discriminate.
  destruct (bseq k k') eqn:E.
  - intro H. inversion H; subst. apply bseq_eq in E. subst. reflexivity.
  - intro H. f_equal. auto.
Qed.

Lemma Forall_aset {A} (P : bytes * A -> Prop) k v m :
  Forall P m -> (forall k', P (k', v)) -> Forall P (aset k v m).
Proof.
  intros H Hv. induction m as [|[k' v'] m IH]; simpl.
  - constructor; auto.
  - inversion H; subst. destruct (bseq k k'); constructor; auto.
Qed.

Lemma Forall_adel {A} (P : bytes * A -> Prop) k m : Forall P m -> Forall P (adel k m).
Proof.
  intro H. induction m as [|[k' v'] m IH]; simpl; auto.
  inversion H; subst. destruct (bseq k k'); auto.
Qed.


(* ---- induction on decoded values ---- *)
Section OjsonInd.
  Variable P : ojson -> Prop.
  Hypothesis Hnull : P ONull.
  Hypothesis Hbool : forall b, P (OBool b).
  Hypothesis Hnum : forall l, P (ONum l).
  Hypothesis Hstr : forall s, P (OStr s).
  Hypothesis Harr : forall l, Forall P l -> P (OArr l).
  Hypothesis Hobj : forall ms, Forall (fun kv => P (snd kv)) ms -> P (OObj ms).

  Fixpoint ojson_rect' (j : ojson) : P j :=
    match j with
    | ONull => Hnull
    | OBool b => Hbool b
    | ONum l => Hnum l
    | OStr s => Hstr s
    | OArr l =>
        Harr l ((fix go (l : list ojson) : Forall P l :=
                   match l with
                   | [] => Forall_nil _
                   | x :: r => Forall_cons _ (ojson_rect' x) (go r)
                   end) l)
    | OObj ms =>
        Hobj ms ((fix go (ms : list (bytes * ojson)) : Forall (fun kv => P (snd kv)) ms :=
                    match ms with
                    | [] => Forall_nil _
                    | kv :: r => Forall_cons _ (ojson_rect' (snd kv)) (go r)
                    end) ms)
    end.
End OjsonInd.

(* ---- unfolding jeq / oeqb ---- *)
Fixpoint jeq_list (l m : list ojson) : bool :=
  match l, m with
  | [], [] => true
  | x :: l', y :: m' => jeq x y && jeq_list l' m'
  | _, _ => false
  end.

Fixpoint jeq_members (l m : list (bytes * ojson)) : bool :=
  match l with
  | [] => true
  | (k, x) :: l' => match aget k m with Some y => jeq x y && jeq_members l' m | None => false end
  end.

Lemma jeq_arr l m : jeq (OArr l) (OArr m) = jeq_list l m.
Proof. simpl. revert m. induction l as [|x l IH]; intros [|y m]; simpl; auto; try (now rewrite IH). Qed.

Lemma jeq_obj l m : jeq (OObj l) (OObj m) = (length l =? length m)%nat && jeq_members l m.
Proof.
  simpl. f_equal. induction l as [|[k x] l IH]; simpl; auto.
  destruct (aget k m); auto. now rewrite IH.
Qed.

Lemma jeq_members_spec l m :
  jeq_members l m = true <->
  (forall k x, In (k, x) l -> exists y, aget k m = Some y /\ jeq x y = true).
Proof.
  induction l as [|[k x] l IH]; simpl.
  - split; auto. intros _ k x [].
  - split.
    + intros H k' x' [E|Hin].
      * inversion E; subst. destruct (aget k' m); try discriminate. apply andb_prop in H as [H1 _]. eauto.
      * destruct (aget k m); try discriminate. apply andb_prop in H as [_ H2]. apply IH; auto.
    + intro H. destruct (H k x (or_introl eq_refl)) as [y [E1 E2]]. rewrite E1, E2. simpl.
      apply IH. intros; apply H; auto.
Qed.

Lemma In_aget_nodup {A} k (x : A) m : NoDup (map fst m) -> In (k, x) m -> aget k m = Some x.
Proof.
  induction m as [|[k' v'] m IH]; simpl; [tauto|]. intros H Hin. inversion H; subst.
  destruct Hin as [E|Hin].
  - inversion E; subst. now rewrite bseq_refl.
  - destruct (bseq k k') eqn:Ek.
    + apply bseq_eq in Ek; subst. exfalso. apply H2. apply in_map_iff. exists (k', x); auto.
    + auto.
Qed.

Lemma aget_In {A} k (x : A) m : aget k m = Some x -> In (k, x) m.
Proof.
  induction m as [|[k' v'] m IH]; simpl; try discriminate.
  destruct (bseq k k') eqn:E; auto. intro H. inversion H; subst. apply bseq_eq in E. subst. auto.
Qed.

(* no duplicate names, as Props *)
Lemma onodup_arr l : onodup (OArr l) = true <-> Forall (fun x => onodup x = true) l.
Proof. simpl. rewrite forallb_forall, Forall_forall. tauto. Qed.

Lemma onodup_obj ms :
  onodup (OObj ms) = true <-> NoDup (map fst ms) /\ Forall (fun kv => onodup (snd kv) = true) ms.
Proof. simpl. rewrite andb_true_iff, knodup_NoDup, forallb_forall, Forall_forall. tauto. Qed.

(* ---- the lookup characterisation of jeq on objects without duplicate names ---- *)
Definition lookup_rel (R : ojson -> ojson -> Prop) (a b : option ojson) : Prop :=
  match a, b with
  | Some x, Some y => R x y
  | None, None => True
  | _, _ => False
  end.

Lemma jeq_obj_char l m :
  NoDup (map fst l) -> NoDup (map fst m) ->
  (jeq (OObj l) (OObj m) = true <->
   forall k, lookup_rel (fun x y => jeq x y = true) (aget k l) (aget k m)).
Proof.
  intros Nl Nm. rewrite jeq_obj, andb_true_iff, Nat.eqb_eq, jeq_members_spec. split.
  - intros [Hlen H] k.
    assert (Incl : incl (map fst l) (map fst m)).
    { intros k' Hk. apply in_map_iff in Hk as [[k2 x] [E Hin]]. simpl in E; subst.
      destruct (H _ _ Hin) as [y [E _]]. eapply aget_In_fst; eauto. }
    assert (Incl' : incl (map fst m) (map fst l)).
    { apply NoDup_length_incl; auto. rewrite !map_length. lia. }
    unfold lookup_rel. destruct (aget k l) as [x|] eqn:El.
    + apply aget_In in El. destruct (H _ _ El) as [y [E1 E2]]. now rewrite E1.
    + destruct (aget k m) as [y|] eqn:Em; auto.
      apply aget_In_fst in Em. apply Incl' in Em. apply aget_None_notin in El. contradiction.
  - intro H.
    assert (Incl : incl (map fst l) (map fst m)).
    { intros k Hk. apply aget_Some_in in Hk as [x Hx]. specialize (H k). rewrite Hx in H.
      unfold lookup_rel in H. destruct (aget k m) eqn:E; try contradiction. eapply aget_In_fst; eauto. }
    assert (Incl' : incl (map fst m) (map fst l)).
    { intros k Hk. apply aget_Some_in in Hk as [x Hx]. specialize (H k). rewrite Hx in H.
      unfold lookup_rel in H. destruct (aget k l) eqn:E; try contradiction. eapply aget_In_fst; eauto. }
    split.
    + apply Nat.le_antisymm; rewrite <- (map_length fst l), <- (map_length fst m);
        apply NoDup_incl_length; auto.
    + intros k x Hin. apply In_aget_nodup in Hin; auto. specialize (H k). rewrite Hin in H.
      unfold lookup_rel in H. destruct (aget k m) as [y|]; try contradiction. eauto.
Qed.

(* ---- jeq is an equivalence on values without duplicate names ---- *)
Lemma jeq_list_spec l m : jeq_list l m = true <-> Forall2 (fun x y => jeq x y = true) l m.
Proof.
  revert m. induction l as [|x l IH]; intros [|y m]; simpl; split; intro H; try discriminate; try constructor;
    try (inversion H; fail).
  - apply andb_prop in H. tauto.
  - apply IH. apply andb_prop in H. tauto.
  - inversion H; subst. apply andb_true_intro. split; auto. apply IH; auto.
Qed.

Lemma jeq_refl j : onodup j = true -> jeq j j = true.
Proof.
  induction j using ojson_rect'; intro N; try reflexivity.
  - simpl. destruct b; reflexivity.
  - simpl. apply bseq_refl.
  - simpl. apply bseq_refl.
  - rewrite jeq_arr. apply jeq_list_spec. apply onodup_arr in N.
    induction l as [|x l IH]; constructor.
    + inversion H; inversion N; subst; auto.
    + inversion H; inversion N; subst; auto.
  - apply onodup_obj in N as [N1 N2]. apply jeq_obj_char; auto. intro k.
    unfold lookup_rel. destruct (aget k ms) as [x|] eqn:E; auto.
    apply aget_In in E. rewrite Forall_forall in H, N2. apply (H _ E). apply (N2 _ E).
Qed.

Lemma jeq_sym a : forall b, onodup a = true -> onodup b = true -> jeq a b = true -> jeq b a = true.
Proof.
  induction a using ojson_rect'; intros b' Na Nb E; destruct b'; try discriminate; auto.
  - simpl in *. destruct b, b0; auto.
  - simpl in *. now rewrite bseq_sym.
  - simpl in *. now rewrite bseq_sym.
  - rewrite jeq_arr in *. apply jeq_list_spec in E. apply jeq_list_spec.
    apply onodup_arr in Na. apply onodup_arr in Nb.
    revert l0 E Nb. induction l as [|x l IH]; intros l0 E Nb; inversion E; subst; constructor.
    + inversion H; inversion Na; inversion Nb; subst. auto.
    + inversion H; inversion Na; inversion Nb; subst. apply IH; auto.
  - apply onodup_obj in Na as [Na1 Na2]. apply onodup_obj in Nb as [Nb1 Nb2].
    apply jeq_obj_char; auto. rewrite jeq_obj_char in E; auto. intro k. specialize (E k).
    unfold lookup_rel in *. destruct (aget k ms) as [x|] eqn:E1, (aget k ms0) as [y|] eqn:E2; auto.
    apply aget_In in E1. apply aget_In in E2. rewrite Forall_forall in H, Na2, Nb2.
    apply (H _ E1 y); [apply (Na2 _ E1) | apply (Nb2 _ E2) | exact E].
Qed.

Lemma jeq_trans a : forall b c, onodup a = true -> onodup b = true -> onodup c = true ->
  jeq a b = true -> jeq b c = true -> jeq a c = true.
Proof.
  induction a using ojson_rect'; intros b' c Na Nb Nc E1 E2; destruct b'; try discriminate; destruct c; try discriminate; auto.
  - simpl in *. destruct b, b0, b1; auto.
  - simpl in *. apply bseq_eq in E1, E2. subst. apply bseq_refl.
  - simpl in *. apply bseq_eq in E1, E2. subst. apply bseq_refl.
  - rewrite jeq_arr in *. apply jeq_list_spec in E1, E2. apply jeq_list_spec.
    apply onodup_arr in Na, Nb, Nc.
    revert l0 l1 E1 E2 Nb Nc. induction l as [|x l IH]; intros l0 l1 E1 E2 Nb Nc; inversion E1; subst; inversion E2; subst; constructor.
    + inversion H; inversion Na; inversion Nb; inversion Nc; subst. eauto.
    + inversion H; inversion Na; inversion Nb; inversion Nc; subst. eapply IH; eauto.
  - apply onodup_obj in Na as [Na1 Na2]. apply onodup_obj in Nb as [Nb1 Nb2]. apply onodup_obj in Nc as [Nc1 Nc2].
    apply jeq_obj_char; auto. rewrite jeq_obj_char in E1, E2; auto. intro k. specialize (E1 k). specialize (E2 k).
    unfold lookup_rel in *.
    destruct (aget k ms) as [x|] eqn:G1, (aget k ms0) as [y|] eqn:G2, (aget k ms1) as [z|] eqn:G3; auto; try contradiction.
    apply aget_In in G1, G2, G3. rewrite Forall_forall in H, Na2, Nb2, Nc2.
    apply (H _ G1 y z); [apply (Na2 _ G1) | apply (Nb2 _ G2) | apply (Nc2 _ G3) | exact E1 | exact E2].
Qed.

(* oeqb is syntactic equality *)
Lemma oeqb_eq a : forall b, oeqb a b = true <-> a = b.
Proof.
  induction a using ojson_rect'; intro b'; destruct b'; simpl; try (split; [discriminate | intro E; inversion E]; fail);
    try (split; reflexivity).
  - destruct b, b0; simpl; split; intro E; try discriminate; try reflexivity; inversion E.
  - rewrite bseq_iff. split; intro E; [subst | inversion E]; auto.
  - rewrite bseq_iff. split; intro E; [subst | inversion E]; auto.
  - revert l0. induction l as [|x l IH]; intros [|y l0]; try (split; [discriminate | intro E; inversion E]; fail).
    + split; reflexivity.
    + inversion H; subst. rewrite andb_true_iff, H2, (IH H3). split; [intros [-> E]; inversion E; auto | intro E; inversion E; auto].
  - revert ms0. induction ms as [|[k x] ms IH]; intros [|[k' y] ms0]; try (split; [discriminate | intro E; inversion E]; fail).
    + split; reflexivity.
    + inversion H; subst. simpl in H2. rewrite !andb_true_iff, bseq_iff, H2, (IH H3).
      split; [intros [[-> ->] E]; inversion E; auto | intro E; inversion E; auto].
Qed.
