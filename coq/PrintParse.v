(* PrintParse.v — what the library writes, it reads back as the same tree:
     parse (print false t) = Some t            for every well-formed spelled tree t,
     parse (print true t)  = Some (escape_tree true t)   (same value: den is unchanged),
     parse (pp false ind 0 t) = Some t         for an indentation made of white space,
   and every tree the reader produces is well-formed (so the round trip applies to every document
   the library has read).  Well-formedness: string bodies / member names are what scan_string
   accepts (body_ok), number literals follow the RFC 8259 grammar (num_ok), nesting <= max_depth. *)
From Coq Require Import Lia.
From JP Require Import Bytes Json Text Abs EqualFacts ParseFacts ScannerGrammar.

(* ================= string bodies ================= *)
Definition esc1 (e : byte) : bool :=
  match e with x62 | x66 | x6e | x72 | x74 | x5c | x2f | x22 => true | _ => false end.

Definition hex4b (a b c d : byte) : bool := is_hex a && is_hex b && is_hex c && is_hex d.

(* the bytes between the quotes of a JSON string: escapes, backslash-u with four hex digits, no raw
   quote, backslash or control byte *)
Inductive body_ok : bytes -> Prop :=
| BO_nil : body_ok []
| BO_esc e r : esc1 e = true -> body_ok r -> body_ok (x5c :: e :: r)
| BO_u a b c d r : hex4b a b c d = true -> body_ok r -> body_ok (x5c :: x75 :: a :: b :: c :: d :: r)
| BO_plain c r : Byte.eqb c x22 = false -> Byte.eqb c x5c = false -> (bn c <? 32) = false ->
                 body_ok r -> body_ok (c :: r).

(* the same, as a decision procedure *)
Fixpoint body_okb (s : bytes) : bool :=
  match s with
  | [] => true
  | c :: r =>
      if Byte.eqb c x22 then false
      else if Byte.eqb c x5c then
        match r with
        | e :: r' =>
            if esc1 e then body_okb r'
            else if Byte.eqb e x75 then
              match r' with
              | h1 :: h2 :: h3 :: h4 :: r'' => hex4b h1 h2 h3 h4 && body_okb r''
              | _ => false
              end
            else false
        | [] => false
        end
      else negb (bn c <? 32) && body_okb r
  end.

Lemma body_okb_cons c r : body_okb (c :: r) =
  if Byte.eqb c x22 then false
  else if Byte.eqb c x5c then
    match r with
    | e :: r' =>
        if esc1 e then body_okb r'
        else if Byte.eqb e x75 then
          match r' with
          | h1 :: h2 :: h3 :: h4 :: r'' => hex4b h1 h2 h3 h4 && body_okb r''
          | _ => false
          end
        else false
    | [] => false
    end
  else negb (bn c <? 32) && body_okb r.
Proof. reflexivity. Qed.

Lemma esc1_not_u e : esc1 e = true -> Byte.eqb e x75 = false.
Proof. bytecases e. Qed.

Lemma body_ok_okb b : body_ok b -> body_okb b = true.
Proof.
  induction 1 as [|e r He _ IH|a b c d r Hh _ IH|c r Q Bs Ct _ IH]; [reflexivity| | |].
  - rewrite body_okb_cons. change (Byte.eqb x5c x22) with false. change (Byte.eqb x5c x5c) with true. cbv iota.
    now rewrite He.
  - rewrite body_okb_cons. change (Byte.eqb x5c x22) with false. change (Byte.eqb x5c x5c) with true. cbv iota.
    change (esc1 x75) with false. change (Byte.eqb x75 x75) with true. cbv iota. now rewrite Hh, IH.
  - rewrite body_okb_cons, Q, Bs, Ct, IH. reflexivity.
Qed.

Lemma body_okb_ok : forall (n : nat) b, (length b <= n)%nat -> body_okb b = true -> body_ok b.
Proof.
  induction n as [|n IH]; intros b L H.
  - destruct b; [constructor | simpl in L; lia].
  - destruct b as [|c r]; [constructor|]. simpl in L. rewrite body_okb_cons in H.
    destruct (Byte.eqb c x22) eqn:Q; [discriminate|].
    destruct (Byte.eqb c x5c) eqn:Bs.
    + apply Byte.byte_dec_bl in Bs. subst c. destruct r as [|e r']; [discriminate|]. simpl in L.
      destruct (esc1 e) eqn:He.
      * apply BO_esc; [exact He|]. apply IH; [lia | exact H].
      * destruct (Byte.eqb e x75) eqn:U; [|discriminate]. apply Byte.byte_dec_bl in U. subst e.
        destruct r' as [|h1 [|h2 [|h3 [|h4 r'']]]]; try discriminate. simpl in L.
        apply andb_prop in H as [Hh Hr]. apply BO_u; [exact Hh|]. apply IH; [lia | exact Hr].
    + apply andb_prop in H as [Ct Hr]. apply BO_plain; try assumption.
      * now destruct (bn c <? 32).
      * apply IH; [lia | exact Hr].
Qed.

Theorem body_okb_iff b : body_okb b = true <-> body_ok b.
Proof. split; [apply (body_okb_ok (length b)), le_n | apply body_ok_okb]. Qed.

(* one-step unfoldings of the string reader *)
Lemma scan_string_plain c r : Byte.eqb c x22 = false -> Byte.eqb c x5c = false ->
  scan_string (c :: r) =
  if bn c <? 32 then None else match scan_string r with Some (b, rest) => Some (c :: b, rest) | None => None end.
Proof. destruct c; try discriminate; reflexivity. Qed.

Lemma scan_string_bs e r : scan_string (x5c :: e :: r) =
  if esc1 e then match scan_string r with Some (b, rest) => Some (x5c :: e :: b, rest) | None => None end
  else if Byte.eqb e x75 then
    match r with
    | h1 :: h2 :: h3 :: h4 :: r'' =>
        if hex4b h1 h2 h3 h4 then
          match scan_string r'' with Some (b, rest) => Some (x5c :: e :: h1 :: h2 :: h3 :: h4 :: b, rest) | None => None end
        else None
    | _ => None
    end
  else None.
Proof. destruct e; reflexivity. Qed.

(* the reader accepts a well-formed body followed by the closing quote, and returns it *)
Theorem scan_string_body b rest : body_ok b -> scan_string (b ++ x22 :: rest) = Some (b, rest).
Proof.
  induction 1 as [|e r He _ IH|a b c d r Hh _ IH|c r Q Bs Ct _ IH]; [reflexivity| | |]; cbn [app].
  - rewrite scan_string_bs, He, IH. reflexivity.
  - rewrite scan_string_bs. change (esc1 x75) with false. change (Byte.eqb x75 x75) with true. cbv iota.
    rewrite Hh, IH. reflexivity.
  - rewrite scan_string_plain, Ct, IH by assumption. reflexivity.
Qed.

(* conversely, whatever the reader returns is a well-formed body, and the text is body, quote, rest *)
Theorem scan_string_inv : forall (n : nat) s b rest, (length s <= n)%nat ->
  scan_string s = Some (b, rest) -> body_ok b /\ s = b ++ x22 :: rest.
Proof.
  induction n as [|n IH]; intros s b rest L H.
  - destruct s; [discriminate | simpl in L; lia].
  - destruct s as [|c r]; [discriminate|]. simpl in L.
    destruct (Byte.eqb c x22) eqn:Q.
    { apply Byte.byte_dec_bl in Q. subst c. cbn [scan_string] in H. inversion H; subst. split; [constructor | reflexivity]. }
    destruct (Byte.eqb c x5c) eqn:Bs.
    + apply Byte.byte_dec_bl in Bs. subst c. destruct r as [|e r']; [discriminate|]. simpl in L.
      rewrite scan_string_bs in H. destruct (esc1 e) eqn:He.
      * destruct (scan_string r') as [[b1 rest1]|] eqn:S1; [|discriminate]. inversion H; subst.
        destruct (IH r' b1 rest ltac:(lia) S1) as [B1 E1]. split; [now apply BO_esc | now rewrite E1].
      * destruct (Byte.eqb e x75) eqn:U; [|discriminate]. apply Byte.byte_dec_bl in U. subst e.
        destruct r' as [|h1 [|h2 [|h3 [|h4 r'']]]]; try discriminate. simpl in L.
        destruct (hex4b h1 h2 h3 h4) eqn:Hh; [|discriminate].
        destruct (scan_string r'') as [[b1 rest1]|] eqn:S1; [|discriminate]. inversion H; subst.
        destruct (IH r'' b1 rest ltac:(lia) S1) as [B1 E1]. split; [now apply BO_u | now rewrite E1].
    + rewrite scan_string_plain in H by assumption. destruct (bn c <? 32) eqn:Ct; [discriminate|].
      destruct (scan_string r) as [[b1 rest1]|] eqn:S1; [|discriminate]. inversion H; subst.
      destruct (IH r b1 rest ltac:(lia) S1) as [B1 E1]. split; [now apply BO_plain | now rewrite E1].
Qed.

(* ================= number literals (RFC 8259 section 6) ================= *)
Definition digits (d : bytes) : bool := forallb is_digit d.
Definition digits1 (d : bytes) : bool := match d with [] => false | _ => digits d end.

Definition int_ok (i : bytes) : bool :=
  match i with
  | c :: d => if Byte.eqb c x30 then match d with [] => true | _ => false end else is_digit19 c && digits d
  | [] => false
  end.

Definition frac_ok (f : bytes) : bool :=
  match f with [] => true | c :: d => Byte.eqb c x2e && digits1 d end.

Definition exp_ok (e : bytes) : bool :=
  match e with
  | [] => true
  | c :: r => is_e c && match r with sg :: r' => if is_sign sg then digits1 r' else digits1 r | [] => false end
  end.

(* minus? int frac? exp? *)
Definition num_ok (lit : bytes) : Prop :=
  exists neg i f e, lit = neg ++ i ++ f ++ e /\ (neg = [] \/ neg = [x2d]) /\
                    int_ok i = true /\ frac_ok f = true /\ exp_ok e = true.

(* the same, decided by running the number reader on the literal alone *)
Definition num_okb (lit : bytes) : bool :=
  match scan_number lit with Some (_, []) => true | _ => false end.

(* a byte that cannot continue a number *)
Definition num_term (c : byte) : bool := nondigit c && notdot c && negb (is_e c).

Lemma hd_ok_app P (a b : bytes) :
  match a with c :: _ => P c = true | [] => hd_ok P b end -> hd_ok P (a ++ b).
Proof. destruct a; auto. Qed.

Lemma hd_ok_weaken (P Q : byte -> bool) s : (forall c, P c = true -> Q c = true) -> hd_ok P s -> hd_ok Q s.
Proof. destruct s; cbn; auto. Qed.

Lemma take_digits_app d rest : digits d = true -> hd_ok nondigit rest -> take_digits (d ++ rest) = (d, rest).
Proof.
  intros D H. induction d as [|c d IH]; cbn [app].
  - destruct rest as [|c r]; [reflexivity|]. rewrite take_digits_cons. cbn in H. unfold nondigit in H.
    destruct (is_digit c); [discriminate | reflexivity].
  - cbn in D. apply andb_prop in D as [Dc Dd]. rewrite take_digits_cons, Dc, (IH Dd). reflexivity.
Qed.

Lemma take_digits_inv s : digits (fst (take_digits s)) = true /\ s = fst (take_digits s) ++ snd (take_digits s).
Proof.
  induction s as [|c r [IH1 IH2]]; [split; reflexivity|]. rewrite take_digits_cons. destruct (is_digit c) eqn:D.
  - cbn [fst snd app digits forallb]. rewrite D. split; [exact IH1 | now rewrite <- IH2].
  - split; reflexivity.
Qed.

Lemma take_digits_inv' s d rest : take_digits s = (d, rest) -> digits d = true /\ s = d ++ rest.
Proof. intro H. pose proof (take_digits_inv s) as K. rewrite H in K. exact K. Qed.

Lemma scan_int_app i rest : int_ok i = true -> hd_ok nondigit rest -> scan_int (i ++ rest) = Some (i, rest).
Proof.
  intros I H. destruct i as [|c d]; [discriminate|]. cbn [int_ok] in I. cbn [app scan_int].
  destruct (Byte.eqb c x30).
  - destruct d; [reflexivity | discriminate].
  - apply andb_prop in I as [I1 I2]. rewrite I1, (take_digits_app d rest I2 H). reflexivity.
Qed.

Lemma scan_int_inv s i s2 : scan_int s = Some (i, s2) -> int_ok i = true /\ s = i ++ s2.
Proof.
  destruct s as [|c r]; [discriminate|]. cbn [scan_int]. destruct (Byte.eqb c x30) eqn:Z.
  - intro H. inversion H; subst. cbn [int_ok]. rewrite Z. split; reflexivity.
  - destruct (is_digit19 c) eqn:D; [|discriminate]. destruct (take_digits r) as [d rest] eqn:T.
    intro H. inversion H; subst. apply take_digits_inv' in T as [T1 T2]. cbn [int_ok]. rewrite Z, D, T1, T2. split; reflexivity.
Qed.

Lemma scan_frac_app f rest : frac_ok f = true -> hd_ok (fun c => nondigit c && notdot c) rest ->
  scan_frac (f ++ rest) = Some (f, rest).
Proof.
  intros F H. destruct f as [|c d]; cbn [app].
  - destruct rest as [|c r]; [reflexivity|]. rewrite scan_frac_cons. cbn in H. apply andb_prop in H as [_ H].
    unfold notdot in H. destruct (Byte.eqb c x2e); [discriminate | reflexivity].
  - cbn [frac_ok] in F. apply andb_prop in F as [F1 F2]. rewrite scan_frac_cons, F1. apply Byte.byte_dec_bl in F1. subst c.
    destruct d as [|d0 d]; [discriminate|]. cbn [digits1] in F2.
    rewrite (take_digits_app (d0 :: d) rest F2); [reflexivity|]. revert H. apply hd_ok_weaken. intros c Hc. now apply andb_prop in Hc.
Qed.

Lemma scan_frac_inv s f s3 : scan_frac s = Some (f, s3) -> frac_ok f = true /\ s = f ++ s3.
Proof.
  destruct s as [|c r]; [intro H; inversion H; split; reflexivity|]. rewrite scan_frac_cons.
  destruct (Byte.eqb c x2e) eqn:Dt.
  - apply Byte.byte_dec_bl in Dt. subst c. destruct (take_digits r) as [[|d0 d] rest] eqn:T; [discriminate|].
    intro H. inversion H; subst. apply take_digits_inv' in T as [T1 T2]. split; [exact T1 | now rewrite T2].
  - intro H. inversion H. split; reflexivity.
Qed.

Lemma is_e_facts c : is_e c = true -> nondigit c = true /\ notdot c = true /\ is_sign c = false.
Proof. destruct c; try discriminate; repeat split. Qed.

Lemma scan_exp_app e rest : exp_ok e = true -> hd_ok (fun c => nondigit c && negb (is_e c)) rest ->
  scan_exp (e ++ rest) = Some (e, rest).
Proof.
  intros E H. assert (Hd : hd_ok nondigit rest). { revert H. apply hd_ok_weaken. intros c Hc. now apply andb_prop in Hc. }
  destruct e as [|c r]; cbn [app].
  - destruct rest as [|c r]; [reflexivity|]. rewrite scan_exp_cons. cbn in H. apply andb_prop in H as [_ H].
    destruct (is_e c); [discriminate | reflexivity].
  - cbn [exp_ok] in E. apply andb_prop in E as [E1 E2]. rewrite scan_exp_cons, E1. cbv zeta.
    destruct r as [|sg r']; [discriminate|]. cbn [app]. destruct (is_sign sg) eqn:Sg.
    + destruct r' as [|d0 d]; [discriminate|]. cbn [digits1] in E2. rewrite (take_digits_app (d0 :: d) rest E2 Hd). reflexivity.
    + cbn [digits1] in E2. change (sg :: r' ++ rest) with ((sg :: r') ++ rest). rewrite (take_digits_app (sg :: r') rest E2 Hd). reflexivity.
Qed.

Lemma scan_exp_inv s e s4 : scan_exp s = Some (e, s4) -> exp_ok e = true /\ s = e ++ s4.
Proof.
  destruct s as [|c r]; [intro H; inversion H; split; reflexivity|]. rewrite scan_exp_cons.
  destruct (is_e c) eqn:Ec; [|intro H; inversion H; split; reflexivity]. cbv zeta.
  destruct r as [|sg r''].
  - cbn. discriminate.
  - destruct (is_sign sg) eqn:Sg.
    + destruct (take_digits r'') as [[|d0 d] rest] eqn:T; [discriminate|]. intro H. inversion H; subst.
      apply take_digits_inv' in T as [T1 T2]. cbn [exp_ok app]. rewrite Ec, Sg. split; [exact T1 | now rewrite T2].
    + destruct (take_digits (sg :: r'')) as [[|d0 d] rest] eqn:T; [discriminate|]. intro H. inversion H; subst.
      apply take_digits_inv' in T as [T1 T2].
      assert (d0 = sg) as ->. { now inversion T2. }
      cbn [exp_ok]. rewrite Ec, Sg. split; [exact T1 | now rewrite T2].
Qed.

Lemma int_ok_first i : int_ok i = true -> exists c d, i = c :: d /\ is_digit c = true /\ Byte.eqb c x2d = false.
Proof.
  destruct i as [|c d]; [discriminate|]. cbn [int_ok]. intro H. exists c, d. split; [reflexivity|].
  destruct (Byte.eqb c x30) eqn:Z.
  - apply Byte.byte_dec_bl in Z. subst c. split; reflexivity.
  - apply andb_prop in H as [H _]. revert H. clear. destruct c; try discriminate; split; reflexivity.
Qed.

(* the reader reads a literal of the grammar completely, when what follows cannot continue a number *)
Theorem scan_number_lit_app lit rest : num_ok lit -> hd_ok num_term rest -> scan_number (lit ++ rest) = Some (lit, rest).
Proof.
  intros (neg & i & f & e & -> & Hn & Hi & Hf & He) H.
  assert (H3 : hd_ok (fun c => nondigit c && negb (is_e c)) rest).
  { revert H. apply hd_ok_weaken. intros c Hc. unfold num_term in Hc. apply andb_prop in Hc as [Hc1 Hc3]. apply andb_prop in Hc1 as [Hc1 Hc2]. now rewrite Hc1, Hc3. }
  assert (H2 : hd_ok (fun c => nondigit c && notdot c) (e ++ rest)).
  { apply hd_ok_app. destruct e as [|c r].
    - revert H. apply hd_ok_weaken. intros c Hc. unfold num_term in Hc. now apply andb_prop in Hc as [Hc1 Hc3].
    - cbn [exp_ok] in He. apply andb_prop in He as [He _]. apply is_e_facts in He as (A & B & _). now rewrite A, B. }
  assert (H1 : hd_ok nondigit (f ++ e ++ rest)).
  { apply hd_ok_app. destruct f as [|c r].
    - revert H2. apply hd_ok_weaken. intros c Hc. now apply andb_prop in Hc.
    - cbn [frac_ok] in Hf. apply andb_prop in Hf as [Hf _]. apply Byte.byte_dec_bl in Hf. subst c. reflexivity. }
  assert (K : forall s, s = i ++ f ++ e ++ rest ->
     match scan_int s with None => None | Some (i0, s2) => match scan_frac s2 with None => None | Some (f0, s3) =>
       match scan_exp s3 with None => None | Some (e0, s4) => Some (neg ++ i0 ++ f0 ++ e0, s4) end end end
     = Some (neg ++ i ++ f ++ e, rest)).
  { intros s ->. rewrite (scan_int_app i _ Hi H1), (scan_frac_app f _ Hf H2), (scan_exp_app e _ He H3). reflexivity. }
  destruct Hn as [-> | ->].
  - rewrite !app_nil_l. destruct (int_ok_first i Hi) as (c & d & Ei & Dc & Mc). rewrite <- !app_assoc.
    rewrite Ei in *. cbn [app]. rewrite scan_number_cons, Mc. apply (K (c :: d ++ f ++ e ++ rest)). reflexivity.
  - rewrite <- !app_assoc. cbn [app]. rewrite scan_number_cons. change (Byte.eqb x2d x2d) with true. cbv iota.
    apply (K _ eq_refl).
Qed.

Theorem scan_number_inv s lit rest : scan_number s = Some (lit, rest) -> num_ok lit /\ s = lit ++ rest.
Proof.
  destruct s as [|c r]; [discriminate|]. rewrite scan_number_cons.
  destruct (scan_int _) as [[i s2]|] eqn:I; [|discriminate]. destruct (scan_frac s2) as [[f s3]|] eqn:F; [|discriminate].
  destruct (scan_exp s3) as [[e s4]|] eqn:E; [|discriminate]. intro H. inversion H; subst. clear H.
  apply scan_int_inv in I as [I1 I2]. apply scan_frac_inv in F as [F1 F2]. apply scan_exp_inv in E as [E1 E2]. subst s2 s3.
  split.
  - exists (if Byte.eqb c x2d then [x2d] else []), i, f, e. repeat split; try assumption. destruct (Byte.eqb c x2d); auto.
  - destruct (Byte.eqb c x2d) eqn:M.
    + apply Byte.byte_dec_bl in M. subst c. rewrite I2, <- !app_assoc. reflexivity.
    + rewrite I2, <- !app_assoc. reflexivity.
Qed.

Theorem num_okb_iff lit : num_okb lit = true <-> num_ok lit.
Proof.
  unfold num_okb. split.
  - destruct (scan_number lit) as [[l [|? ?]]|] eqn:S; try discriminate. intros _.
    apply scan_number_inv in S as [S1 S2]. rewrite app_nil_r in S2. now subst l.
  - intro H. pose proof (scan_number_lit_app lit [] H I) as S. rewrite app_nil_r in S. now rewrite S.
Qed.

Corollary scan_number_whole lit : num_ok lit -> scan_number lit = Some (lit, []).
Proof. intro H. pose proof (scan_number_lit_app lit [] H I) as S. now rewrite app_nil_r in S. Qed.

Lemma num_ok_lit_ok lit : num_ok lit -> lit_ok lit = true.
Proof. intro H. apply (scan_number_lit lit lit []). now apply scan_number_whole. Qed.

(* the bytes that follow a value in a compact or indented text end a number *)
Lemma num_term_sep c : c = x2c \/ c = x5d \/ c = x7d \/ is_ws c = true -> num_term c = true.
Proof. intros [->|[->|[->|H]]]; try reflexivity. destruct c; try discriminate; reflexivity. Qed.

(* ================= well-formed spelled trees ================= *)
Fixpoint tok (t : tjson) : Prop :=
  match t with
  | TStr b => body_ok b
  | TNum lit => num_ok lit
  | TArr l => (fix all (l : list tjson) : Prop := match l with [] => True | x :: r => tok x /\ all r end) l
  | TObj ms => (fix all (m : list (bytes * tjson)) : Prop :=
                  match m with [] => True | kv :: r => (body_ok (fst kv) /\ tok (snd kv)) /\ all r end) ms
  | _ => True
  end.

Definition twf (t : tjson) : Prop := tok t /\ Json.tdepth t <= max_depth.

Lemma tok_arr l : tok (TArr l) <-> Forall tok l.
Proof.
  cbn [tok]. split; intro H.
  - induction l as [|x l IH]; constructor; destruct H; auto.
  - induction l as [|x l IH]; [exact I|]. inversion H as [|? ? Ha Hb]; subst. split; [exact Ha | apply IH; exact Hb].
Qed.

Lemma tok_obj ms : tok (TObj ms) <-> Forall (fun kv => body_ok (fst kv) /\ tok (snd kv)) ms.
Proof.
  cbn [tok]. split; intro H.
  - induction ms as [|x l IH]; constructor; destruct H; auto.
  - induction ms as [|x l IH]; [exact I|]. inversion H as [|? ? Ha Hb]; subst. split; [exact Ha | apply IH; exact Hb].
Qed.

(* decision procedure *)
Fixpoint tokb (t : tjson) : bool :=
  match t with
  | TStr b => body_okb b
  | TNum lit => num_okb lit
  | TArr l => forallb tokb l
  | TObj ms => forallb (fun kv => body_okb (fst kv) && tokb (snd kv)) ms
  | _ => true
  end.

Definition twfb (t : tjson) : bool := tokb t && (Json.tdepth t <=? max_depth).

Lemma tokb_iff t : tokb t = true <-> tok t.
Proof.
  induction t as [| | |lit|b|l IH|ms IH] using tjson_rect'; try (split; reflexivity || exact (fun _ => I)).
  - apply num_okb_iff.
  - apply body_okb_iff.
  - rewrite tok_arr. cbn [tokb]. rewrite forallb_forall, Forall_forall. rewrite Forall_forall in IH.
    split; intros H x Hx; apply (IH x Hx), H, Hx.
  - rewrite tok_obj. cbn [tokb]. rewrite forallb_forall, Forall_forall. rewrite Forall_forall in IH.
    split; intros H x Hx.
    + specialize (H x Hx). apply andb_prop in H as [H1 H2]. split; [now apply body_okb_iff | now apply (IH x Hx)].
    + destruct (H x Hx) as [H1 H2]. apply andb_true_intro. split; [now apply body_okb_iff | now apply (IH x Hx)].
Qed.

Theorem twfb_iff t : twfb t = true <-> twf t.
Proof.
  unfold twfb, twf. rewrite andb_true_iff, tokb_iff, N.leb_le. reflexivity.
Qed.

(* nesting *)
Lemma fold_max_le {A} (g : A -> N) l m :
  fold_right (fun x a => N.max (g x) a) 0 l <= m <-> Forall (fun x => g x <= m) l.
Proof.
  induction l as [|x l IH]; cbn [fold_right].
  - split; [constructor | lia].
  - split.
    + intro H. constructor; [lia | apply IH; lia].
    + intro H. inversion H as [|? ? Ha Hb]; subst. apply IH in Hb. lia.
Qed.

Lemma tdepth_arr_le l d : Json.tdepth (TArr l) <= d <-> (d =? 0) = false /\ Forall (fun v => Json.tdepth v <= d - 1) l.
Proof.
  cbn [Json.tdepth]. rewrite <- (fold_max_le Json.tdepth), N.eqb_neq. lia.
Qed.

Lemma tdepth_obj_le ms d : Json.tdepth (TObj ms) <= d <-> (d =? 0) = false /\ Forall (fun kv => Json.tdepth (snd kv) <= d - 1) ms.
Proof.
  cbn [Json.tdepth]. rewrite <- (fold_max_le (fun kv : bytes * tjson => Json.tdepth (snd kv))), N.eqb_neq. lia.
Qed.

(* ================= one-step unfoldings of the reader ================= *)
Lemma pv_ws f d s : parse_value f d s = parse_value f d (skip_ws s).
Proof. destruct f; [reflexivity|]. cbn [parse_value]. now rewrite skip_ws_idem. Qed.

Lemma pv_num f d c s : special c = false ->
  parse_value (S f) d (c :: s) = match scan_number (c :: s) with Some (lit, rest) => Some (TNum lit, rest) | None => None end.
Proof. destruct c; try discriminate; reflexivity. Qed.

Lemma pv_str f d s : parse_value (S f) d (x22 :: s) =
  match scan_string s with Some (b, rest) => Some (TStr b, rest) | None => None end.
Proof. reflexivity. Qed.

Lemma pv_arr f d r : parse_value (S f) d (x5b :: r) =
  if d =? 0 then None else
  match skip_ws r with
  | x5d :: r' => Some (TArr [], r')
  | _ => match parse_elems f (d - 1) r with Some (l, rest) => Some (TArr l, rest) | None => None end
  end.
Proof. reflexivity. Qed.

Lemma pv_obj f d r : parse_value (S f) d (x7b :: r) =
  if d =? 0 then None else
  match skip_ws r with
  | x7d :: r' => Some (TObj [], r')
  | _ => match parse_members f (d - 1) r with Some (ms, rest) => Some (TObj ms, rest) | None => None end
  end.
Proof. reflexivity. Qed.

Lemma pe_S f d s : parse_elems (S f) d s =
  match parse_value f d s with
  | None => None
  | Some (v, rest) =>
      match skip_ws rest with
      | x5d :: r' => Some ([v], r')
      | x2c :: r' => match parse_elems f d r' with Some (l, rest') => Some (v :: l, rest') | None => None end
      | _ => None
      end
  end.
Proof. reflexivity. Qed.

Lemma pm_S f d s : parse_members (S f) d s =
  match skip_ws s with
  | x22 :: r =>
      match scan_string r with
      | None => None
      | Some (k, rest) =>
          match skip_ws rest with
          | x3a :: r' =>
              match parse_value f d r' with
              | None => None
              | Some (v, rest') =>
                  match skip_ws rest' with
                  | x7d :: r'' => Some ([(k, v)], r'')
                  | x2c :: r'' =>
                      match parse_members f d r'' with
                      | Some (ms, rest'') => Some ((k, v) :: ms, rest'')
                      | None => None
                      end
                  | _ => None
                  end
              end
          | _ => None
          end
      end
  | _ => None
  end.
Proof. reflexivity. Qed.

Lemma pv_close f d s r : skip_ws s = x5d :: r -> parse_value f d s = None.
Proof. destruct f; [reflexivity|]. cbn [parse_value]. intros ->. reflexivity. Qed.

(* a non-empty element list after the opening bracket *)
Lemma arr_open f d r l rest : (d =? 0) = false -> parse_elems f (d - 1) r = Some (l, rest) ->
  parse_value (S f) d (x5b :: r) = Some (TArr l, rest).
Proof.
  intros Z H. rewrite pv_arr, Z. destruct (skip_ws r) as [|c r1] eqn:W; [now rewrite H|].
  destruct (Byte.eqb c x5d) eqn:E.
  - apply Byte.byte_dec_bl in E. subst c. exfalso. destruct f; [discriminate|]. rewrite pe_S, (pv_close _ _ _ _ W) in H. discriminate.
  - transitivity (match parse_elems f (d - 1) r with Some (l, rest) => Some (TArr l, rest) | None => None end);
      [destruct c; try reflexivity; discriminate E | now rewrite H].
Qed.

Lemma obj_open f d r ms rest : (d =? 0) = false -> parse_members f (d - 1) r = Some (ms, rest) ->
  parse_value (S f) d (x7b :: r) = Some (TObj ms, rest).
Proof.
  intros Z H. rewrite pv_obj, Z. destruct (skip_ws r) as [|c r1] eqn:W; [now rewrite H|].
  destruct (Byte.eqb c x7d) eqn:E.
  - apply Byte.byte_dec_bl in E. subst c. exfalso. destruct f; [discriminate|]. rewrite pm_S, W in H. discriminate.
  - transitivity (match parse_members f (d - 1) r with Some (l, rest) => Some (TObj l, rest) | None => None end);
      [destruct c; try reflexivity; discriminate E | now rewrite H].
Qed.

(* white space *)
Definition wsb (w : bytes) : bool := forallb is_ws w.

Lemma skip_ws_app w s : wsb w = true -> skip_ws (w ++ s) = skip_ws s.
Proof.
  induction w as [|c w IH]; [reflexivity|]. cbn [wsb forallb app skip_ws]. intro H. apply andb_prop in H as [H1 H2].
  rewrite H1. apply IH, H2.
Qed.

Lemma pv_skip f d w s : wsb w = true -> parse_value f d (w ++ s) = parse_value f d s.
Proof. intro W. rewrite (pv_ws f d (w ++ s)), (pv_ws f d s), skip_ws_app by assumption. reflexivity. Qed.

Lemma pe_skip f d w s : wsb w = true -> parse_elems f d (w ++ s) = parse_elems f d s.
Proof. intro W. destruct f; [reflexivity|]. now rewrite !pe_S, pv_skip. Qed.

Lemma pm_skip f d w s : wsb w = true -> parse_members f d (w ++ s) = parse_members f d s.
Proof. intro W. destruct f; [reflexivity|]. now rewrite !pm_S, skip_ws_app. Qed.

Lemma hd_term_ws w c s : wsb w = true -> num_term c = true -> hd_ok num_term (w ++ c :: s).
Proof.
  intros W C. apply hd_ok_app. destruct w as [|a w]; [exact C|]. cbn [wsb forallb] in W. apply andb_prop in W as [W _].
  apply num_term_sep. auto.
Qed.

(* ================= reading back a text ================= *)
(* enough fuel for a value / for a list, as in ScannerParse *)
Definition fv (f : nat) (s : bytes) : Prop := (2 * length s + 1 <= f)%nat.
Definition fl (f : nat) (s : bytes) : Prop := (2 * length s + 2 <= f)%nat.

(* txt is read as the value v, whatever follows (as long as it does not continue a number) *)
Definition reads (txt : bytes) (v : tjson) : Prop :=
  forall f d rest, Json.tdepth v <= d -> hd_ok num_term rest -> fv f (txt ++ rest) ->
    parse_value f d (txt ++ rest) = Some (v, rest).

Ltac lens := unfold fv, fl in *; repeat (progress (rewrite ?app_length in *; cbn [length] in * )); lia.

Lemma sep_concat_cons2 sep (a b : bytes) m : sep_concat sep (a :: b :: m) = a ++ sep ++ sep_concat sep (b :: m).
Proof. reflexivity. Qed.

(* elements: texts separated by comma + white space, then white space and the closing bracket *)
Lemma elems_read (txt : tjson -> bytes) sepw endw : wsb sepw = true -> wsb endw = true ->
  forall l, l <> [] -> Forall (fun v => reads (txt v) v) l ->
  forall f d rest, Forall (fun v => Json.tdepth v <= d) l ->
    fl f (sep_concat (x2c :: sepw) (map txt l) ++ endw ++ x5d :: rest) ->
    parse_elems f d (sep_concat (x2c :: sepw) (map txt l) ++ endw ++ x5d :: rest) = Some (l, rest).
Proof.
  intros Ws We. induction l as [|v l IH]; [congruence|]. intros _ R f d rest D F.
  inversion R as [|? ? Rv Rl]; subst. inversion D as [|? ? Dv Dl]; subst.
  destruct f as [|f]; [unfold fl in F; lia|]. rewrite pe_S. destruct l as [|v2 l].
  - cbn [map sep_concat] in *. rewrite (Rv f d (endw ++ x5d :: rest) Dv).
    + rewrite skip_ws_app by assumption. reflexivity.
    + apply hd_term_ws; [assumption | reflexivity].
    + unfold fv, fl in *. lia.
  - cbn [map] in *. rewrite sep_concat_cons2 in *. rewrite <- !app_assoc in *. cbn [app] in *.
    rewrite (Rv f d _ Dv).
    + cbn [skip_ws is_ws]. rewrite pe_skip by assumption. rewrite (IH ltac:(congruence) Rl f d rest Dl); [reflexivity|].
      lens.
    + exact eq_refl.
    + unfold fv, fl in *. lia.
Qed.

Lemma pm_step f d k colw X : body_ok k -> wsb colw = true ->
  parse_members (S f) d (spell false k ++ x3a :: colw ++ X) =
  match parse_value f d X with
  | None => None
  | Some (v, rest') =>
      match skip_ws rest' with
      | x7d :: r'' => Some ([(k, v)], r'')
      | x2c :: r'' =>
          match parse_members f d r'' with
          | Some (ms, rest'') => Some ((k, v) :: ms, rest'')
          | None => None
          end
      | _ => None
      end
  end.
Proof.
  intros K W. unfold spell. cbn [app]. rewrite <- app_assoc. cbn [app]. rewrite pm_S. cbn [skip_ws is_ws].
  rewrite (scan_string_body k _ K). cbn [skip_ws is_ws]. rewrite pv_skip by assumption. reflexivity.
Qed.

Definition member_text (txt : tjson -> bytes) (colw : bytes) (kv : bytes * tjson) : bytes :=
  spell false (fst kv) ++ x3a :: colw ++ txt (snd kv).

Lemma members_read (txt : tjson -> bytes) colw sepw endw : wsb colw = true -> wsb sepw = true -> wsb endw = true ->
  forall ms, ms <> [] -> Forall (fun kv => body_ok (fst kv) /\ reads (txt (snd kv)) (snd kv)) ms ->
  forall f d rest, Forall (fun kv => Json.tdepth (snd kv) <= d) ms ->
    fl f (sep_concat (x2c :: sepw) (map (member_text txt colw) ms) ++ endw ++ x7d :: rest) ->
    parse_members f d (sep_concat (x2c :: sepw) (map (member_text txt colw) ms) ++ endw ++ x7d :: rest) = Some (ms, rest).
Proof.
  intros Wc Ws We. induction ms as [|[k v] ms IH]; [congruence|]. intros _ R f d rest D F.
  inversion R as [|? ? [Kv Rv] Rl]; subst. inversion D as [|? ? Dv Dl]; subst. cbn [fst snd] in *.
  destruct f as [|f]; [unfold fl in F; lia|]. destruct ms as [|kv2 ms].
  - cbn [map sep_concat] in *. unfold member_text in *. cbn [fst snd] in *. rewrite <- !app_assoc in *. cbn [app] in *. rewrite <- !app_assoc in *.
    rewrite pm_step by assumption. rewrite (Rv f d (endw ++ x7d :: rest) Dv).
    + rewrite skip_ws_app by assumption. reflexivity.
    + apply hd_term_ws; [assumption | reflexivity].
    + lens.
  - cbn [map] in *. rewrite sep_concat_cons2 in *. unfold member_text at 1. unfold member_text at 1 in F. cbn [fst snd] in *.
    rewrite <- !app_assoc in *. cbn [app] in *. rewrite <- !app_assoc in *.
    rewrite pm_step by assumption. rewrite (Rv f d _ Dv).
    + cbn [skip_ws is_ws]. rewrite pm_skip by assumption. rewrite (IH ltac:(congruence) Rl f d rest Dl); [reflexivity|].
      lens.
    + exact eq_refl.
    + lens.
Qed.

(* scalars *)
Lemma fv_S f s : fv f s -> exists f', f = S f'.
Proof. unfold fv. destruct f; [lia | eauto]. Qed.

Lemma reads_null : reads (B "null") TNull.
Proof. intros f d rest _ _ F. apply fv_S in F as [f' ->]. reflexivity. Qed.
Lemma reads_true : reads (B "true") TTrue.
Proof. intros f d rest _ _ F. apply fv_S in F as [f' ->]. reflexivity. Qed.
Lemma reads_false : reads (B "false") TFalse.
Proof. intros f d rest _ _ F. apply fv_S in F as [f' ->]. reflexivity. Qed.

Lemma strip_prefix_app p rest : strip_prefix p (p ++ rest) = Some rest.
Proof.
  induction p as [|c p IH]; [destruct rest; reflexivity|]. cbn [app]. rewrite strip_prefix_cons.
  replace (Byte.eqb c c) with true; [exact IH|]. symmetry. apply Byte.byte_dec_lb. reflexivity.
Qed.

Lemma digit_not_special c : is_digit c = true \/ c = x2d -> special c = false.
Proof. intros [H| ->]; [|reflexivity]. destruct c; try discriminate; reflexivity. Qed.

Lemma reads_num lit : num_ok lit -> reads lit (TNum lit).
Proof.
  intros N f d rest _ H F. apply fv_S in F as [f' ->].
  pose proof (scan_number_lit_app lit rest N H) as S.
  destruct (lit_first lit (num_ok_lit_ok lit N)) as (c & r & -> & Hc). cbn [app] in *.
  rewrite pv_num, S; [reflexivity|]. apply digit_not_special. tauto.
Qed.

Lemma reads_str (esc : bool) b : body_ok (if esc then html_escape b else b) ->
  reads (spell esc b) (TStr (if esc then html_escape b else b)).
Proof.
  intros K f d rest _ _ F. apply fv_S in F as [f' ->]. unfold spell. cbn [app]. rewrite <- app_assoc. cbn [app].
  rewrite pv_str, (scan_string_body _ _ K). reflexivity.
Qed.

Lemma reads_empty_arr : reads (B "[]") (TArr []).
Proof.
  intros f d rest D _ F. apply fv_S in F as [f' ->]. apply tdepth_arr_le in D as [Z _].
  change (B "[]" ++ rest) with (x5b :: x5d :: rest). rewrite pv_arr, Z. reflexivity.
Qed.

Lemma reads_empty_obj : reads (B "{}") (TObj []).
Proof.
  intros f d rest D _ F. apply fv_S in F as [f' ->]. apply tdepth_obj_le in D as [Z _].
  change (B "{}" ++ rest) with (x7b :: x7d :: rest). rewrite pv_obj, Z. reflexivity.
Qed.

(* a non-empty array / object laid out with white space w1 after the opening bracket and after
   every comma, w2 before the closing bracket, colw after the colon *)
Lemma reads_arr (txt : tjson -> bytes) w1 w2 l : wsb w1 = true -> wsb w2 = true -> l <> [] ->
  Forall (fun v => reads (txt v) v) l ->
  reads (x5b :: w1 ++ sep_concat (x2c :: w1) (map txt l) ++ w2 ++ [x5d]) (TArr l).
Proof.
  intros W1 W2 Ne R f d rest D _ F. apply fv_S in F as F'. destruct F' as [f' ->]. apply tdepth_arr_le in D as [Z D].
  cbn [app]. rewrite <- !app_assoc. cbn [app]. apply arr_open; [exact Z|]. rewrite pe_skip by assumption.
  apply elems_read; try assumption. revert F. clear. cbn [app]. rewrite <- !app_assoc. cbn [app]. intro F. lens.
Qed.

Lemma reads_obj (txt : tjson -> bytes) colw w1 w2 ms : wsb colw = true -> wsb w1 = true -> wsb w2 = true -> ms <> [] ->
  Forall (fun kv => body_ok (fst kv) /\ reads (txt (snd kv)) (snd kv)) ms ->
  reads (x7b :: w1 ++ sep_concat (x2c :: w1) (map (member_text txt colw) ms) ++ w2 ++ [x7d]) (TObj ms).
Proof.
  intros Wc W1 W2 Ne R f d rest D _ F. apply fv_S in F as F'. destruct F' as [f' ->]. apply tdepth_obj_le in D as [Z D].
  cbn [app]. rewrite <- !app_assoc. cbn [app]. apply obj_open; [exact Z|]. rewrite pm_skip by assumption.
  apply members_read; try assumption. revert F. clear. cbn [app]. rewrite <- !app_assoc. cbn [app]. intro F. lens.
Qed.

(* ================= the compact printer ================= *)
Theorem print_reads t : tok t -> reads (print false t) t.
Proof.
  induction t as [| | |lit|b|l IH|ms IH] using tjson_rect'; intro T.
  - apply reads_null.
  - apply reads_true.
  - apply reads_false.
  - apply reads_num, T.
  - apply (reads_str false b), T.
  - destruct l as [|v l]; [apply reads_empty_arr|]. apply tok_arr in T.
    apply (reads_arr (print false) [] [] (v :: l)); try reflexivity; [congruence|].
    rewrite Forall_forall in *. intros x Hx. apply (IH x Hx), T, Hx.
  - destruct ms as [|kv ms]; [apply reads_empty_obj|]. apply tok_obj in T.
    apply (reads_obj (print false) [] [] [] (kv :: ms)); try reflexivity; [congruence|].
    rewrite Forall_forall in *. intros x Hx. destruct (T x Hx) as [T1 T2]. split; [exact T1 | apply (IH x Hx), T2].
Qed.

(* a whole text: white space, the text of the value, white space *)
Lemma parse_of_reads txt t w1 w2 : reads txt t -> Json.tdepth t <= max_depth -> wsb w1 = true -> wsb w2 = true ->
  parse (w1 ++ txt ++ w2) = Some t.
Proof.
  intros R D W1 W2. unfold parse. rewrite pv_skip by assumption. rewrite (R _ max_depth w2 D).
  - pose proof (skip_ws_app w2 [] W2) as E. rewrite app_nil_r in E. rewrite E. reflexivity.
  - destruct w2 as [|c w]; [exact I|]. cbn [wsb forallb] in W2. apply andb_prop in W2 as [W2 _]. apply num_term_sep. auto.
  - unfold parse_fuel. lens.
Qed.

Theorem parse_print_ws t w1 w2 : twf t -> wsb w1 = true -> wsb w2 = true ->
  parse (w1 ++ print false t ++ w2) = Some t.
Proof. intros [T D]. apply parse_of_reads; [apply print_reads, T | exact D]. Qed.

(* what the library writes, it reads back as the same tree *)
Theorem parse_print t : twf t -> parse (print false t) = Some t.
Proof. intro H. pose proof (parse_print_ws t [] [] H eq_refl eq_refl) as P. now rewrite app_nil_r in P. Qed.

(* ================= the escaping printer ================= *)
From JP Require Import Strings Den ImplV5 Codec.

Definition he_sp (c : byte) : bool := match c with x3c | x3e | x26 | xe2 => true | _ => false end.

Lemma he_nosp c r : he_sp c = false -> html_escape (c :: r) = c :: html_escape r.
Proof. destruct c; try reflexivity; discriminate. Qed.

Lemma he_sp_cases c : he_sp c = true -> c = x3c \/ c = x3e \/ c = x26 \/ c = xe2.
Proof. destruct c; try discriminate; tauto. Qed.

Lemma esc1_nosp e : esc1 e = true -> he_sp e = false.
Proof. destruct e; try discriminate; reflexivity. Qed.

Lemma hex_nosp a : is_hex a = true -> he_sp a = false.
Proof. destruct a; try discriminate; reflexivity. Qed.

Lemma he_e2 r : html_escape (xe2 :: r) =
  match r with
  | x80 :: xa8 :: r' => x5c :: x75 :: x32 :: x30 :: x32 :: x38 :: html_escape r'
  | x80 :: xa9 :: r' => x5c :: x75 :: x32 :: x30 :: x32 :: x39 :: html_escape r'
  | _ => xe2 :: html_escape r
  end.
Proof. reflexivity. Qed.

Lemma he_lt r : html_escape (x3c :: r) = x5c :: x75 :: x30 :: x30 :: x33 :: x63 :: html_escape r.
Proof. reflexivity. Qed.
Lemma he_gt r : html_escape (x3e :: r) = x5c :: x75 :: x30 :: x30 :: x33 :: x65 :: html_escape r.
Proof. reflexivity. Qed.
Lemma he_amp r : html_escape (x26 :: r) = x5c :: x75 :: x30 :: x30 :: x32 :: x36 :: html_escape r.
Proof. reflexivity. Qed.

Lemma he_e2_other c1 c2 r : Byte.eqb c1 x80 && (Byte.eqb c2 xa8 || Byte.eqb c2 xa9) = false ->
  html_escape (xe2 :: c1 :: c2 :: r) = xe2 :: html_escape (c1 :: c2 :: r).
Proof.
  intro E. rewrite he_e2. destruct (Byte.eqb c1 x80) eqn:E1.
  - apply Byte.byte_dec_bl in E1. subst c1. cbn [andb] in E. destruct c2; try discriminate E; reflexivity.
  - clear E. destruct c1; try discriminate E1; reflexivity.
Qed.

Lemma he_e2_short c1 : html_escape [xe2; c1] = xe2 :: html_escape [c1].
Proof. rewrite he_e2. destruct c1; reflexivity. Qed.

(* escaping keeps a body well-formed *)
Theorem html_escape_body_ok b : body_ok b -> body_ok (html_escape b).
Proof.
  induction 1 as [|e r He _ IH|a b c d r Hh _ IH|c r Q Bs Ct Hr IH]; [constructor| | |].
  - rewrite (he_nosp x5c) by reflexivity. rewrite he_nosp by (apply esc1_nosp, He). now apply BO_esc.
  - unfold hex4b in Hh. apply andb_prop in Hh as [Hh Hd]. apply andb_prop in Hh as [Hh Hc]. apply andb_prop in Hh as [Ha Hb].
    rewrite (he_nosp x5c), (he_nosp x75) by reflexivity.
    rewrite (he_nosp a), (he_nosp b), (he_nosp c), (he_nosp d) by (apply hex_nosp; assumption).
    apply BO_u; [|exact IH]. unfold hex4b. now rewrite Ha, Hb, Hc, Hd.
  - destruct (he_sp c) eqn:Sp; [|rewrite he_nosp by assumption; now apply BO_plain].
    apply he_sp_cases in Sp as [-> | [-> | [-> | ->]]].
    + rewrite he_lt. now apply BO_u.
    + rewrite he_gt. now apply BO_u.
    + rewrite he_amp. now apply BO_u.
    + destruct r as [|c1 [|c2 r']].
      * rewrite he_e2. apply BO_plain; try reflexivity. constructor.
      * rewrite he_e2_short. now apply BO_plain.
      * destruct (Byte.eqb c1 x80 && (Byte.eqb c2 xa8 || Byte.eqb c2 xa9)) eqn:E;
          [|rewrite he_e2_other by assumption; now apply BO_plain].
        apply andb_prop in E as [E1 E2]. apply Byte.byte_dec_bl in E1. subst c1. apply body_ok_okb in IH.
        apply orb_prop in E2 as [E2|E2]; apply Byte.byte_dec_bl in E2; subst c2.
        { rewrite (he_nosp x80), (he_nosp xa8) in IH by reflexivity.
          change (body_okb (html_escape r') = true) in IH. apply body_okb_iff in IH.
          rewrite he_e2. now apply BO_u. }
        { rewrite (he_nosp x80), (he_nosp xa9) in IH by reflexivity.
          change (body_okb (html_escape r') = true) in IH. apply body_okb_iff in IH.
          rewrite he_e2. now apply BO_u. }
Qed.

(* the escaped text of t is the plain text of the escaped tree *)
Lemma print_true t : print true t = print false (escape_tree true t).
Proof.
  induction t as [| | |lit|b|l IH|ms IH] using tjson_rect'; try reflexivity.
  - rewrite escape_tree_true. cbn [print]. do 3 f_equal. rewrite map_map. apply map_ext_in. intros x Hx.
    rewrite Forall_forall in IH. apply (IH x Hx).
  - rewrite escape_tree_true. cbn [print]. do 3 f_equal. rewrite map_map. apply map_ext_in. intros x Hx.
    rewrite Forall_forall in IH. cbn [fst snd]. rewrite (IH x Hx). reflexivity.
Qed.

Lemma tok_escape t : tok t -> tok (escape_tree true t).
Proof.
  induction t as [| | |lit|b|l IH|ms IH] using tjson_rect'; intro T; try exact T.
  - apply html_escape_body_ok, T.
  - rewrite escape_tree_true. apply tok_arr in T. apply tok_arr. rewrite Forall_forall in *. intros y Hy.
    apply in_map_iff in Hy as (x & <- & Hx). apply (IH x Hx), T, Hx.
  - rewrite escape_tree_true. apply tok_obj in T. apply tok_obj. rewrite Forall_forall in *. intros y Hy.
    apply in_map_iff in Hy as (x & <- & Hx). destruct (T x Hx) as [T1 T2]. cbn [fst snd].
    split; [apply html_escape_body_ok, T1 | apply (IH x Hx), T2].
Qed.

Lemma tdepth_escape t : Json.tdepth (escape_tree true t) = Json.tdepth t.
Proof.
  induction t as [| | |lit|b|l IH|ms IH] using tjson_rect'; try reflexivity.
  - rewrite escape_tree_true. cbn [Json.tdepth]. f_equal. induction IH as [|x l Hx _ IHl]; [reflexivity|].
    cbn [map fold_right]. now rewrite Hx, IHl.
  - rewrite escape_tree_true. cbn [Json.tdepth]. f_equal. induction IH as [|x l Hx _ IHl]; [reflexivity|].
    cbn [map fold_right fst snd]. now rewrite Hx, IHl.
Qed.

Lemma twf_escape t : twf t -> twf (escape_tree true t).
Proof. intros [T D]. split; [apply tok_escape, T | now rewrite tdepth_escape]. Qed.

Theorem parse_print_esc t : twf t -> parse (print true t) = Some (escape_tree true t).
Proof. intro H. rewrite print_true. apply parse_print, twf_escape, H. Qed.

Theorem parse_print_any esc t : twf t -> parse (print esc t) = Some (escape_tree esc t).
Proof. destruct esc; [apply parse_print_esc | apply parse_print]. Qed.

(* ---- body_ok is Codec.sbody: both describe what scan_string accepts ---- *)
Lemma high_plain c : (bn c <? 128) = false -> Byte.eqb c x22 = false /\ Byte.eqb c x5c = false /\ (bn c <? 32) = false.
Proof. destruct c; try discriminate; repeat split. Qed.

Theorem body_ok_sbody b : body_ok b <-> sbody b.
Proof.
  split.
  - induction 1 as [|e r He _ IH|a b c d r Hh _ IH|c r Q Bs Ct _ IH].
    + apply SB_nil.
    + apply SB_esc; [exact He | exact IH].
    + apply SB_u; [exact Hh | exact IH].
    + destruct (bn c <? 128) eqn:A; [apply SB_ascii | apply SB_high]; assumption.
  - induction 1; [constructor | apply BO_esc; assumption | apply BO_u; assumption | apply BO_plain; assumption |].
    match goal with H : (bn ?c <? 128) = false |- _ => destruct (high_plain c H) as (A1 & A2 & A3) end.
    apply BO_plain; assumption.
Qed.

Lemma tok_tsb t : tok t -> tsb t.
Proof.
  induction t as [| | |lit|b|l IH|ms IH] using tjson_rect'; intro T; try exact I.
  - apply body_ok_sbody, T.
  - apply tok_arr in T. apply tsb_arr. rewrite Forall_forall in *. intros x Hx. apply (IH x Hx), T, Hx.
  - apply tok_obj in T. apply tsb_obj. rewrite Forall_forall in *. intros x Hx. destruct (T x Hx) as [T1 T2].
    split; [apply body_ok_sbody, T1 | apply (IH x Hx), T2].
Qed.

(* with or without escaping, the text is read back as a tree with the same value *)
Theorem parse_print_den esc t : twf t -> exists t', parse (print esc t) = Some t' /\ den t' = den t.
Proof.
  intro H. exists (escape_tree esc t). split; [apply parse_print_any, H|].
  destruct esc; [|reflexivity]. apply escape_tree_den, tok_tsb, H.
Qed.

(* Text.scan_string reads exactly the Codec.sbody bodies *)
Theorem scan_string_sbody s b rest : scan_string s = Some (b, rest) <-> sbody b /\ s = b ++ x22 :: rest.
Proof.
  split.
  - intro H. apply (scan_string_inv (length s) s b rest (le_n _)) in H as [H1 H2]. split; [now apply body_ok_sbody | exact H2].
  - intros [H1 ->]. apply scan_string_body, body_ok_sbody, H1.
Qed.

(* ================= every tree the reader produces is well-formed ================= *)
Lemma parse_value_wf : forall fuel,
  (forall d s t rest, parse_value fuel d s = Some (t, rest) -> tok t /\ Json.tdepth t <= d) /\
  (forall d s l rest, parse_elems fuel d s = Some (l, rest) -> Forall (fun t => tok t /\ Json.tdepth t <= d) l) /\
  (forall d s ms rest, parse_members fuel d s = Some (ms, rest) ->
     Forall (fun kv => body_ok (fst kv) /\ tok (snd kv) /\ Json.tdepth (snd kv) <= d) ms).
Proof.
  induction fuel as [|f [IHv [IHe IHm]]]; [repeat split; intros; discriminate|].
  split; [|split].
  - intros d s t rest H. cbn [parse_value] in H. destruct (skip_ws s) as [|c r]; [discriminate|].
    assert (Hn : forall x, match scan_number x with Some (lit, rest0) => Some (TNum lit, rest0) | None => None end = Some (t, rest) ->
                 tok t /\ Json.tdepth t <= d).
    { intros x E. destruct (scan_number x) as [[lit r0]|] eqn:Sn; [|discriminate]. inversion E; subst.
      apply scan_number_inv in Sn as [Sn _]. split; [exact Sn | cbn; lia]. }
    assert (Hp : forall pat v, tok v /\ Json.tdepth v <= d ->
                 match strip_prefix pat r with Some rest0 => Some (v, rest0) | None => None end = Some (t, rest) -> tok t /\ Json.tdepth t <= d).
    { intros pat v Hv E. destruct (strip_prefix pat r); [|discriminate]. inversion E; subst. exact Hv. }
    assert (Ha : match parse_elems f (d - 1) r with Some (l, rest0) => Some (TArr l, rest0) | None => None end = Some (t, rest) ->
                 (d =? 0) = false -> tok t /\ Json.tdepth t <= d).
    { intros E Z. destruct (parse_elems f (d - 1) r) as [[l r0]|] eqn:Pe; [|discriminate]. inversion E; subst.
      apply IHe in Pe. split.
      - apply tok_arr. revert Pe. apply Forall_impl. tauto.
      - apply tdepth_arr_le. split; [exact Z|]. revert Pe. apply Forall_impl. tauto. }
    assert (Ho : match parse_members f (d - 1) r with Some (l, rest0) => Some (TObj l, rest0) | None => None end = Some (t, rest) ->
                 (d =? 0) = false -> tok t /\ Json.tdepth t <= d).
    { intros E Z. destruct (parse_members f (d - 1) r) as [[l r0]|] eqn:Pe; [|discriminate]. inversion E; subst.
      apply IHm in Pe. split.
      - apply tok_obj. revert Pe. apply Forall_impl. tauto.
      - apply tdepth_obj_le. split; [exact Z|]. revert Pe. apply Forall_impl. tauto. }
    destruct c; cbv beta iota in H; try (match type of H with context [scan_number ?x] => exact (Hn x H) end).
    + (* quote *) destruct (scan_string r) as [[b r0]|] eqn:Ss; [|discriminate]. inversion H; subst.
      apply (scan_string_inv _ _ _ _ (le_n _)) in Ss as [Ss _]. split; [exact Ss | cbn; lia].
    + (* [ *) destruct (d =? 0) eqn:Z; [discriminate|]. destruct (skip_ws r) as [|c' r'] eqn:Es; [exact (Ha H eq_refl)|].
      destruct c'; try (exact (Ha H eq_refl)). inversion H; subst. split; [exact I|]. apply tdepth_arr_le. split; [exact Z | constructor].
    + (* f *) apply (Hp (B "alse") TFalse); [split; [exact I | cbn; lia] | exact H].
    + (* n *) apply (Hp (B "ull") TNull); [split; [exact I | cbn; lia] | exact H].
    + (* t *) apply (Hp (B "rue") TTrue); [split; [exact I | cbn; lia] | exact H].
    + (* { *) destruct (d =? 0) eqn:Z; [discriminate|]. destruct (skip_ws r) as [|c' r'] eqn:Es; [exact (Ho H eq_refl)|].
      destruct c'; try (exact (Ho H eq_refl)). inversion H; subst. split; [exact I|]. apply tdepth_obj_le. split; [exact Z | constructor].
  - intros d s l rest H. rewrite pe_S in H. destruct (parse_value f d s) as [[v rest0]|] eqn:Ev; [|discriminate].
    apply IHv in Ev. destruct (skip_ws rest0) as [|c r]; [discriminate|]. destruct c; try discriminate.
    + destruct (parse_elems f d r) as [[l' rest']|] eqn:Ee; [|discriminate]. inversion H; subst.
      constructor; [exact Ev | exact (IHe _ _ _ _ Ee)].
    + inversion H; subst. constructor; [exact Ev | constructor].
  - intros d s ms rest H. rewrite pm_S in H. destruct (skip_ws s) as [|c r]; [discriminate|].
    destruct c; try discriminate. destruct (scan_string r) as [[k rest0]|] eqn:Ss; [|discriminate].
    apply (scan_string_inv _ _ _ _ (le_n _)) in Ss as [Ss _].
    destruct (skip_ws rest0) as [|c1 r1]; [discriminate|]. destruct c1; try discriminate.
    destruct (parse_value f d r1) as [[v rest1]|] eqn:Ev; [|discriminate]. apply IHv in Ev.
    destruct (skip_ws rest1) as [|c2 r2]; [discriminate|]. destruct c2; try discriminate.
    + destruct (parse_members f d r2) as [[ms' rest']|] eqn:Em; [|discriminate]. inversion H; subst.
      constructor; [split; [exact Ss | exact Ev] | exact (IHm _ _ _ _ Em)].
    + inversion H; subst. constructor; [split; [exact Ss | exact Ev] | constructor].
Qed.

Theorem parse_twf bs t : parse bs = Some t -> twf t.
Proof.
  unfold parse. destruct (parse_value (parse_fuel bs) max_depth bs) as [[t' rest]|] eqn:E; [|discriminate].
  destruct (skip_ws rest); [|discriminate]. intro H. inversion H; subst.
  exact (proj1 (parse_value_wf _) _ _ _ _ E).
Qed.

(* re-serialising a document that was read gives a text that reads as the same tree *)
Corollary parse_print_parse bs t : parse bs = Some t -> parse (print false t) = Some t.
Proof. intro H. apply parse_print, (parse_twf bs), H. Qed.

Corollary parse_print_parse_esc bs t : parse bs = Some t ->
  exists t', parse (print true t) = Some t' /\ den t' = den t.
Proof. intro H. apply parse_print_den, (parse_twf bs), H. Qed.

(* ================= the indenting printer ================= *)
Lemma wsb_app a b : wsb (a ++ b) = wsb a && wsb b.
Proof. apply forallb_app. Qed.

Lemma wsb_rep ind k : wsb ind = true -> wsb (rep k ind) = true.
Proof. intro W. induction k as [|k IH]; [reflexivity|]. cbn [rep]. now rewrite wsb_app, W, IH. Qed.

Lemma wsb_nl ind k : wsb ind = true -> wsb (nl ind k) = true.
Proof. intro W. unfold nl. cbn [wsb forallb is_ws]. apply (wsb_rep ind k W). Qed.

Theorem pp_reads ind t : wsb ind = true -> forall k, tok t -> reads (pp false ind k t) t.
Proof.
  intro W. induction t as [| | |lit|b|l IH|ms IH] using tjson_rect'; intros k T.
  - apply reads_null.
  - apply reads_true.
  - apply reads_false.
  - apply reads_num, T.
  - apply (reads_str false b), T.
  - destruct l as [|v l]; [apply reads_empty_arr|]. apply tok_arr in T.
    apply (reads_arr (pp false ind (S k)) (nl ind (S k)) (nl ind k) (v :: l)); try (apply wsb_nl, W); [congruence|].
    rewrite Forall_forall in *. intros x Hx. apply (IH x Hx), T, Hx.
  - destruct ms as [|kv ms]; [apply reads_empty_obj|]. apply tok_obj in T.
    apply (reads_obj (pp false ind (S k)) [x20] (nl ind (S k)) (nl ind k) (kv :: ms)); try (apply wsb_nl, W); [reflexivity | congruence |].
    rewrite Forall_forall in *. intros x Hx. destruct (T x Hx) as [T1 T2]. split; [exact T1 | apply (IH x Hx), T2].
Qed.

(* an indented text (indentation made of white space) reads back as the same tree *)
Theorem parse_pp ind k t : wsb ind = true -> twf t -> parse (pp false ind k t) = Some t.
Proof.
  intros W [T D]. pose proof (parse_of_reads _ t [] [] (pp_reads ind t W k T) D eq_refl eq_refl) as P.
  now rewrite app_nil_r in P.
Qed.

Lemma pp_true ind t : forall k, pp true ind k t = pp false ind k (escape_tree true t).
Proof.
  induction t as [| | |lit|b|l IH|ms IH] using tjson_rect'; intro k; try reflexivity.
  - rewrite escape_tree_true. destruct l as [|v l]; [reflexivity|]. cbn [map pp]. do 4 f_equal.
    change (pp true ind (S k) v :: map (pp true ind (S k)) l) with (map (pp true ind (S k)) (v :: l)).
    change (pp false ind (S k) (escape_tree true v) :: map (pp false ind (S k)) (map (escape_tree true) l))
      with (map (pp false ind (S k)) (map (escape_tree true) (v :: l))).
    rewrite map_map. apply map_ext_in. intros x Hx. rewrite Forall_forall in IH. apply (IH x Hx).
  - rewrite escape_tree_true. destruct ms as [|kv ms]; [reflexivity|]. cbn [map pp]. do 4 f_equal.
    set (F := fun kv0 : bytes * tjson => spell true (fst kv0) ++ x3a :: x20 :: pp true ind (S k) (snd kv0)).
    set (G := fun kv0 : bytes * tjson => spell false (fst kv0) ++ x3a :: x20 :: pp false ind (S k) (snd kv0)).
    set (E := fun kv0 : bytes * tjson => (html_escape (fst kv0), escape_tree true (snd kv0))).
    change (map F (kv :: ms) = map G (map E (kv :: ms))).
    rewrite map_map. apply map_ext_in. intros x Hx. rewrite Forall_forall in IH. unfold F, G, E. cbn [fst snd].
    rewrite (IH x Hx). reflexivity.
Qed.

Theorem parse_pp_esc ind k t : wsb ind = true -> twf t -> parse (pp true ind k t) = Some (escape_tree true t).
Proof. intros W H. rewrite pp_true. apply parse_pp; [exact W | apply twf_escape, H]. Qed.

(* ================= checks on concrete trees ================= *)
Definition ex_tree : tjson :=
  TObj [(B "a", TArr [TNum (B "1"); TNum (B "-2.5e+10"); TNum (B "0.0E7"); TStr (B "x<y&z>"); TNull; TTrue; TFalse; TArr []; TObj []]);
        (B "k\n\\", TObj [(B "", TStr [x5c; x75; x32; x30; x32; x38; xe2; x80; xa8; xe2; x80; xe2; x80; xa9; xc3; xa9])]);
        (B "a", TNum (B "-0"))].

Example ex_tree_wf : twf ex_tree.
Proof. apply twfb_iff. vm_compute. reflexivity. Qed.

Example ex_tree_roundtrip : parse (print false ex_tree) = Some ex_tree.
Proof. vm_compute. reflexivity. Qed.

Example ex_tree_roundtrip_esc : parse (print true ex_tree) = Some (escape_tree true ex_tree).
Proof. vm_compute. reflexivity. Qed.

Example ex_tree_pp : parse (pp false (B "  ") 0 ex_tree) = Some ex_tree.
Proof. vm_compute. reflexivity. Qed.

Example ex_tree_pp_tab : parse (pp true [x09] 3 ex_tree) = Some (escape_tree true ex_tree).
Proof. vm_compute. reflexivity. Qed.

(* an indentation that is not white space is not read back *)
Example ex_pp_bad_indent : parse (pp false (B "x") 0 ex_tree) = None.
Proof. vm_compute. reflexivity. Qed.

Example ex_tree_esc_differs : print true ex_tree <> print false ex_tree.
Proof. vm_compute. discriminate. Qed.

(* the hypotheses are needed: ill-formed literals or bodies are not read back *)
Example ex_bad_num : parse (print false (TNum (B "01"))) = None.
Proof. vm_compute. reflexivity. Qed.
Example ex_bad_num2 : parse (print false (TNum (B "1 "))) = Some (TNum (B "1")).
Proof. vm_compute. reflexivity. Qed.
Example ex_bad_str : parse (print false (TStr [x22])) = None.
Proof. vm_compute. reflexivity. Qed.
Example ex_bad_str2 : parse (print false (TArr [TStr (B "a"",""b")])) = Some (TArr [TStr (B "a"); TStr (B "b")]).
Proof. vm_compute. reflexivity. Qed.

Print Assumptions parse_print.
Print Assumptions parse_print_ws.
Print Assumptions parse_print_esc.
Print Assumptions parse_print_den.
Print Assumptions parse_twf.
Print Assumptions parse_print_parse.
Print Assumptions parse_print_parse_esc.
Print Assumptions parse_pp.
Print Assumptions parse_pp_esc.
Print Assumptions body_ok_sbody.
Print Assumptions scan_string_sbody.
Print Assumptions num_okb_iff.
