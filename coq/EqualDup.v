(* EqualDup.v — Equal on texts WITH repeated member names.

   The theorems of Properties/C06.v and EqualFacts.v carry the hypothesis tnodup (no repeated
   member name in any object).  Here it is removed: on every well-formed text the model of Equal
   (api_equal / node_equal) is structural equality (jeq) of the DEDUPLICATED values the two texts
   denote, where dedup keeps one member per name (the position of the first occurrence; den has
   already given every occurrence the last value, so the value is the last one: what decoding into
   a Go map holds).  dedup is the identity on values without repeated names, so the old theorems are
   the special case.  Reflexivity, symmetry and transitivity follow for ALL well-formed texts. *)
From Coq Require Import Lia.
From JP Require Import Bytes Json Text Strings Den ImplV5 DecodeFacts JsonFacts Abs EqualFacts ParseFacts.

(* ------------------------------------------------------------------------------------------ *)
(* 1. dedup                                                                                      *)
(* ------------------------------------------------------------------------------------------ *)

(* one entry per member name: an entry whose name was seen before is dropped (the oracle's go) *)
Fixpoint dedup_go (f : ojson -> ojson) (seen : list bytes) (ms : list (bytes * ojson))
  : list (bytes * ojson) :=
  match ms with
  | [] => []
  | (k, v) :: r => if kmem k seen then dedup_go f seen r else (k, f v) :: dedup_go f (k :: seen) r
  end.

(* hereditarily (mirror of dedup_o in /verif/oracle/oracle.ml) *)
Fixpoint dedup (j : ojson) : ojson :=
  match j with
  | OArr l => OArr (map dedup l)
  | OObj ms =>
      OObj ((fix go (seen : list bytes) (ms : list (bytes * ojson)) {struct ms} : list (bytes * ojson) :=
               match ms with
               | [] => []
               | (k, v) :: r => if kmem k seen then go seen r else (k, dedup v) :: go (k :: seen) r
               end) [] ms)
  | _ => j
  end.

Lemma dedup_obj ms : dedup (OObj ms) = OObj (dedup_go dedup [] ms).
Proof.
  cbn [dedup]. f_equal. generalize (@nil bytes) as seen.
  induction ms as [|[k v] ms IH]; intro seen; cbn [dedup_go]; auto.
  destruct (kmem k seen); [apply IH | f_equal; apply IH].
Qed.

Lemma dedup_arr l : dedup (OArr l) = OArr (map dedup l).
Proof. reflexivity. Qed.

(* ---- what dedup_go keeps ---- *)
Lemma aget_dedup_go f k : forall ms seen,
  aget k (dedup_go f seen ms) = if kmem k seen then None else option_map f (aget k ms).
Proof.
  induction ms as [|[k' v] ms IH]; intro seen; cbn [dedup_go aget].
  - destruct (kmem k seen); reflexivity.
  - destruct (kmem k' seen) eqn:M.
    + rewrite IH. destruct (kmem k seen) eqn:Mk; auto.
      destruct (bseq k k') eqn:E; auto. apply bseq_eq in E. subst. congruence.
    + cbn [aget]. destruct (bseq k k') eqn:E.
      * apply bseq_eq in E. subst. rewrite M. reflexivity.
      * rewrite IH. cbn [kmem]. rewrite E. reflexivity.
Qed.

Lemma keys_dedup_go f k : forall ms seen,
  In k (map fst (dedup_go f seen ms)) <-> In k (map fst ms) /\ ~ In k seen.
Proof.
  induction ms as [|[k' v] ms IH]; intro seen; cbn [dedup_go map fst In].
  - tauto.
  - destruct (kmem k' seen) eqn:M.
    + rewrite IH. apply kmem_In in M. split; [tauto|]. intros [[E|H] N]; [subst; contradiction | tauto].
    + apply kmem_false_In in M. cbn [map fst In]. rewrite IH. cbn [In]. split.
      * intros [E|[H N]]; [subst; tauto | tauto].
      * intros [[E|H] N]; [tauto|]. destruct (bseq k' k) eqn:B; [apply bseq_eq in B; tauto|].
        apply bseq_neq in B. right. split; auto. intros [E|H']; auto.
Qed.

Lemma NoDup_dedup_go f : forall ms seen, NoDup (map fst (dedup_go f seen ms)).
Proof.
  induction ms as [|[k v] ms IH]; intro seen; cbn [dedup_go].
  - constructor.
  - destruct (kmem k seen); [apply IH|]. cbn [map fst]. constructor; [|apply IH].
    intro H. apply keys_dedup_go in H as [_ H]. apply H. now left.
Qed.

Lemma dedup_go_members f : forall ms seen kv,
  In kv (dedup_go f seen ms) -> exists v, In (fst kv, v) ms /\ snd kv = f v.
Proof.
  induction ms as [|[k v] ms IH]; intros seen kv; cbn [dedup_go]; [intros []|].
  destruct (kmem k seen).
  - intro H. destruct (IH _ _ H) as [v' [H1 H2]]. exists v'. split; [right|]; auto.
  - intros [E|H].
    + subst kv. exists v. split; [left|]; auto.
    + destruct (IH _ _ H) as [v' [H1 H2]]. exists v'. split; [right|]; auto.
Qed.

(* nothing to drop when the names are distinct *)
Lemma dedup_go_nodup f : forall ms seen,
  NoDup (map fst ms) -> (forall k, In k (map fst ms) -> ~ In k seen) ->
  dedup_go f seen ms = map (fun kv => (fst kv, f (snd kv))) ms.
Proof.
  induction ms as [|[k v] ms IH]; intros seen N D; cbn [dedup_go map]; auto.
  inversion N as [|? ? N1 N2]; subst.
  replace (kmem k seen) with false
    by (symmetry; apply kmem_false_In; apply D; now left).
  cbn [fst snd]. f_equal. apply IH; auto.
  intros k' H [E|H']; [subst; contradiction|]. apply (D k'); [now right | exact H'].
Qed.

(* ---- the result of dedup has no repeated names; dedup is the identity on such values ---- *)
Theorem dedup_onodup j : onodup (dedup j) = true.
Proof.
  induction j as [| | | |l IH|ms IH] using ojson_rect'; try reflexivity.
  - rewrite dedup_arr. apply onodup_arr. rewrite Forall_map. exact IH.
  - rewrite dedup_obj. apply onodup_obj. split; [apply NoDup_dedup_go|].
    apply Forall_forall. intros kv H. apply dedup_go_members in H as [v [H1 H2]]. rewrite H2.
    rewrite Forall_forall in IH. apply (IH _ H1).
Qed.

Theorem dedup_id j : onodup j = true -> dedup j = j.
Proof.
  induction j as [| | | |l IH|ms IH] using ojson_rect'; intro N; try reflexivity.
  - rewrite dedup_arr. f_equal. apply onodup_arr in N.
    induction l as [|x l IHl]; auto. inversion IH; inversion N; subst. cbn [map]. f_equal; auto.
  - rewrite dedup_obj. f_equal. apply onodup_obj in N as [N1 N2].
    rewrite dedup_go_nodup by (auto; intros ? ? []).
    clear N1. induction ms as [|[k v] ms IHm]; auto. inversion IH; inversion N2; subst.
    cbn [map fst snd] in *. f_equal; [f_equal|]; auto.
Qed.

Corollary dedup_idem j : dedup (dedup j) = dedup j.
Proof. apply dedup_id. apply dedup_onodup. Qed.

Corollary dedup_den_nodup t : tnodup t = true -> dedup (den t) = den t.
Proof. apply dedup_id. Qed.

Lemma onull_dedup j : onull (dedup j) = onull j.
Proof. destruct j; reflexivity. Qed.

(* ------------------------------------------------------------------------------------------ *)
(* 2. den gives every occurrence of a repeated name the LAST value                             *)
(* ------------------------------------------------------------------------------------------ *)

(* the last value given for a name *)
Fixpoint glast {A} (k : bytes) (m : list (bytes * A)) : option A :=
  match m with
  | [] => None
  | (k', v) :: r =>
      match glast k r with
      | Some x => Some x
      | None => if bseq k k' then Some v else None
      end
  end.

Lemma alast_glast {A} k : forall (m : list (bytes * A)) d,
  alast k m d = match glast k m with Some x => x | None => d end.
Proof.
  induction m as [|[k' v] m IH]; intro d; cbn [alast glast]; auto.
  rewrite IH. destruct (glast k m); auto. destruct (bseq k k'); auto.
Qed.

Lemma glast_None {A} k (m : list (bytes * A)) : glast k m = None <-> ~ In k (map fst m).
Proof.
  induction m as [|[k' v] m IH]; cbn [glast map fst In]; [tauto|].
  destruct (glast k m) eqn:G.
  - split; [discriminate|]. intro H. exfalso. destruct IH as [_ IH].
    assert (H0 : ~ In k (map fst m)) by tauto. specialize (IH H0). discriminate.
  - destruct (bseq k k') eqn:E.
    + apply bseq_eq in E. subst. split; [discriminate | intro H; exfalso; auto].
    + apply bseq_neq in E. split; [intros _ [H|H]; [congruence | tauto] | reflexivity].
Qed.

Lemma glast_In {A} k (m : list (bytes * A)) v : glast k m = Some v -> In (k, v) m.
Proof.
  induction m as [|[k' v'] m IH]; cbn [glast]; [discriminate|].
  destruct (glast k m) eqn:G.
  - intro H. right. apply IH. exact H.
  - destruct (bseq k k') eqn:E; [|discriminate]. apply bseq_eq in E. subst. intro H. inversion H. now left.
Qed.

Lemma glast_map {A B} (g : A -> B) k (m : list (bytes * A)) :
  glast k (map (fun kv => (fst kv, g (snd kv))) m) = option_map g (glast k m).
Proof.
  induction m as [|[k' v] m IH]; cbn [glast map fst snd]; auto.
  rewrite IH. destruct (glast k m); cbn [option_map]; auto. destruct (bseq k k'); auto.
Qed.

(* looking a name up in resolve_dups m finds the last value given for it *)
Lemma aget_resolve_dups {A} k (m : list (bytes * A)) : aget k (resolve_dups m) = glast k m.
Proof.
  unfold resolve_dups.
  assert (G : forall l, aget k (map (fun kv => (fst kv, alast (fst kv) m (snd kv))) l) =
                        match aget k l with Some v => Some (alast k m v) | None => None end).
  { induction l as [|[k' v] l IH]; cbn [map aget fst snd]; auto.
    destruct (bseq k k') eqn:E; auto. apply bseq_eq in E. subst. reflexivity. }
  rewrite G. destruct (aget k m) as [v|] eqn:E.
  - rewrite alast_glast. destruct (glast k m) eqn:L; auto.
    apply glast_None in L. apply aget_In_fst in E. contradiction.
  - symmetry. apply glast_None. apply aget_None_notin. exact E.
Qed.

(* every occurrence of a name carries the last value given for it *)
Lemma resolve_dups_last {A} (m : list (bytes * A)) k v :
  In (k, v) (resolve_dups m) -> glast k m = Some v.
Proof.
  unfold resolve_dups. intro H. apply in_map_iff in H as [[k' v'] [E H]]. cbn [fst snd] in E.
  inversion E; subst. rewrite alast_glast. destruct (glast k m) eqn:L; auto.
  apply glast_None in L. exfalso. apply L. apply in_map_iff. exists (k, v'). auto.
Qed.

Lemma keys_resolve_dups {A} (m : list (bytes * A)) : map fst (resolve_dups m) = map fst m.
Proof. unfold resolve_dups. rewrite map_map. reflexivity. Qed.

(* names decoded, values as spelled *)
Definition ukeys (ms : list (bytes * tjson)) : list (bytes * tjson) :=
  map (fun kv => (unquote (fst kv), snd kv)) ms.

Lemma den_members_ukeys ms : den_members ms = map (fun kv => (fst kv, den (snd kv))) (ukeys ms).
Proof. unfold den_members, ukeys. rewrite map_map. reflexivity. Qed.

(* den of an object text: every member (k, v) of the value has the value of the LAST member of the
   text whose decoded name is k *)
Theorem den_last_value ms k v :
  In (k, v) (match den (TObj ms) with OObj l => l | _ => [] end) ->
  exists t, glast k (ukeys ms) = Some t /\ v = den t.
Proof.
  cbn [den]. fold (den_members ms). intro H. apply resolve_dups_last in H.
  rewrite den_members_ukeys, glast_map in H. destruct (glast k (ukeys ms)) as [t|]; [|discriminate].
  exists t. inversion H. auto.
Qed.

(* the deduplicated value of an object text, by lookups: one member per name, holding the
   deduplicated value of the last member of that name *)
Definition dmembers (ms : list (bytes * tjson)) : list (bytes * ojson) :=
  dedup_go dedup [] (resolve_dups (den_members ms)).

Lemma dedup_den_obj ms : dedup (den (TObj ms)) = OObj (dmembers ms).
Proof. cbn [den]. fold (den_members ms). apply dedup_obj. Qed.

Lemma aget_dmembers k ms :
  aget k (dmembers ms) = option_map (fun t => dedup (den t)) (glast k (ukeys ms)).
Proof.
  unfold dmembers. rewrite aget_dedup_go. cbn [kmem]. rewrite aget_resolve_dups.
  rewrite den_members_ukeys, glast_map. destruct (glast k (ukeys ms)); reflexivity.
Qed.

Lemma NoDup_dmembers ms : NoDup (map fst (dmembers ms)).
Proof. apply NoDup_dedup_go. Qed.

(* ------------------------------------------------------------------------------------------ *)
(* 3. the Go map built from an object text                                                     *)
(* ------------------------------------------------------------------------------------------ *)

Lemma aget_build_obj k : forall ms acc,
  aget k (build_obj ms acc) =
  match glast k (ukeys ms) with Some t => Some (child t) | None => aget k acc end.
Proof.
  induction ms as [|[k' v] ms IH]; intro acc; cbn [build_obj ukeys map glast fst snd]; auto.
  rewrite IH. fold (ukeys ms). destruct (glast k (ukeys ms)); auto.
  destruct (bseq k (unquote k')) eqn:E.
  - apply bseq_eq in E. subst. apply aget_aset_same.
  - apply aget_aset_other. exact E.
Qed.

Lemma NoDup_build_obj : forall ms acc, NoDup (map fst acc) -> NoDup (map fst (build_obj ms acc)).
Proof.
  induction ms as [|[k v] ms IH]; intros acc N; cbn [build_obj]; auto.
  apply IH. apply NoDup_keys_aset. exact N.
Qed.

Lemma aget_build_obj_nil k ms : aget k (build_obj ms []) = option_map child (glast k (ukeys ms)).
Proof. rewrite aget_build_obj. destruct (glast k (ukeys ms)); reflexivity. Qed.

(* two association lists with distinct names and the same names have the same length *)
Lemma same_keys_length {A B} (m : list (bytes * A)) (m' : list (bytes * B)) :
  NoDup (map fst m) -> NoDup (map fst m') ->
  (forall k, aget k m = None <-> aget k m' = None) -> length m = length m'.
Proof.
  intros N N' H. rewrite <- (map_length fst m), <- (map_length fst m').
  apply Nat.le_antisymm; apply NoDup_incl_length; auto; intros k Hk.
  - destruct (aget k m') eqn:E; [eapply aget_In_fst; eauto|]. apply H in E. apply aget_None_notin in E. contradiction.
  - destruct (aget k m) eqn:E; [eapply aget_In_fst; eauto|]. apply H in E. apply aget_None_notin in E. contradiction.
Qed.

Lemma length_dmembers ms : length (dmembers ms) = length (build_obj ms []).
Proof.
  apply same_keys_length.
  - apply NoDup_dmembers.
  - apply NoDup_build_obj. constructor.
  - intro k. rewrite aget_dmembers, aget_build_obj_nil. destruct (glast k (ukeys ms)); cbn [option_map]; split; auto; discriminate.
Qed.

(* ------------------------------------------------------------------------------------------ *)
(* 4. equal on nodes in any parse state, raw parts with or without repeated names              *)
(* ------------------------------------------------------------------------------------------ *)

(* the representation invariant of Abs.nwf WITHOUT the demand on raw parts *)
Fixpoint nwfd (n : node) : Prop :=
  match n with
  | NNil => True
  | NRaw t => True
  | NDoc keys obj =>
      keys_agree keys obj /\
      (fix all (m : list (bytes * node)) : Prop :=
         match m with [] => True | kv :: r => nwfd (snd kv) /\ all r end) obj
  | NAry ns =>
      (fix all (l : list node) : Prop := match l with [] => True | x :: r => nwfd x /\ all r end) ns
  end.

Lemma nwfd_doc keys obj : nwfd (NDoc keys obj) <-> keys_agree keys obj /\ Forall (fun kv => nwfd (snd kv)) obj.
Proof.
  cbn [nwfd]. split; intros [H1 H2]; (split; [exact H1|]); clear H1.
  - induction obj as [|kv obj IH]; constructor; destruct H2; auto.
  - induction obj as [|kv obj IH]; [exact I|]. inversion H2 as [|? ? Ha Hb]; subst. split; [exact Ha | apply IH; exact Hb].
Qed.

Lemma nwfd_ary ns : nwfd (NAry ns) <-> Forall nwfd ns.
Proof.
  cbn [nwfd]. split; intro H.
  - induction ns as [|x ns IH]; constructor; destruct H; auto.
  - induction ns as [|x ns IH]; [exact I|]. inversion H as [|? ? Ha Hb]; subst. split; [exact Ha | apply IH; exact Hb].
Qed.
Arguments nwfd : simpl never.

Lemma nwfd_raw t : nwfd (NRaw t). Proof. exact I. Qed.
Lemma nwfd_child t : nwfd (child t). Proof. destruct t; exact I. Qed.

(* the old invariant is the special case *)
Lemma nwf_nwfd n : nwf n -> nwfd n.
Proof.
  induction n as [|t|keys obj IH|ns IH] using node_rect'; intro W; try exact I.
  - apply nwf_doc in W as [Ag W]. apply nwfd_doc. split; auto.
    rewrite Forall_forall in *. intros kv H. apply IH; auto.
  - apply nwf_ary in W. apply nwfd_ary. rewrite Forall_forall in *. intros x H. apply IH; auto.
Qed.

(* the deduplicated value of a node *)
Definition dval (n : node) : ojson := dedup (aval n).

Lemma dval_child t : dval (child t) = dedup (den t).
Proof. unfold dval. now rewrite aval_child. Qed.

Inductive shape_okd : node -> shape -> Prop :=
| DShLeaf n t : dval n = den t -> (match t with TObj _ | TArr _ | TNull => False | _ => True end) -> tlit t = true ->
                shape_okd n (SLeaf t)
| DShDoc n m ms : dval n = OObj ms -> NoDup (map fst m) -> NoDup (map fst ms) -> length ms = length m ->
                  (forall k, aget k ms = option_map dval (aget k m)) ->
                  (forall k v, In (k, v) m -> nwfd v /\ nlit v /\ (nsize v < nsize n)%nat) ->
                  shape_okd n (SDoc m)
| DShAry n l : dval n = OArr (map dval l) ->
               (forall v, In v l -> nwfd v /\ nlit v /\ (nsize v < nsize n)%nat) ->
               shape_okd n (SAry l).

Lemma fold_tsize_ukeys ms k t :
  In (k, t) (ukeys ms) -> (tsize t <= fold_right (fun x a => tsize (snd x) + a) 0 ms)%nat.
Proof.
  unfold ukeys. intro H. apply in_map_iff in H as [[k0 t0] [E H]]. cbn [fst snd] in E.
  injection E as E1 E2. rewrite <- E2. apply (fold_tsize_in ms (k0, t0) H).
Qed.

Lemma tlit_ukeys ms k t : forallb (fun kv => tlit (snd kv)) ms = true -> In (k, t) (ukeys ms) -> tlit t = true.
Proof.
  unfold ukeys. intros L H. apply in_map_iff in H as [[k0 t0] [E H]]. cbn [fst snd] in E.
  injection E as E1 E2. rewrite <- E2. rewrite forallb_forall in L. apply (L (k0, t0) H).
Qed.

Lemma shape_of_okd n : nwfd n -> nlit n -> is_null n = false -> shape_okd n (shape_of n).
Proof.
  intros W L NN. destruct n as [|t|keys obj|ns]; try discriminate.
  - unfold nlit in L. destruct t; try discriminate; cbn [shape_of].
    + apply DShLeaf; auto.
    + apply DShLeaf; auto.
    + apply DShLeaf; auto.
    + apply DShLeaf; auto.
    + (* raw array *)
      apply DShAry.
      * unfold dval. cbn [aval den]. rewrite dedup_arr. f_equal. rewrite !map_map. apply map_ext.
        intro t. symmetry. apply dval_child.
      * intros v Hin. apply in_map_iff in Hin as [t [<- Hin]].
        split; [apply nwfd_child|]. split.
        -- apply nlit_child. cbn [tlit] in L. rewrite forallb_forall in L. auto.
        -- rewrite nsize_child. cbn [nsize tsize]. pose proof (fold_tsize_in_l l t Hin). lia.
    + (* raw object, repeated names allowed *)
      unfold doc_of. cbn [snd]. apply DShDoc with (ms := dmembers ms).
      * unfold dval. cbn [aval]. apply dedup_den_obj.
      * apply NoDup_build_obj. constructor.
      * apply NoDup_dmembers.
      * apply length_dmembers.
      * intro k. rewrite aget_dmembers, aget_build_obj_nil.
        destruct (glast k (ukeys ms)); cbn [option_map]; auto. now rewrite dval_child.
      * intros k v Hin.
        apply In_aget_nodup in Hin; [|apply NoDup_build_obj; constructor].
        rewrite aget_build_obj_nil in Hin. destruct (glast k (ukeys ms)) as [t|] eqn:G; [|discriminate].
        cbn [option_map] in Hin. inversion Hin; subst v. apply glast_In in G.
        split; [apply nwfd_child|]. split.
        -- apply nlit_child. cbn [tlit] in L. apply (tlit_ukeys ms k t L G).
        -- rewrite nsize_child. cbn [nsize tsize]. pose proof (fold_tsize_ukeys ms k t G). lia.
  - apply nwfd_doc in W as [Ag W]. apply nlit_doc in L. cbn [shape_of].
    assert (Nk : NoDup (map fst (abs_members keys obj))).
    { unfold abs_members. rewrite map_map. cbn [fst]. rewrite map_id. destruct Ag as [Nk _]. exact Nk. }
    apply DShDoc with (ms := map (fun kv => (fst kv, dedup (snd kv))) (abs_members keys obj)).
    + unfold dval. rewrite aval_doc, dedup_obj. f_equal. apply dedup_go_nodup; [exact Nk | intros ? ? []].
    + destruct Ag as [_ [No _]]. exact No.
    + rewrite map_map. cbn [fst]. exact Nk.
    + rewrite map_length. unfold abs_members. rewrite map_length. apply length_keys_obj. exact Ag.
    + intro k. pose proof (aget_abs_members_agree keys obj k Ag) as G.
      assert (M : forall (m : list (bytes * ojson)), aget k (map (fun kv => (fst kv, dedup (snd kv))) m) = option_map dedup (aget k m)).
      { induction m as [|[k' x] m IHm]; cbn [map aget fst snd option_map]; auto. destruct (bseq k k'); auto. }
      rewrite M, G. destruct (aget k obj); reflexivity.
    + intros k v Hin. rewrite Forall_forall in W, L. split; [apply (W _ Hin)|]. split; [apply (L _ Hin)|].
      cbn [nsize]. pose proof (fold_nsize_in obj (k, v) Hin). cbn [snd] in *. lia.
  - apply nwfd_ary in W. apply nlit_ary in L. cbn [shape_of]. apply DShAry.
    + unfold dval. cbn [aval]. rewrite dedup_arr, map_map. reflexivity.
    + intros v Hin. rewrite Forall_forall in W, L. split; [apply (W _ Hin)|]. split; [apply (L _ Hin)|].
      cbn [nsize]. pose proof (fold_nsize_in_l ns v Hin). lia.
Qed.

Lemma is_null_dval n : is_null n = onull (dval n).
Proof. unfold dval. rewrite onull_dedup. apply is_null_onull. Qed.

(* the model's equal, on nodes whose raw parts may repeat member names, is structural equality of
   the deduplicated values *)
Theorem equal_dspec : forall fuel n o,
  (nsize n + nsize o <= fuel)%nat -> nwfd n -> nlit n -> nwfd o -> nlit o ->
  equal fuel n o = jeq (dval n) (dval o).
Proof.
  induction fuel as [|f IH]; intros n o Hf Wn Ln Wo Lo.
  { destruct n; cbn [nsize] in Hf; try lia; pose proof (tsize_pos t); lia. }
  rewrite equal_unfold.
  rewrite (is_null_dval n), (is_null_dval o).
  destruct (onull (dval n)) eqn:Nn.
  { destruct (dval n); try discriminate. cbn [orb andb]. symmetry. apply jeq_null_l. }
  destruct (onull (dval o)) eqn:No.
  { destruct (dval o); try discriminate. cbn [orb andb]. rewrite jeq_null_r. symmetry. exact Nn. }
  cbn [orb].
  assert (NNn : is_null n = false) by (rewrite is_null_dval; exact Nn).
  assert (NNo : is_null o = false) by (rewrite is_null_dval; exact No).
  pose proof (shape_of_okd n Wn Ln NNn) as Sn. pose proof (shape_of_okd o Wo Lo NNo) as So.
  inversion Sn as [n1 a Ea Ha La Eq1|n1 m ms Ea Nm Nms Lm Gm Cm Eq1|n1 l Ea Cl Eq1]; subst n1;
    inversion So as [o1 b Eb Hb Lb Eq2|o1 m' ms' Eb Nm' Nms' Lm' Gm' Cm' Eq2|o1 l' Eb Cl' Eq2]; subst o1;
    rewrite Ea, Eb.
  - apply leaf_equal_spec; split; auto.
  - destruct a; try contradiction; reflexivity.
  - destruct a; try contradiction; reflexivity.
  - destruct b; try contradiction; reflexivity.
  - (* two objects *)
    apply Bool.eq_true_iff_eq. rewrite andb_true_iff, Nat.eqb_eq, forallb_members_iff.
    rewrite (jeq_obj_char ms ms' Nms Nms').
    assert (IHc : forall k v ov, In (k, v) m -> In (k, ov) m' -> equal f v ov = jeq (dval v) (dval ov)).
    { intros k v ov H1 H2. destruct (Cm _ _ H1) as [W1 [L1 S1]]. destruct (Cm' _ _ H2) as [W2 [L2 S2]].
      apply IH; auto. lia. }
    split.
    + intros [Hlen Hall] k. rewrite Gm, Gm'. unfold lookup_rel.
      destruct (aget k m) as [v|] eqn:G1; cbn [option_map].
      * apply aget_In in G1. specialize (Hall (k, v) G1). cbn [fst snd] in Hall.
        destruct (aget k m') as [ov|] eqn:G2; try discriminate. cbn [option_map].
        rewrite <- (IHc k v ov); auto. apply aget_In; auto.
      * destruct (aget k m') as [ov|] eqn:G2; cbn [option_map]; auto.
        assert (Incl : incl (map fst m) (map fst m')).
        { intros k' Hk. apply in_map_iff in Hk as [[k2 v2] [E Hin]]. cbn [fst] in E; subst.
          specialize (Hall _ Hin). cbn [fst snd] in Hall. destruct (aget k' m') eqn:G; try discriminate.
          eapply aget_In_fst; eauto. }
        assert (Incl' : incl (map fst m') (map fst m)).
        { apply NoDup_length_incl; auto. rewrite !map_length. lia. }
        apply aget_In_fst in G2. apply Incl' in G2. apply aget_None_notin in G1. contradiction.
    + intro HR.
      assert (Incl : incl (map fst m) (map fst m')).
      { intros k Hk. apply aget_Some_in in Hk as [v Hv]. specialize (HR k). rewrite Gm, Gm', Hv in HR.
        unfold lookup_rel in HR. destruct (aget k m') eqn:G; try contradiction. eapply aget_In_fst; eauto. }
      assert (Incl' : incl (map fst m') (map fst m)).
      { intros k Hk. apply aget_Some_in in Hk as [v Hv]. specialize (HR k). rewrite Gm, Gm', Hv in HR.
        unfold lookup_rel in HR. destruct (aget k m) eqn:G; try contradiction. eapply aget_In_fst; eauto. }
      split.
      * apply Nat.le_antisymm; rewrite <- (map_length fst m), <- (map_length fst m'); apply NoDup_incl_length; auto.
      * intros [k v] Hin. cbn [fst snd]. pose proof (In_aget_nodup k v m Nm Hin) as G1.
        specialize (HR k). rewrite Gm, Gm', G1 in HR. unfold lookup_rel in HR.
        destruct (aget k m') as [ov|] eqn:G2; try contradiction. cbn [option_map] in HR.
        rewrite (IHc k v ov); auto. apply aget_In; auto.
  - reflexivity.
  - destruct b; try contradiction; reflexivity.
  - reflexivity.
  - (* two arrays *)
    rewrite jeq_arr.
    assert (IHc : forall v ov, In v l -> In ov l' -> equal f v ov = jeq (dval v) (dval ov)).
    { intros v ov H1 H2. destruct (Cl _ H1) as [W1 [L1 S1]]. destruct (Cl' _ H2) as [W2 [L2 S2]].
      apply IH; auto. lia. }
    clear - IHc. revert l' IHc. induction l as [|x l IHl]; intros [|y l'] IHc; cbn [length Nat.eqb ary_go map jeq_list andb]; auto.
    rewrite (IHc x y) by (now left).
    destruct (jeq (dval x) (dval y)); cbn [andb].
    + rewrite <- IHl by (intros; apply IHc; now right). reflexivity.
    + now rewrite andb_false_r.
Qed.

Theorem node_equal_dspec n o :
  nwfd n -> nlit n -> nwfd o -> nlit o -> node_equal n o = jeq (dedup (aval n)) (dedup (aval o)).
Proof. intros. unfold node_equal. apply equal_dspec; auto. Qed.

(* ------------------------------------------------------------------------------------------ *)
(* 5. Equal on texts: no hypothesis about repeated names                                       *)
(* ------------------------------------------------------------------------------------------ *)

(* the value a text denotes for Equal: what decoding into Go maps holds *)
Definition dden (t : tjson) : ojson := dedup (den t).

Theorem api_equal_dedup a b ta tb :
  parse a = Some ta -> parse b = Some tb -> api_equal a b = jeq (dedup (den ta)) (dedup (den tb)).
Proof.
  intros Pa Pb. unfold api_equal. rewrite Pa, Pb.
  apply (node_equal_dspec (NRaw ta) (NRaw tb)).
  - apply nwfd_raw.
  - exact (parse_tlit a ta Pa).
  - apply nwfd_raw.
  - exact (parse_tlit b tb Pb).
Qed.

(* the shape of C06_equal_spec, without its two tnodup hypotheses *)
Theorem equal_spec_dedup a b :
  api_equal a b = true <->
  exists ta tb, parse a = Some ta /\ parse b = Some tb /\ jeq (dedup (den ta)) (dedup (den tb)) = true.
Proof.
  destruct (parse a) as [ta|] eqn:Pa.
  - destruct (parse b) as [tb|] eqn:Pb.
    + rewrite (api_equal_dedup a b ta tb Pa Pb). split.
      * intro H. exists ta, tb. auto.
      * intros [ta' [tb' [E1 [E2 H]]]]. inversion E1; inversion E2; subst. exact H.
    + unfold api_equal. rewrite Pa, Pb. split; [discriminate | intros [? [? [_ [H _]]]]; discriminate].
  - unfold api_equal. rewrite Pa. split; [discriminate | intros [? [? [H _]]]; discriminate].
Qed.

(* on texts without repeated names this is the old statement *)
Corollary api_equal_nodup a b ta tb :
  parse a = Some ta -> parse b = Some tb -> tnodup ta = true -> tnodup tb = true ->
  api_equal a b = jeq (den ta) (den tb).
Proof.
  intros Pa Pb Na Nb. rewrite (api_equal_dedup a b ta tb Pa Pb).
  now rewrite (dedup_den_nodup ta Na), (dedup_den_nodup tb Nb).
Qed.

(* ---- jeq on deduplicated values is an equivalence relation ---- *)
Theorem jeq_dedup_refl x : jeq (dedup x) (dedup x) = true.
Proof. apply jeq_refl. apply dedup_onodup. Qed.

Theorem jeq_dedup_sym x y : jeq (dedup x) (dedup y) = jeq (dedup y) (dedup x).
Proof. apply Bool.eq_true_iff_eq. split; apply jeq_sym; apply dedup_onodup. Qed.

Theorem jeq_dedup_trans x y z :
  jeq (dedup x) (dedup y) = true -> jeq (dedup y) (dedup z) = true -> jeq (dedup x) (dedup z) = true.
Proof. apply jeq_trans; apply dedup_onodup. Qed.

(* ---- reflexive, symmetric, transitive on ALL well-formed texts ---- *)
Theorem equal_reflexive_all a ta : parse a = Some ta -> api_equal a a = true.
Proof. intro P. rewrite (api_equal_dedup a a ta ta P P). apply jeq_dedup_refl. Qed.

(* symmetric on all byte strings: ill-formed on either side gives false both ways *)
Theorem equal_symmetric_all a b : api_equal a b = api_equal b a.
Proof.
  destruct (parse a) as [ta|] eqn:Pa; destruct (parse b) as [tb|] eqn:Pb.
  - rewrite (api_equal_dedup a b ta tb Pa Pb), (api_equal_dedup b a tb ta Pb Pa). apply jeq_dedup_sym.
  - unfold api_equal. now rewrite Pa, Pb.
  - unfold api_equal. now rewrite Pa, Pb.
  - unfold api_equal. now rewrite Pa, Pb.
Qed.

(* transitive on all byte strings: a true result says both arguments are well-formed *)
Theorem equal_transitive_all a b c : api_equal a b = true -> api_equal b c = true -> api_equal a c = true.
Proof.
  intros H1 H2.
  apply equal_spec_dedup in H1 as [ta [tb [Pa [Pb H1]]]].
  apply equal_spec_dedup in H2 as [tb' [tc [Pb' [Pc H2]]]].
  rewrite Pb in Pb'. inversion Pb'; subst tb'.
  rewrite (api_equal_dedup a c ta tc Pa Pc). exact (jeq_dedup_trans _ _ _ H1 H2).
Qed.

(* in the argument shape of C06_reflexive / C06_symmetric / C06_transitive, tnodup dropped *)
Corollary C06_symmetric_all a b ta tb :
  parse a = Some ta -> parse b = Some tb -> api_equal a b = api_equal b a.
Proof. intros _ _. apply equal_symmetric_all. Qed.

Corollary C06_transitive_all a b c ta tb tc :
  parse a = Some ta -> parse b = Some tb -> parse c = Some tc ->
  api_equal a b = true -> api_equal b c = true -> api_equal a c = true.
Proof. intros _ _ _. apply equal_transitive_all. Qed.

(* null: a text is Equal to the text null exactly when it denotes null, repeated names or not *)
Theorem equal_null_only_null x : jeq ONull (dedup x) = true <-> x = ONull.
Proof. destruct x; cbn; split; intro H; try discriminate; auto. Qed.

(* ---- the old node theorem is the special case ---- *)
Lemma nwf_onodup n : nwf n -> onodup (aval n) = true.
Proof.
  induction n as [|t|keys obj IH|ns IH] using node_rect'; intro W.
  - reflexivity.
  - exact W.
  - apply nwf_doc in W as [Ag W]. rewrite aval_doc. apply onodup_obj. split.
    + unfold abs_members. rewrite map_map. cbn [fst]. rewrite map_id. destruct Ag as [Nk _]. exact Nk.
    + unfold abs_members. rewrite Forall_map. apply Forall_forall. intros k Hk. cbn [snd].
      destruct (aget k obj) as [v|] eqn:G; cbn [option_map or_null]; [|reflexivity].
      apply aget_In in G. rewrite Forall_forall in IH, W. apply (IH _ G). apply (W _ G).
  - apply nwf_ary in W. cbn [aval]. apply onodup_arr. rewrite Forall_map.
    rewrite Forall_forall in *. intros x H. apply IH; auto.
Qed.

Corollary node_equal_spec_again n o :
  nwf n -> nlit n -> nwf o -> nlit o -> node_equal n o = jeq (aval n) (aval o).
Proof.
  intros Wn Ln Wo Lo. rewrite node_equal_dspec by (auto using nwf_nwfd).
  now rewrite (dedup_id _ (nwf_onodup n Wn)), (dedup_id _ (nwf_onodup o Wo)).
Qed.

(* ---- non-vacuity: texts with repeated names ---- *)
(* last value wins; one member per name; hereditarily; reflexive on a text with a repeated name *)
Example equal_dup_examples :
  api_equal (B "{""a"":1,""a"":2}") (B "{""a"":2}") = true /\
  api_equal (B "{""a"":2}") (B "{""a"":1,""a"":2}") = true /\
  api_equal (B "{""a"":1,""a"":2}") (B "{""a"":1}") = false /\
  api_equal (B "{""a"":1,""a"":2}") (B "{""a"":1,""a"":2}") = true /\
  api_equal (B "{""a"":1,""b"":3,""a"":2}") (B "{""b"":3,""a"":2}") = true /\
  api_equal (B "[{""x"":{""k"":null,""k"":[1]},""x"":{""k"":0,""k"":[2]}}]") (B "[{""x"":{""k"":[2]}}]") = true /\
  api_equal (B "{""a"":1,""a"":null}") (B "{""a"":null}") = true /\
  api_equal (B "{""a"":1,""a"":null}") (B "{}") = false.
Proof. vm_compute. repeat split; reflexivity. Qed.

(* why dedup is needed in the statement: jeq on den itself (the repetition still in it) is NOT what
   Equal computes on these two texts *)
Example jeq_den_differs :
  match parse (B "{""a"":1,""a"":2}"), parse (B "{""a"":2}") with
  | Some ta, Some tb =>
      jeq (den ta) (den tb) = false /\ jeq (dedup (den ta)) (dedup (den tb)) = true /\
      dedup (den ta) = den tb
  | _, _ => False
  end.
Proof. vm_compute. repeat split; reflexivity. Qed.

Print Assumptions dedup_onodup.
Print Assumptions dedup_id.
Print Assumptions den_last_value.
Print Assumptions aget_dmembers.
Print Assumptions equal_dspec.
Print Assumptions node_equal_dspec.
Print Assumptions api_equal_dedup.
Print Assumptions equal_spec_dedup.
Print Assumptions api_equal_nodup.
Print Assumptions jeq_dedup_refl.
Print Assumptions jeq_dedup_sym.
Print Assumptions jeq_dedup_trans.
Print Assumptions equal_reflexive_all.
Print Assumptions equal_symmetric_all.
Print Assumptions equal_transitive_all.
Print Assumptions equal_null_only_null.
Print Assumptions node_equal_spec_again.
Print Assumptions equal_dup_examples.
