(* V4OutputFacts.v — C18: the output BYTES of the legacy Apply / ApplyIndent (ImplV4.api_apply4) are a
   well-formed JSON text that the independent reader Text.parse reads back as the intended value.
   Legacy counterpart of OutputFacts.v sections 4-7 (and of its section 11 for the legacy merge).

   1  the invariant: every raw message held by the legacy state is made of tokens the reader accepts
      (OutputFacts.ntok = nall tok).  It holds of every parsed document and of every value of a
      decoded patch, and is kept by con4_*, walk4, find4, step4, apply4_from for ARBITRARY
      operations, paths and package variables (step4_ntok, apply4_from_ntok).  deepCopy re-encodes
      with sorted names and HTML escaping: tok_render4 + tok_escape.
   2  the tree the legacy Apply encodes (result4_tree) and the general output theorem
      (api_apply4_output_general): every parsed document, every patch whose values are tokens.
      The nesting of the result is the one hypothesis (an add / copy can nest the result deeper than
      the reader accepts).
   3  in the domain of the simulation (V4ApplySim.api_apply4_sim): the bytes parse to a value equal,
      up to member order, to the RFC 6902 result (api_apply4_output_bytes, api_apply4_output_rfc). *)
From Coq Require Import Lia.
From JP Require Import Bytes Json Text Strings Den Pointer Rfc6902 ImplV5 ImplMerge ImplV4 DecodeFacts JsonFacts Abs
                       EqualFacts ParseFacts ImplFacts RefFacts ApplyFacts Codec StrInv PrintParse Depth ApplySim Domain
                       Totality OutputFacts Scan ScannerParse ScanFacts V4MergeFacts V4ApplySim.

(* ================================================================================================ *)
(* 1. the invariant on raw messages, for arbitrary inputs                                            *)
(* ================================================================================================ *)
Definition call4 (c : con4) : Prop := ntok (node_of_con4 c).
Definition stok4 (st : state4) : Prop := call4 (r4 st).

Lemma call4_doc obj : call4 (DDoc obj) <-> Forall (fun kv => ntok (snd kv)) obj.
Proof. unfold call4. cbn [node_of_con4]. apply ntok_doc. Qed.

Lemma call4_ary ns : call4 (DAry ns) <-> Forall ntok ns.
Proof. unfold call4. cbn [node_of_con4]. apply ntok_ary. Qed.

Lemma call4_nil : call4 DDocNil.
Proof. unfold call4. cbn [node_of_con4]. apply ntok_doc. constructor. Qed.

Lemma ntok_obj_of ms : tok (TObj ms) -> Forall (fun kv => ntok (snd kv)) (obj_of ms).
Proof. intro H. apply (ntok_doc (fst (doc_of ms))). exact (nall_doc_of tok tok_obj_parts ms H). Qed.

Lemma ntok_children l : tok (TArr l) -> Forall ntok (map child l).
Proof. exact (Forall_nall_children tok tok_arr_parts l). Qed.

Lemma into_con4_all n ch : ntok n -> into_con4 n = Some ch -> call4 ch.
Proof.
  intros N H. destruct n as [|t|keys obj|ns]; cbn [into_con4] in H; try discriminate.
  - destruct t; try discriminate; inversion H; subst.
    + apply call4_ary. apply ntok_children. exact N.
    + apply call4_doc. apply ntok_obj_of. exact N.
  - destruct keys as [|k0 keys]; inversion H; subst; [apply call4_doc; apply (ntok_doc []); exact N | apply call4_nil].
  - inversion H; subst. apply call4_ary. apply ntok_ary. exact N.
Qed.

Lemma con4_get_all g c key n : call4 c -> con4_get g c key = Ok n -> ntok n.
Proof.
  intros C H. destruct c as [obj| |ns]; cbn [con4_get] in H.
  - inversion H; subst. destruct (aget key obj) as [v|] eqn:E; [|exact I].
    apply call4_doc in C. apply aget_In in E. rewrite Forall_forall in C. apply (C _ E).
  - inversion H; subst. exact I.
  - destruct (resolve_idx_get (o5 g) (zlen ns) key) as [i| |]; inversion H; subst.
    apply (Forall_nth_nall tok). apply call4_ary. exact C.
Qed.

Lemma con4_put_all g c key ch : call4 c -> ntok ch -> call4 (con4_put g c key ch).
Proof.
  intros C Hch. destruct c as [obj| |ns]; cbn [con4_put].
  - apply call4_doc. apply call4_doc in C. apply Forall_aset; auto.
  - exact C.
  - destruct (resolve_idx_get (o5 g) (zlen ns) key) as [i| |]; try exact C.
    apply call4_ary. apply call4_ary in C. now apply Totality.Forall_set_at.
Qed.

Lemma con4_add_all g c key v c' : call4 c -> ntok v -> con4_add g c key v = Ok c' -> call4 c'.
Proof.
  intros C Hv H. destruct c as [obj| |ns]; cbn [con4_add] in H; try discriminate.
  - inversion H; subst. apply call4_doc. apply call4_doc in C. apply Forall_aset; auto.
  - destruct (ary_add (o5 g) ns key v) as [ns'| |] eqn:E; inversion H; subst.
    apply call4_ary. apply call4_ary in C. eapply ary_add_Forall; eauto.
Qed.

Lemma con4_set_all g c key v c' : call4 c -> ntok v -> con4_set g c key v = Ok c' -> call4 c'.
Proof.
  intros C Hv H. destruct c as [obj| |ns]; cbn [con4_set] in H; try discriminate.
  - inversion H; subst. apply call4_doc. apply call4_doc in C. apply Forall_aset; auto.
  - destruct (ary_set (o5 g) ns key v) as [ns'| |] eqn:E; inversion H; subst.
    apply call4_ary. apply call4_ary in C. eapply ary_set_Forall; eauto.
Qed.

Lemma con4_remove_all g c key c' : call4 c -> con4_remove g c key = Ok c' -> call4 c'.
Proof.
  intros C H. destruct c as [obj| |ns]; cbn [con4_remove] in H; try discriminate.
  - destruct (amem key obj); inversion H; subst. apply call4_doc. apply call4_doc in C. now apply Forall_adel.
  - destruct (ary_remove (o5 g) ns key) as [ns'| |] eqn:E; inversion H; subst.
    apply call4_ary. apply call4_ary in C. eapply ary_remove_Forall; eauto.
Qed.

(* ---- walk4 / find4: any leaf action that keeps the invariant, for arbitrary tokens ---- *)
Lemma walk4_all {A} (Q : A -> Prop) g parts : forall c (f : con4 -> A * con4),
  (forall c0, call4 c0 -> Q (fst (f c0)) /\ call4 (snd (f c0))) ->
  call4 c ->
  call4 (snd (walk4 g parts c f)) /\ (forall a, fst (walk4 g parts c f) = Some a -> Q a).
Proof.
  induction parts as [|p rest IH]; intros c f Hf C; cbn [walk4].
  - destruct (Hf c C) as [H1 H2]. destruct (f c) as [a c']. cbn [fst snd] in *. split; auto.
    intros a0 E. inversion E; subst; auto.
  - destruct (con4_get g c (decode_token p)) as [next| |] eqn:G; try (cbn [fst snd]; split; [exact C | discriminate]).
    destruct (into_con4 next) as [ch|] eqn:IC; [|cbn [fst snd]; split; [exact C | discriminate]].
    assert (Cch : call4 ch) by (apply (into_con4_all next ch); [exact (con4_get_all g c (decode_token p) next C G) | exact IC]).
    destruct (IH ch f Hf Cch) as [H1 H2]. destruct (walk4 g rest ch f) as [r ch']. cbn [fst snd] in *. split; auto.
    apply con4_put_all; auto.
Qed.

Lemma find4_all {A} (Q : A -> Prop) g c path (f : con4 -> bytes -> A * con4) :
  (forall c0 key, call4 c0 -> Q (fst (f c0 key)) /\ call4 (snd (f c0 key))) ->
  call4 c ->
  call4 (snd (find4 g c path f)) /\ (forall a, fst (find4 g c path f) = Some a -> Q a).
Proof.
  intros Hf C. unfold find4. destruct (split_path path) as [[parts key]|].
  - apply (walk4_all Q g parts c (fun c' => f c' key) (fun c0 => Hf c0 key) C).
  - cbn [fst snd]. split; [exact C | discriminate].
Qed.

(* ---- the leaf actions ---- *)
Lemma upd_all {A} (r : res con4) c (a : A) :
  call4 c -> (forall c', r = Ok c' -> call4 c') -> call4 (snd (upd r c a)).
Proof. intros C H. destruct r as [c'| |]; cbn [upd snd]; auto. Qed.

Lemma add_fn4_all g v c0 key : ntok v -> call4 c0 -> call4 (snd (add_fn4 g v c0 key)).
Proof. intros Hv C. unfold add_fn4. apply upd_all; [exact C|]. intros c' E. exact (con4_add_all g c0 key v c' C Hv E). Qed.

Lemma remove_fn4_all g c0 key : call4 c0 -> call4 (snd (remove_fn4 g c0 key)).
Proof. intros C. unfold remove_fn4. apply upd_all; [exact C|]. intros c' E. exact (con4_remove_all g c0 key c' C E). Qed.

Lemma replace_fn4_all g v c0 key : ntok v -> call4 c0 -> call4 (snd (replace_fn4 g v c0 key)).
Proof.
  intros Hv C. unfold replace_fn4. destruct (con4_get g c0 key) as [x|e|]; try exact C.
  apply upd_all; [exact C|]. intros c' E. exact (con4_set_all g c0 key v c' C Hv E).
Qed.

Lemma move_src_fn4_all g c0 key :
  call4 c0 -> (forall v, fst (move_src_fn4 g c0 key) = Ok v -> ntok v) /\ call4 (snd (move_src_fn4 g c0 key)).
Proof.
  intros C. unfold move_src_fn4. destruct (con4_get g c0 key) as [x|e|] eqn:G; try (split; [discriminate | exact C]).
  pose proof (con4_get_all g c0 key x C G) as Hx.
  destruct (con4_remove g c0 key) as [c'|e|] eqn:E; cbn [upd fst snd]; try (split; [discriminate | exact C]).
  split; [intros v Ev; inversion Ev; subst; exact Hx | exact (con4_remove_all g c0 key c' C E)].
Qed.

Lemma get_fn4_all g c0 key :
  call4 c0 -> (forall v, fst (get_fn4 g c0 key) = Ok v -> ntok v) /\ call4 (snd (get_fn4 g c0 key)).
Proof. intros C. unfold get_fn4. cbn [fst snd]. split; [|exact C]. intros v E. exact (con4_get_all g c0 key v C E). Qed.

Lemma test_fn4_all g op c0 key : call4 c0 -> call4 (snd (test_fn4 g op c0 key)).
Proof.
  intros C. unfold test_fn4. destruct (con4_get g c0 key) as [x|e|]; try exact C.
  destruct (is_null4 x); [exact C|]. destruct (op_value4 op); exact C.
Qed.

(* what lift4 makes of a find whose leaf keeps the invariant *)
Lemma lift4_state {A} (r : option (res A) * con4) st acc st' :
  lift4 r st (fun _ c2 => Ok (mkState4 c2 acc)) = Ok st' -> r4 st' = snd r.
Proof.
  destruct r as [[[a|e|]|] c]; cbn [lift4]; intro H; inversion H; reflexivity.
Qed.

(* ---- values carried by operations ---- *)
Lemma opv4_tok op : op_tok op -> ntok (opv4 op).
Proof.
  intro A. unfold opv4, op_value4. destruct (aget (B "value") op) as [[t|]|] eqn:E; try exact I.
  apply ntok_raw. apply A. exact E.
Qed.

(* deepCopy: the members sorted, names and strings HTML-escaped *)
Lemma ntok_deep_copy4 g v : ntok v -> ntok (fst (deep_copy4 g v)).
Proof.
  intro N. destruct (deep_copy4_cases g v) as [E|[E|E]]; rewrite E.
  - exact I.
  - apply (ntok_doc [B "null"]). constructor.
  - apply ntok_raw; apply tok_escape; apply tok_render4; exact N.
Qed.

(* ---- one operation ---- *)
Theorem step4_ntok g st op st' : stok4 st -> op_tok op -> step4 g st op = Ok st' -> stok4 st'.
Proof.
  intros S A. unfold stok4 in *. pose proof (opv4_tok op A) as Hv. destruct (op_kind op) eqn:K.
  - (* add *) rewrite (step4_add g st op K). destruct (op_str op (B "path")) as [path| |]; try discriminate.
    intro H. unfold keep_acc in H. rewrite (lift4_state _ _ _ _ H).
    apply (find4_all (fun _ => True) g (r4 st) path (add_fn4 g (opv4 op))); [|exact S].
    intros c0 key C0. split; [exact I | apply add_fn4_all; assumption].
  - (* remove *) rewrite (step4_remove g st op K). destruct (op_str op (B "path")) as [path| |]; try discriminate.
    intro H. unfold keep_acc in H. rewrite (lift4_state _ _ _ _ H).
    apply (find4_all (fun _ => True) g (r4 st) path (remove_fn4 g)); [|exact S].
    intros c0 key C0. split; [exact I | apply remove_fn4_all; assumption].
  - (* replace *) rewrite (step4_replace g st op K). destruct (op_str op (B "path")) as [[|b path]| |]; try discriminate.
    + unfold op_value4. destruct (aget (B "value") op) as [[t|]|] eqn:E; try discriminate.
      pose proof (A t E) as Pt. destruct t; try discriminate; intro H; inversion H; subst; cbn [r4].
      * apply call4_ary. apply ntok_children. exact Pt.
      * apply call4_doc. apply ntok_obj_of. exact Pt.
    + intro H. unfold keep_acc in H. rewrite (lift4_state _ _ _ _ H).
      apply (find4_all (fun _ => True) g (r4 st) (b :: path) (replace_fn4 g (opv4 op))); [|exact S].
      intros c0 key C0. split; [exact I | apply replace_fn4_all; assumption].
  - (* move *) rewrite (step4_move g st op K). destruct (op_str op (B "from")) as [from| |]; try discriminate.
    destruct (find4_all (fun r : res node => forall v, r = Ok v -> ntok v) g (r4 st) from (move_src_fn4 g)) as [C1 Q1];
      [intros c0 key C0; apply move_src_fn4_all; exact C0 | exact S |].
    destruct (find4 g (r4 st) from (move_src_fn4 g)) as [[[v|e|]|] c1]; cbn [lift4 fst snd] in *; try discriminate.
    pose proof (Q1 (Ok v) eq_refl v eq_refl) as Hmv.
    destruct (op_str op (B "path")) as [path| |]; try discriminate.
    intro H. unfold keep_acc in H. rewrite (lift4_state _ _ _ _ H).
    apply (find4_all (fun _ => True) g c1 path (add_fn4 g v)); [|exact C1].
    intros c0 key C0. split; [exact I | apply add_fn4_all; assumption].
  - (* copy *) rewrite (step4_copy g st op K). destruct (op_str op (B "from")) as [from| |]; try discriminate.
    destruct (find4_all (fun r : res node => forall v, r = Ok v -> ntok v) g (r4 st) from (get_fn4 g)) as [C1 _];
      [intros c0 key C0; apply get_fn4_all; exact C0 | exact S |].
    destruct (find4 g (r4 st) from (get_fn4 g)) as [[[v0|e|]|] c1]; cbn [lift4 fst snd] in *; try discriminate.
    destruct (op_str op (B "path")) as [path| |]; try discriminate.
    destruct (find4_all (fun _ : unit => True) g c1 path unit_fn4) as [C2 _];
      [intros c0 key C0; split; [exact I | exact C0] | exact C1 |].
    destruct (find4 g c1 path unit_fn4) as [[u|] c2]; cbn [fst snd] in *; try discriminate.
    destruct (find4_all (fun r : res node => forall v, r = Ok v -> ntok v) g c2 from (get_fn4 g)) as [_ Q3];
      [intros c0 key C0; apply get_fn4_all; exact C0 | exact C2 |].
    destruct (find4 g c2 from (get_fn4 g)) as [[[v|e|]|] c3]; cbn [lift4 fst snd] in *; try discriminate.
    pose proof (Q3 (Ok v) eq_refl v eq_refl) as Hsrc.
    pose proof (ntok_deep_copy4 g v Hsrc) as Hcp. destruct (deep_copy4 g v) as [cp sz]. cbn [fst] in Hcp.
    destruct ((0 <? g_limit g)%Z && (g_limit g <? acc4 st + sz)%Z)%bool; [discriminate|].
    intro H. rewrite (lift4_state _ _ _ _ H).
    apply (find4_all (fun _ => True) g c2 path (add_fn4 g cp)); [|exact C2].
    intros c0 key C0. split; [exact I | apply add_fn4_all; assumption].
  - (* test *) rewrite (step4_test g st op K). destruct (op_str op (B "path")) as [[|b path]| |]; try discriminate.
    + destruct (node_equal4 _ _ && _)%bool; [|discriminate]. intro H; inversion H; subst. exact S.
    + intro H. unfold keep_acc in H. rewrite (lift4_state _ _ _ _ H).
      apply (find4_all (fun _ => True) g (r4 st) (b :: path) (test_fn4 g op)); [|exact S].
      intros c0 key C0. split; [exact I | apply test_fn4_all; assumption].
  - rewrite (step4_unknown g st op K). discriminate.
Qed.

Theorem apply4_from_ntok g : forall p i st st' j,
  stok4 st -> Forall op_tok p -> apply4_from g i st p = (Ok st', j) -> stok4 st'.
Proof.
  induction p as [|op p IH]; intros i st st' j Hs A; cbn [apply4_from].
  - intro H; inversion H; subst; exact Hs.
  - inversion A as [|? ? A1 A2]; subst.
    destruct (step4 g st op) as [st1|e|] eqn:E; try discriminate.
    apply (IH (S i) st1 st' j (step4_ntok g st op st1 Hs A1 E) A2).
Qed.

(* ================================================================================================ *)
(* 2. the tree the legacy Apply encodes; the general output theorem                                   *)
(* ================================================================================================ *)
Definition start4 (t : tjson) : option con4 :=
  match t with
  | TObj ms => Some (DDoc (obj_of ms))
  | TArr l => Some (DAry (map child l))
  | TNull => Some DDocNil
  | _ => None
  end.

Definition tree4 (c : con4) : tjson :=
  match c with DDocNil => TNull | c' => render4 (node_of_con4 c') end.

Definition result4_tree (g : opts4) (p : list operation) (t : tjson) : option tjson :=
  match start4 t with
  | Some c =>
      match apply4_from g 0 (mkState4 c 0) p with
      | (Ok st, _) => Some (tree4 (r4 st))
      | _ => None
      end
  | None => None
  end.

Lemma api_apply4_unfold g indent p b doc t : parse (b :: doc) = Some t ->
  api_apply4 g indent p (b :: doc) =
  match start4 t with
  | None => Err4 None EDecode
  | Some c =>
      match apply4_from g 0 (mkState4 c 0) p with
      | (Ok st, _) => Out4 (output4 indent (tree4 (r4 st)))
      | (Err e, i) => Err4 (Some i) e
      | (Panic, _) => Panic4
      end
  end.
Proof.
  intro Pd. unfold api_apply4. rewrite Pd. cbv zeta. unfold start4.
  destruct t; try reflexivity;
    match goal with |- match ?a with _ => _ end = _ => destruct a as [[st|e|] i]; try reflexivity end;
    cbn [r4]; destruct (r4 st); reflexivity.
Qed.

Lemma api_apply4_out g indent p doc t out : parse doc = Some t ->
  (api_apply4 g indent p doc = Out4 out <-> exists tr, result4_tree g p t = Some tr /\ out = output4 indent tr).
Proof.
  intro Pd. destruct doc as [|b doc]; [rewrite parse_nil in Pd; discriminate|].
  rewrite (api_apply4_unfold g indent p b doc t Pd). unfold result4_tree.
  destruct (start4 t) as [c|]; [|split; [discriminate | intros [tr [H _]]; discriminate]].
  destruct (apply4_from g 0 (mkState4 c 0) p) as [[st|e|] i]; try (split; [discriminate | intros [tr [H _]]; discriminate]).
  split.
  - intro H; inversion H; subst. eexists. split; reflexivity.
  - intros [tr [H1 H2]]. inversion H1; subst. reflexivity.
Qed.

(* the empty document is the one input for which the result is not a JSON text *)
Example api_apply4_empty_doc g indent p : api_apply4 g indent p [] = Out4 [] /\ parse [] = None.
Proof. split; reflexivity. Qed.

Lemma start4_tok t c : tok t -> start4 t = Some c -> call4 c.
Proof.
  intros T H. destruct t; cbn [start4] in H; try discriminate; inversion H; subst.
  - apply call4_nil.
  - apply call4_ary. apply ntok_children. exact T.
  - apply call4_doc. apply ntok_obj_of. exact T.
Qed.

Lemma tree4_tok c : call4 c -> tok (tree4 c).
Proof. intro C. destruct c as [obj| |ns]; cbn [tree4]; [apply tok_render4; exact C | exact I | apply tok_render4; exact C]. Qed.

Lemma tree4_shape c : root_shape (tree4 c).
Proof. destruct c; exact I. Qed.

Theorem result4_tree_tok g p t tr : tok t -> Forall op_tok p -> result4_tree g p t = Some tr -> tok tr /\ root_shape tr.
Proof.
  intros T A. unfold result4_tree. destruct (start4 t) as [c|] eqn:St; [|discriminate].
  destruct (apply4_from g 0 (mkState4 c 0) p) as [[st|e|] i] eqn:E; try discriminate.
  intro H; inversion H; subst. split; [|apply tree4_shape]. apply tree4_tok.
  apply (apply4_from_ntok g p 0%nat (mkState4 c 0) st i); [exact (start4_tok t c T St) | exact A | exact E].
Qed.

(* the text of a tree made of tokens, within the nesting limit (the legacy encoder always escapes) *)
Lemma output4_is_output g indent tr : output4 indent tr = output (o5 g) indent tr.
Proof. reflexivity. Qed.

Theorem output4_parses indent tr : tok tr -> (Text.tdepth tr <= max_depth)%N -> wsb indent = true ->
  parse (output4 indent tr) = Some (escape_tree true tr).
Proof. intros T D W. exact (output_parses (o5 (mkOpts4 false 0 None)) indent tr T D W). Qed.

Corollary output4_valid indent tr : tok tr -> (Text.tdepth tr <= max_depth)%N -> wsb indent = true ->
  valid_gen (output4 indent tr) = true.
Proof. intros T D W. apply valid_gen_iff_parse. eexists. apply output4_parses; assumption. Qed.

Theorem output4_indent indent tr : tok tr -> root_shape tr -> (Text.tdepth tr <= max_depth)%N -> indent <> [] ->
  indent_go indent (output4 [] tr) = Some (output4 indent tr).
Proof. intros T R D NE. exact (output_indent (o5 (mkOpts4 false 0 None)) indent tr T R D NE). Qed.

(* ---- the general theorem: EVERY parsed document, EVERY patch whose values are made of tokens (every
   decoded patch), every setting of the package variables, every indent.  The nesting of the result
   is the one hypothesis. ---- *)
Theorem api_apply4_output_general g indent p doc t out :
  parse doc = Some t -> Forall op_tok p -> api_apply4 g indent p doc = Out4 out ->
  exists tr, result4_tree g p t = Some tr /\ out = output4 indent tr /\ tok tr /\ root_shape tr /\
    ((Text.tdepth tr <= max_depth)%N ->
       (wsb indent = true ->
          parse out = Some (escape_tree true tr) /\ valid_gen out = true /\
          exists t', parse out = Some t' /\ den t' = den tr) /\
       (indent <> [] -> exists out0, api_apply4 g [] p doc = Out4 out0 /\ indent_go indent out0 = Some out)).
Proof.
  intros Pd A H. apply (api_apply4_out g indent p doc t out Pd) in H as [tr [R ->]].
  destruct (result4_tree_tok g p t tr (proj1 (parse_twf _ _ Pd)) A R) as [T Sh].
  exists tr. split; [exact R|]. split; [reflexivity|]. split; [exact T|]. split; [exact Sh|].
  intro D. split.
  - intro W. pose proof (output4_parses indent tr T D W) as O. split; [exact O|].
    split; [apply output4_valid; assumption|]. eexists. split; [exact O|]. apply escape_tree_den. apply tok_tsb. exact T.
  - intro NE. exists (output4 [] tr). split; [|apply output4_indent; assumption].
    apply (api_apply4_out g [] p doc t _ Pd). exists tr. split; [exact R | reflexivity].
Qed.

(* every patch the legacy DecodePatch accepts carries such values *)
Theorem api_decode4_toks bs p : api_decode4 bs = Some p -> Forall op_toks p.
Proof.
  unfold api_decode4. destruct (parse bs) as [t|] eqn:Pb; [|discriminate].
  apply parse_twf in Pb. destruct Pb as [Pb _]. destruct t as [| | |lit|body|els|ms]; cbn [decode4_t]; try discriminate.
  - intro H. inversion H. constructor.
  - destruct (forallb _ els); [|discriminate]. intro H. inversion H; subst. clear H.
    apply tok_arr in Pb. rewrite Forall_map. rewrite Forall_forall in *. intros e He. specialize (Pb e He).
    destruct e; try (unfold op_toks; constructor). apply operation_of_toks. exact Pb.
Qed.

Corollary api_decode4_tok bs p : api_decode4 bs = Some p -> Forall op_tok p.
Proof. intro H. apply api_decode4_toks in H. revert H. apply Forall_impl. exact op_toks_tok. Qed.

Corollary api_apply4_output_decoded g indent patch p doc t out :
  api_decode4 patch = Some p -> parse doc = Some t -> wsb indent = true ->
  api_apply4 g indent p doc = Out4 out ->
  exists tr, result4_tree g p t = Some tr /\ out = output4 indent tr /\
    ((Text.tdepth tr <= max_depth)%N -> valid_gen out = true /\ exists t', parse out = Some t' /\ den t' = den tr).
Proof.
  intros Dc Pd W H.
  destruct (api_apply4_output_general g indent p doc t out Pd (api_decode4_tok _ _ Dc) H) as [tr [R [E [T [Sh G]]]]].
  exists tr. split; [exact R|]. split; [exact E|]. intro D. destruct (G D) as [G1 _]. destruct (G1 W) as [_ [V X]]. split; assumption.
Qed.

(* ================================================================================================ *)
(* 3. in the domain of the simulation: the bytes denote the RFC 6902 result up to member order        *)
(* ================================================================================================ *)
(* the bytes written for a good legacy node whose raw messages are made of tokens: read back, they
   denote the node's value up to the order of members (the encoder sorts the names) *)
Theorem node4_output_den indent n :
  ngood4 n -> ntok n -> (Text.tdepth (render4 n) <= max_depth)%N -> wsb indent = true ->
  parse (output4 indent (render4 n)) = Some (enc4 n) /\
  jeq (den (enc4 n)) (aval4 n) = true /\ onodup (den (enc4 n)) = true /\
  valid_gen (output4 indent (render4 n)) = true.
Proof.
  intros G T D W. pose proof (tok_render4 n T) as Tr.
  destruct (enc4_codec n G) as [[Nd _] [J _]].
  split; [apply output4_parses; assumption|]. split; [exact J|]. split; [exact Nd|].
  apply output4_valid; assumption.
Qed.

(* ---- nesting: the tree written for a good node is as deep as the value it denotes, and values equal
   up to member order are equally deep: the hypothesis on the nesting can be put on the RFC result ---- *)
Lemma maxd_same_members {A} (f : A -> N) l m : (forall x, In x l <-> In x m) -> maxd f l = maxd f m.
Proof.
  intro H. apply N.le_antisymm; apply maxd_bound; intros x Hx; apply maxd_le; apply H; exact Hx.
Qed.

Lemma render4_depth n : ngood4 n -> Text.tdepth (render4 n) = odepth (aval4 n).
Proof.
  induction n as [|t|keys obj IH|ns IH] using node_rect'; intro G.
  - reflexivity.
  - apply ngood4_raw in G as [T _]. cbn [render4 aval4]. symmetry. apply den_depth. exact T.
  - apply ngood4_doc in G as [-> [N [_ Gs]]]. rewrite render4_doc, aval4_doc, tdepth_obj, odepth_obj, maxd_map. cbn [snd].
    f_equal. unfold amap4. rewrite maxd_map. cbn [snd].
    rewrite (maxd_same_members (fun kv : bytes * tjson => Text.tdepth (snd kv)) (sort4 (msnd render4 obj)) (msnd render4 obj)).
    + unfold msnd. rewrite maxd_map. cbn [snd]. apply maxd_ext_in. intros kv Hk.
      rewrite Forall_forall in IH, Gs. apply (IH kv Hk). apply (Gs kv Hk).
    + assert (P : Permutation.Permutation (sort4 (msnd render4 obj)) (msnd render4 obj))
        by (apply sort4_perm; rewrite msnd_keys; exact N).
      intro x. split; intro Hx; [exact (Permutation.Permutation_in _ P Hx) | exact (Permutation.Permutation_in _ (Permutation.Permutation_sym P) Hx)].
  - apply ngood4_ary in G. cbn [render4 aval4]. rewrite tdepth_arr, odepth_arr, !maxd_map. f_equal.
    apply maxd_ext_in. intros x Hx. rewrite Forall_forall in IH, G. apply (IH x Hx). apply (G x Hx).
Qed.

Lemma odepth_jeq a : forall b, onodup a = true -> onodup b = true -> jeq a b = true -> odepth a = odepth b.
Proof.
  induction a as [| | | |l IH|ms IH] using ojson_rect'; intros b' Na Nb E; destruct b' as [|b0|lit0|s0|l0|m0]; try discriminate; try reflexivity.
  - rewrite jeq_arr in E. apply jeq_list_spec in E. apply onodup_arr in Na. apply onodup_arr in Nb.
    rewrite !odepth_arr. f_equal.
    revert Na Nb IH. induction E as [|x y l' m' Exy E' IHE]; intros Na Nb IH; [reflexivity|].
    inversion Na as [|? ? Na1 Na2]; subst. inversion Nb as [|? ? Nb1 Nb2]; subst. inversion IH as [|? ? IH1 IH2]; subst.
    unfold maxd. cbn [fold_right]. fold (maxd odepth l'). fold (maxd odepth m').
    rewrite (IH1 y Na1 Nb1 Exy), (IHE Na2 Nb2 IH2). reflexivity.
  - apply onodup_obj in Na as [Na1 Na2]. apply onodup_obj in Nb as [Nb1 Nb2].
    rewrite (jeq_obj_char ms m0 Na1 Nb1) in E. rewrite !odepth_obj. f_equal.
    rewrite Forall_forall in IH, Na2, Nb2.
    apply N.le_antisymm; apply maxd_bound; intros [k x] Hin.
    + pose proof (E k) as Ek. rewrite (In_aget_nodup k x ms Na1 Hin) in Ek. unfold lookup_rel in Ek.
      destruct (aget k m0) as [y|] eqn:El; [|contradiction]. apply aget_In in El.
      pose proof (IH (k, x) Hin y (Na2 _ Hin) (Nb2 _ El) Ek) as Q. cbn [snd] in Q |- *. rewrite Q.
      apply (maxd_le (fun kv : bytes * ojson => odepth (snd kv)) m0 (k, y) El).
    + pose proof (E k) as Ek. rewrite (In_aget_nodup k x m0 Nb1 Hin) in Ek. unfold lookup_rel in Ek.
      destruct (aget k ms) as [y|] eqn:El; [|contradiction]. apply aget_In in El.
      pose proof (IH (k, y) El x (Na2 _ El) (Nb2 _ Hin) Ek) as Q. cbn [snd] in Q |- *. rewrite <- Q.
      apply (maxd_le (fun kv : bytes * ojson => odepth (snd kv)) ms (k, y) El).
Qed.

Lemma veq_depth a b : veq a b -> odepth a = odepth b.
Proof. intros [J [Na Nb]]. apply odepth_jeq; assumption. Qed.

(* ---- Apply on bytes, all six operations, in the domain of api_apply4_sim ---- *)
Theorem api_apply4_output_bytes g indent p doc t :
  g_limit g = 0%Z ->
  parse doc = Some t -> root_container t = true -> tnodup t = true -> tplain t -> tkeys t ->
  Forall op_dom4 p -> Forall op_tok p -> no_deviation (d4 g) (den t) (map den_op p) = true ->
  (forall c, api_start4 t = Some c -> no_null_copy4 g (mkState4 c 0) p = true) ->
  wsb indent = true ->
  match rfc_apply (d4 g) (den t) (map den_op p) with
  | Done j =>
      (odepth j <= max_depth)%N ->
      exists out t', api_apply4 g indent p doc = Out4 out /\ parse out = Some t' /\
                     jeq (den t') j = true /\ onodup (den t') = true /\ valid_gen out = true /\
        (indent <> [] -> exists out0, api_apply4 g [] p doc = Out4 out0 /\ indent_go indent out0 = Some out)
  | Failed i cz => exists e, api_apply4 g indent p doc = Err4 (Some i) e /\ cause_rel cz e
  end.
Proof.
  intros Lim Pd RC T Pl Ks D A ND NC W.
  pose proof (api_apply4_sim g indent p doc t Lim Pd RC T Pl Ks D ND NC) as Sim.
  pose proof (parse_tlit _ _ Pd) as L.
  assert (R : raw4 t) by (split; [destruct t; discriminate | repeat split; auto]).
  destruct (start4_good t RC R) as [c [S1 [S2 S3]]]. pose proof (NC c S1) as NCc. fold (start4 t) in S1.
  assert (V : veq (sval4 (mkState4 c 0)) (den t)).
  { unfold sval4. cbn [r4]. rewrite S3. apply veq_refl. exact T. }
  pose proof (apply4_rfc g p 0%nat (mkState4 c 0) (den t) Lim S2 V D ND NCc) as AS. unfold rfc_apply in *.
  destruct (rfc_apply_from (d4 g) 0 (den t) (map den_op p)) as [j|i cz]; [|exact Sim]. clear Sim.
  intro Dj. destruct AS as [st' [A1 [A2 A3]]].
  assert (NT : call4 (r4 st')).
  { apply (apply4_from_ntok g p 0%nat (mkState4 c 0) st' (0 + length p)%nat); [|exact A | exact A1].
    exact (start4_tok t c (proj1 (parse_twf _ _ Pd)) S1). }
  unfold sgood4, cgood4 in A3. destruct A3 as [A3 A4]. unfold sval4, cval4 in A2. unfold call4 in NT.
  set (n := node_of_con4 (r4 st')) in *.
  assert (Rt : result4_tree g p t = Some (render4 n)).
  { unfold result4_tree. rewrite S1, A1. unfold n. destruct (r4 st'); [reflexivity | congruence | reflexivity]. }
  assert (Dn : (Text.tdepth (render4 n) <= max_depth)%N).
  { rewrite (render4_depth n A3), (veq_depth _ _ A2). exact Dj. }
  destruct (node4_output_den indent n A3 NT Dn W) as [O1 [O2 [O3 O4]]].
  exists (output4 indent (render4 n)), (enc4 n).
  split; [apply (api_apply4_out g indent p doc t _ Pd); eexists; split; [exact Rt | reflexivity]|].
  split; [exact O1|]. destruct A2 as [J [Na Nj]].
  split; [exact (jeq_trans _ _ _ O3 Na Nj O2 J)|]. split; [exact O3|]. split; [exact O4|].
  intro NE. exists (output4 [] (render4 n)). split.
  - apply (api_apply4_out g [] p doc t _ Pd). eexists. split; [exact Rt | reflexivity].
  - destruct (result4_tree_tok g p t _ (proj1 (parse_twf _ _ Pd)) A Rt) as [Tr Sh]. apply output4_indent; auto.
Qed.

(* the same with the value relation of V4ApplySim: the text read back and the RFC 6902 result are
   values without duplicate names, equal up to the order of members *)
Corollary api_apply4_output_rfc g indent p doc t j :
  g_limit g = 0%Z ->
  parse doc = Some t -> root_container t = true -> tnodup t = true -> tplain t -> tkeys t ->
  Forall op_dom4 p -> Forall op_tok p -> no_deviation (d4 g) (den t) (map den_op p) = true ->
  (forall c, api_start4 t = Some c -> no_null_copy4 g (mkState4 c 0) p = true) ->
  wsb indent = true ->
  rfc_apply (d4 g) (den t) (map den_op p) = Done j -> (odepth j <= max_depth)%N ->
  exists out t', api_apply4 g indent p doc = Out4 out /\ parse out = Some t' /\ veq (den t') j /\ valid_gen out = true.
Proof.
  intros Lim Pd RC T Pl Ks D A ND NC W E Dj.
  pose proof (api_apply4_output_bytes g indent p doc t Lim Pd RC T Pl Ks D A ND NC W) as H. rewrite E in H.
  destruct (H Dj) as [out [t' [H1 [H2 [H3 [H4 [H5 _]]]]]]]. exists out, t'. split; [exact H1|]. split; [exact H2|].
  split; [|exact H5]. split; [exact H3|]. split; [exact H4|].
  pose proof (api_apply4_sim g indent p doc t Lim Pd RC T Pl Ks D ND NC) as Sim. rewrite E in Sim.
  destruct Sim as [n [_ [[_ [_ Nj]] _]]]. exact Nj.
Qed.

Print Assumptions step4_ntok.
Print Assumptions apply4_from_ntok.
Print Assumptions api_apply4_output_general.
Print Assumptions api_decode4_tok.
Print Assumptions api_apply4_output_decoded.
Print Assumptions node4_output_den.
Print Assumptions render4_depth.
Print Assumptions odepth_jeq.
Print Assumptions api_apply4_output_bytes.
Print Assumptions api_apply4_output_rfc.
