(* Rfc7396.v — reference semantics of JSON Merge Patch (RFC 7396) on decoded ordered values, the
   composition of two merge patches, and the difference of two objects.  No proofs here.
   This file is specification (trusted). *)
From JP Require Import Bytes Json.

(* RFC 7396 section 2:
     define MergePatch(Target, Patch):
       if Patch is an Object:
         if Target is not an Object: Target = {}
         for each Name/Value pair in Patch:
           if Value is null: remove the Name/Value pair from Target (if it exists)
           else: Target[Name] = MergePatch(Target[Name], Value)
         return Target
       else: return Patch
   Order (not in the RFC; C05): surviving members keep their position, new ones are appended in
   patch order.  The recursion is on the patch. *)
Fixpoint merge_patch (target patch : ojson) {struct patch} : ojson :=
  match patch with
  | OObj pms =>
      let tms := match target with OObj tms => tms | _ => [] end in
      OObj
        ((fix go (pms : list (bytes * ojson)) (tms : list (bytes * ojson)) {struct pms} :=
            match pms with
            | [] => tms
            | (k, v) :: rest =>
                match v with
                | ONull => go rest (adel k tms)
                | _ =>
                    let cur := match aget k tms with Some c => c | None => ONull end in
                    go rest (aset k (merge_patch cur v) tms)
                end
            end) pms tms)
  | _ => patch
  end.

(* combining two merge patches: like merge_patch, but nulls are kept (they are deletions that
   the combined patch must still perform) and nothing is pruned *)
Fixpoint mm (p1 p2 : ojson) {struct p2} : ojson :=
  match p2 with
  | OObj ms2 =>
      match p1 with
      | OObj ms1 =>
          OObj
            ((fix go (ms2 : list (bytes * ojson)) (acc : list (bytes * ojson)) {struct ms2} :=
                match ms2 with
                | [] => acc
                | (k, v) :: rest =>
                    match v with
                    | ONull => go rest (aset k ONull acc)
                    | _ =>
                        match aget k acc with
                        | Some ONull | None => go rest (aset k v acc)
                        | Some c => go rest (aset k (mm c v) acc)
                        end
                    end
                end) ms2 ms1)
      | _ => p2
      end
  | _ => p2
  end.

(* the side condition of C07: wherever P2 holds an object, P1 holds an object or nothing *)
Fixpoint compatible (p1 p2 : ojson) {struct p2} : bool :=
  match p2 with
  | OObj ms2 =>
      match p1 with
      | OObj ms1 =>
          (fix go (ms2 : list (bytes * ojson)) {struct ms2} : bool :=
             match ms2 with
             | [] => true
             | (k, v) :: rest =>
                 (match v, aget k ms1 with
                  | OObj _, Some c => compatible c v
                  | _, _ => true
                  end) && go rest
             end) ms2
      | _ => false
      end
  | _ => true
  end.

(* no null-valued object member anywhere (what RFC 7396 cannot express as a target) *)
Fixpoint no_null_member (j : ojson) : bool :=
  match j with
  | OObj ms =>
      forallb (fun kv => negb (match snd kv with ONull => true | _ => false end) && no_null_member (snd kv)) ms
  | OArr l => forallb no_null_member l
  | _ => true
  end.

(* CreateMergePatch on two objects: members of b that are new or different (recursively for
   objects), then members of a missing from b as null *)
Fixpoint diff (a b : ojson) {struct b} : ojson :=
  match a, b with
  | OObj ams, OObj bms =>
      OObj
        ((fix go (bms : list (bytes * ojson)) {struct bms} : list (bytes * ojson) :=
            match bms with
            | [] => []
            | (k, bv) :: rest =>
                match aget k ams with
                | None => (k, bv) :: go rest
                | Some av =>
                    match av, bv with
                    | OObj _, OObj _ =>
                        match diff av bv with
                        | OObj [] => go rest
                        | dd => (k, dd) :: go rest
                        end
                    | _, _ => if jeq av bv then go rest else (k, bv) :: go rest
                    end
                end
            end) bms
         ++ map (fun kv => (fst kv, ONull)) (filter (fun kv => negb (amem (fst kv) bms)) ams))
  | _, _ => b
  end.
