(* IndexTie4.v -- the array index arithmetic of the LEGACY patch.go (root package, v4 API), as
   re-translated by tools/goidx4v into gen/IndexGen4.v (partialArray.get / set / add / remove on
   the slice type: strconv.Atoi result, bounds checks, negative indices under the package
   variable SupportNegativeIndices, 64-bit wrap-around, a bounds test before every index and
   slice expression, the list of slice effects), agrees with what the legacy model ImplV4.v
   computes (con4_get / con4_set / con4_add / con4_remove / con4_put on DAry, which call
   ImplV5.resolve_idx_get / ary_set / ary_add / ary_remove with the options o5 g, i.e. with
   AllowMissingPathOnRemove = false) for EVERY length and EVERY index of the int range.

   The file is the legacy counterpart of IndexTie.v and is self-contained (it does not import
   IndexTie.v or gen/IndexGen.v; all names end in 4 or contain it, so both can be imported).
   Two steps per method:
     1. <m>4_gen_spec : idx4_<m>_gen = spec4_<m>     integers only; case analysis + lia; this is
                                                    the step a change of patch.go breaks
     2. <m>4_spec_model : model = adapter (spec4_<m>)  lists; independent of patch.go
   and the corollaries on tokens (…_tie4 for the ImplV5 functions the legacy model calls,
   con4_…_tie for the legacy container functions themselves).
   Then: exactly when the generated code reaches GPanic4 (only set, exactly for an index at or
   past the end), and that the legacy replace (step4, KReplace) calls con4_set only after
   con4_get succeeded on the same container and key, where set cannot panic.
   Before step 1 a table of boundary values is evaluated and printed: on the unchanged patch.go
   it is empty; after a change of behaviour it lists concrete (neg, len, atoi) with both outcomes,
   and the step-1 proof then stops with the symbolic case (show_case4).
   Go int is taken as 64 bit (wrap4 in IndexGen4.v). *)
From Coq Require Import Lia.
From JP Require Import Bytes Json Pointer ImplV5 ImplV4.
From JP.gen Require Import IndexGen4.

Local Open Scope Z_scope.
Arguments wrap4 : simpl never.

(* ---- the int range ---- *)
Definition in64_4 (z : Z) : Prop := int64_min <= z <= int64_max.
Definition atoi_ok4 (a : option Z) : Prop := match a with Some z => in64_4 z | None => True end.

Lemma wrap4_id z : in64_4 z -> wrap4 z = z.
Proof.
  unfold in64_4, int64_min, int64_max, wrap4. intro H.
  rewrite Z.mod_small by lia. lia.
Qed.

Lemma wrap4_over z : int64_max < z <= int64_max + 18446744073709551616 -> wrap4 z = z - 18446744073709551616.
Proof.
  unfold int64_max, wrap4. intro H.
  replace (z + 9223372036854775808) with (z - 9223372036854775808 + 1 * 18446744073709551616) by lia.
  rewrite Z.mod_add, Z.mod_small by lia. lia.
Qed.

Lemma wrap4_under z : int64_min - 18446744073709551616 <= z < int64_min -> wrap4 z = z + 18446744073709551616.
Proof.
  unfold int64_min, wrap4. intro H.
  replace (z + 9223372036854775808) with (z + 27670116110564327424 + (-1) * 18446744073709551616) by lia.
  rewrite Z.mod_add, Z.mod_small by lia. lia.
Qed.

Lemma wrap4_in64 z : in64_4 (wrap4 z).
Proof.
  unfold in64_4, int64_min, int64_max, wrap4.
  pose proof (Z.mod_pos_bound (z + 9223372036854775808) 18446744073709551616 eq_refl). lia.
Qed.

(* strconv.Atoi only returns values of the int range *)
Lemma atoi_in64_4 s : atoi_ok4 (atoi s).
Proof.
  unfold atoi_ok4, atoi.
  destruct (match s with
            | x2d :: r => (true, r)
            | x2b :: r => (false, r)
            | _ => (false, s)
            end) as [ng ds].
  destruct ds as [|c r]; [exact I|].
  destruct (digits_val 0 (c :: r)) as [v|]; [|exact I].
  destruct ((int64_min <=? (if ng then - v else v)) && ((if ng then - v else v) <=? int64_max)) eqn:E; [|exact I].
  apply andb_prop in E as [E1 E2]. apply Z.leb_le in E1. apply Z.leb_le in E2. split; assumption.
Qed.

(* ---- what the effects do to the two slices (Go: make, copy, element assignment, append) ---- *)
Section Run4.
  Context {A : Type} (nilv v : A).

  (* x[i] = v *)
  Definition sl_upd (l : list A) (i : Z) : list A :=
    firstn (Z.to_nat i) l ++ v :: skipn (S (Z.to_nat i)) l.

  (* x[a:b] *)
  Definition sl_slice (l : list A) (a b : Z) : list A :=
    firstn (Z.to_nat (b - a)) (skipn (Z.to_nat a) l).

  (* copy(dst[a:b], src): the first min(b-a, len src) elements of src overwrite dst from a on *)
  Definition sl_blit (dst : list A) (a b : Z) (src : list A) : list A :=
    let n := Nat.min (Z.to_nat (b - a)) (length src) in
    firstn (Z.to_nat a) dst ++ firstn n src ++ skipn (Z.to_nat a + n) dst.

  Definition sel4 (st : list A * list A) (x : sl4) : list A :=
    match x with SNodes4 => fst st | SAry4 => snd st end.
  Definition put4 (st : list A * list A) (x : sl4) (l : list A) : list A * list A :=
    match x with SNodes4 => (l, snd st) | SAry4 => (fst st, l) end.

  (* state: (the slice d points to, the made slice) *)
  Definition estep4 (st : list A * list A) (e : eff4) : list A * list A :=
    match e with
    | EAppend4 => (fst st ++ [v], snd st)
    | EMake4 n => (fst st, repeat nilv (Z.to_nat n))
    | ECopy4 d a b s c e' => put4 st d (sl_blit (sel4 st d) a b (sl_slice (sel4 st s) c e'))
    | EStore4 x i => put4 st x (sl_upd (sel4 st x) i)
    | ECommit4 => (snd st, snd st)
    end.

  (* the slice d points to after the effects *)
  Definition run4 (es : list eff4) (ns : list A) : list A := fst (fold_left estep4 es (ns, [])).
End Run4.

(* ---- list lemmas about the effects ---- *)
Section RunFacts4.
  Context {A : Type} (nilv v : A).

  Lemma firstn_len_app4 (p l : list A) : firstn (length p) (p ++ l) = p.
  Proof. induction p as [|x p IH]; simpl; [destruct l; reflexivity | now rewrite IH]. Qed.

  Lemma skipn_len_app4 (p l : list A) : skipn (length p) (p ++ l) = l.
  Proof. induction p as [|x p IH]; simpl; auto. Qed.

  (* dst = p ++ q ++ r with |p| = a and |q| = |src| = b - a: copy(dst[a:b], src) replaces q by src *)
  Lemma sl_blit_app (p q r src : list A) a b :
    length p = Z.to_nat a -> length src = Z.to_nat (b - a) -> length q = length src ->
    sl_blit (p ++ q ++ r) a b src = p ++ src ++ r.
  Proof.
    intros Hp Hs Hq. unfold sl_blit. rewrite <- Hs, Nat.min_id, firstn_all, <- Hp, firstn_len_app4.
    f_equal. f_equal. rewrite <- Hq, <- app_length, app_assoc. apply skipn_len_app4.
  Qed.

  Lemma sl_upd_app (p r : list A) x i : length p = Z.to_nat i -> sl_upd v (p ++ x :: r) i = p ++ v :: r.
  Proof.
    intro Hp. unfold sl_upd. rewrite <- Hp, firstn_len_app4. f_equal. f_equal.
    change (x :: r) with ([x] ++ r). rewrite app_assoc.
    replace (S (length p)) with (length (p ++ [x])) by (rewrite app_length; simpl; lia).
    apply skipn_len_app4.
  Qed.

  Lemma sl_slice_prefix (l : list A) i : sl_slice l 0 i = firstn (Z.to_nat i) l.
  Proof. unfold sl_slice. now rewrite Z.sub_0_r. Qed.

  Lemma sl_slice_suffix (l : list A) a : 0 <= a <= zlen l -> sl_slice l a (zlen l) = skipn (Z.to_nat a) l.
  Proof.
    intro H. unfold sl_slice, zlen in *. apply firstn_all2. rewrite skipn_length. lia.
  Qed.
End RunFacts4.

(* the effects of add at position i, and of remove at position i, on a slice of length len *)
Definition ins_effs4 (len i : Z) : list eff4 :=
  [EMake4 (len + 1); ECopy4 SAry4 0 i SNodes4 0 i; EStore4 SAry4 i;
   ECopy4 SAry4 (i + 1) (len + 1) SNodes4 i len; ECommit4].

Definition rm_effs4 (len i : Z) : list eff4 :=
  [EMake4 (len - 1); ECopy4 SAry4 0 i SNodes4 0 i; ECopy4 SAry4 i (len - 1) SNodes4 (i + 1) len; ECommit4].

Lemma run4_ins {A} (nilv v : A) (ns : list A) i : 0 <= i <= zlen ns ->
  run4 nilv v (ins_effs4 (zlen ns) i) ns = firstn (Z.to_nat i) ns ++ v :: skipn (Z.to_nat i) ns.
Proof.
  intro H. unfold run4, ins_effs4. cbn [fold_left estep4 put4 sel4 fst snd].
  pose (n := Z.to_nat i). pose (m := (length ns - n)%nat).
  assert (Hn : (n <= length ns)%nat) by (unfold n, zlen in *; lia).
  rewrite sl_slice_prefix.
  replace (sl_slice ns i (zlen ns)) with (skipn n ns) by (symmetry; apply sl_slice_suffix; lia).
  replace (Z.to_nat (zlen ns + 1)) with (n + S m)%nat by (unfold n, m, zlen in *; lia).
  rewrite repeat_app. cbn [repeat]. fold n.
  (* copy(ary[0:i], cur[0:i]) *)
  change (repeat nilv n ++ nilv :: repeat nilv m) with ([] ++ repeat nilv n ++ nilv :: repeat nilv m).
  rewrite sl_blit_app; cycle 1.
  { reflexivity. }
  { rewrite firstn_length_le by exact Hn. unfold n. f_equal. lia. }
  { rewrite repeat_length, firstn_length_le by exact Hn. reflexivity. }
  cbn [app].
  (* ary[i] = val *)
  rewrite sl_upd_app by (rewrite firstn_length_le by exact Hn; reflexivity).
  (* copy(ary[i+1:], cur[i:]) *)
  replace (firstn n ns ++ v :: repeat nilv m) with ((firstn n ns ++ [v]) ++ repeat nilv m ++ [])
    by (rewrite <- app_assoc, app_nil_r; reflexivity).
  rewrite sl_blit_app; cycle 1.
  { rewrite app_length, firstn_length_le by exact Hn. simpl. unfold n. lia. }
  { rewrite skipn_length. unfold n, zlen in *. lia. }
  { rewrite repeat_length, skipn_length. reflexivity. }
  rewrite app_nil_r, <- app_assoc. reflexivity.
Qed.

Lemma run4_rm {A} (nilv v : A) (ns : list A) i : 0 <= i < zlen ns ->
  run4 nilv v (rm_effs4 (zlen ns) i) ns = firstn (Z.to_nat i) ns ++ skipn (S (Z.to_nat i)) ns.
Proof.
  intro H. unfold run4, rm_effs4. cbn [fold_left estep4 put4 sel4 fst snd].
  pose (n := Z.to_nat i). pose (m := (length ns - S n)%nat).
  assert (Hn : (S n <= length ns)%nat) by (unfold n, zlen in *; lia).
  rewrite sl_slice_prefix.
  replace (sl_slice ns (i + 1) (zlen ns)) with (skipn (S n) ns)
    by (symmetry; replace (S n) with (Z.to_nat (i + 1)) by (unfold n; lia); apply sl_slice_suffix; lia).
  replace (Z.to_nat (zlen ns - 1)) with (n + m)%nat by (unfold n, m, zlen in *; lia).
  rewrite repeat_app. fold n.
  change (repeat nilv n ++ repeat nilv m) with ([] ++ repeat nilv n ++ repeat nilv m).
  rewrite sl_blit_app; cycle 1.
  { reflexivity. }
  { rewrite firstn_length_le by lia. unfold n. f_equal. lia. }
  { rewrite repeat_length, firstn_length_le by lia. reflexivity. }
  cbn [app].
  replace (firstn n ns ++ repeat nilv m) with (firstn n ns ++ repeat nilv m ++ []) by (now rewrite app_nil_r).
  rewrite sl_blit_app; cycle 1.
  { rewrite firstn_length_le by lia. reflexivity. }
  { rewrite skipn_length. unfold n, zlen in *. lia. }
  { rewrite repeat_length, skipn_length. reflexivity. }
  now rewrite app_nil_r.
Qed.

(* ---- the integer skeletons of the model functions ---- *)
(* resolve_idx_get (con4_get / con4_put on DAry); the legacy get has no test of the empty key *)
Definition spec4_get (neg : bool) (len : Z) (a : option Z) : outcome4 :=
  match a with
  | None => GErr4 CAtoi4
  | Some idx =>
      if idx <? 0 then
        if negb neg then GErr4 CInvalidIndex4
        else if idx <? - len then GErr4 CInvalidIndex4
        else let idx := idx + len in
             if len <=? idx then GErr4 CInvalidIndex4 else GRet4 idx
      else if len <=? idx then GErr4 CInvalidIndex4 else GRet4 idx
  end.

(* ary_set *)
Definition spec4_set (neg : bool) (len : Z) (a : option Z) : outcome4 :=
  match a with
  | None => GErr4 CAtoi4
  | Some idx =>
      if idx <? 0 then
        if negb neg then GErr4 CInvalidIndex4
        else if idx <? - len then GErr4 CInvalidIndex4
        else let idx := idx + len in
             if len <=? idx then GPanic4 else GDone4 [EStore4 SNodes4 idx]
      else if len <=? idx then GPanic4 else GDone4 [EStore4 SNodes4 idx]
  end.

(* ary_add; dash is key == "-" *)
Definition spec4_add (neg : bool) (len : Z) (a : option Z) (dash : bool) : outcome4 :=
  if dash then GDone4 [EAppend4] else
  match a with
  | None => GErr4 CAtoi4
  | Some idx =>
      let sz := len + 1 in
      if sz <=? idx then GErr4 CInvalidIndex4
      else if idx <? 0 then
        if negb neg then GErr4 CInvalidIndex4
        else if idx <? - sz then GErr4 CInvalidIndex4
        else let idx := idx + sz in
             if len <? idx then GPanic4 else GDone4 (ins_effs4 len idx)
      else GDone4 (ins_effs4 len idx)
  end.

(* ary_remove with AllowMissingPathOnRemove = false (the legacy package has no such option) *)
Definition spec4_remove (neg : bool) (len : Z) (a : option Z) : outcome4 :=
  match a with
  | None => GErr4 CAtoi4
  | Some idx =>
      if len <=? idx then GErr4 CInvalidIndex4
      else if idx <? 0 then
        if negb neg then GErr4 CInvalidIndex4
        else if idx <? - len then GErr4 CInvalidIndex4
        else let idx := idx + len in GDone4 (rm_effs4 len idx)
      else GDone4 (rm_effs4 len idx)
  end.

(* ---- concrete boundary values: printed when a tie is broken ---- *)
Definition outcome4_eq_dec (x y : outcome4) : {x = y} + {x <> y}.
Proof.
  repeat (decide equality; try apply Z.eq_dec).
Defined.

Definition grid_lens4 (top : Z) : list Z := [0; 1; 2; 3; top - 1; top].

Definition grid_idxs4 (len : Z) : list (option Z) :=
  None :: map Some
    (nodup Z.eq_dec (filter (fun z => (int64_min <=? z) && (z <=? int64_max))
       [int64_min; int64_min + 1; - len - 2; - len - 1; - len; - len + 1; -2; -1; 0; 1;
        len - 1; len; len + 1; len + 2; int64_max - 1; int64_max])).

Definition grid_bad4 (top : Z) (f g : bool -> Z -> option Z -> outcome4)
  : list (bool * Z * option Z * outcome4 * outcome4) :=
  flat_map (fun neg => flat_map (fun len => flat_map (fun a =>
    if outcome4_eq_dec (f neg len a) (g neg len a) then []
    else [(neg, len, a, f neg len a, g neg len a)])
    (grid_idxs4 len)) (grid_lens4 top)) [false; true].

Definition nokey4 (_ : list byte) : bool := false.

Definition bad4_get := grid_bad4 int64_max (fun n l a => idx4_get_gen n l a nokey4) (fun n l a => spec4_get n l a).
Definition bad4_set := grid_bad4 int64_max (fun n l a => idx4_set_gen n l a nokey4) (fun n l a => spec4_set n l a).
Definition bad4_add := grid_bad4 (int64_max - 1) (fun n l a => idx4_add_gen n l a nokey4) (fun n l a => spec4_add n l a false).
Definition bad4_remove := grid_bad4 int64_max (fun n l a => idx4_remove_gen n l a nokey4) (fun n l a => spec4_remove n l a).

(* (neg, len, atoi, outcome of the legacy patch.go as translated, outcome of the model) *)
Eval vm_compute in (bad4_get, bad4_set, bad4_add, bad4_remove).

(* ---- step 1: the generated functions are the skeletons, for every int ---- *)
Ltac show_case4 :=
  idtac "IndexTie4: UNPROVED CASE -- the legacy patch.go as translated differs from the model here:";
  try (match goal with H : ?T |- _ =>
         lazymatch type of T with Prop => idtac "   " H ":" T | _ => idtac "   " H ":" T end; fail end);
  match goal with |- ?G => idtac "   |-" G end.

Ltac range_tac4 := unfold in64_4, int64_min, int64_max in *; lia.

Ltac no_wrap4 t := lazymatch t with context [wrap4 _] => fail | _ => idtac end.

Ltac tie_step4 :=
  first
  [ match goal with |- context [if ?b then _ else _] => is_var b; destruct b end
  | match goal with |- context [negb ?b] => is_var b; destruct b end
  | progress cbn [negb andb orb]
  | (* a wrap-around that cannot happen here *)
    match goal with |- context [wrap4 ?z] => no_wrap4 z; rewrite (wrap4_id z) by range_tac4 end
  | match goal with |- context [Z.ltb ?a ?b] => no_wrap4 a; no_wrap4 b;
      destruct (Z.ltb_spec a b); try (exfalso; range_tac4) end
  | match goal with |- context [Z.leb ?a ?b] => no_wrap4 a; no_wrap4 b;
      destruct (Z.leb_spec a b); try (exfalso; range_tac4) end
  | match goal with |- context [Z.eqb ?a ?b] => no_wrap4 a; no_wrap4 b;
      destruct (Z.eqb_spec a b); try (exfalso; range_tac4) end
  | (* a wrap-around that can happen (not met on the unchanged patch.go): split on it, so that a
       harmless one is proved and a harmful one is shown with its cause *)
    match goal with |- context [wrap4 ?z] => no_wrap4 z;
      destruct (Z_lt_le_dec int64_max z) as [?OVERFLOW|?];
      [ rewrite (wrap4_over z) by range_tac4
      | destruct (Z_lt_le_dec z int64_min) as [?UNDERFLOW|?];
        [ rewrite (wrap4_under z) by range_tac4 | rewrite (wrap4_id z) by range_tac4 ] ] end ].

(* equal outcomes: same constructors, integer arguments equal by arithmetic *)
Lemma ecopy4_eq d s a b c e a' b' c' e' : a = a' -> b = b' -> c = c' -> e = e' ->
  ECopy4 d a b s c e = ECopy4 d a' b' s c' e'.
Proof. intros; subst; reflexivity. Qed.

Ltac eff_eq4 :=
  lazymatch goal with
  | |- @eq Z _ _ => range_tac4
  | |- GDone4 _ = GDone4 _ => apply f_equal; eff_eq4
  | |- GRet4 _ = GRet4 _ => apply f_equal; eff_eq4
  | |- (_ :: _) = (_ :: _) => apply f_equal2; eff_eq4
  | |- EMake4 _ = EMake4 _ => apply f_equal; eff_eq4
  | |- EStore4 ?x _ = EStore4 ?x _ => apply f_equal; eff_eq4
  | |- ECopy4 ?d _ _ ?s _ _ = ECopy4 ?d _ _ ?s _ _ => apply ecopy4_eq; eff_eq4
  | |- _ => reflexivity
  end.

Ltac tie_close4 := first [ reflexivity | unfold ins_effs4, rm_effs4; solve [eff_eq4] ].

Ltac tie_auto4 := cbv zeta; repeat tie_step4; first [ tie_close4 | show_case4 ].

Theorem get4_gen_spec neg len a keyeq :
  0 <= len <= int64_max -> atoi_ok4 a ->
  idx4_get_gen neg len a keyeq = spec4_get neg len a.
Proof.
  intros Hl Ha. unfold idx4_get_gen, spec4_get.
  destruct a as [idx|]; [simpl in Ha|reflexivity].
  tie_auto4.
Qed.

Theorem set4_gen_spec neg len a keyeq :
  0 <= len <= int64_max -> atoi_ok4 a ->
  idx4_set_gen neg len a keyeq = spec4_set neg len a.
Proof.
  intros Hl Ha. unfold idx4_set_gen, spec4_set.
  destruct a as [idx|]; [simpl in Ha|reflexivity].
  tie_auto4.
Qed.

(* len + 1 must be an int: see add4_overflow_at_max_len below *)
Theorem add4_gen_spec neg len a keyeq :
  0 <= len < int64_max -> atoi_ok4 a ->
  idx4_add_gen neg len a keyeq = spec4_add neg len a (keyeq [x2d]).
Proof.
  intros Hl Ha. unfold idx4_add_gen, spec4_add.
  destruct (keyeq [x2d]); [reflexivity|].
  destruct a as [idx|]; [simpl in Ha|reflexivity].
  tie_auto4.
Qed.

Theorem remove4_gen_spec neg len a keyeq :
  0 <= len <= int64_max -> atoi_ok4 a ->
  idx4_remove_gen neg len a keyeq = spec4_remove neg len a.
Proof.
  intros Hl Ha. unfold idx4_remove_gen, spec4_remove.
  destruct a as [idx|]; [simpl in Ha|reflexivity].
  tie_auto4.
Qed.

(* ---- where the generated code panics ---- *)
(* set: exactly for an index at or past the end (the index expression of the assignment is out of
   range); a negative index that survives the two tests lands inside *)
Theorem set4_gen_panic_iff neg len a keyeq :
  0 <= len <= int64_max -> atoi_ok4 a ->
  (idx4_set_gen neg len a keyeq = GPanic4 <-> exists idx, a = Some idx /\ len <= idx).
Proof.
  intros Hl Ha. rewrite set4_gen_spec by assumption. unfold spec4_set.
  destruct a as [idx|]; [|split; [discriminate | intros [i [E _]]; discriminate]].
  cbv zeta. split.
  - intro H. exists idx. split; [reflexivity|].
    destruct (Z.ltb_spec idx 0).
    + destruct neg; cbn [negb] in H; [|discriminate].
      destruct (Z.ltb_spec idx (- len)); [discriminate|].
      destruct (Z.leb_spec len (idx + len)); [lia | discriminate].
    + destruct (Z.leb_spec len idx); [assumption | discriminate].
  - intros [i [E L]]. inversion E; subst i.
    destruct (Z.ltb_spec idx 0); [lia|].
    destruct (Z.leb_spec len idx); [reflexivity | lia].
Qed.

Theorem get4_gen_never_panics neg len a keyeq :
  0 <= len <= int64_max -> atoi_ok4 a -> idx4_get_gen neg len a keyeq <> GPanic4.
Proof.
  intros Hl Ha. rewrite get4_gen_spec by assumption. unfold spec4_get.
  destruct a as [idx|]; [|discriminate]. cbv zeta.
  destruct (idx <? 0).
  - destruct (negb neg); [discriminate|]. destruct (idx <? - len); [discriminate|].
    destruct (len <=? idx + len); discriminate.
  - destruct (len <=? idx); discriminate.
Qed.

Theorem add4_gen_never_panics neg len a keyeq :
  0 <= len < int64_max -> atoi_ok4 a -> idx4_add_gen neg len a keyeq <> GPanic4.
Proof.
  intros Hl Ha. rewrite add4_gen_spec by assumption. unfold spec4_add.
  destruct (keyeq [x2d]); [discriminate|].
  destruct a as [idx|]; [|discriminate]. cbv zeta.
  destruct (Z.leb_spec (len + 1) idx); [discriminate|].
  destruct (Z.ltb_spec idx 0); [|discriminate].
  destruct (negb neg); [discriminate|].
  destruct (Z.ltb_spec idx (- (len + 1))); [discriminate|].
  destruct (Z.ltb_spec len (idx + (len + 1))); [lia | discriminate].
Qed.

Theorem remove4_gen_never_panics neg len a keyeq :
  0 <= len <= int64_max -> atoi_ok4 a -> idx4_remove_gen neg len a keyeq <> GPanic4.
Proof.
  intros Hl Ha. rewrite remove4_gen_spec by assumption. unfold spec4_remove.
  destruct a as [idx|]; [|discriminate]. cbv zeta.
  destruct (len <=? idx); [discriminate|].
  destruct (idx <? 0); [|discriminate].
  destruct (negb neg); [discriminate|]. destruct (idx <? - len); discriminate.
Qed.

(* what Patch.replace relies on: where get returns an element, set stores into that very element *)
Theorem get4_ok_set4_ok neg len a keyeq keyeq' i :
  0 <= len <= int64_max -> atoi_ok4 a ->
  idx4_get_gen neg len a keyeq = GRet4 i ->
  idx4_set_gen neg len a keyeq' = GDone4 [EStore4 SNodes4 i] /\ 0 <= i < len.
Proof.
  intros Hl Ha. rewrite get4_gen_spec, set4_gen_spec by assumption. unfold spec4_get, spec4_set.
  destruct a as [idx|]; [|discriminate]. cbv zeta. simpl in Ha.
  destruct (Z.ltb_spec idx 0).
  - destruct (negb neg); [discriminate|]. destruct (Z.ltb_spec idx (- len)); [discriminate|].
    destruct (Z.leb_spec len (idx + len)); [discriminate|].
    intro E. inversion E; subst i. split; [reflexivity | lia].
  - destruct (Z.leb_spec len idx); [discriminate|].
    intro E. inversion E; subst i. split; [reflexivity | lia].
Qed.

(* ---- step 2: the model functions are their skeletons read through the adapters ---- *)
Definition cls4 (c : errcls4) : errclass :=
  match c with CInvalidIndex4 => EInvalidIndex | CMissing4 => EMissing | CAtoi4 => EAtoi | COther4 => EOther end.

(* the result of get: the index found (resolve_idx_get), the node (con4_get) *)
Definition res_idx4 (g : outcome4) : res nat :=
  match g with
  | GRet4 i => Ok (Z.to_nat i)
  | GErr4 c => Err (cls4 c)
  | GDone4 _ | GPanic4 => Panic
  end.

Definition res_node4 (ns : list node) (g : outcome4) : res node :=
  match g with
  | GRet4 i => Ok (nth (Z.to_nat i) ns NNil)
  | GErr4 c => Err (cls4 c)
  | GDone4 _ | GPanic4 => Panic
  end.

(* the result of set / add / remove: the slice after the effects *)
Definition res_nodes4 (ns : list node) (v : node) (g : outcome4) : res (list node) :=
  match g with
  | GDone4 es => Ok (run4 NNil v es ns)
  | GErr4 c => Err (cls4 c)
  | GRet4 _ | GPanic4 => Panic
  end.

(* ... as the legacy container *)
Definition res_con4 (ns : list node) (v : node) (g : outcome4) : res con4 :=
  match g with
  | GDone4 es => Ok (DAry (run4 NNil v es ns))
  | GErr4 c => Err (cls4 c)
  | GRet4 _ | GPanic4 => Panic
  end.

Lemma res_con4_nodes ns v g :
  match res_nodes4 ns v g with Ok ns' => Ok (DAry ns') | Err e => Err e | Panic => Panic end = res_con4 ns v g.
Proof. destruct g; reflexivity. Qed.

Theorem get4_spec_model o len key :
  resolve_idx_get o len key = res_idx4 (spec4_get (o_neg o) len (atoi key)).
Proof.
  unfold resolve_idx_get, spec4_get. destruct (atoi key) as [idx|]; [|reflexivity].
  destruct (idx <? 0).
  - destruct (o_neg o); [|reflexivity]. cbn [negb].
    destruct (idx <? - len); [reflexivity|]. cbv zeta. destruct (len <=? idx + len); reflexivity.
  - destruct (len <=? idx); reflexivity.
Qed.

Theorem set4_spec_model o ns key v :
  ary_set o ns key v = res_nodes4 ns v (spec4_set (o_neg o) (zlen ns) (atoi key)).
Proof.
  unfold ary_set, spec4_set. destruct (atoi key) as [idx|]; [|reflexivity]. cbv zeta.
  destruct (idx <? 0).
  - destruct (o_neg o); [|reflexivity]. cbn [negb].
    destruct (idx <? - zlen ns); [reflexivity|]. destruct (zlen ns <=? idx + zlen ns); reflexivity.
  - destruct (zlen ns <=? idx); reflexivity.
Qed.

Theorem add4_spec_model o ns key v :
  ary_add o ns key v = res_nodes4 ns v (spec4_add (o_neg o) (zlen ns) (atoi key) (bseq key [x2d])).
Proof.
  unfold ary_add, spec4_add. destruct (bseq key [x2d]); [reflexivity|].
  destruct (atoi key) as [idx|]; [|reflexivity]. cbv zeta.
  pose proof (Zle_0_nat (length ns)) as L0. fold (zlen ns) in L0.
  destruct (Z.leb_spec (zlen ns + 1) idx); [reflexivity|].
  destruct (Z.ltb_spec idx 0).
  - destruct (o_neg o); [|reflexivity]. cbn [negb].
    destruct (Z.ltb_spec idx (- (zlen ns + 1))); [reflexivity|].
    destruct (Z.ltb_spec (zlen ns) (idx + (zlen ns + 1))); [reflexivity|].
    cbn [res_nodes4]. rewrite run4_ins by lia. reflexivity.
  - cbn [res_nodes4]. rewrite run4_ins by lia. reflexivity.
Qed.

(* the legacy package has no AllowMissingPathOnRemove: the legacy model passes o5 g, where it is false *)
Theorem remove4_spec_model o ns key :
  o_allow o = false ->
  ary_remove o ns key = res_nodes4 ns NNil (spec4_remove (o_neg o) (zlen ns) (atoi key)).
Proof.
  intro AL. unfold ary_remove, spec4_remove. rewrite AL. destruct (atoi key) as [idx|]; [|reflexivity]. cbv zeta.
  destruct (Z.leb_spec (zlen ns) idx); [reflexivity|].
  destruct (Z.ltb_spec idx 0).
  - destruct (o_neg o); [|reflexivity]. cbn [negb].
    destruct (Z.ltb_spec idx (- zlen ns)); [reflexivity|].
    cbn [res_nodes4]. rewrite run4_rm by lia. reflexivity.
  - cbn [res_nodes4]. rewrite run4_rm by lia. reflexivity.
Qed.

(* ---- the ties, on tokens ---- *)
(* hypothesis: the slice is shorter than 2^63 (for add: its length plus one is an int) *)
Lemma zlen_nonneg4 {A} (l : list A) : 0 <= zlen l.
Proof. unfold zlen. lia. Qed.

(* (a) the ImplV5 functions the legacy model calls *)
Theorem resolve_idx_get_tie4 o len key :
  0 <= len <= int64_max ->
  resolve_idx_get o len key = res_idx4 (idx4_get_gen (o_neg o) len (atoi key) (bseq key)).
Proof.
  intro H. rewrite get4_gen_spec by (auto using atoi_in64_4). apply get4_spec_model.
Qed.

Theorem ary_set_tie4 o ns key v :
  zlen ns <= int64_max ->
  ary_set o ns key v = res_nodes4 ns v (idx4_set_gen (o_neg o) (zlen ns) (atoi key) (bseq key)).
Proof.
  intro H. pose proof (zlen_nonneg4 ns).
  rewrite set4_gen_spec by (auto using atoi_in64_4). apply set4_spec_model.
Qed.

Theorem ary_add_tie4 o ns key v :
  zlen ns < int64_max ->
  ary_add o ns key v = res_nodes4 ns v (idx4_add_gen (o_neg o) (zlen ns) (atoi key) (bseq key)).
Proof.
  intro H. pose proof (zlen_nonneg4 ns).
  rewrite add4_gen_spec by (auto using atoi_in64_4). apply add4_spec_model.
Qed.

Theorem ary_remove_tie4 o ns key :
  o_allow o = false -> zlen ns <= int64_max ->
  ary_remove o ns key = res_nodes4 ns NNil (idx4_remove_gen (o_neg o) (zlen ns) (atoi key) (bseq key)).
Proof.
  intros AL H. pose proof (zlen_nonneg4 ns).
  rewrite remove4_gen_spec by (auto using atoi_in64_4). apply remove4_spec_model. exact AL.
Qed.

(* (b) the legacy container functions: every token, both settings of SupportNegativeIndices *)
Theorem con4_get_tie g ns key :
  zlen ns <= int64_max ->
  con4_get g (DAry ns) key = res_node4 ns (idx4_get_gen (g_neg g) (zlen ns) (atoi key) (bseq key)).
Proof.
  intro H. pose proof (zlen_nonneg4 ns). cbn [con4_get].
  rewrite (resolve_idx_get_tie4 (o5 g)) by lia. cbn [o5 o_neg].
  destruct (idx4_get_gen (g_neg g) (zlen ns) (atoi key) (bseq key)); reflexivity.
Qed.

Theorem con4_set_tie g ns key v :
  zlen ns <= int64_max ->
  con4_set g (DAry ns) key v = res_con4 ns v (idx4_set_gen (g_neg g) (zlen ns) (atoi key) (bseq key)).
Proof.
  intro H. cbn [con4_set]. rewrite (ary_set_tie4 (o5 g)) by exact H. cbn [o5 o_neg]. apply res_con4_nodes.
Qed.

Theorem con4_add_tie g ns key v :
  zlen ns < int64_max ->
  con4_add g (DAry ns) key v = res_con4 ns v (idx4_add_gen (g_neg g) (zlen ns) (atoi key) (bseq key)).
Proof.
  intro H. cbn [con4_add]. rewrite (ary_add_tie4 (o5 g)) by exact H. cbn [o5 o_neg]. apply res_con4_nodes.
Qed.

Theorem con4_remove_tie g ns key :
  zlen ns <= int64_max ->
  con4_remove g (DAry ns) key = res_con4 ns NNil (idx4_remove_gen (g_neg g) (zlen ns) (atoi key) (bseq key)).
Proof.
  intro H. cbn [con4_remove]. rewrite (ary_remove_tie4 (o5 g)) by (try reflexivity; exact H).
  cbn [o5 o_neg]. apply res_con4_nodes.
Qed.

(* the write-back of findObject's walk (con4_put) resolves the index as get does *)
Theorem con4_put_tie g ns key ch :
  zlen ns <= int64_max ->
  con4_put g (DAry ns) key ch =
  match idx4_get_gen (g_neg g) (zlen ns) (atoi key) (bseq key) with
  | GRet4 i => DAry (firstn (Z.to_nat i) ns ++ ch :: skipn (S (Z.to_nat i)) ns)
  | _ => DAry ns
  end.
Proof.
  intro H. pose proof (zlen_nonneg4 ns). cbn [con4_put].
  rewrite (resolve_idx_get_tie4 (o5 g)) by lia. cbn [o5 o_neg].
  destruct (idx4_get_gen (g_neg g) (zlen ns) (atoi key) (bseq key)); reflexivity.
Qed.

(* ---- the panic of set and the legacy replace ---- *)
(* the model's set panics exactly where the translated Go code does: for every array (no bound on its
   length is needed here, the model computes with unbounded integers) *)
Theorem con4_set_panic_iff g ns key v :
  con4_set g (DAry ns) key v = Panic <-> exists idx, atoi key = Some idx /\ zlen ns <= idx.
Proof.
  pose proof (zlen_nonneg4 ns) as L0. cbn [con4_set]. unfold ary_set. cbv zeta.
  destruct (atoi key) as [idx|]; [|split; [discriminate | intros [i [E _]]; discriminate]].
  split.
  - intro H. exists idx. split; [reflexivity|].
    destruct (Z.ltb_spec idx 0).
    + destruct (negb (o_neg (o5 g))); [discriminate|].
      destruct (Z.ltb_spec idx (- zlen ns)); [discriminate|].
      destruct (Z.leb_spec (zlen ns) (idx + zlen ns)); [lia | discriminate].
    + destruct (Z.leb_spec (zlen ns) idx); [assumption | discriminate].
  - intros [i [E L]]. inversion E; subst i.
    destruct (Z.ltb_spec idx 0); [lia|].
    destruct (Z.leb_spec (zlen ns) idx); [reflexivity | lia].
Qed.

Theorem con4_set_panic_iff_gen g ns key v :
  zlen ns <= int64_max ->
  (con4_set g (DAry ns) key v = Panic <-> idx4_set_gen (g_neg g) (zlen ns) (atoi key) (bseq key) = GPanic4).
Proof.
  intro H. rewrite con4_set_panic_iff. symmetry.
  apply set4_gen_panic_iff; [split; [apply zlen_nonneg4 | exact H] | apply atoi_in64_4].
Qed.

Theorem con4_get_never_panics g c key : con4_get g c key <> Panic.
Proof.
  destruct c as [obj| |ns]; cbn [con4_get]; try discriminate.
  unfold resolve_idx_get. destruct (atoi key) as [idx|]; [|discriminate]. cbv zeta.
  destruct (idx <? 0).
  - destruct (negb (o_neg (o5 g))); [discriminate|]. destruct (idx <? - zlen ns); [discriminate|].
    destruct (zlen ns <=? idx + zlen ns); discriminate.
  - destruct (zlen ns <=? idx); discriminate.
Qed.

(* where get succeeds, set on the same container and key does not panic (and on an array it succeeds) *)
Theorem con4_get_ok_set_ok g c key v n :
  con4_get g c key = Ok n -> con4_set g c key v <> Panic /\ (forall ns, c = DAry ns -> exists c', con4_set g c key v = Ok c').
Proof.
  destruct c as [obj| |ns]; cbn [con4_get con4_set]; intro G.
  - split; [discriminate | intros ns E; discriminate E].
  - split; [discriminate | intros ns E; discriminate E].
  - assert (S : exists ns', ary_set (o5 g) ns key v = Ok ns').
    { unfold resolve_idx_get in G. unfold ary_set. destruct (atoi key) as [idx|]; [|discriminate]. cbv zeta in *.
      destruct (idx <? 0).
      - destruct (negb (o_neg (o5 g))); [discriminate|]. destruct (idx <? - zlen ns); [discriminate|].
        destruct (zlen ns <=? idx + zlen ns); [discriminate | eexists; reflexivity].
      - destruct (zlen ns <=? idx); [discriminate | eexists; reflexivity]. }
    destruct S as [ns' S]. rewrite S. split; [discriminate | intros ns0 _; eexists; reflexivity].
Qed.

(* the function the legacy replace (step4, KReplace, non-empty path) runs at the container found:
   Patch.replace calls con.get(key) and returns ErrMissing if that fails, before con.set(key, value) *)
Definition replace4_body (g : opts4) (v : node) (c : con4) (key : bytes) : res unit * con4 :=
  match con4_get g c key with
  | Ok _ => upd (con4_set g c key v) c tt
  | Err _ => (Err EMissing, c)
  | Panic => (Panic, c)
  end.

Theorem step4_replace_is_body g st op b r :
  op_kind op = KReplace -> op_str op (B "path") = Ok (b :: r) ->
  step4 g st op =
  lift4 (find4 g (r4 st) (b :: r)
           (replace4_body g (match op_value4 op with Some v => v | None => NNil end))) st
        (fun _ c2 => Ok (mkState4 c2 (acc4 st))).
Proof.
  intros K P. unfold step4. rewrite K, P. reflexivity.
Qed.

(* set is never called in the situation in which it panics *)
Theorem replace4_body_never_panics g v c key : fst (replace4_body g v c key) <> Panic.
Proof.
  unfold replace4_body. destruct (con4_get g c key) as [n|e|] eqn:G.
  - destruct (con4_get_ok_set_ok g c key v n G) as [NP _].
    destruct (con4_set g c key v); cbn [upd fst]; [discriminate | discriminate | congruence].
  - discriminate.
  - exfalso. exact (con4_get_never_panics g c key G).
Qed.

(* in integers: replace stores exactly into the element get returned *)
Theorem replace4_body_array g v ns key :
  zlen ns <= int64_max ->
  replace4_body g v (DAry ns) key =
  match idx4_get_gen (g_neg g) (zlen ns) (atoi key) (bseq key) with
  | GRet4 i => (Ok tt, DAry (firstn (Z.to_nat i) ns ++ v :: skipn (S (Z.to_nat i)) ns))
  | GErr4 _ => (Err EMissing, DAry ns)
  | _ => (Panic, DAry ns)
  end.
Proof.
  intro H. pose proof (zlen_nonneg4 ns) as L0. unfold replace4_body.
  rewrite con4_get_tie, con4_set_tie by exact H.
  destruct (idx4_get_gen (g_neg g) (zlen ns) (atoi key) (bseq key)) as [i|es|c|] eqn:G; cbn [res_node4]; try reflexivity.
  destruct (get4_ok_set4_ok (g_neg g) (zlen ns) (atoi key) (bseq key) (bseq key) i) as [S R];
    [lia | apply atoi_in64_4 | exact G |].
  rewrite S. cbn [res_con4 upd run4 fold_left estep4 put4 sel4 fst snd]. reflexivity.
Qed.

Example boundary_values_agree4 : (bad4_get, bad4_set, bad4_add, bad4_remove) = ([], [], [], []).
Proof. vm_compute. reflexivity. Qed.

(* ---- where the range hypothesis of add is needed ---- *)
(* With a slice of length 2^63-1 the Go code computes sz = len+1 = -2^63 and make panics; the model
   computes with unbounded integers.  A slice of that length cannot exist (2^66 bytes of pointers),
   so this is the edge of the hypothesis zlen ns < int64_max, not a reachable case. *)
Example add4_overflow_at_max_len :
  idx4_add_gen false int64_max (Some 0) nokey4 = GPanic4 /\
  spec4_add false int64_max (Some 0) false = GDone4 (ins_effs4 int64_max 0).
Proof. split; vm_compute; reflexivity. Qed.

(* the panic of set is real (index out of range) when set is called directly; Patch.replace calls
   get first (replace4_body_never_panics) *)
Example set4_out_of_range_panics :
  idx4_set_gen false 2 (Some 2) nokey4 = GPanic4 /\
  con4_set (mkOpts4 true 0 None) (DAry [NNil; NNil]) [x32] NNil = Panic /\
  replace4_body (mkOpts4 true 0 None) NNil (DAry [NNil; NNil]) [x32] = (Err EMissing, DAry [NNil; NNil]).
Proof. repeat split; vm_compute; reflexivity. Qed.

(* the most negative int: - idx wraps around; patch.go compares idx < -len and is not affected;
   add accepts -(len+1) as position 0 *)
Example most_negative_index4 :
  idx4_get_gen true 3 (Some int64_min) nokey4 = GErr4 CInvalidIndex4 /\
  idx4_remove_gen true 3 (Some int64_min) nokey4 = GErr4 CInvalidIndex4 /\
  idx4_add_gen true 3 (Some (-4)) nokey4 = GDone4 (ins_effs4 3 0).
Proof. repeat split; vm_compute; reflexivity. Qed.

Print Assumptions get4_gen_spec.
Print Assumptions set4_gen_spec.
Print Assumptions add4_gen_spec.
Print Assumptions remove4_gen_spec.
Print Assumptions set4_gen_panic_iff.
Print Assumptions get4_gen_never_panics.
Print Assumptions add4_gen_never_panics.
Print Assumptions remove4_gen_never_panics.
Print Assumptions get4_ok_set4_ok.
Print Assumptions resolve_idx_get_tie4.
Print Assumptions ary_set_tie4.
Print Assumptions ary_add_tie4.
Print Assumptions ary_remove_tie4.
Print Assumptions con4_get_tie.
Print Assumptions con4_set_tie.
Print Assumptions con4_add_tie.
Print Assumptions con4_remove_tie.
Print Assumptions con4_put_tie.
Print Assumptions con4_set_panic_iff.
Print Assumptions con4_set_panic_iff_gen.
Print Assumptions con4_get_ok_set_ok.
Print Assumptions step4_replace_is_body.
Print Assumptions replace4_body_never_panics.
Print Assumptions replace4_body_array.
