(* ScannerParse.v — values, elements and members: the automaton's verdict on a text equals the
   verdict of the recursive-descent reader, by induction on the reader's fuel; hence
   checkValid (as translated from scanner.go) accepts exactly the texts Text.parse reads. *)
From Coq Require Import Lia.
From JP Require Import Bytes Json Text Scan ScannerRef ScannerTie ScannerCorrect ScannerGrammar.
From JP.gen Require Import ScannerGen.

Lemma number_case stk c r : special c = false ->
  afinal St_stateBeginValue stk (c :: r) =
  verdict (match scan_number (c :: r) with Some (lit, rest) => Some (TNum lit, rest) | None => None end) stk.
Proof.
  intro Sp. rewrite (verdict_map TNum). apply number_auto. exact Sp.
Qed.

Definition fuel_v (f : nat) (s : bytes) : Prop := (2 * length s + 1 <= f)%nat.
Definition fuel_l (f : nat) (s : bytes) : Prop := (2 * length s + 2 <= f)%nat.

Lemma endvalue_nil p l : afinal St_stateEndValue (p :: l) [] = false.
Proof. destruct p; reflexivity. Qed.

Lemma arr_sep l c : is_ws c = false ->
  astep St_stateEndValue (parseArrayValue :: l) c =
  if Byte.eqb c x5d then Some (popped l, l)
  else if Byte.eqb c x2c then Some (St_stateBeginValue, parseArrayValue :: l) else None.
Proof. intro W. destruct (Byte.eqb c x5d) eqn:E; [apply Byte.byte_dec_bl in E; subst c; apply pop_arr|]. revert W E. bytecases c. Qed.

Lemma obj_sep l c : is_ws c = false ->
  astep St_stateEndValue (parseObjectValue :: l) c =
  if Byte.eqb c x7d then Some (popped l, l)
  else if Byte.eqb c x2c then Some (St_stateBeginString, parseObjectKey :: l) else None.
Proof. intro W. destruct (Byte.eqb c x7d) eqn:E; [apply Byte.byte_dec_bl in E; subst c; apply pop_obj|]. revert W E. bytecases c. Qed.

Lemma key_sep l c : is_ws c = false ->
  astep St_stateEndValue (parseObjectKey :: l) c =
  if Byte.eqb c x3a then Some (St_stateBeginValue, parseObjectValue :: l) else None.
Proof. bytecases c. Qed.

Lemma bs_step stk c : is_ws c = false ->
  astep St_stateBeginString stk c = if Byte.eqb c x22 then Some (St_stateInString, stk) else None.
Proof. bytecases c. Qed.


Lemma begin_nil x stk : skips_ws x = true -> afinal x stk [] = false.
Proof. destruct x; try discriminate; reflexivity. Qed.

Lemma dep_settop p q l d : dep (p :: l) d -> dep (q :: l) d.
Proof. exact (fun H => H). Qed.

Lemma dep_push p stk d : dep stk d -> (d =? 0)%N = false -> dep (p :: stk) (d - 1).
Proof. unfold dep. cbn [length]. intros D Z. apply N.eqb_neq in Z. lia. Qed.

Theorem struct_auto : forall f,
  (forall d s stk, dep stk d -> fuel_v f s ->
     afinal St_stateBeginValue stk s = verdict (parse_value f d s) stk) /\
  (forall d s l, dep (parseArrayValue :: l) d -> fuel_l f s ->
     afinal St_stateBeginValue (parseArrayValue :: l) s = verdict (parse_elems f d s) l) /\
  (forall d s l, dep (parseObjectKey :: l) d -> fuel_l f s ->
     afinal St_stateBeginString (parseObjectKey :: l) s = verdict (parse_members f d s) l).
Proof.
  induction f as [|f [IV [IE IM]]].
  { unfold fuel_v, fuel_l. repeat split; intros; lia. }
  repeat split.
  - (* values *)
    intros d s stk D F. unfold fuel_v in F. rewrite (ws_skip St_stateBeginValue stk eq_refl). cbn [parse_value].
    destruct (skip_ws s) as [|c r] eqn:W; [reflexivity|].
    pose proof (skip_ws_hd _ _ _ W) as Wc. apply skip_ws_cons_len in W.
    destruct c; try discriminate Wc; try (apply number_case; reflexivity).
    + (* string *)
      rewrite afinal_cons. change (astep St_stateBeginValue stk x22) with (Some (St_stateInString, stk)). cbv beta iota.
      rewrite (scan_string_auto _ r stk (le_n _)). destruct (scan_string r) as [[b rest]|]; reflexivity.
    + (* array *)
      rewrite afinal_cons, (push_arr stk d D). destruct (d =? 0)%N eqn:Z; [reflexivity|].
      pose proof (dep_push parseArrayValue stk d D Z) as D'.
      assert (IEr : afinal St_stateBeginValue (parseArrayValue :: stk) r = verdict (parse_elems f (d - 1) r) stk).
      { apply IE; [exact D' | unfold fuel_l; lia]. }
      rewrite (ws_skip St_stateBeginValueOrEmpty _ eq_refl). rewrite (ws_skip St_stateBeginValue _ eq_refl) in IEr.
      destruct (skip_ws r) as [|c2 r2] eqn:W2.
      * rewrite (verdict_map TArr), <- IEr. reflexivity.
      * pose proof (skip_ws_hd _ _ _ W2) as Wc2. destruct (Byte.eqb c2 x5d) eqn:E2.
        { apply Byte.byte_dec_bl in E2. subst c2. rewrite afinal_cons, empty_arr. apply popped_final. }
        { transitivity (verdict (match parse_elems f (d - 1) r with Some (l, rest) => Some (TArr l, rest) | None => None end) stk);
            [|destruct c2; try reflexivity; discriminate E2].
          rewrite (verdict_map TArr), <- IEr, !afinal_cons, bvoe_other by assumption. reflexivity. }
    + (* false *)
      rewrite afinal_cons. change (astep St_stateBeginValue stk x66) with (Some (St_stateF, stk)). cbv beta iota.
      rewrite lit_false. destruct (strip_prefix _ r); reflexivity.
    + (* null *)
      rewrite afinal_cons. change (astep St_stateBeginValue stk x6e) with (Some (St_stateN, stk)). cbv beta iota.
      rewrite lit_null. destruct (strip_prefix _ r); reflexivity.
    + (* true *)
      rewrite afinal_cons. change (astep St_stateBeginValue stk x74) with (Some (St_stateT, stk)). cbv beta iota.
      rewrite lit_true. destruct (strip_prefix _ r); reflexivity.
    + (* object *)
      rewrite afinal_cons, (push_obj stk d D). destruct (d =? 0)%N eqn:Z; [reflexivity|].
      pose proof (dep_push parseObjectKey stk d D Z) as D'.
      assert (IMr : afinal St_stateBeginString (parseObjectKey :: stk) r = verdict (parse_members f (d - 1) r) stk).
      { apply IM; [exact D' | unfold fuel_l; lia]. }
      rewrite (ws_skip St_stateBeginStringOrEmpty _ eq_refl). rewrite (ws_skip St_stateBeginString _ eq_refl) in IMr.
      destruct (skip_ws r) as [|c2 r2] eqn:W2.
      * rewrite (verdict_map TObj), <- IMr. reflexivity.
      * pose proof (skip_ws_hd _ _ _ W2) as Wc2. destruct (Byte.eqb c2 x7d) eqn:E2.
        { apply Byte.byte_dec_bl in E2. subst c2. rewrite afinal_cons, empty_obj. apply popped_final. }
        { transitivity (verdict (match parse_members f (d - 1) r with Some (l, rest) => Some (TObj l, rest) | None => None end) stk);
            [|destruct c2; try reflexivity; discriminate E2].
          rewrite (verdict_map TObj), <- IMr, !afinal_cons, bsoe_other by assumption. reflexivity. }
  - (* elements *)
    intros d s l D F. unfold fuel_l in F. cbn [parse_elems].
    rewrite (IV d s _ D) by (unfold fuel_v; lia).
    destruct (parse_value f d s) as [[v rest]|] eqn:Pv; [|reflexivity]. cbn [verdict].
    apply (proj1 (parse_len f)) in Pv. rewrite endvalue_ws_skip.
    destruct (skip_ws rest) as [|c r'] eqn:W; [reflexivity|].
    pose proof (skip_ws_hd _ _ _ W) as Wc. apply skip_ws_cons_len in W.
    rewrite afinal_cons, arr_sep by assumption.
    destruct (Byte.eqb c x5d) eqn:E1.
    { apply Byte.byte_dec_bl in E1. subst c. apply popped_final. }
    destruct (Byte.eqb c x2c) eqn:E2.
    { apply Byte.byte_dec_bl in E2. subst c. rewrite (IE d r' l D) by (unfold fuel_l; lia).
      destruct (parse_elems f d r') as [[l0 rest0]|]; reflexivity. }
    destruct c; try reflexivity; discriminate.
  - (* members *)
    intros d s l D F. unfold fuel_l in F. cbn [parse_members]. rewrite (ws_skip St_stateBeginString _ eq_refl).
    destruct (skip_ws s) as [|c r] eqn:W; [reflexivity|].
    pose proof (skip_ws_hd _ _ _ W) as Wc. apply skip_ws_cons_len in W.
    rewrite afinal_cons, bs_step by assumption. destruct (Byte.eqb c x22) eqn:Q; [|destruct c; try reflexivity; discriminate Q].
    apply Byte.byte_dec_bl in Q. subst c. rewrite (scan_string_auto _ r _ (le_n _)).
    destruct (scan_string r) as [[k rest]|] eqn:Ss; [|reflexivity].
    apply (scan_string_len _ _ _ _ (le_n _)) in Ss. rewrite endvalue_ws_skip.
    destruct (skip_ws rest) as [|c1 r1] eqn:W1; [reflexivity|].
    pose proof (skip_ws_hd _ _ _ W1) as Wc1. apply skip_ws_cons_len in W1.
    rewrite afinal_cons, key_sep by assumption. destruct (Byte.eqb c1 x3a) eqn:C; [|destruct c1; try reflexivity; discriminate C].
    apply Byte.byte_dec_bl in C. subst c1.
    rewrite (IV d r1 (parseObjectValue :: l) (dep_settop _ _ _ _ D)) by (unfold fuel_v; lia).
    destruct (parse_value f d r1) as [[v rest']|] eqn:Pv; [|reflexivity]. cbn [verdict].
    apply (proj1 (parse_len f)) in Pv. rewrite endvalue_ws_skip.
    destruct (skip_ws rest') as [|c3 r3] eqn:W3; [reflexivity|].
    pose proof (skip_ws_hd _ _ _ W3) as Wc3. apply skip_ws_cons_len in W3.
    rewrite afinal_cons, obj_sep by assumption.
    destruct (Byte.eqb c3 x7d) eqn:E1.
    { apply Byte.byte_dec_bl in E1. subst c3. apply popped_final. }
    destruct (Byte.eqb c3 x2c) eqn:E2.
    { apply Byte.byte_dec_bl in E2. subst c3. rewrite (IM d r3 l D) by (unfold fuel_l; lia).
      destruct (parse_members f d r3) as [[l0 rest0]|]; reflexivity. }
    destruct c3; try reflexivity; discriminate.
Qed.

Lemma avalid_afinal bs : avalid bs = afinal St_stateBeginValue [] bs.
Proof. reflexivity. Qed.

Theorem avalid_parse bs : avalid bs = match parse bs with Some _ => true | None => false end.
Proof.
  rewrite avalid_afinal. unfold parse.
  rewrite (proj1 (struct_auto (parse_fuel bs)) max_depth bs []); [| reflexivity | unfold fuel_v, parse_fuel; lia].
  destruct (parse_value (parse_fuel bs) max_depth bs) as [[t rest]|]; [|reflexivity].
  cbn [verdict]. rewrite afinal_endvalue_top. unfold all_ws. destruct (skip_ws rest); reflexivity.
Qed.

(* checkValid, as translated from scanner.go on this run, accepts exactly what the reader reads *)
Theorem valid_gen_iff_parse bs : valid_gen bs = true <-> exists t, parse bs = Some t.
Proof.
  rewrite valid_gen_avalid, avalid_parse. destruct (parse bs) as [t|]; split.
  - intros _. now exists t.
  - reflexivity.
  - discriminate.
  - intros [t H]. discriminate H.
Qed.

Print Assumptions valid_gen_iff_parse.
