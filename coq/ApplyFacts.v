(* ApplyFacts.v — facts about the operation loop of the v5 model (ImplV5.apply_from / step):
   first failure (C08), the copy-size accumulator (C12), the options that do not matter (C13). *)
From Coq Require Import Lia.
From JP Require Import Bytes Json Text Strings Den Pointer ImplV5 DecodeFacts JsonFacts.

(* ---- the loop ---- *)
Lemma apply_from_app o p1 : forall i st p2,
  apply_from o i st (p1 ++ p2) =
  match apply_from o i st p1 with
  | AOk st' => apply_from o (i + length p1) st' p2
  | r => r
  end.
Proof.
  induction p1 as [|op p1 IH]; intros i st p2; simpl.
  - now rewrite Nat.add_0_r.
  - destruct (step o st op); auto. rewrite IH. now rewrite Nat.add_succ_r.
Qed.

Theorem first_failure o p1 op p2 st st' e i :
  apply_from o i st p1 = AOk st' -> step o st' op = Err e ->
  apply_from o i st (p1 ++ op :: p2) = AErr (i + length p1) e.
Proof. intros H1 H2. rewrite apply_from_app, H1. simpl. now rewrite H2. Qed.

Theorem all_succeed o : forall p i st,
  (forall st1 op, In op p -> exists st2, step o st1 op = Ok st2) ->
  exists st', apply_from o i st p = AOk st'.
Proof.
  induction p as [|op p IH]; intros i st H; simpl; eauto.
  destruct (H st op (or_introl eq_refl)) as [st2 E]. rewrite E. apply IH. intros; apply H; now right.
Qed.

(* ---- the accumulator ---- *)
Definition is_copy_limit (e : errclass) : bool := match e with ECopyLimit _ _ => true | _ => false end.
Definition is_test_failed (e : errclass) : bool := match e with ETestFailed => true | _ => false end.
(* neither the failed-test sentinel nor the copy-limit error *)
Definition plain_err (e : errclass) : bool := negb (is_copy_limit e) && negb (is_test_failed e).
Lemma plain_nocl e : plain_err e = true -> is_copy_limit e = false.
Proof. destruct e; simpl; auto; discriminate. Qed.
Lemma plain_notf e : plain_err e = true -> is_test_failed e = false.
Proof. destruct e; simpl; auto; discriminate. Qed.

Ltac break_match_hyp H :=
  repeat match type of H with
         | context [match ?x with _ => _ end] => destruct x eqn:?; try discriminate
         | context [if ?x then _ else _] => destruct x eqn:?; try discriminate
         end.

Lemma op_add_acc o st op st' : op_add o st op = Ok st' -> s_acc st' = s_acc st.
Proof. unfold op_add. intro H. break_match_hyp H; inversion H; reflexivity. Qed.

Lemma op_remove_acc o st op st' : op_remove o st op = Ok st' -> s_acc st' = s_acc st.
Proof. unfold op_remove. intro H. break_match_hyp H; inversion H; reflexivity. Qed.

Lemma op_replace_acc o st op st' : op_replace o st op = Ok st' -> s_acc st' = s_acc st.
Proof. unfold op_replace. intro H. break_match_hyp H; inversion H; reflexivity. Qed.

Lemma op_move_acc o st op st' : op_move o st op = Ok st' -> s_acc st' = s_acc st.
Proof. unfold op_move. intro H. break_match_hyp H; inversion H; reflexivity. Qed.

Lemma op_test_acc o st op st' : op_test o st op = Ok st' -> s_acc st' = s_acc st.
Proof. unfold op_test. intro H. break_match_hyp H; inversion H; reflexivity. Qed.

Theorem step_acc_noncopy o st op st' :
  op_kind op <> KCopy -> step o st op = Ok st' -> s_acc st' = s_acc st.
Proof.
  unfold step. intros K H. destruct (op_kind op); try congruence;
    eauto using op_add_acc, op_remove_acc, op_replace_acc, op_move_acc, op_test_acc.
Qed.

(* ---- where the results of the walk come from ---- *)
Lemma walk_result {A} o parts : forall c (f : con -> A * con) a c',
  walk o parts c f = (Some a, c') -> exists c0, fst (f c0) = a.
Proof.
  induction parts as [|p parts IH]; intros c f a c'; simpl.
  - destruct (f c) eqn:E. intro H; inversion H; subst. exists c. now rewrite E.
  - destruct (con_get o c (decode_token p)); try discriminate.
    destruct (into_con a0); try discriminate.
    destruct (walk o parts c0 f) eqn:E. intro H; inversion H; subst. eapply IH; eauto.
Qed.

Lemma find_result {A} o c path (f : con -> bytes -> A * con) a c' :
  find o c path f = (FoundAt a, c') -> exists c0 key, fst (f c0 key) = a.
Proof.
  unfold find. destruct (split_path path) as [[parts key]|].
  - destruct (walk o parts c (fun c'0 => f c'0 key)) as [[a0|] c1] eqn:E; intro H; inversion H; subst.
    apply walk_result in E as [c0 E]. eauto.
  - destruct path; try discriminate. destruct (f c []) eqn:E. intro H; inversion H; subst. exists c, []. now rewrite E.
Qed.

Lemma resolve_idx_get_err o len key e : resolve_idx_get o len key = Err e -> plain_err e = true.
Proof. unfold resolve_idx_get. intro H. break_match_hyp H; inversion H; reflexivity. Qed.

Lemma con_get_err o c key e : con_get o c key = Err e -> plain_err e = true.
Proof.
  unfold con_get. intro H. break_match_hyp H; inversion H; subst; try reflexivity.
  eapply resolve_idx_get_err; eauto.
Qed.

Lemma ary_add_err o ns key v e : ary_add o ns key v = Err e -> plain_err e = true.
Proof. unfold ary_add. intro H. break_match_hyp H; inversion H; reflexivity. Qed.
Lemma ary_set_err o ns key v e : ary_set o ns key v = Err e -> plain_err e = true.
Proof. unfold ary_set. intro H. break_match_hyp H; inversion H; reflexivity. Qed.
Lemma ary_remove_err o ns key e : ary_remove o ns key = Err e -> plain_err e = true.
Proof. unfold ary_remove. intro H. break_match_hyp H; inversion H; reflexivity. Qed.

Lemma con_add_err o c key v e : con_add o c key v = Err e -> plain_err e = true.
Proof.
  unfold con_add. intro H. break_match_hyp H; inversion H; subst; try reflexivity; eauto using ary_add_err.
Qed.

Lemma con_set_err o c key v e : con_set o c key v = Err e -> plain_err e = true.
Proof.
  unfold con_set. intro H. break_match_hyp H; inversion H; subst; try reflexivity; eauto using ary_set_err.
Qed.

Lemma con_remove_err o c key e : con_remove o c key = Err e -> plain_err e = true.
Proof.
  unfold con_remove. intro H. break_match_hyp H; inversion H; subst; try reflexivity; eauto using ary_remove_err.
Qed.

Lemma root_of_value_err o t e : root_of_value o t = Err e -> plain_err e = true.
Proof. unfold root_of_value. intro H. break_match_hyp H; inversion H; reflexivity. Qed.

Lemma ensure_err o parts : forall c e c', ensure o parts c = (Some e, c') -> plain_err e = true.
Proof.
  induction parts as [|p parts IH]; intros c e c'; simpl; try discriminate.
  destruct parts as [|nextp rest]; try discriminate.
  intro H. break_match_hyp H; inversion H; subst; try reflexivity;
    match goal with E : ensure o (nextp :: rest) _ = (Some _, _) |- _ => eapply IH; eauto end.
Qed.

Lemma ensure_path_err o c path e c' : ensure_path o c path = (Some e, c') -> plain_err e = true.
Proof. unfold ensure_path. intro H. break_match_hyp H; try (inversion H; fail). eapply ensure_err; eauto. Qed.

Ltac use_find_result :=
  repeat match goal with
         | E : find _ _ _ _ = (FoundAt _, _) |- _ => apply find_result in E; destruct E as [? [? E]]; simpl in E
         end.

Lemma op_add_nocl o st op e : op_add o st op = Err e -> plain_err e = true.
Proof.
  unfold op_add. intro H. break_match_hyp H; inversion H; subst; try reflexivity;
    eauto using root_of_value_err; use_find_result; eauto using con_add_err.
  match goal with E : (if ?b then _ else _) = _ |- _ => destruct b; [eapply ensure_path_err; eauto | discriminate] end.
Qed.

Lemma op_remove_nocl o st op e : op_remove o st op = Err e -> plain_err e = true.
Proof.
  unfold op_remove. intro H. break_match_hyp H; inversion H; subst; try reflexivity;
    use_find_result; eauto using con_remove_err.
Qed.

Lemma op_str_err op name e : op_str op name = Err e -> plain_err e = true.
Proof. unfold op_str. intro H. break_match_hyp H; inversion H; reflexivity. Qed.

Ltac nocl_finish :=
  try reflexivity; eauto using op_str_err, root_of_value_err;
  use_find_result;
  repeat match goal with
         | E : fst (match ?x with _ => _ end) = _ |- _ => destruct x eqn:?; simpl in E; try discriminate
         | E : fst (if ?x then _ else _, _) = _ |- _ => destruct x eqn:?; simpl in E; try discriminate
         end;
  repeat match goal with E : Err _ = Err _ |- _ => inversion E; subst; clear E end;
  try reflexivity;
  eauto using con_add_err, con_set_err, con_remove_err, con_get_err.

Lemma op_replace_nocl o st op e : op_replace o st op = Err e -> plain_err e = true.
Proof. unfold op_replace. intro H. break_match_hyp H; inversion H; subst; nocl_finish. Qed.

Lemma op_move_nocl o st op e : op_move o st op = Err e -> plain_err e = true.
Proof. unfold op_move. intro H. break_match_hyp H; inversion H; subst; nocl_finish. Qed.

Lemma op_test_nocl o st op e : op_test o st op = Err e -> is_copy_limit e = false.
Proof. unfold op_test. intro H. break_match_hyp H; inversion H; subst; try reflexivity; try (apply plain_nocl; nocl_finish; fail).
  all: use_find_result;
  repeat match goal with
         | E : fst (match ?x with _ => _ end) = _ |- _ => destruct x eqn:?; simpl in E; try discriminate
         | E : fst (if ?x then _ else _, _) = _ |- _ => destruct x eqn:?; simpl in E; try discriminate
         end;
  repeat match goal with E : (if ?x then _ else _) = Err _ |- _ => destruct x; inversion E; subst; clear E end;
  repeat match goal with E : Err _ = Err _ |- _ => inversion E; subst; clear E end;
  try reflexivity; apply plain_nocl; eauto using con_get_err.
Qed.

Theorem noncopy_never_limit o st op e :
  op_kind op <> KCopy -> step o st op = Err e -> is_copy_limit e = false.
Proof.
  unfold step. intros K H. destruct (op_kind op); try congruence;
    eauto using op_test_nocl, plain_nocl, op_add_nocl, op_remove_nocl, op_replace_nocl, op_move_nocl.
  inversion H; reflexivity.
Qed.

(* the failed-test sentinel is raised by test operations only *)
Theorem test_failed_only_by_test o st op :
  step o st op = Err ETestFailed -> op_kind op = KTest.
Proof.
  unfold step. intro H. destruct (op_kind op) eqn:K; auto; exfalso.
  - apply op_add_nocl in H. discriminate.
  - apply op_remove_nocl in H. discriminate.
  - apply op_replace_nocl in H. discriminate.
  - apply op_move_nocl in H. discriminate.
  - revert H. unfold op_copy. intro H. break_match_hyp H; inversion H; subst;
      try (match goal with E : _ = Err ETestFailed |- _ => apply op_str_err in E; discriminate end).
    all: try (use_find_result;
              repeat match goal with
                     | E : fst (match ?x with _ => _ end) = _ |- _ => destruct x eqn:?; simpl in E; try discriminate
                     end;
              match goal with E : _ = Err ETestFailed |- _ =>
                first [apply con_get_err in E | apply con_add_err in E]; discriminate end).
    destruct a; [discriminate|].
    match goal with E : context [find ?o ?c ?p ?f] |- _ => destruct (find o c p f) as [[| |r] cc] eqn:Ef end; try discriminate.
    subst r. apply find_result in Ef as [c9 [k9 Ef]]. simpl in Ef. apply con_get_err in Ef. discriminate.
  - discriminate.
Qed.

(* copy: the limit error is raised exactly by the comparison of the running total *)
Theorem op_copy_limit o st op l a :
  op_copy o st op = Err (ECopyLimit l a) ->
  (0 < o_limit o)%Z /\ l = o_limit o /\ (o_limit o < a)%Z.
Proof.
  unfold op_copy. intro H. break_match_hyp H; inversion H; subst;
    try (match goal with E : _ = Err (ECopyLimit _ _) |- _ => apply op_str_err in E; discriminate end).
  all: try (use_find_result;
            repeat match goal with
                   | E : fst (match ?x with _ => _ end) = _ |- _ => destruct x eqn:?; simpl in E; try discriminate
                   end;
            match goal with E : _ = Err (ECopyLimit _ _) |- _ =>
              first [apply con_get_err in E | apply con_add_err in E]; discriminate end).
  all: repeat match goal with E : (_ && _)%bool = true |- _ => apply andb_prop in E; destruct E end.
  all: repeat match goal with E : (_ <? _)%Z = true |- _ => apply Z.ltb_lt in E end.
  all: try (repeat split; auto; fail).
  exfalso. destruct a0; [discriminate|].
  match type of Heqr3 with context [find ?o ?c ?p ?f] => destruct (find o c p f) as [[| |r] cc] eqn:Ef end; try discriminate.
  subst r. apply find_result in Ef as [c9 [k9 Ef]]. simpl in Ef. apply con_get_err in Ef. discriminate.
Qed.

Theorem op_copy_within o st op st' :
  op_copy o st op = Ok st' -> (0 < o_limit o)%Z -> (s_acc st' <= o_limit o)%Z.
Proof.
  unfold op_copy. intros H L. break_match_hyp H; inversion H; subst; simpl.
  all: match goal with E : ((0 <? ?l) && (?l <? ?x))%Z%bool = false |- _ =>
         apply andb_false_iff in E; destruct E as [E|E]; [apply Z.ltb_ge in E; lia | apply Z.ltb_ge in E; lia] end.
Qed.

Theorem step_copy_limit o st op l a :
  step o st op = Err (ECopyLimit l a) ->
  op_kind op = KCopy /\ (0 < o_limit o)%Z /\ l = o_limit o /\ (o_limit o < a)%Z.
Proof.
  intro H. destruct (op_kind op) eqn:K;
    try (apply noncopy_never_limit in H; [discriminate | congruence]).
  split; auto. unfold step in H. rewrite K in H. eapply op_copy_limit; eauto.
Qed.

Theorem apply_limit_error o : forall p i st j l a,
  apply_from o i st p = AErr j (ECopyLimit l a) ->
  exists op, nth_error p (j - i) = Some op /\ (i <= j)%nat /\
             op_kind op = KCopy /\ (0 < o_limit o)%Z /\ l = o_limit o /\ (o_limit o < a)%Z.
Proof.
  induction p as [|op p IH]; intros i st j l a; simpl; try discriminate.
  destruct (step o st op) eqn:E.
  - intro H. apply IH in H as [op' [N [Le R]]]. exists op'. split; [|split; [lia|exact R]].
    replace (j - i)%nat with (S (j - S i))%nat by lia. exact N.
  - intro H. inversion H; subst. exists op. rewrite Nat.sub_diag. split; [reflexivity|]. split; [lia|].
    eapply step_copy_limit; eauto.
  - discriminate.
Qed.

Theorem limit_zero_never o p i st j l a :
  o_limit o = 0%Z -> apply_from o i st p <> AErr j (ECopyLimit l a).
Proof. intros Z H. apply apply_limit_error in H as [op [_ [_ [_ [P _]]]]]. lia. Qed.

Theorem total_within_limit o : forall p i st st',
  apply_from o i st p = AOk st' -> (0 < o_limit o)%Z -> (s_acc st <= o_limit o)%Z -> (s_acc st' <= o_limit o)%Z.
Proof.
  induction p as [|op p IH]; intros i st st'; simpl.
  - intro H; inversion H; subst; auto.
  - destruct (step o st op) as [st1| |] eqn:E; try discriminate. intros H L A. eapply IH; eauto.
    destruct (op_kind op) eqn:K; try (erewrite step_acc_noncopy; eauto; congruence).
    unfold step in E. rewrite K in E. eapply op_copy_within; eauto.
Qed.

(* ---- AllowMissingPathOnRemove is consulted by remove only ---- *)
Definition set_allow (o : opts) (b : bool) : opts :=
  mkOpts (o_neg o) (o_limit o) b (o_ensure o) (o_esc o) (o_stale o) (o_nullsz o).

Lemma walk_allow {A} o b parts : forall c (f : con -> A * con),
  walk (set_allow o b) parts c f = walk o parts c f.
Proof.
  induction parts as [|p parts IH]; intros c f; simpl; auto.
  change (con_get (set_allow o b) c (decode_token p)) with (con_get o c (decode_token p)).
  destruct (con_get o c (decode_token p)); auto. destruct (into_con a); auto. rewrite IH. reflexivity.
Qed.

Lemma find_allow {A} o b c path (f : con -> bytes -> A * con) :
  find (set_allow o b) c path f = find o c path f.
Proof. unfold find. destruct (split_path path) as [[parts key]|]; auto. now rewrite walk_allow. Qed.

Lemma pad_nulls_allow o b : forall count c from, pad_nulls (set_allow o b) c from count = pad_nulls o c from count.
Proof.
  induction count as [|k IH]; intros c from; simpl; auto.
  change (con_add (set_allow o b) c (itoa (N.of_nat from)) (NRaw TNull)) with (con_add o c (itoa (N.of_nat from)) (NRaw TNull)).
  destruct (con_add o c (itoa (N.of_nat from)) (NRaw TNull)); apply IH.
Qed.

(* one unfolding of ensure, with the recursive calls folded *)
Lemma ensure_unfold o part nextp rest0 c :
  ensure o (part :: nextp :: rest0) c =
  let rest := nextp :: rest0 in
  let key := decode_token part in
  let existing := match con_get o c key with Ok NNil => None | Ok n => Some n | _ => None end in
  match existing with
  | None =>
      let c1 := match atoi part, c with
                | Some idx, KAry _ ns =>
                    if (zlen ns + 1 <=? idx)%Z then pad_nulls o c (length ns) (Z.to_nat (idx - zlen ns)) else c
                | _, _ => c
                end in
      let next_idx := atoi nextp in
      match next_idx, bseq nextp [x2d] with
      | None, false =>
          let (e, ch') := ensure o rest (KDoc NNil [] []) in
          (e, ignore_err c1 (con_add o c1 key (node_of_con ch')))
      | _, _ =>
          let ai := match next_idx with Some i => i | None => 0%Z end in
          if (ai <? 0)%Z && negb (o_neg o) then (Some EInvalidIndex, c1)
          else if (ai <? -1)%Z then (Some EInvalidIndex, c1)
          else
            let ai := if (ai <? 0)%Z then 0%Z else ai in
            let ch := pad_nulls o (KAry NNil []) 0 (Z.to_nat ai) in
            let (e, ch') := ensure o rest ch in
            (e, ignore_err c1 (con_add o c1 key (node_of_con ch')))
      end
  | Some n =>
      match n with
      | NRaw (TArr _) | NAry _ =>
          match into_con n with
          | Some ch => let (e, ch') := ensure o rest ch in (e, con_put o c key (node_of_con ch'))
          | None => (Some EOther, c)
          end
      | _ =>
          match into_con n with
          | Some ((KDoc _ _ _) as ch) =>
              let (e, ch') := ensure o rest ch in (e, con_put o c key (node_of_con ch'))
          | _ => (None, c)
          end
      end
  end.
Proof. reflexivity. Qed.

Lemma ensure_allow o b parts : forall c, ensure (set_allow o b) parts c = ensure o parts c.
Proof.
  induction parts as [|p parts IH]; intro c; auto.
  destruct parts as [|nextp rest]; auto.
  rewrite !ensure_unfold. cbv zeta.
  change (con_get (set_allow o b) c (decode_token p)) with (con_get o c (decode_token p)).
  change (o_neg (set_allow o b)) with (o_neg o).
  destruct (con_get o c (decode_token p)) as [[|[| | | | |l|ms]|ks ob|ns]| |]; cbn [into_con doc_of];
    destruct (atoi p); destruct c; repeat rewrite pad_nulls_allow; repeat rewrite IH; reflexivity.
Qed.

Lemma ensure_path_allow o b c path : ensure_path (set_allow o b) c path = ensure_path o c path.
Proof. unfold ensure_path. destruct (split_slash path) as [|? [|? ?]]; auto. apply ensure_allow. Qed.

Lemma op_add_allow o b st op : op_add (set_allow o b) st op = op_add o st op.
Proof.
  unfold op_add. change (o_ensure (set_allow o b)) with (o_ensure o).
  destruct (op_str op (B "path")) as [[|x path]| |]; auto.
  destruct (s_root st); auto. rewrite ensure_path_allow.
  destruct (if o_ensure o then ensure_path o c (x :: path) else (None, c)) as [[e|] c1]; auto.
  rewrite find_allow. reflexivity.
Qed.

Lemma op_replace_allow o b st op : op_replace (set_allow o b) st op = op_replace o st op.
Proof.
  unfold op_replace. destruct (op_str op (B "path")) as [[|x path]| |]; auto.
  destruct (s_root st); auto. rewrite find_allow. reflexivity.
Qed.

Lemma op_test_allow o b st op : op_test (set_allow o b) st op = op_test o st op.
Proof.
  unfold op_test. destruct (op_str op (B "path")) as [[|x path]| |]; auto.
  destruct (s_root st); auto. rewrite find_allow. reflexivity.
Qed.

Ltac destruct_find :=
  match goal with |- context [find ?o ?c ?p ?f] => destruct (find o c p f) as [[| |?r] ?c] end.

Lemma op_copy_allow o b st op : op_copy (set_allow o b) st op = op_copy o st op.
Proof.
  unfold op_copy. destruct (op_str op (B "from")) as [from| |]; auto.
  destruct (s_root st); auto. rewrite find_allow.
  change (fun (c' : con) (key : bytes) => (con_get (set_allow o b) c' key, c')) with (fun (c' : con) (key : bytes) => (con_get o c' key, c')).
  destruct_find; auto. destruct r as [v| |]; auto.
  destruct (op_str op (B "path")) as [path| |]; auto. rewrite find_allow.
  destruct_find; auto.
  rewrite find_allow.
  match goal with |- match ?a with _ => _ end = match ?b with _ => _ end => destruct b as [v'| |]; auto end.
  change (deep_copy (set_allow o b) v') with (deep_copy o v'). destruct (deep_copy o v') as [cp sz].
  change (o_limit (set_allow o b)) with (o_limit o).
  destruct ((0 <? o_limit o)%Z && (o_limit o <? s_acc st + sz)%Z); auto.
  rewrite find_allow. reflexivity.
Qed.

(* move removes a member only after get found it, so the option is never consulted *)
Lemma remove_after_get_allow o b c key v :
  con_get o c key = Ok v -> key <> [] -> con_remove (set_allow o b) c key = con_remove o c key.
Proof.
  destruct c as [s ks ob|s|s ns]; simpl; intros G K.
  - destruct key; [congruence|]. unfold amem. destruct (aget (b0 :: key) ob); [reflexivity|discriminate].
  - reflexivity.
  - destruct key; [congruence|]. unfold ary_remove, resolve_idx_get in *.
    change (o_neg (set_allow o b)) with (o_neg o). change (o_allow (set_allow o b)) with b.
    destruct (atoi (b0 :: key)) as [idx|]; auto.
    destruct (idx <? 0)%Z eqn:E0.
    + destruct (negb (o_neg o)); [discriminate|].
      destruct (idx <? - zlen ns)%Z eqn:E1; [discriminate|].
      destruct (zlen ns <=? idx + zlen ns)%Z eqn:E2; [discriminate|].
      assert ((zlen ns <=? idx)%Z = false) by (apply Z.leb_gt; apply Z.ltb_lt in E0; apply Z.leb_gt in E2; lia).
      rewrite H. reflexivity.
    + destruct (zlen ns <=? idx)%Z; [discriminate|]. reflexivity.
Qed.

(* the key at which find applies its leaf function *)
Definition leaf_key (path : bytes) : bytes :=
  match split_path path with Some (_, key) => key | None => [] end.

Lemma find_ext {A} o c path (f g : con -> bytes -> A * con) :
  (forall c', f c' (leaf_key path) = g c' (leaf_key path)) -> find o c path f = find o c path g.
Proof.
  unfold leaf_key. intro E. unfold find. destruct (split_path path) as [[parts key]|].
  - assert (W : forall parts c, walk o parts c (fun c' => f c' key) = walk o parts c (fun c' => g c' key)).
    { induction parts0 as [|p ps IH]; intro c0; simpl.
      - now rewrite E.
      - destruct (con_get o c0 (decode_token p)); auto. destruct (into_con a); auto. now rewrite IH. }
    now rewrite W.
  - destruct path; auto. now rewrite E.
Qed.

(* move: the option is not consulted when the last reference token of from is not empty (an empty
   token is outside every stated domain: it addresses the container's own node) *)
Lemma op_move_allow o b st op :
  (forall from, op_str op (B "from") = Ok from -> leaf_key from <> []) ->
  op_move (set_allow o b) st op = op_move o st op.
Proof.
  unfold op_move. intro LK. destruct (op_str op (B "from")) as [[|x from]| |]; auto.
  specialize (LK _ eq_refl).
  destruct (s_root st); auto. rewrite find_allow.
  erewrite find_ext with (g := fun c' key =>
      match con_get o c' key with
      | Ok v => match con_remove o c' key with Ok c'' => (Ok v, c'') | Err e => (Err e, c') | Panic => (Panic, c') end
      | Err e => (Err e, c')
      | Panic => (Panic, c')
      end).
  - destruct_find; auto. destruct r as [v| |]; auto.
    destruct (op_str op (B "path")) as [path| |]; auto. rewrite find_allow. reflexivity.
  - intros c'. change (con_get (set_allow o b) c' (leaf_key (x :: from))) with (con_get o c' (leaf_key (x :: from))).
    destruct (con_get o c' (leaf_key (x :: from))) as [v| |] eqn:G; auto.
    erewrite remove_after_get_allow; eauto.
Qed.

Theorem step_allow_irrelevant o b st op :
  op_kind op <> KRemove ->
  (forall from, op_str op (B "from") = Ok from -> leaf_key from <> []) ->
  step (set_allow o b) st op = step o st op.
Proof.
  unfold step. intros K LK. destruct (op_kind op); try congruence;
    auto using op_add_allow, op_replace_allow, op_move_allow, op_test_allow, op_copy_allow.
Qed.

Lemma walk_leaf_ext {A} o parts : forall c (f g : con -> A * con) a c2,
  walk o parts c f = (Some a, c2) -> (forall c0, fst (f c0) = a -> g c0 = f c0) ->
  walk o parts c g = (Some a, c2).
Proof.
  induction parts as [|p parts IH]; intros c f g a c2; simpl.
  - destruct (f c) as [a0 c0] eqn:E. intros H G. inversion H; subst. rewrite (G c) by now rewrite E. now rewrite E.
  - destruct (con_get o c (decode_token p)); try discriminate. destruct (into_con a0); try discriminate.
    destruct (walk o parts c0 f) as [r ch'] eqn:E. intros H G. inversion H; subst.
    erewrite IH; eauto.
Qed.

Lemma find_leaf_ext {A} o c path (f g : con -> bytes -> A * con) a c2 :
  find o c path f = (FoundAt a, c2) -> (forall c0 k, fst (f c0 k) = a -> g c0 k = f c0 k) ->
  find o c path g = (FoundAt a, c2).
Proof.
  unfold find. destruct (split_path path) as [[parts key]|].
  - destruct (walk o parts c (fun c' => f c' key)) as [[a0|] c1] eqn:E; intros H G; inversion H; subst.
    erewrite walk_leaf_ext; eauto. intros; apply G; auto.
  - destruct path; try discriminate. destruct (f c []) as [a0 c0] eqn:E. intros H G. inversion H; subst.
    rewrite (G c []) by now rewrite E. now rewrite E.
Qed.

Lemma ary_remove_allow_ok o ns key ns' :
  ary_remove (set_allow o false) ns key = Ok ns' -> ary_remove (set_allow o true) ns key = Ok ns'.
Proof.
  unfold ary_remove. change (o_neg (set_allow o false)) with (o_neg o). change (o_neg (set_allow o true)) with (o_neg o).
  change (o_allow (set_allow o false)) with false. change (o_allow (set_allow o true)) with true.
  destruct (atoi key) as [idx|]; auto.
  destruct (zlen ns <=? idx)%Z; [discriminate|].
  destruct (idx <? 0)%Z; auto. destruct (negb (o_neg o)); auto.
  destruct (idx <? - zlen ns)%Z; [discriminate|]. auto.
Qed.

Lemma con_remove_allow_ok o c key c' :
  con_remove (set_allow o false) c key = Ok c' -> con_remove (set_allow o true) c key = Ok c'.
Proof.
  destruct c as [s ks ob|s|s ns]; simpl; auto.
  - destruct (amem key ob); auto. discriminate.
  - destruct (ary_remove (set_allow o false) ns key) as [ns'| |] eqn:E; try discriminate.
    apply ary_remove_allow_ok in E. now rewrite E.
Qed.

(* a remove that succeeds without the option behaves exactly the same with it *)
Theorem remove_existing_allow o st op st' :
  step (set_allow o false) st op = Ok st' -> step (set_allow o true) st op = Ok st'.
Proof.
  destruct (op_kind op) eqn:K.
  1,3,4,5,6,7: unfold step; rewrite K.
  - now rewrite !op_add_allow.
  - now rewrite !op_replace_allow.
  - (* move: success means get succeeded, after which remove does not consult the option *)
    unfold op_move. destruct (op_str op (B "from")) as [[|x from]| |]; auto.
    destruct (s_root st); auto. rewrite !find_allow.
    match goal with |- context [find o c (x :: from) ?f] => destruct (find o c (x :: from) f) as [[| |[v| |]] c1] eqn:E; try discriminate end.
    eapply find_leaf_ext in E.
    + rewrite E. destruct (op_str op (B "path")) as [path| |]; auto. rewrite !find_allow. auto.
    + intros c0 k. simpl.
      change (con_get (set_allow o false) c0 k) with (con_get o c0 k). change (con_get (set_allow o true) c0 k) with (con_get o c0 k).
      destruct (con_get o c0 k); simpl; try discriminate.
      destruct (con_remove (set_allow o false) c0 k) eqn:R; simpl; try discriminate.
      intros _. apply con_remove_allow_ok in R. now rewrite R.
  - now rewrite !op_copy_allow.
  - now rewrite !op_test_allow.
  - auto.
  - unfold step. rewrite K. unfold op_remove.
    destruct (op_str op (B "path")) as [path| |]; auto.
    change (o_allow (set_allow o false)) with false. change (o_allow (set_allow o true)) with true.
    destruct (s_root st); [|discriminate]. rewrite !find_allow.
    match goal with |- context [find o c path ?f] => destruct (find o c path f) as [[| |[v| |]] c1] eqn:E; try discriminate end.
    eapply find_leaf_ext in E.
    + rewrite E. auto.
    + intros c0 k. simpl. destruct (con_remove (set_allow o false) c0 k) eqn:R; simpl; try discriminate.
      intros _. apply con_remove_allow_ok in R. now rewrite R.
Qed.
