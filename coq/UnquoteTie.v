(* UnquoteTie.v -- the translated string decoder (gen/UnquoteGen.v, written by tools/gounquote2v from getu4 and
   unquoteBytes of v5/internal/json/decode.go on every run) computes the hand-written model Strings.unquote,
   and never panics.

     getu4_gen_spec               : getu4_gen l = Some (getu4z l) for EVERY l: getu4 never panics and is
                                    Strings.getu4 (-1 for None); the byte arithmetic wraps around as in Go
     unquote_full_gen_total       : for EVERY byte string s there is x with unquote_full_gen s = uq_of x
                                    (UOk t or UFalse), where x = None if s is not a literal between two
                                    quotes, and otherwise x is what the run of the step specification
                                    spec_step (hand-written below, for every input) over the body gives
     unquote_full_gen_no_panic    : for EVERY s: unquote_full_gen s <> UPanic /\ unquote_full_gen s <> UFuel
                                    (no index, slice, store or EncodeRune out of range; the loops end
                                    within their fuel length s + 1)
     unquote_full_gen_is_unquote  : sbody body -> unquote_full_gen ([x22] ++ body ++ [x22]) = UOk (unquote body)
                                    (sbody, Codec.v: exactly the bodies the scanner accepts, ill-formed
                                    UTF-8 and lone surrogate escapes included)

   What is modelled and not translated: utf8.DecodeRune (Utf8Rune.decode_rune), utf8.EncodeRune,
   utf16.IsSurrogate, utf16.DecodeRune (Utf16Rune.v), and the reading of slices as lists of exactly their
   length (see the header of tools/gounquote2v/main.go).

   The proof is written against the MEANING of one loop step, not against its text:
     step2_roomy : with w + 9 <= len b (the regrow test is false) one execution of the body of the second
                   loop at r is SRet UFalse or SNext (r + k, put b w e, w + len e) where spec_step of the
                   rest of the input is None or Some (k, e); len e <= 4, 1 <= k
     step2_grow  : with w + 5 <= len b and len b - 8 <= w the step is the step on the regrown buffer
                   grow b w (twice the length plus 8, the first w bytes kept)
     step1_spec  : the first loop breaks or advances over k bytes that spec_step copies
   They are proved by evaluating the generated term with tactics that decide whatever integer test, bounds
   test and read of s they meet from the context (zdecide, guards, rd), so harmless rewrites go through
   and behavioural ones fail in the branch they touch.

   THE BUFFER INVARIANT of the second loop (loop2_runs): at the top of every iteration
       0 <= r,  0 <= w,  w + 5 <= len b     (and the first w bytes of b are what has been decoded so far)
   The regrow test `w >= len(b) - 2*UTFMax` then gives  w + 9 <= len b  (either it is false, or the new
   length 2*(len b + 4) >= w + 9), every write is at most 4 bytes (ASCII / escape: a store at w < len b;
   EncodeRune of at most 4 bytes at w with w + 4 <= len b), hence w' + 5 <= len b again.  The bound is
   tight: a four-byte write at w = len b - 9 ends at w' = len b - 5.  Initially len b = len s + 8 and
   w = r <= len s.  r grows by k >= 1 in every step: the fuel length s + 1 suffices. *)
From Coq Require Import Lia.
From JP Require Import Bytes Strings Utf8Rune Utf16Rune Codec.
From JP.gen Require Import UnquoteGen.
Local Open Scope Z_scope.

(* ------------------------------------------------------------------ deciding integer tests *)

(* replace every integer comparison of the goal that lia can decide from the context by its value *)
Ltac zdecide :=
  rewrite ?Z.geb_leb, ?Z.gtb_ltb;
  repeat match goal with
  | |- context [?a <? ?b] =>
      first [ replace (a <? b) with true by (symmetry; apply Z.ltb_lt; lia)
            | replace (a <? b) with false by (symmetry; apply Z.ltb_ge; lia) ]
  | |- context [?a <=? ?b] =>
      first [ replace (a <=? b) with true by (symmetry; apply Z.leb_le; lia)
            | replace (a <=? b) with false by (symmetry; apply Z.leb_gt; lia) ]
  | |- context [?a =? ?b] =>
      first [ replace (a =? b) with true by (symmetry; apply Z.eqb_eq; lia)
            | replace (a =? b) with false by (symmetry; apply Z.eqb_neq; lia) ]
  end;
  cbn [negb andb orb].

(* ------------------------------------------------------------------ lists, len, at_, slice *)

Lemma len_nonneg s : 0 <= len s.
Proof. unfold len. lia. Qed.

Lemma len_cons a (l : bytes) : len (a :: l) = 1 + len l.
Proof. unfold len. cbn [length]. lia. Qed.

Lemma len_nil : len [] = 0.
Proof. reflexivity. Qed.

Lemma len_app (a b : bytes) : len (a ++ b) = len a + len b.
Proof. unfold len. rewrite app_length. lia. Qed.

Lemma len_firstn n (l : bytes) : 0 <= n <= len l -> len (firstn (Z.to_nat n) l) = n.
Proof. unfold len. intro H. rewrite firstn_length. lia. Qed.

Lemma len_skipn n (l : bytes) : 0 <= n <= len l -> len (skipn (Z.to_nat n) l) = len l - n.
Proof. unfold len. intro H. rewrite skipn_length. lia. Qed.

Lemma len_make n : 0 <= n -> len (make_buf n) = n.
Proof. unfold len, make_buf. intro H. rewrite repeat_length. lia. Qed.

Lemma ut_skipn_skipn {A} a b (l : list A) : skipn a (skipn b l) = skipn (b + a) l.
Proof.
  revert l. induction b as [|b IH]; intro l; [reflexivity|].
  destruct l as [|x l]; [now rewrite !skipn_nil|]. cbn [Nat.add skipn]. apply IH.
Qed.

Lemma ut_nth_skipn {A} n k (l : list A) d : nth (n + k) l d = nth k (skipn n l) d.
Proof.
  revert l. induction n as [|n IH]; intro l; [reflexivity|].
  destruct l as [|x l]; [destruct k; reflexivity|]. cbn [Nat.add nth skipn]. apply IH.
Qed.

Lemma ut_firstn_add {A} j m (u : list A) : firstn (j + m) u = firstn j u ++ firstn m (skipn j u).
Proof.
  revert u. induction j as [|j IH]; intro u; [reflexivity|].
  destruct u as [|y u]; [cbn; now rewrite firstn_nil|]. cbn [Nat.add firstn skipn app]. f_equal. apply IH.
Qed.

Lemma slice_to_end s a : 0 <= a -> slice s a (len s) = skipn (Z.to_nat a) s.
Proof. intro H. unfold slice, len. apply firstn_all2. rewrite skipn_length. lia. Qed.

Lemma slice_from_0 s a : slice s 0 a = firstn (Z.to_nat a) s.
Proof. unfold slice. rewrite Z.sub_0_r. reflexivity. Qed.

(* reading s at or after the position r, in terms of the rest of s from r on *)
Lemma at_rest s r rest i : skipn (Z.to_nat r) s = rest -> 0 <= r <= i ->
  at_ s i = nth (Z.to_nat (i - r)) rest x00.
Proof.
  intros E H. unfold at_. rewrite <- E, <- ut_nth_skipn. f_equal. lia.
Qed.

Lemma slice_rest s r rest i : skipn (Z.to_nat r) s = rest -> 0 <= r <= i ->
  slice s i (len s) = skipn (Z.to_nat (i - r)) rest.
Proof.
  intros E H. rewrite slice_to_end by lia. rewrite <- E, ut_skipn_skipn. f_equal. lia.
Qed.

Lemma len_rest s r rest : skipn (Z.to_nat r) s = rest -> 0 <= r <= len s -> len s = r + len rest.
Proof. intros E H. rewrite <- E, len_skipn by lia. lia. Qed.

Lemma rest_in_range s r c r' : skipn (Z.to_nat r) s = c :: r' -> 0 <= r -> r < len s.
Proof.
  intros E H. apply (f_equal (@length _)) in E. rewrite skipn_length in E. cbn [length] in E. unfold len. lia.
Qed.

(* ------------------------------------------------------------------ bytes as integers *)

Lemma bz_range c : 0 <= bz c < 256.
Proof. unfold bz. pose proof (bn_lt_256 c). lia. Qed.

Lemma bz_5c c : (bz c =? 92) = Byte.eqb c x5c.
Proof. destruct c; reflexivity. Qed.

Lemma bz_22 c : (bz c =? 34) = Byte.eqb c x22.
Proof. destruct c; reflexivity. Qed.

Lemma bz_ltb c k : (bz c <? Z.of_N k) = (bn c <? k)%N.
Proof.
  unfold bz. destruct (bn c <? k)%N eqn:E; [apply N.ltb_lt in E; apply Z.ltb_lt | apply N.ltb_ge in E; apply Z.ltb_ge]; lia.
Qed.

Lemma eqb_5c c : Byte.eqb c x5c = true -> c = x5c.
Proof. apply Byte.byte_dec_bl. Qed.

(* ------------------------------------------------------------------ getu4 *)

Definition getu4z (l : bytes) : Z := match Strings.getu4 l with Some v => Z.of_N v | None => -1 end.

Lemma getu4_step_spec c r :
  getu4_step1 c r = if is_hex c then SNext (r * 16 + Z.of_N (hexval c)) else SRet (Some (-1)).
Proof. destruct c; reflexivity. Qed.

Lemma getu4_gen_long a0 a1 a2 a3 a4 a5 tl :
  getu4_gen (a0 :: a1 :: a2 :: a3 :: a4 :: a5 :: tl) =
  if (bz a0 =? 92) && (bz a1 =? 117) then
    match getu4_loop1 [a2; a3; a4; a5] 0 with LDone r => Some r | LRet v => v | _ => None end
  else Some (-1).
Proof.
  set (L := a0 :: a1 :: a2 :: a3 :: a4 :: a5 :: tl).
  assert (LL : len L = 6 + len tl) by (unfold L; rewrite !len_cons; lia).
  pose proof (len_nonneg tl) as Lt.
  unfold getu4_gen, in_idx, in_slice. zdecide.
  change (at_ L 0) with a0. change (at_ L 1) with a1. change (slice L 2 6) with [a2; a3; a4; a5].
  destruct (bz a0 =? 92); [|reflexivity]. destruct (bz a1 =? 117); reflexivity.
Qed.

Theorem getu4_gen_spec l : getu4_gen l = Some (getu4z l).
Proof.
  destruct l as [|a0 [|a1 [|a2 [|a3 [|a4 [|a5 tl]]]]]].
  1-6: try reflexivity.
  1-5: destruct a0; try reflexivity.
  1-4: destruct a1; try reflexivity.
  rewrite getu4_gen_long.
  destruct a0; try reflexivity. destruct a1; try reflexivity.
  change ((bz x5c =? 92) && (bz x75 =? 117)) with true. cbv iota.
  unfold getu4z.
  change (Strings.getu4 (x5c :: x75 :: a2 :: a3 :: a4 :: a5 :: tl))
    with (if is_hex a2 && is_hex a3 && is_hex a4 && is_hex a5 then Some (hex4 a2 a3 a4 a5) else None).
  cbn [getu4_loop1]. rewrite getu4_step_spec. destruct (is_hex a2); [|reflexivity].
  rewrite getu4_step_spec. destruct (is_hex a3); [|reflexivity].
  rewrite getu4_step_spec. destruct (is_hex a4); [|reflexivity].
  rewrite getu4_step_spec. destruct (is_hex a5); [|reflexivity].
  cbn [andb]. f_equal. unfold hex4. lia.
Qed.

(* ------------------------------------------------------------------ the modelled library functions *)

Lemma is_surrogate_z_N v : is_surrogate_z (Z.of_N v) = is_surrogate v.
Proof.
  unfold is_surrogate_z, is_surrogate.
  destruct (55296 <=? v)%N eqn:A; [apply N.leb_le in A | apply N.leb_gt in A];
  destruct (v <? 57344)%N eqn:B; [apply N.ltb_lt in B | apply N.ltb_ge in B | apply N.ltb_lt in B | apply N.ltb_ge in B];
  try (exfalso; lia); zdecide; reflexivity.
Qed.

Definition pair_ok (v v1 : N) : bool := ((v <? 56320) && (56320 <=? v1) && (v1 <? 57344))%N.

Lemma decode_pair_N v v1 : is_surrogate v = true ->
  decode_pair (Z.of_N v) (Z.of_N v1) =
  if pair_ok v v1 then Z.of_N (65536 + (v - 55296) * 1024 + (v1 - 56320)) else 65533.
Proof.
  unfold is_surrogate, decode_pair, pair_ok. intro S. apply andb_prop in S as [S1 S2].
  apply N.leb_le in S1. apply N.ltb_lt in S2.
  destruct (v <? 56320)%N eqn:A; [apply N.ltb_lt in A | apply N.ltb_ge in A];
  destruct (56320 <=? v1)%N eqn:B; [apply N.leb_le in B | apply N.leb_gt in B | apply N.leb_le in B | apply N.leb_gt in B];
  destruct (v1 <? 57344)%N eqn:C; [apply N.ltb_lt in C | apply N.ltb_ge in C | apply N.ltb_lt in C | apply N.ltb_ge in C
                                 | apply N.ltb_lt in C | apply N.ltb_ge in C | apply N.ltb_lt in C | apply N.ltb_ge in C];
  try (exfalso; lia); zdecide; try reflexivity; try lia.
Qed.

Lemma decode_pair_none v : decode_pair (Z.of_N v) (-1) = 65533.
Proof. unfold decode_pair. zdecide. rewrite !andb_false_r. reflexivity. Qed.

Lemma encode_rune_z_N v : (v < 1114112)%N -> is_surrogate v = false -> encode_rune_z (Z.of_N v) = encode_rune v.
Proof.
  intros H S. unfold encode_rune_z. rewrite is_surrogate_z_N, S, N2Z.id. zdecide. reflexivity.
Qed.

Lemma enc_len rr : 1 <= len (encode_rune_z rr) <= 4.
Proof.
  unfold encode_rune_z, encode_rune.
  destruct (_ && _ && _); [|vm_compute; split; discriminate].
  destruct (_ <? 128)%N; [vm_compute; split; discriminate|].
  destruct (_ <? 2048)%N; [vm_compute; split; discriminate|].
  destruct (_ <? 65536)%N; vm_compute; split; discriminate.
Qed.

(* writing e into the buffer at w *)
Definition put (b : bytes) (w : Z) (e : bytes) : bytes :=
  firstn (Z.to_nat w) b ++ e ++ skipn (Z.to_nat (w + len e)) b.

Lemma put_len b w e : 0 <= w -> w + len e <= len b -> len (put b w e) = len b.
Proof.
  intros H1 H2. pose proof (len_nonneg e). unfold put. rewrite !len_app, len_firstn, len_skipn by lia. lia.
Qed.

Lemma put_prefix b w e : 0 <= w -> w + len e <= len b ->
  firstn (Z.to_nat (w + len e)) (put b w e) = firstn (Z.to_nat w) b ++ e.
Proof.
  intros H1 H2. pose proof (len_nonneg e). unfold put. rewrite app_assoc. apply firstn_app_exact.
  rewrite app_length, firstn_length. unfold len in *. lia.
Qed.

Lemma encode_at_fits b w rr : 0 <= w -> w + 4 <= len b ->
  encode_at b w rr = Some (put b w (encode_rune_z rr), len (encode_rune_z rr)).
Proof.
  intros H1 H2. pose proof (enc_len rr) as L. unfold encode_at. cbv zeta.
  change (Z.of_nat (length (encode_rune_z rr))) with (len (encode_rune_z rr)).
  change (Z.of_nat (length b)) with (len b). zdecide. reflexivity.
Qed.

(* the well-formed sequences of utf8_len, with everything DecodeRune checks *)
Lemma utf8_len_inv2 c r : (bn c <? 128)%N = false ->
  match utf8_len (c :: r) with
  | 0%nat => True
  | 1%nat => False
  | 2%nat => exists c1 r', r = c1 :: r' /\ 194 <= bz c < 224 /\ 128 <= bz c1 <= 191
  | 3%nat => exists c1 c2 r', r = c1 :: c2 :: r' /\ 224 <= bz c < 240 /\ 128 <= bz c1 <= 191 /\ 128 <= bz c2 <= 191 /\
               (bz c = 224 -> 160 <= bz c1) /\ (bz c = 237 -> bz c1 <= 159)
  | 4%nat => exists c1 c2 c3 r', r = c1 :: c2 :: c3 :: r' /\ 240 <= bz c < 245 /\ (bz c = 240 -> 144 <= bz c1) /\
               (bz c = 244 -> bz c1 <= 143) /\ 128 <= bz c1 <= 191 /\ 128 <= bz c2 <= 191 /\ 128 <= bz c3 <= 191
  | _ => False
  end.
Proof.
  intro H. unfold utf8_len. cbv zeta. rewrite H. unfold bz.
  destruct (bn c <? 194)%N eqn:E1; [exact I|]. apply N.ltb_ge in E1.
  destruct (bn c <? 224)%N eqn:E2.
  { apply N.ltb_lt in E2. destruct r as [|c1 r']; [exact I|]. destruct (cont c1) eqn:C; [|exact I].
    unfold cont, in_range in C. apply andb_prop in C as [C1 C2]. apply N.leb_le in C1, C2.
    exists c1, r'. split; [reflexivity|]. lia. }
  apply N.ltb_ge in E2.
  destruct (bn c <? 240)%N eqn:E3.
  { apply N.ltb_lt in E3. destruct r as [|c1 [|c2 r']]; try exact I.
    destruct (in_range _ _ c1 && cont c2) eqn:C; [|exact I].
    apply andb_prop in C as [C1 C2]. unfold cont, in_range in C1, C2.
    apply andb_prop in C1 as [C1 C1'], C2 as [C2 C2']. apply N.leb_le in C1, C1', C2, C2'.
    exists c1, c2, r'. split; [reflexivity|].
    destruct (bn c =? 224)%N eqn:Q1; [apply N.eqb_eq in Q1 | apply N.eqb_neq in Q1];
    (destruct (bn c =? 237)%N eqn:Q2; [apply N.eqb_eq in Q2 | apply N.eqb_neq in Q2]); lia. }
  apply N.ltb_ge in E3.
  destruct (bn c <? 245)%N eqn:E4; [|exact I]. apply N.ltb_lt in E4.
  destruct r as [|c1 [|c2 [|c3 r']]]; try exact I.
  destruct (in_range _ _ c1 && cont c2 && cont c3) eqn:C; [|exact I].
  apply andb_prop in C as [C C3]. apply andb_prop in C as [C1 C2]. unfold cont, in_range in C1, C2, C3.
  apply andb_prop in C1 as [C1 C1'], C2 as [C2 C2'], C3 as [C3 C3']. apply N.leb_le in C1, C1', C2, C2', C3, C3'.
  exists c1, c2, c3, r'. split; [reflexivity|].
  destruct (bn c =? 240)%N eqn:Q1; [apply N.eqb_eq in Q1 | apply N.eqb_neq in Q1];
  (destruct (bn c =? 244)%N eqn:Q2; [apply N.eqb_eq in Q2 | apply N.eqb_neq in Q2]); lia.
Qed.

(* EncodeRune on the ranges of the encoded lengths *)
Ltac ndecide :=
  repeat match goal with
  | |- context [(?a <? ?b)%N] =>
      first [ replace (a <? b)%N with true by (symmetry; apply N.ltb_lt; lia)
            | replace (a <? b)%N with false by (symmetry; apply N.ltb_ge; lia) ]
  end.

Lemma byte_is c v : bz c = v -> nb (Z.to_N v) = c.
Proof. intros <-. unfold bz. rewrite N2Z.id. apply nb_bn. Qed.

Lemma enc2 v : 128 <= v < 2048 -> encode_rune_z v = [nb (Z.to_N (192 + v / 64)); nb (Z.to_N (128 + v mod 64))].
Proof.
  intro H. unfold encode_rune_z, is_surrogate_z, encode_rune. zdecide. ndecide.
  f_equal; [|f_equal]; f_equal; zify; Z.div_mod_to_equations; lia.
Qed.

Lemma enc3 v : 2048 <= v < 65536 -> ~ (55296 <= v < 57344) ->
  encode_rune_z v = [nb (Z.to_N (224 + v / 4096)); nb (Z.to_N (128 + (v / 64) mod 64)); nb (Z.to_N (128 + v mod 64))].
Proof.
  intros H S. unfold encode_rune_z, is_surrogate_z, encode_rune.
  assert (Q : (55296 <=? v) && (v <? 57344) = false).
  { destruct (55296 <=? v) eqn:A; [apply Z.leb_le in A | reflexivity].
    destruct (v <? 57344) eqn:B; [apply Z.ltb_lt in B; lia | reflexivity]. }
  rewrite Q. zdecide. ndecide.
  f_equal; [|f_equal; [|f_equal]]; f_equal; zify; Z.div_mod_to_equations; lia.
Qed.

Lemma enc4 v : 65536 <= v < 1114112 ->
  encode_rune_z v = [nb (Z.to_N (240 + v / 262144)); nb (Z.to_N (128 + (v / 4096) mod 64));
                     nb (Z.to_N (128 + (v / 64) mod 64)); nb (Z.to_N (128 + v mod 64))].
Proof.
  intro H. unfold encode_rune_z, is_surrogate_z, encode_rune. zdecide. ndecide.
  f_equal; [|f_equal; [|f_equal; [|f_equal]]]; f_equal; zify; Z.div_mod_to_equations; lia.
Qed.

(* DecodeRune at a byte >= 0x80, and EncodeRune of what it found *)
Lemma decode_encode c r : (bn c <? 128)%N = false ->
  match utf8_len (c :: r) with
  | O => decode_rune (c :: r) = (65533, 1)
  | S n => exists rv, decode_rune (c :: r) = (rv, Z.of_nat (S n)) /\ (2 <= S n)%nat /\
                      encode_rune_z rv = firstn (S n) (c :: r)
  end.
Proof.
  intro H. pose proof (utf8_len_inv2 c r H) as I. unfold decode_rune.
  destruct (utf8_len (c :: r)) as [|[|[|[|[|k]]]]] eqn:E; try contradiction.
  - destruct r; reflexivity.
  - destruct I as (c1 & r' & -> & B0 & B1). eexists. split; [reflexivity|]. split; [lia|].
    rewrite enc2 by (Z.div_mod_to_equations; lia). cbn [firstn].
    f_equal; [|f_equal]; apply byte_is; Z.div_mod_to_equations; lia.
  - destruct I as (c1 & c2 & r' & -> & B0 & B1 & B2 & B3 & B4). eexists. split; [reflexivity|]. split; [lia|].
    rewrite enc3 by (Z.div_mod_to_equations; lia). cbn [firstn].
    f_equal; [|f_equal; [|f_equal]]; apply byte_is; Z.div_mod_to_equations; lia.
  - destruct I as (c1 & c2 & c3 & r' & -> & B0 & B1 & B2 & B3 & B4 & B5). eexists. split; [reflexivity|]. split; [lia|].
    rewrite enc4 by (Z.div_mod_to_equations; lia). cbn [firstn].
    f_equal; [|f_equal; [|f_equal; [|f_equal]]]; apply byte_is; Z.div_mod_to_equations; lia.
Qed.

(* ------------------------------------------------------------------ what one iteration has to do *)

Definition esc_out (e : byte) : option byte :=
  match e with
  | x22 | x5c | x2f | x27 => Some e
  | x62 => Some x08 | x66 => Some x0c | x6e => Some x0a | x72 => Some x0d | x74 => Some x09
  | _ => None
  end.

Definition spec_u (rest : bytes) : option (Z * bytes) :=
  match Strings.getu4 rest with
  | None => None
  | Some rr =>
      if is_surrogate rr then
        match Strings.getu4 (skipn 6 rest) with
        | Some rr1 =>
            if pair_ok rr rr1 then Some (12, encode_rune (65536 + (rr - 55296) * 1024 + (rr1 - 56320))%N)
            else Some (6, replacement)
        | None => Some (6, replacement)
        end
      else Some (6, encode_rune rr)
  end.

(* the specification of the body of the second loop on the rest of the input: None = return false,
   Some (k, e) = k bytes are consumed and e is written.  Hand-written, for EVERY input. *)
Definition spec_step (rest : bytes) : option (Z * bytes) :=
  match rest with
  | [] => None
  | c :: r' =>
      if Byte.eqb c x5c then
        match r' with
        | [] => None
        | e :: _ =>
            if Byte.eqb e x75 then spec_u rest
            else match esc_out e with Some o => Some (2, [o]) | None => None end
        end
      else if Byte.eqb c x22 || (bn c <? 32)%N then None
      else if (bn c <? 128)%N then Some (1, [c])
      else match utf8_len rest with
           | O => Some (1, replacement)
           | S n => Some (Z.of_nat (S n), firstn (S n) rest)
           end
  end.

Lemma pair_cp v v1 : pair_ok v v1 = true -> is_surrogate v = true ->
  ((65536 + (v - 55296) * 1024 + (v1 - 56320) < 1114112)%N) /\
  is_surrogate (65536 + (v - 55296) * 1024 + (v1 - 56320)) = false.
Proof.
  unfold pair_ok, is_surrogate. intros P S.
  apply andb_prop in P as [P P3]. apply andb_prop in P as [P1 P2]. apply andb_prop in S as [S1 S2].
  apply N.ltb_lt in P1, P3, S2. apply N.leb_le in P2, S1. split; [lia|].
  apply andb_false_iff. right. apply N.ltb_ge. lia.
Qed.

Lemma bz_lt32 c : (bz c <? 32) = (bn c <? 32)%N.
Proof. exact (bz_ltb c 32). Qed.
Lemma bz_lt128 c : (bz c <? 128) = (bn c <? 128)%N.
Proof. exact (bz_ltb c 128). Qed.

(* ------------------------------------------------------------------ tactics for evaluating a step *)

Ltac no_bz t := lazymatch t with context [bz _] => fail | _ => idtac end.
Ltac has_bz t := lazymatch t with context [bz _] => idtac end.

(* integer tests without bytes in them, decided by lia *)
Ltac zdecide ::=
  rewrite ?Z.geb_leb, ?Z.gtb_ltb;
  repeat match goal with
  | |- context [?a <? ?b] => no_bz a; no_bz b;
      first [ replace (a <? b) with true by (symmetry; apply Z.ltb_lt; lia)
            | replace (a <? b) with false by (symmetry; apply Z.ltb_ge; lia) ]
  | |- context [?a <=? ?b] => no_bz a; no_bz b;
      first [ replace (a <=? b) with true by (symmetry; apply Z.leb_le; lia)
            | replace (a <=? b) with false by (symmetry; apply Z.leb_gt; lia) ]
  | |- context [?a =? ?b] => no_bz a; no_bz b;
      first [ replace (a =? b) with true by (symmetry; apply Z.eqb_eq; lia)
            | replace (a =? b) with false by (symmetry; apply Z.eqb_neq; lia) ]
  end;
  cbn [negb andb orb].

(* tests on the value of a byte, decided by lia from what is known about it *)
Ltac bdecide :=
  rewrite ?Z.geb_leb, ?Z.gtb_ltb;
  repeat match goal with
  | |- context [?a <? ?b] => has_bz (a, b);
      first [ replace (a <? b) with true by (symmetry; apply Z.ltb_lt; lia)
            | replace (a <? b) with false by (symmetry; apply Z.ltb_ge; lia) ]
  | |- context [?a <=? ?b] => has_bz (a, b);
      first [ replace (a <=? b) with true by (symmetry; apply Z.leb_le; lia)
            | replace (a <=? b) with false by (symmetry; apply Z.leb_gt; lia) ]
  | |- context [?a =? ?b] => has_bz (a, b);
      first [ replace (a =? b) with true by (symmetry; apply Z.eqb_eq; lia)
            | replace (a =? b) with false by (symmetry; apply Z.eqb_neq; lia) ]
  end;
  cbn [negb andb orb].

(* closed tests, by computation *)
Ltac ceval :=
  rewrite ?Z.geb_leb, ?Z.gtb_ltb;
  repeat match goal with
  | |- context [?a <? ?b] =>
      let v := eval vm_compute in (a <? b) in
      match v with true => idtac | false => idtac end; change (a <? b) with v
  | |- context [?a <=? ?b] =>
      let v := eval vm_compute in (a <=? b) in
      match v with true => idtac | false => idtac end; change (a <=? b) with v
  | |- context [?a =? ?b] =>
      let v := eval vm_compute in (a =? b) in
      match v with true => idtac | false => idtac end; change (a =? b) with v
  end;
  cbn [negb andb orb].

(* the bounds tests that hold *)
Ltac guards :=
  repeat match goal with
  | |- context [in_idx ?i ?n] =>
      replace (in_idx i n) with true
        by (symmetry; unfold in_idx; apply andb_true_intro; split; [apply Z.leb_le | apply Z.ltb_lt]; lia)
  | |- context [in_slice ?a ?b ?n] =>
      replace (in_slice a b n) with true
        by (symmetry; unfold in_slice; apply andb_true_intro; split; [apply andb_true_intro; split|]; apply Z.leb_le; lia)
  end;
  cbn [negb].

(* reads of s at r + constant, through the rest of s from r on *)
Ltac rd s r H :=
  repeat match goal with
  | |- context [at_ s ?i] => rewrite (at_rest s r _ i H) by lia
  | |- context [slice s ?i (len s)] => rewrite (slice_rest s r _ i H) by lia
  end;
  repeat match goal with
  | |- context [Z.to_nat (?i - r)] =>
      first [ replace (Z.to_nat (i - r)) with 0%nat by lia
            | replace (Z.to_nat (i - r)) with 1%nat by lia
            | replace (Z.to_nat (i - r)) with 6%nat by lia ]
  end;
  cbn [nth skipn].

Lemma snext_eq (r1 r2 : Z) (b1 b2 : bytes) (w1 w2 : Z) :
  r1 = r2 -> b1 = b2 -> w1 = w2 -> @SNext (Z * bytes * Z) uq_res (r1, b1, w1) = SNext (r2, b2, w2).
Proof. intros -> -> ->. reflexivity. Qed.

Ltac fin :=
  cbv beta iota;
  first [ reflexivity
        | apply snext_eq; [ lia | reflexivity | first [reflexivity | rewrite ?len_cons, ?len_nil; lia] ] ].

(* ------------------------------------------------------------------ one step of the second loop *)

(* with room in the buffer: the regrow test is false *)
Lemma step2_roomy s r b w c r' :
  0 <= r -> skipn (Z.to_nat r) s = c :: r' -> 0 <= w -> w + 9 <= len b ->
  unquote_step2 s r b w =
  match spec_step (c :: r') with
  | None => SRet UFalse
  | Some (k, e) => SNext (r + k, put b w e, w + len e)
  end.
Proof.
  intros Hr Hrest Hw Hb.
  pose proof (rest_in_range s r c r' Hrest Hr) as Hlt.
  assert (Ls : len s = r + (1 + len r')) by (rewrite <- (len_cons c r'); apply len_rest; [exact Hrest | lia]).
  pose proof (len_nonneg r') as Lr'.
  unfold unquote_step2. cbv zeta. zdecide. cbv beta iota.
  guards. rd s r Hrest.
  unfold spec_step.
  destruct (Byte.eqb c x5c) eqn:E5c.
  - apply eqb_5c in E5c. subst c. ceval. cbv beta iota.
    destruct r' as [|e r''].
    + rewrite len_nil in Ls. zdecide. reflexivity.
    + rewrite len_cons in Ls. pose proof (len_nonneg r'') as Lr''. zdecide. cbv beta iota. guards. rd s r Hrest.
      destruct (Byte.eqb e x75) eqn:Eu.
      * (* \u *)
        apply Byte.byte_dec_bl in Eu. subst e. ceval. cbv beta iota.
        rewrite getu4_gen_spec. cbv beta iota. unfold spec_u, getu4z.
        destruct (Strings.getu4 (x5c :: x75 :: r'')) as [v|] eqn:G; [|reflexivity].
        destruct (getu4_some_inv _ _ G) as (a1 & a2 & a3 & a4 & r2 & Eq & Hh & Hv).
        injection Eq as ->.
        rewrite !len_cons in Ls. pose proof (len_nonneg r2) as Lr2.
        pose proof (hex4_lt _ _ _ _ Hh) as Hv16. rewrite <- Hv in Hv16.
        zdecide. cbv beta iota. rewrite is_surrogate_z_N.
        destruct (is_surrogate v) eqn:Sv.
        -- guards. rd s r Hrest. rewrite getu4_gen_spec. cbv beta iota. unfold getu4z.
           destruct (Strings.getu4 r2) as [v1|] eqn:G1.
           ++ rewrite (decode_pair_N v v1 Sv). destruct (pair_ok v v1) eqn:P.
              ** destruct (pair_cp v v1 P Sv) as [C1 C2]. zdecide. cbv beta iota. guards.
                 rewrite encode_at_fits by lia. cbv beta iota. rewrite encode_rune_z_N by assumption. fin.
              ** ceval. cbv beta iota. guards. rewrite encode_at_fits by lia. fin.
           ++ rewrite decode_pair_none. ceval. cbv beta iota. guards. rewrite encode_at_fits by lia. fin.
        -- guards. rewrite encode_at_fits by lia. cbv beta iota.
           rewrite encode_rune_z_N by (assumption || lia). fin.
      * (* the other escapes *)
        destruct e; try discriminate Eu; try reflexivity; ceval; cbv beta iota; fin.
  - assert (N5c : bz c <> 92) by (intro Q; apply Z.eqb_eq in Q; rewrite bz_5c in Q; congruence).
    destruct (Byte.eqb c x22) eqn:E22.
    { apply Byte.byte_dec_bl in E22. subst c. ceval. reflexivity. }
    assert (N22 : bz c <> 34) by (intro Q; apply Z.eqb_eq in Q; rewrite bz_22 in Q; congruence).
    cbn [orb].
    destruct (bn c <? 32)%N eqn:E32.
    { assert (bz c < 32) by (apply Z.ltb_lt; rewrite bz_lt32; exact E32). bdecide. reflexivity. }
    assert (32 <= bz c) by (apply Z.ltb_ge; rewrite bz_lt32; exact E32).
    destruct (bn c <? 128)%N eqn:Hc.
    { assert (bz c < 128) by (apply Z.ltb_lt; rewrite bz_lt128; exact Hc). bdecide. cbv beta iota. guards. fin. }
    assert (128 <= bz c) by (apply Z.ltb_ge; rewrite bz_lt128; exact Hc).
    bdecide. cbv beta iota. guards.
    pose proof (decode_encode c r' Hc) as D.
    destruct (utf8_len (c :: r')) as [|n] eqn:E.
    + rewrite D. cbv beta iota. guards. rewrite encode_at_fits by lia. fin.
    + destruct D as (rv & D & K & En). rewrite D. cbv beta iota. guards.
      rewrite encode_at_fits by lia. cbv beta iota. rewrite En. fin.
Qed.

(* without room: the buffer is regrown first, and the step is the step on the regrown buffer *)
Definition grow (b : bytes) (w : Z) : bytes := copy_into (make_buf ((len b + 4) * 2)) (slice b 0 w).

Lemma grow_facts b w : 0 <= w <= len b ->
  len (grow b w) = (len b + 4) * 2 /\ firstn (Z.to_nat w) (grow b w) = firstn (Z.to_nat w) b.
Proof.
  intro H. unfold grow, copy_into, copy_n. rewrite slice_from_0.
  rewrite len_make, len_firstn by lia. replace (Z.min ((len b + 4) * 2) w) with w by lia.
  assert (F : firstn (Z.to_nat w) (firstn (Z.to_nat w) b) = firstn (Z.to_nat w) b).
  { rewrite firstn_firstn. f_equal. lia. }
  rewrite F. split.
  - rewrite len_app, len_firstn, len_skipn by (rewrite ?len_make; lia). rewrite len_make by lia. lia.
  - apply firstn_app_exact. rewrite firstn_length. unfold len in H. lia.
Qed.

Lemma step2_grow s r b w : 0 <= w -> w + 5 <= len b -> len b - 8 <= w ->
  unquote_step2 s r b w = unquote_step2 s r (grow b w) w.
Proof.
  intros Hw Hb Hfull. destruct (grow_facts b w) as [L1 _]; [lia|].
  remember (grow b w) as b1 eqn:E. unfold grow in E.
  unfold unquote_step2. cbv zeta. rewrite <- E. zdecide. guards. cbv beta iota. guards. reflexivity.
Qed.

Lemma step2_any s r b w c r' :
  0 <= r -> skipn (Z.to_nat r) s = c :: r' -> 0 <= w -> w + 5 <= len b ->
  exists b1, firstn (Z.to_nat w) b1 = firstn (Z.to_nat w) b /\ w + 9 <= len b1 /\
    unquote_step2 s r b w =
    match spec_step (c :: r') with
    | None => SRet UFalse
    | Some (k, e) => SNext (r + k, put b1 w e, w + len e)
    end.
Proof.
  intros Hr Hrest Hw Hb. destruct (Z_le_gt_dec (len b - 8) w) as [Full|Room].
  - destruct (grow_facts b w) as [L1 P1]; [lia|]. exists (grow b w). split; [exact P1|]. split; [lia|].
    rewrite step2_grow by lia. apply step2_roomy; try assumption. lia.
  - exists b. split; [reflexivity|]. split; [lia|]. apply step2_roomy; try assumption. lia.
Qed.

(* how much a step consumes and writes *)
Lemma encode_rune_len v : len (encode_rune v) <= 4.
Proof.
  unfold encode_rune.
  destruct (_ <? 128)%N; [vm_compute; discriminate|].
  destruct (_ <? 2048)%N; [vm_compute; discriminate|].
  destruct (_ <? 65536)%N; vm_compute; discriminate.
Qed.

Lemma utf8_len_le4 c r : (bn c <? 128)%N = false -> (utf8_len (c :: r) <= 4)%nat.
Proof.
  intro H. pose proof (utf8_len_inv2 c r H) as I.
  destruct (utf8_len (c :: r)) as [|[|[|[|[|k]]]]]; try contradiction; lia.
Qed.

Lemma spec_step_bounds rest k e : spec_step rest = Some (k, e) -> 1 <= k /\ len e <= 4.
Proof.
  unfold spec_step. destruct rest as [|c r']; [discriminate|].
  destruct (Byte.eqb c x5c).
  - destruct r' as [|x r'']; [discriminate|]. destruct (Byte.eqb x x75).
    + unfold spec_u. destruct (Strings.getu4 _) as [v|]; [|discriminate].
      destruct (is_surrogate v).
      * destruct (Strings.getu4 _) as [v1|].
        -- destruct (pair_ok v v1); intro Q; injection Q as <- <-; split; try lia;
             [apply encode_rune_len | vm_compute; discriminate].
        -- intro Q; injection Q as <- <-. split; [lia | vm_compute; discriminate].
      * intro Q; injection Q as <- <-. split; [lia | apply encode_rune_len].
    + destruct (esc_out x); [|discriminate]. intro Q; injection Q as <- <-. split; [lia | vm_compute; discriminate].
  - destruct (_ || _); [discriminate|]. destruct (bn c <? 128)%N eqn:Hc.
    + intro Q; injection Q as <- <-. split; [lia | vm_compute; discriminate].
    + pose proof (utf8_len_le4 c r' Hc) as L4. destruct (utf8_len (c :: r')) as [|n].
      * intro Q; injection Q as <- <-. split; [lia | vm_compute; discriminate].
      * intro Q; injection Q as <- <-. split; [lia|].
        unfold len. cbn [firstn length]. pose proof (firstn_le_length n r'). lia.
Qed.

(* ------------------------------------------------------------------ one step of the first loop *)

Lemma step1_spec s r c r' :
  0 <= r -> skipn (Z.to_nat r) s = c :: r' ->
  unquote_step1 s r = SBreak r \/
  exists k, unquote_step1 s r = SNext (r + k) /\ 1 <= k <= len (c :: r') /\
            spec_step (c :: r') = Some (k, firstn (Z.to_nat k) (c :: r')).
Proof.
  intros Hr Hrest.
  pose proof (rest_in_range s r c r' Hrest Hr) as Hlt.
  pose proof (len_nonneg r') as Lr'.
  unfold unquote_step1. cbv zeta. guards. rd s r Hrest. unfold spec_step.
  destruct (Byte.eqb c x5c) eqn:E5c.
  { apply eqb_5c in E5c. subst c. ceval. left. reflexivity. }
  assert (N5c : bz c <> 92) by (intro Q; apply Z.eqb_eq in Q; rewrite bz_5c in Q; congruence).
  destruct (Byte.eqb c x22) eqn:E22.
  { apply Byte.byte_dec_bl in E22. subst c. ceval. left. reflexivity. }
  assert (N22 : bz c <> 34) by (intro Q; apply Z.eqb_eq in Q; rewrite bz_22 in Q; congruence).
  cbn [orb].
  destruct (bn c <? 32)%N eqn:E32.
  { assert (bz c < 32) by (apply Z.ltb_lt; rewrite bz_lt32; exact E32). bdecide. left. reflexivity. }
  assert (32 <= bz c) by (apply Z.ltb_ge; rewrite bz_lt32; exact E32).
  destruct (bn c <? 128)%N eqn:Hc.
  { assert (bz c < 128) by (apply Z.ltb_lt; rewrite bz_lt128; exact Hc). bdecide. right. exists 1.
    split; [reflexivity|]. split; [rewrite len_cons; lia | reflexivity]. }
  assert (128 <= bz c) by (apply Z.ltb_ge; rewrite bz_lt128; exact Hc).
  bdecide. cbv beta iota.
  pose proof (decode_encode c r' Hc) as D. pose proof (utf8_len_le (c :: r')) as Le.
  destruct (utf8_len (c :: r')) as [|n] eqn:E.
  - rewrite D. cbv beta iota. ceval. left. reflexivity.
  - destruct D as (rv & D & K & En). rewrite D. cbv beta iota.
    replace (Z.of_nat (S n) =? 1) with false by (symmetry; apply Z.eqb_neq; lia).
    rewrite andb_false_r. right. exists (Z.of_nat (S n)).
    split; [reflexivity|]. split; [unfold len; lia|]. rewrite Nat2Z.id. reflexivity.
Qed.

(* ------------------------------------------------------------------ the run of the specification *)

(* runs rest x: decoding rest step by step ends with x (None: return false, Some t: t was written) *)
Inductive runs : bytes -> option bytes -> Prop :=
| R_nil : runs [] (Some [])
| R_false c r' : spec_step (c :: r') = None -> runs (c :: r') None
| R_step c r' k e x : spec_step (c :: r') = Some (k, e) -> runs (skipn (Z.to_nat k) (c :: r')) x ->
                      runs (c :: r') (option_map (app e) x).

Definition uq_of (x : option bytes) : uq_res := match x with Some t => UOk t | None => UFalse end.

Lemma skipn_rest (s : bytes) r rest k : skipn (Z.to_nat r) s = rest -> 0 <= r -> 0 <= k ->
  skipn (Z.to_nat (r + k)) s = skipn (Z.to_nat k) rest.
Proof. intros E Hr Hk. rewrite <- E, ut_skipn_skipn. f_equal. lia. Qed.

Lemma rest_cons (s : bytes) r : 0 <= r < len s -> exists c r', skipn (Z.to_nat r) s = c :: r'.
Proof.
  intro H. destruct (skipn (Z.to_nat r) s) as [|c r'] eqn:E; [|eauto].
  apply (f_equal (@length _)) in E. rewrite skipn_length in E. unfold len in H. simpl in E. lia.
Qed.

(* the second loop: it ends within its fuel, never panics, and does what the run says *)
Lemma loop2_runs s : forall fuel r b w,
  0 <= r -> 0 <= w -> w + 5 <= len b -> (Z.to_nat (len s - r) < fuel)%nat ->
  exists x, runs (skipn (Z.to_nat r) s) x /\
    match x with
    | None => unquote_loop2 fuel s r b w = LRet UFalse
    | Some t => exists r1 b1, unquote_loop2 fuel s r b w = LDone (r1, b1, w + len t) /\
                  w + len t <= len b1 /\
                  firstn (Z.to_nat (w + len t)) b1 = firstn (Z.to_nat w) b ++ t
    end.
Proof.
  induction fuel as [|fuel IH]; intros r b w Hr Hw Hb F; [lia|].
  cbn [unquote_loop2]. destruct (r <? len s) eqn:C.
  - apply Z.ltb_lt in C. destruct (rest_cons s r) as (c & r' & Hrest); [lia|].
    destruct (step2_any s r b w c r' Hr Hrest Hw Hb) as (b1 & P1 & L1 & St). rewrite St, Hrest.
    destruct (spec_step (c :: r')) as [[k e]|] eqn:Sp.
    + destruct (spec_step_bounds _ _ _ Sp) as [K1 E4]. pose proof (len_nonneg e) as E0.
      destruct (IH (r + k) (put b1 w e) (w + len e)) as (x & Rx & Hx);
        [lia | lia | rewrite put_len by lia; lia | lia |].
      rewrite (skipn_rest s r (c :: r') k Hrest) in Rx by lia.
      exists (option_map (app e) x). split; [apply (R_step c r' k e x Sp Rx)|].
      destruct x as [t|]; cbn [option_map]; [|exact Hx].
      destruct Hx as (r1 & b2 & Lp & Lb & Pf). exists r1, b2.
      rewrite len_app, Z.add_assoc. split; [exact Lp|]. split; [exact Lb|].
      rewrite Pf, put_prefix, P1 by lia. rewrite <- app_assoc. reflexivity.
    + exists None. split; [apply R_false; exact Sp | reflexivity].
  - apply Z.ltb_ge in C. exists (Some []). split.
    + rewrite skipn_all2 by (unfold len in C; lia). constructor.
    + exists r, b. rewrite len_nil, Z.add_0_r, app_nil_r. split; [reflexivity|]. split; [lia | reflexivity].
Qed.

(* the first loop skips a prefix that the run copies *)
Lemma loop1_runs s : forall fuel r,
  0 <= r <= len s -> (Z.to_nat (len s - r) < fuel)%nat ->
  exists r1, unquote_loop1 fuel s r = LDone r1 /\ r <= r1 <= len s /\
    forall x, runs (skipn (Z.to_nat r1) s) x ->
              runs (skipn (Z.to_nat r) s) (option_map (app (slice s r r1)) x).
Proof.
  induction fuel as [|fuel IH]; intros r Hr F; [lia|].
  assert (Stop : exists r1, LDone r = @LDone Z uq_res r1 /\ r <= r1 <= len s /\
    forall x, runs (skipn (Z.to_nat r1) s) x -> runs (skipn (Z.to_nat r) s) (option_map (app (slice s r r1)) x)).
  { exists r. split; [reflexivity|]. split; [lia|]. intros x Rx. unfold slice. rewrite Z.sub_diag. cbn [Z.to_nat firstn].
    destruct x; exact Rx. }
  cbn [unquote_loop1]. destruct (r <? len s) eqn:C; [|exact Stop].
  apply Z.ltb_lt in C. destruct (rest_cons s r) as (c & r' & Hrest); [lia|].
  destruct (step1_spec s r c r') as [Br|(k & St & K & Sp)]; [lia | exact Hrest | rewrite Br; exact Stop |].
  rewrite St. pose proof (len_rest s r _ Hrest) as Ls.
  destruct (IH (r + k)) as (r1 & L & R1 & Tr); [lia | lia |].
  exists r1. split; [exact L|]. split; [lia|]. intros x Rx. specialize (Tr x Rx).
  rewrite (skipn_rest s r (c :: r') k Hrest) in Tr by lia. rewrite Hrest.
  assert (Sl : slice s r r1 = firstn (Z.to_nat k) (c :: r') ++ slice s (r + k) r1).
  { unfold slice. rewrite (skipn_rest s r (c :: r') k Hrest), Hrest by lia.
    replace (Z.to_nat (r1 - r)) with (Z.to_nat k + Z.to_nat (r1 - (r + k)))%nat by lia.
    apply ut_firstn_add. }
  rewrite Sl. pose proof (R_step c r' k _ _ Sp Tr) as Q.
  destruct x; cbn [option_map] in *; [rewrite <- app_assoc|]; exact Q.
Qed.

(* ------------------------------------------------------------------ the whole function *)

Lemma copy_facts n (src : bytes) : len src <= n ->
  copy_n (make_buf n) src = len src /\ len (copy_into (make_buf n) src) = n /\
  firstn (Z.to_nat (len src)) (copy_into (make_buf n) src) = src.
Proof.
  intro H. pose proof (len_nonneg src) as H0. unfold copy_into, copy_n. rewrite len_make by lia.
  replace (Z.min n (len src)) with (len src) by lia.
  assert (F : firstn (Z.to_nat (len src)) src = src) by (apply firstn_all2; unfold len; lia).
  rewrite F. split; [reflexivity|]. split.
  - rewrite len_app, len_skipn by (rewrite len_make; lia). rewrite len_make by lia. lia.
  - apply firstn_app_exact. unfold len. lia.
Qed.

(* the literal without its quotes, if it has them *)
Definition lit_body (s : bytes) : option bytes :=
  if (2 <=? len s) && (bz (at_ s 0) =? 34) && (bz (at_ s (len s - 1)) =? 34)
  then Some (slice s 1 (len s - 1)) else None.

(* EVERY byte string: the function returns (never panics, never runs out of fuel), and returns what
   the run of the step specification over the body says *)
Theorem unquote_full_gen_total s :
  exists x, match lit_body s with None => x = None | Some body => runs body x end /\
            unquote_full_gen s = uq_of x.
Proof.
  unfold unquote_full_gen, lit_body. pose proof (len_nonneg s) as L0.
  destruct (len s <? 2) eqn:C2.
  { apply Z.ltb_lt in C2. zdecide. exists None. split; reflexivity. }
  apply Z.ltb_ge in C2. zdecide. guards.
  destruct (bz (at_ s 0) =? 34); cbn [negb andb]; [|exists None; split; reflexivity].
  destruct (bz (at_ s (len s - 1)) =? 34); cbn [negb andb]; [|exists None; split; reflexivity].
  cbv zeta. generalize (slice s 1 (len s - 1)) as body. clear s L0 C2. intro body.
  pose proof (len_nonneg body) as L0.
  destruct (loop1_runs body (S (length body)) 0) as (r1 & L1 & R1 & Tr); [lia | unfold len; lia |].
  rewrite L1. cbn [Z.to_nat skipn] in Tr.
  destruct (r1 =? len body) eqn:Cr.
  - apply Z.eqb_eq in Cr. exists (Some body). split; [|reflexivity].
    specialize (Tr (Some [])). rewrite skipn_all2 in Tr by (unfold len in Cr; lia). specialize (Tr R_nil).
    cbn [option_map] in Tr. rewrite app_nil_r, slice_from_0, firstn_all2 in Tr by (unfold len in Cr; lia). exact Tr.
  - apply Z.eqb_neq in Cr. zdecide. guards.
    assert (Ls : len (slice body 0 r1) = r1) by (rewrite slice_from_0; apply len_firstn; lia).
    destruct (copy_facts (len body + 2 * 4) (slice body 0 r1)) as (Cn & Cl & Cp); [lia|].
    rewrite Cn, Ls. rewrite Ls in Cp.
    set (b0 := copy_into (make_buf (len body + 2 * 4)) (slice body 0 r1)) in *.
    destruct (loop2_runs body (S (length body)) r1 b0 r1) as (x & Rx & Hx); [lia | lia | lia | unfold len; lia |].
    exists (option_map (app (slice body 0 r1)) x). split; [exact (Tr x Rx)|].
    destruct x as [t|]; cbn [option_map uq_of].
    + destruct Hx as (r2 & b2 & Lp & Lb & Pf). rewrite Lp. pose proof (len_nonneg t) as Lt. guards.
      rewrite slice_from_0, Pf, Cp. reflexivity.
    + rewrite Hx. reflexivity.
Qed.

Corollary unquote_full_gen_no_panic s : unquote_full_gen s <> UPanic /\ unquote_full_gen s <> UFuel.
Proof.
  destruct (unquote_full_gen_total s) as (x & _ & E). rewrite E. destruct x; split; discriminate.
Qed.

(* ------------------------------------------------------------------ the model on accepted bodies *)

Lemma high_byte c : (bn c <? 128)%N = false ->
  Byte.eqb c x5c = false /\ Byte.eqb c x22 = false /\ (bn c <? 32)%N = false.
Proof. destruct c; intro H; try discriminate H; repeat split. Qed.

Lemma spec_sbody c r' : sbody (c :: r') ->
  exists k e, spec_step (c :: r') = Some (k, e) /\
    unquote (c :: r') = e ++ unquote (skipn (Z.to_nat k) (c :: r')) /\ sbody (skipn (Z.to_nat k) (c :: r')).
Proof.
  intro S. inversion S as [|e r He Sr|a b0 c0 d r Hh Sr|c1 r H1 H2 H3 H4 Sr|c1 r H1 Sr]; subst.
  - destruct e; try discriminate He; eexists _, _; (split; [reflexivity|]);
      (split; [|exact Sr]);
      match goal with |- unquote (x5c :: ?e :: _) = _ => exact (unquote_esc e r I) end.
  - unfold spec_step. change (Byte.eqb x5c x5c) with true. change (Byte.eqb x75 x75) with true. cbv iota.
    unfold spec_u.
    assert (G : Strings.getu4 (x5c :: x75 :: a :: b0 :: c0 :: d :: r) = Some (hex4 a b0 c0 d))
      by (unfold Strings.getu4; now rewrite Hh).
    rewrite G. change (skipn 6 (x5c :: x75 :: a :: b0 :: c0 :: d :: r)) with r.
    pose proof (unquote_u a b0 c0 d r Hh) as U. cbv zeta in U.
    destruct (is_surrogate (hex4 a b0 c0 d)).
    + destruct (Strings.getu4 r) as [v1|] eqn:G1.
      * change ((hex4 a b0 c0 d <? 56320)%N && (56320 <=? v1)%N && (v1 <? 57344)%N) with (pair_ok (hex4 a b0 c0 d) v1) in U.
        destruct (pair_ok (hex4 a b0 c0 d) v1).
        -- eexists _, _. split; [reflexivity|]. split; [exact U|].
           destruct (getu4_some_inv _ _ G1) as (a' & b' & c' & d' & r2 & -> & _ & _).
           apply (sbody_u_inv a' b' c' d'). exact Sr.
        -- eexists _, _. split; [reflexivity|]. split; [exact U | exact Sr].
      * eexists _, _. split; [reflexivity|]. split; [exact U | exact Sr].
    + eexists _, _. split; [reflexivity|]. split; [exact U | exact Sr].
  - unfold spec_step. rewrite H4, H3, H2, H1. cbn [orb]. eexists _, _. split; [reflexivity|].
    split; [apply unquote_plain; assumption | exact Sr].
  - destruct (high_byte c H1) as (E5c & E22 & E32). unfold spec_step. rewrite E5c, E22, E32, H1. cbn [orb].
    destruct (utf8_len (c :: r')) as [|n] eqn:E.
    + eexists _, _. split; [reflexivity|]. split; [apply unquote_invalid; assumption | exact Sr].
    + eexists _, _. split; [reflexivity|]. rewrite Nat2Z.id.
      split; [apply unquote_multi; assumption | apply sbody_skip_multi; assumption].
Qed.

Lemma runs_sbody rest x : runs rest x -> sbody rest -> x = Some (unquote rest).
Proof.
  induction 1 as [|c r' Sp|c r' k e x Sp Rx IH]; intro S.
  - reflexivity.
  - destruct (spec_sbody c r' S) as (k & e & Sp' & _). rewrite Sp in Sp'. discriminate Sp'.
  - destruct (spec_sbody c r' S) as (k' & e' & Sp' & U & S'). rewrite Sp in Sp'. injection Sp' as <- <-.
    rewrite (IH S'). cbn [option_map]. rewrite U. reflexivity.
Qed.

Lemma lit_body_quoted body : lit_body ([x22] ++ body ++ [x22]) = Some body.
Proof.
  unfold lit_body. pose proof (len_nonneg body) as L0.
  assert (L : len ([x22] ++ body ++ [x22]) = len body + 2) by (rewrite !len_app; change (len [x22]) with 1; lia).
  rewrite L. zdecide.
  assert (A0 : at_ ([x22] ++ body ++ [x22]) 0 = x22) by reflexivity.
  assert (A1 : at_ ([x22] ++ body ++ [x22]) (len body + 2 - 1) = x22).
  { unfold at_. replace (Z.to_nat (len body + 2 - 1)) with (S (length body)) by (unfold len; lia).
    cbn [app nth]. rewrite app_nth2 by lia. rewrite Nat.sub_diag. reflexivity. }
  rewrite A0, A1. change (bz x22 =? 34) with true. cbn [andb]. f_equal.
  unfold slice. replace (Z.to_nat (len body + 2 - 1 - 1)) with (length body) by (unfold len; lia).
  change (skipn (Z.to_nat 1) ([x22] ++ body ++ [x22])) with (body ++ [x22]).
  apply (firstn_app_exact (length body) body [x22] eq_refl).
Qed.

(* the translated decoder computes the model on every body the scanner accepts *)
Theorem unquote_full_gen_is_unquote body :
  sbody body -> unquote_full_gen ([x22] ++ body ++ [x22]) = UOk (unquote body).
Proof.
  intro S. destruct (unquote_full_gen_total ([x22] ++ body ++ [x22])) as (x & Rx & E).
  rewrite lit_body_quoted in Rx. rewrite E, (runs_sbody body x Rx S). reflexivity.
Qed.

(* ------------------------------------------------------------------ examples
   The right-hand sides are what the Go function returns (getu4 and unquoteBytes copied textually from
   decode.go into a scratch main package and run, go1.23.5): the translated function computes them by
   vm_compute; for the bodies the scanner accepts so does the model (ex_model_...).
   Escapes, \uXXXX in upper and lower case, a surrogate pair and the bounds of the pair ranges, lone high and
   low surrogates at the end and in the middle, a high surrogate followed by something else, hex digits just
   outside the three ranges, truncated and unknown escapes, control bytes, well-formed UTF-8 (early return
   of the first loop), ill-formed UTF-8, and ill-formed bytes followed by a long tail (the regrow path, once
   and twice). *)
Example ex_empty :
  unquote_full_gen [x22; x22] =
  UOk [].
Proof. vm_compute. reflexivity. Qed.

Example ex_model_empty :
  unquote [] =
  [].
Proof. vm_compute. reflexivity. Qed.

Example ex_plain :
  unquote_full_gen [x22; x68; x65; x6c; x6c; x6f; x2c; x20; x77; x6f; x72; x6c; x64; x22] =
  UOk [x68; x65; x6c; x6c; x6f; x2c; x20; x77; x6f; x72; x6c; x64].
Proof. vm_compute. reflexivity. Qed.

Example ex_model_plain :
  unquote [x68; x65; x6c; x6c; x6f; x2c; x20; x77; x6f; x72; x6c; x64] =
  [x68; x65; x6c; x6c; x6f; x2c; x20; x77; x6f; x72; x6c; x64].
Proof. vm_compute. reflexivity. Qed.

Example ex_escapes :
  unquote_full_gen [x22; x61; x5c; x22; x5c; x5c; x5c; x2f; x5c; x62; x5c; x66; x5c; x6e; x5c; x72; x5c; x74; x7a; x22] =
  UOk [x61; x22; x5c; x2f; x08; x0c; x0a; x0d; x09; x7a].
Proof. vm_compute. reflexivity. Qed.

Example ex_model_escapes :
  unquote [x61; x5c; x22; x5c; x5c; x5c; x2f; x5c; x62; x5c; x66; x5c; x6e; x5c; x72; x5c; x74; x7a] =
  [x61; x22; x5c; x2f; x08; x0c; x0a; x0d; x09; x7a].
Proof. vm_compute. reflexivity. Qed.

Example ex_escape_apostrophe :
  unquote_full_gen [x22; x61; x5c; x27; x7a; x22] =
  UOk [x61; x27; x7a].
Proof. vm_compute. reflexivity. Qed.

Example ex_u_bmp :
  unquote_full_gen [x22; x5c; x75; x30; x30; x34; x31; x5c; x75; x30; x30; x65; x39; x5c; x75; x32; x30; x61; x63; x5c; x75; x66; x66; x66; x66; x5c; x75; x30; x30; x30; x30; x22] =
  UOk [x41; xc3; xa9; xe2; x82; xac; xef; xbf; xbf; x00].
Proof. vm_compute. reflexivity. Qed.

Example ex_model_u_bmp :
  unquote [x5c; x75; x30; x30; x34; x31; x5c; x75; x30; x30; x65; x39; x5c; x75; x32; x30; x61; x63; x5c; x75; x66; x66; x66; x66; x5c; x75; x30; x30; x30; x30] =
  [x41; xc3; xa9; xe2; x82; xac; xef; xbf; xbf; x00].
Proof. vm_compute. reflexivity. Qed.

Example ex_u_pair :
  unquote_full_gen [x22; x78; x5c; x75; x64; x38; x33; x64; x5c; x75; x64; x65; x30; x30; x79; x22] =
  UOk [x78; xf0; x9f; x98; x80; x79].
Proof. vm_compute. reflexivity. Qed.

Example ex_model_u_pair :
  unquote [x78; x5c; x75; x64; x38; x33; x64; x5c; x75; x64; x65; x30; x30; x79] =
  [x78; xf0; x9f; x98; x80; x79].
Proof. vm_compute. reflexivity. Qed.

Example ex_u_pair_bounds :
  unquote_full_gen [x22; x5c; x75; x64; x38; x30; x30; x5c; x75; x64; x63; x30; x30; x5c; x75; x64; x62; x66; x66; x5c; x75; x64; x66; x66; x66; x22] =
  UOk [xf0; x90; x80; x80; xf4; x8f; xbf; xbf].
Proof. vm_compute. reflexivity. Qed.

Example ex_model_u_pair_bounds :
  unquote [x5c; x75; x64; x38; x30; x30; x5c; x75; x64; x63; x30; x30; x5c; x75; x64; x62; x66; x66; x5c; x75; x64; x66; x66; x66] =
  [xf0; x90; x80; x80; xf4; x8f; xbf; xbf].
Proof. vm_compute. reflexivity. Qed.

Example ex_u_hex_upper_lower :
  unquote_full_gen [x22; x5c; x75; x44; x38; x33; x44; x5c; x75; x64; x45; x30; x30; x5c; x75; x30; x30; x45; x39; x5c; x75; x41; x62; x43; x64; x5c; x75; x61; x62; x63; x64; x5c; x75; x41; x42; x43; x44; x5c; x75; x30; x39; x61; x66; x5c; x75; x30; x39; x41; x46; x22] =
  UOk [xf0; x9f; x98; x80; xc3; xa9; xea; xaf; x8d; xea; xaf; x8d; xea; xaf; x8d; xe0; xa6; xaf; xe0; xa6; xaf].
Proof. vm_compute. reflexivity. Qed.

Example ex_model_u_hex_upper_lower :
  unquote [x5c; x75; x44; x38; x33; x44; x5c; x75; x64; x45; x30; x30; x5c; x75; x30; x30; x45; x39; x5c; x75; x41; x62; x43; x64; x5c; x75; x61; x62; x63; x64; x5c; x75; x41; x42; x43; x44; x5c; x75; x30; x39; x61; x66; x5c; x75; x30; x39; x41; x46] =
  [xf0; x9f; x98; x80; xc3; xa9; xea; xaf; x8d; xea; xaf; x8d; xea; xaf; x8d; xe0; xa6; xaf; xe0; xa6; xaf].
Proof. vm_compute. reflexivity. Qed.

Example ex_u_lone_high_end :
  unquote_full_gen [x22; x78; x5c; x75; x64; x38; x33; x64; x22] =
  UOk [x78; xef; xbf; xbd].
Proof. vm_compute. reflexivity. Qed.

Example ex_model_u_lone_high_end :
  unquote [x78; x5c; x75; x64; x38; x33; x64] =
  [x78; xef; xbf; xbd].
Proof. vm_compute. reflexivity. Qed.

Example ex_u_lone_low_end :
  unquote_full_gen [x22; x78; x5c; x75; x64; x65; x30; x30; x22] =
  UOk [x78; xef; xbf; xbd].
Proof. vm_compute. reflexivity. Qed.

Example ex_model_u_lone_low_end :
  unquote [x78; x5c; x75; x64; x65; x30; x30] =
  [x78; xef; xbf; xbd].
Proof. vm_compute. reflexivity. Qed.

Example ex_u_lone_high_mid :
  unquote_full_gen [x22; x5c; x75; x64; x38; x33; x64; x78; x79; x7a; x22] =
  UOk [xef; xbf; xbd; x78; x79; x7a].
Proof. vm_compute. reflexivity. Qed.

Example ex_model_u_lone_high_mid :
  unquote [x5c; x75; x64; x38; x33; x64; x78; x79; x7a] =
  [xef; xbf; xbd; x78; x79; x7a].
Proof. vm_compute. reflexivity. Qed.

Example ex_u_lone_low_mid :
  unquote_full_gen [x22; x5c; x75; x64; x65; x30; x30; x78; x79; x7a; x22] =
  UOk [xef; xbf; xbd; x78; x79; x7a].
Proof. vm_compute. reflexivity. Qed.

Example ex_model_u_lone_low_mid :
  unquote [x5c; x75; x64; x65; x30; x30; x78; x79; x7a] =
  [xef; xbf; xbd; x78; x79; x7a].
Proof. vm_compute. reflexivity. Qed.

Example ex_u_high_then_bmp :
  unquote_full_gen [x22; x5c; x75; x64; x38; x33; x64; x5c; x75; x30; x30; x34; x31; x22] =
  UOk [xef; xbf; xbd; x41].
Proof. vm_compute. reflexivity. Qed.

Example ex_model_u_high_then_bmp :
  unquote [x5c; x75; x64; x38; x33; x64; x5c; x75; x30; x30; x34; x31] =
  [xef; xbf; xbd; x41].
Proof. vm_compute. reflexivity. Qed.

Example ex_u_high_high_low :
  unquote_full_gen [x22; x5c; x75; x64; x38; x33; x64; x5c; x75; x64; x38; x33; x64; x5c; x75; x64; x65; x30; x30; x22] =
  UOk [xef; xbf; xbd; xf0; x9f; x98; x80].
Proof. vm_compute. reflexivity. Qed.

Example ex_model_u_high_high_low :
  unquote [x5c; x75; x64; x38; x33; x64; x5c; x75; x64; x38; x33; x64; x5c; x75; x64; x65; x30; x30] =
  [xef; xbf; xbd; xf0; x9f; x98; x80].
Proof. vm_compute. reflexivity. Qed.

Example ex_u_low_high :
  unquote_full_gen [x22; x5c; x75; x64; x65; x30; x30; x5c; x75; x64; x38; x33; x64; x22] =
  UOk [xef; xbf; xbd; xef; xbf; xbd].
Proof. vm_compute. reflexivity. Qed.

Example ex_model_u_low_high :
  unquote [x5c; x75; x64; x65; x30; x30; x5c; x75; x64; x38; x33; x64] =
  [xef; xbf; xbd; xef; xbf; xbd].
Proof. vm_compute. reflexivity. Qed.

Example ex_u_high_then_backslash_n :
  unquote_full_gen [x22; x5c; x75; x64; x62; x66; x66; x5c; x6e; x22] =
  UOk [xef; xbf; xbd; x0a].
Proof. vm_compute. reflexivity. Qed.

Example ex_model_u_high_then_backslash_n :
  unquote [x5c; x75; x64; x62; x66; x66; x5c; x6e] =
  [xef; xbf; xbd; x0a].
Proof. vm_compute. reflexivity. Qed.

Example ex_u_high_then_short :
  unquote_full_gen [x22; x5c; x75; x64; x38; x33; x64; x5c; x75; x31; x32; x22] =
  UFalse.
Proof. vm_compute. reflexivity. Qed.

Example ex_u_d7ff_e000 :
  unquote_full_gen [x22; x5c; x75; x64; x37; x66; x66; x5c; x75; x65; x30; x30; x30; x22] =
  UOk [xed; x9f; xbf; xee; x80; x80].
Proof. vm_compute. reflexivity. Qed.

Example ex_model_u_d7ff_e000 :
  unquote [x5c; x75; x64; x37; x66; x66; x5c; x75; x65; x30; x30; x30] =
  [xed; x9f; xbf; xee; x80; x80].
Proof. vm_compute. reflexivity. Qed.

Example ex_u_bad_hex_g :
  unquote_full_gen [x22; x5c; x75; x30; x30; x67; x30; x22] =
  UFalse.
Proof. vm_compute. reflexivity. Qed.

Example ex_u_bad_hex_G :
  unquote_full_gen [x22; x5c; x75; x30; x30; x47; x30; x22] =
  UFalse.
Proof. vm_compute. reflexivity. Qed.

Example ex_u_bad_hex_colon :
  unquote_full_gen [x22; x5c; x75; x30; x30; x3a; x30; x22] =
  UFalse.
Proof. vm_compute. reflexivity. Qed.

Example ex_u_bad_hex_slash :
  unquote_full_gen [x22; x5c; x75; x30; x30; x2f; x30; x22] =
  UFalse.
Proof. vm_compute. reflexivity. Qed.

Example ex_u_bad_hex_at :
  unquote_full_gen [x22; x5c; x75; x30; x30; x40; x30; x22] =
  UFalse.
Proof. vm_compute. reflexivity. Qed.

Example ex_u_bad_hex_backquote :
  unquote_full_gen [x22; x5c; x75; x30; x30; x60; x30; x22] =
  UFalse.
Proof. vm_compute. reflexivity. Qed.

Example ex_u_bad_hex_high_byte :
  unquote_full_gen [x22; x5c; x75; x30; x30; xe9; x30; x22] =
  UFalse.
Proof. vm_compute. reflexivity. Qed.

Example ex_u_truncated :
  unquote_full_gen [x22; x5c; x75; x31; x32; x22] =
  UFalse.
Proof. vm_compute. reflexivity. Qed.

Example ex_bad_escape :
  unquote_full_gen [x22; x61; x5c; x78; x22] =
  UFalse.
Proof. vm_compute. reflexivity. Qed.

Example ex_backslash_at_end :
  unquote_full_gen [x22; x61; x62; x63; x5c; x22] =
  UFalse.
Proof. vm_compute. reflexivity. Qed.

Example ex_control :
  unquote_full_gen [x22; x61; x01; x62; x22] =
  UFalse.
Proof. vm_compute. reflexivity. Qed.

Example ex_inner_quote :
  unquote_full_gen [x22; x61; x22; x62; x22] =
  UFalse.
Proof. vm_compute. reflexivity. Qed.

Example ex_utf8_valid_only :
  unquote_full_gen [x22; x68; xc3; xa9; x20; xe2; x82; xac; x20; xf0; x9f; x98; x80; xef; xbf; xbd; x22] =
  UOk [x68; xc3; xa9; x20; xe2; x82; xac; x20; xf0; x9f; x98; x80; xef; xbf; xbd].
Proof. vm_compute. reflexivity. Qed.

Example ex_model_utf8_valid_only :
  unquote [x68; xc3; xa9; x20; xe2; x82; xac; x20; xf0; x9f; x98; x80; xef; xbf; xbd] =
  [x68; xc3; xa9; x20; xe2; x82; xac; x20; xf0; x9f; x98; x80; xef; xbf; xbd].
Proof. vm_compute. reflexivity. Qed.

Example ex_utf8_valid_after_escape :
  unquote_full_gen [x22; x5c; x6e; x68; xc3; xa9; x20; xe2; x82; xac; x20; xf0; x9f; x98; x80; x22] =
  UOk [x0a; x68; xc3; xa9; x20; xe2; x82; xac; x20; xf0; x9f; x98; x80].
Proof. vm_compute. reflexivity. Qed.

Example ex_model_utf8_valid_after_escape :
  unquote [x5c; x6e; x68; xc3; xa9; x20; xe2; x82; xac; x20; xf0; x9f; x98; x80] =
  [x0a; x68; xc3; xa9; x20; xe2; x82; xac; x20; xf0; x9f; x98; x80].
Proof. vm_compute. reflexivity. Qed.

Example ex_illformed :
  unquote_full_gen [x22; xff; x20; xc0; x80; x20; xe2; x80; x20; xed; xa0; x80; x20; xf4; x90; x80; x80; x20; xe2; x22] =
  UOk [xef; xbf; xbd; x20; xef; xbf; xbd; xef; xbf; xbd; x20; xef; xbf; xbd; xef; xbf; xbd; x20; xef; xbf; xbd; xef; xbf; xbd; xef; xbf; xbd; x20; xef; xbf; xbd; xef; xbf; xbd; xef; xbf; xbd; xef; xbf; xbd; x20; xef; xbf; xbd].
Proof. vm_compute. reflexivity. Qed.

Example ex_model_illformed :
  unquote [xff; x20; xc0; x80; x20; xe2; x80; x20; xed; xa0; x80; x20; xf4; x90; x80; x80; x20; xe2] =
  [xef; xbf; xbd; x20; xef; xbf; xbd; xef; xbf; xbd; x20; xef; xbf; xbd; xef; xbf; xbd; x20; xef; xbf; xbd; xef; xbf; xbd; xef; xbf; xbd; x20; xef; xbf; xbd; xef; xbf; xbd; xef; xbf; xbd; xef; xbf; xbd; x20; xef; xbf; xbd].
Proof. vm_compute. reflexivity. Qed.

Example ex_regrow_5_bad_long_tail :
  unquote_full_gen [x22; x80; x80; x80; x80; x80; x61; x62; x63; x64; x65; x66; x67; x68; x69; x6a; x6b; x6c; x6d; x6e; x6f; x70; x71; x72; x73; x74; x75; x76; x77; x78; x79; x7a; x30; x31; x32; x33; x34; x35; x36; x37; x38; x39; x22] =
  UOk [xef; xbf; xbd; xef; xbf; xbd; xef; xbf; xbd; xef; xbf; xbd; xef; xbf; xbd; x61; x62; x63; x64; x65; x66; x67; x68; x69; x6a; x6b; x6c; x6d; x6e; x6f; x70; x71; x72; x73; x74; x75; x76; x77; x78; x79; x7a; x30; x31; x32; x33; x34; x35; x36; x37; x38; x39].
Proof. vm_compute. reflexivity. Qed.

Example ex_model_regrow_5_bad_long_tail :
  unquote [x80; x80; x80; x80; x80; x61; x62; x63; x64; x65; x66; x67; x68; x69; x6a; x6b; x6c; x6d; x6e; x6f; x70; x71; x72; x73; x74; x75; x76; x77; x78; x79; x7a; x30; x31; x32; x33; x34; x35; x36; x37; x38; x39] =
  [xef; xbf; xbd; xef; xbf; xbd; xef; xbf; xbd; xef; xbf; xbd; xef; xbf; xbd; x61; x62; x63; x64; x65; x66; x67; x68; x69; x6a; x6b; x6c; x6d; x6e; x6f; x70; x71; x72; x73; x74; x75; x76; x77; x78; x79; x7a; x30; x31; x32; x33; x34; x35; x36; x37; x38; x39].
Proof. vm_compute. reflexivity. Qed.

Example ex_regrow_12_bad_tail :
  unquote_full_gen [x22; xff; xff; xff; xff; xff; xff; xff; xff; xff; xff; xff; xff; x74; x61; x69; x6c; x20; x74; x61; x69; x6c; x20; x74; x61; x69; x6c; x20; x74; x61; x69; x6c; x20; x74; x61; x69; x6c; x20; x74; x61; x69; x6c; x20; x74; x61; x69; x6c; x20; x74; x61; x69; x6c; x22] =
  UOk [xef; xbf; xbd; xef; xbf; xbd; xef; xbf; xbd; xef; xbf; xbd; xef; xbf; xbd; xef; xbf; xbd; xef; xbf; xbd; xef; xbf; xbd; xef; xbf; xbd; xef; xbf; xbd; xef; xbf; xbd; xef; xbf; xbd; x74; x61; x69; x6c; x20; x74; x61; x69; x6c; x20; x74; x61; x69; x6c; x20; x74; x61; x69; x6c; x20; x74; x61; x69; x6c; x20; x74; x61; x69; x6c; x20; x74; x61; x69; x6c; x20; x74; x61; x69; x6c].
Proof. vm_compute. reflexivity. Qed.

Example ex_model_regrow_12_bad_tail :
  unquote [xff; xff; xff; xff; xff; xff; xff; xff; xff; xff; xff; xff; x74; x61; x69; x6c; x20; x74; x61; x69; x6c; x20; x74; x61; x69; x6c; x20; x74; x61; x69; x6c; x20; x74; x61; x69; x6c; x20; x74; x61; x69; x6c; x20; x74; x61; x69; x6c; x20; x74; x61; x69; x6c] =
  [xef; xbf; xbd; xef; xbf; xbd; xef; xbf; xbd; xef; xbf; xbd; xef; xbf; xbd; xef; xbf; xbd; xef; xbf; xbd; xef; xbf; xbd; xef; xbf; xbd; xef; xbf; xbd; xef; xbf; xbd; xef; xbf; xbd; x74; x61; x69; x6c; x20; x74; x61; x69; x6c; x20; x74; x61; x69; x6c; x20; x74; x61; x69; x6c; x20; x74; x61; x69; x6c; x20; x74; x61; x69; x6c; x20; x74; x61; x69; x6c; x20; x74; x61; x69; x6c].
Proof. vm_compute. reflexivity. Qed.

Example ex_regrow_twice :
  unquote_full_gen [x22; xc0; xc0; xc0; xc0; xc0; xc0; xc0; xc0; xc0; xc0; xc0; xc0; xc0; xc0; xc0; xc0; xc0; xc0; xc0; xc0; xc0; xc0; xc0; xc0; xc0; xc0; xc0; xc0; xc0; xc0; xc0; xc0; xc0; xc0; xc0; xc0; xc0; xc0; xc0; xc0; x5c; x75; x64; x38; x33; x64; x5c; x75; x64; x65; x30; x30; x22] =
  UOk [xef; xbf; xbd; xef; xbf; xbd; xef; xbf; xbd; xef; xbf; xbd; xef; xbf; xbd; xef; xbf; xbd; xef; xbf; xbd; xef; xbf; xbd; xef; xbf; xbd; xef; xbf; xbd; xef; xbf; xbd; xef; xbf; xbd; xef; xbf; xbd; xef; xbf; xbd; xef; xbf; xbd; xef; xbf; xbd; xef; xbf; xbd; xef; xbf; xbd; xef; xbf; xbd; xef; xbf; xbd; xef; xbf; xbd; xef; xbf; xbd; xef; xbf; xbd; xef; xbf; xbd; xef; xbf; xbd; xef; xbf; xbd; xef; xbf; xbd; xef; xbf; xbd; xef; xbf; xbd; xef; xbf; xbd; xef; xbf; xbd; xef; xbf; xbd; xef; xbf; xbd; xef; xbf; xbd; xef; xbf; xbd; xef; xbf; xbd; xef; xbf; xbd; xef; xbf; xbd; xef; xbf; xbd; xef; xbf; xbd; xf0; x9f; x98; x80].
Proof. vm_compute. reflexivity. Qed.

Example ex_model_regrow_twice :
  unquote [xc0; xc0; xc0; xc0; xc0; xc0; xc0; xc0; xc0; xc0; xc0; xc0; xc0; xc0; xc0; xc0; xc0; xc0; xc0; xc0; xc0; xc0; xc0; xc0; xc0; xc0; xc0; xc0; xc0; xc0; xc0; xc0; xc0; xc0; xc0; xc0; xc0; xc0; xc0; xc0; x5c; x75; x64; x38; x33; x64; x5c; x75; x64; x65; x30; x30] =
  [xef; xbf; xbd; xef; xbf; xbd; xef; xbf; xbd; xef; xbf; xbd; xef; xbf; xbd; xef; xbf; xbd; xef; xbf; xbd; xef; xbf; xbd; xef; xbf; xbd; xef; xbf; xbd; xef; xbf; xbd; xef; xbf; xbd; xef; xbf; xbd; xef; xbf; xbd; xef; xbf; xbd; xef; xbf; xbd; xef; xbf; xbd; xef; xbf; xbd; xef; xbf; xbd; xef; xbf; xbd; xef; xbf; xbd; xef; xbf; xbd; xef; xbf; xbd; xef; xbf; xbd; xef; xbf; xbd; xef; xbf; xbd; xef; xbf; xbd; xef; xbf; xbd; xef; xbf; xbd; xef; xbf; xbd; xef; xbf; xbd; xef; xbf; xbd; xef; xbf; xbd; xef; xbf; xbd; xef; xbf; xbd; xef; xbf; xbd; xef; xbf; xbd; xef; xbf; xbd; xef; xbf; xbd; xef; xbf; xbd; xf0; x9f; x98; x80].
Proof. vm_compute. reflexivity. Qed.

Example ex_regrow_bad_then_escapes :
  unquote_full_gen [x22; x80; x80; x80; x80; x80; x80; x5c; x6e; x5c; x6e; x5c; x6e; x5c; x6e; x5c; x6e; x5c; x6e; x5c; x6e; x5c; x6e; x5c; x6e; x5c; x6e; x5c; x6e; x5c; x6e; x5c; x6e; x5c; x6e; x5c; x6e; x5c; x6e; x5c; x6e; x5c; x6e; x5c; x6e; x5c; x6e; x80; x80; x80; x22] =
  UOk [xef; xbf; xbd; xef; xbf; xbd; xef; xbf; xbd; xef; xbf; xbd; xef; xbf; xbd; xef; xbf; xbd; x0a; x0a; x0a; x0a; x0a; x0a; x0a; x0a; x0a; x0a; x0a; x0a; x0a; x0a; x0a; x0a; x0a; x0a; x0a; x0a; xef; xbf; xbd; xef; xbf; xbd; xef; xbf; xbd].
Proof. vm_compute. reflexivity. Qed.

Example ex_model_regrow_bad_then_escapes :
  unquote [x80; x80; x80; x80; x80; x80; x5c; x6e; x5c; x6e; x5c; x6e; x5c; x6e; x5c; x6e; x5c; x6e; x5c; x6e; x5c; x6e; x5c; x6e; x5c; x6e; x5c; x6e; x5c; x6e; x5c; x6e; x5c; x6e; x5c; x6e; x5c; x6e; x5c; x6e; x5c; x6e; x5c; x6e; x5c; x6e; x80; x80; x80] =
  [xef; xbf; xbd; xef; xbf; xbd; xef; xbf; xbd; xef; xbf; xbd; xef; xbf; xbd; xef; xbf; xbd; x0a; x0a; x0a; x0a; x0a; x0a; x0a; x0a; x0a; x0a; x0a; x0a; x0a; x0a; x0a; x0a; x0a; x0a; x0a; x0a; xef; xbf; xbd; xef; xbf; xbd; xef; xbf; xbd].
Proof. vm_compute. reflexivity. Qed.

Example ex_no_quotes :
  unquote_full_gen [x61; x62; x63] =
  UFalse.
Proof. vm_compute. reflexivity. Qed.

Example ex_one_quote :
  unquote_full_gen [x22] =
  UFalse.
Proof. vm_compute. reflexivity. Qed.

Example ex_nil :
  unquote_full_gen [] =
  UFalse.
Proof. vm_compute. reflexivity. Qed.

Example ex_no_closing_quote :
  unquote_full_gen [x22; x61; x62; x63] =
  UFalse.
Proof. vm_compute. reflexivity. Qed.

Example ex_no_opening_quote :
  unquote_full_gen [x61; x62; x63; x22] =
  UFalse.
Proof. vm_compute. reflexivity. Qed.

Print Assumptions unquote_full_gen_total.
Print Assumptions unquote_full_gen_no_panic.
Print Assumptions unquote_full_gen_is_unquote.
