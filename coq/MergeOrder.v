(* MergeOrder.v — the iteration order over the members of a merge patch does not matter.

   The Go implementation (merge.go, mergeDocs / MergeMergePatches / CreateMergePatch) iterates
   over Go maps, i.e. in an unspecified, run-to-run varying order.  The reference semantics of
   Rfc7396.v (merge_patch, mm, diff) folds over the members of the patch in LIST order.  This file
   proves that, as long as results are compared as VALUES (jeq: objects are finite maps, member
   order ignored), the order in which the members are visited is irrelevant:

     - merge_patch is a congruence for jeq in both arguments (merge_patch_jeq_congr);
     - permuting the members of the patch object (at the top level: merge_patch_perm, at every
       level of nesting: operm / merge_patch_operm) yields a jeq-equal result;
     - the same for mm (MergeMergePatches; mm_jeq_congr, mm_perm) and for diff (CreateMergePatch;
       diff_jeq_congr).

   This is what makes the model's fixed (patch-order) iteration a sound stand-in for Go's random
   map iteration order whenever outputs are compared up to jeq: any visiting order Go could choose
   is a permutation of the patch's members, and every permutation gives a jeq-equal value.
   All statements are under onodup (no duplicate member names anywhere), the standing domain of
   the merge properties.  No axioms. *)
From Coq Require Import Lia Permutation.
From JP Require Import Bytes Json DecodeFacts JsonFacts Rfc7396 MergeFacts.

Local Notation J := (fun x y : ojson => jeq x y = true).

(* ---- small facts about jeq ---- *)
Lemma mo_jeq_null_l b : jeq ONull b = true -> b = ONull.
Proof. destruct b; intro H; try discriminate H; reflexivity. Qed.

Lemma mo_jeq_null_r a : jeq a ONull = true -> a = ONull.
Proof. destruct a; intro H; try discriminate H; reflexivity. Qed.

Lemma mo_is_obj_jeq a b : jeq a b = true -> is_obj a = is_obj b.
Proof. destruct a, b; intro H; try discriminate H; reflexivity. Qed.

Lemma mo_jeq_nil_l ms : jeq (OObj []) (OObj ms) = true -> ms = [].
Proof.
  rewrite jeq_obj. intro H. apply andb_prop in H as [H _]. apply Nat.eqb_eq in H.
  destruct ms; [reflexivity | discriminate H].
Qed.

Lemma mo_jeq_nil_r ms : jeq (OObj ms) (OObj []) = true -> ms = [].
Proof.
  rewrite jeq_obj. intro H. apply andb_prop in H as [H _]. apply Nat.eqb_eq in H.
  destruct ms; [reflexivity | discriminate H].
Qed.

(* jeq-equal values have lookup-wise jeq-equal members (non-objects have no members) *)
Lemma mo_members_rel d d' :
  onodup d = true -> onodup d' = true -> jeq d d' = true ->
  forall k, lookup_rel J (aget k (members_of d)) (aget k (members_of d')).
Proof.
  intros Nd Nd' E.
  destruct d, d'; try discriminate E; try (intro k; exact I).
  apply onodup_obj in Nd as [N1 _]. apply onodup_obj in Nd' as [N1' _].
  simpl members_of. apply jeq_obj_char; auto.
Qed.

Lemma mo_or_null_rel (a b : option ojson) : lookup_rel J a b -> jeq (or_null a) (or_null b) = true.
Proof. destruct a, b; simpl; intro H; try contradiction; auto. Qed.

Lemma mo_forall_lookup (P : ojson -> Prop) k ms v :
  Forall (fun kv => P (snd kv)) ms -> aget k ms = Some v -> P v.
Proof. intros F E. apply aget_In in E. rewrite Forall_forall in F. apply (F _ E). Qed.

(* ---- 1. merge_patch is a congruence for jeq, in both arguments ---- *)
Theorem merge_patch_jeq_congr p : forall p' d d',
  onodup p = true -> onodup p' = true -> onodup d = true -> onodup d' = true ->
  jeq p p' = true -> jeq d d' = true ->
  jeq (merge_patch d p) (merge_patch d' p') = true.
Proof.
  induction p using ojson_rect'; intros p' d d' Np Np' Nd Nd' Ep Ed;
    try (destruct p'; try discriminate Ep;
         rewrite !merge_patch_nonobj by (intros; discriminate); exact Ep).
  destruct p' as [| | | | |ms']; try discriminate Ep.
  rewrite !merge_patch_obj.
  pose proof (mo_members_rel d d' Nd Nd' Ed) as Ld.
  apply onodup_members in Nd as [Nd1 Nd2]. apply onodup_members in Nd' as [Nd1' Nd2'].
  apply onodup_obj in Np as [Np1 Np2]. apply onodup_obj in Np' as [Np1' Np2'].
  rewrite jeq_obj_char in Ep by auto.
  apply jeq_obj_char; try (apply merge_members_nodup; auto). intro k.
  rewrite !merge_members_lookup by auto. specialize (Ep k). specialize (Ld k).
  assert (Ok : onodup (or_null (aget k (members_of d))) = true) by (apply (onodup_or_null None); auto).
  assert (Ok' : onodup (or_null (aget k (members_of d'))) = true) by (apply (onodup_or_null None); auto).
  destruct (aget k ms) as [v|] eqn:E1, (aget k ms') as [v'|] eqn:E2; simpl in Ep; try contradiction.
  - destruct (null_dec v) as [->|NN].
    + apply mo_jeq_null_l in Ep. subst v'. exact I.
    + assert (NN' : v' <> ONull) by (intro Q; subst v'; apply mo_jeq_null_r in Ep; auto).
      rewrite !merge_lookup_nonnull by auto. simpl.
      pose proof (mo_forall_lookup (fun x => forall p' d d' : ojson,
         onodup x = true -> onodup p' = true -> onodup d = true -> onodup d' = true ->
         jeq x p' = true -> jeq d d' = true ->
         jeq (merge_patch d x) (merge_patch d' p') = true) _ _ _ H E1) as IHv.
      apply IHv; auto.
      * apply (mo_forall_lookup (fun v => onodup v = true) _ _ _ Np2 E1).
      * apply (mo_forall_lookup (fun v => onodup v = true) _ _ _ Np2' E2).
      * apply mo_or_null_rel. exact Ld.
  - simpl. exact Ld.
Qed.

(* ---- permuting the members of an object gives a jeq-equal object ---- *)
Lemma mo_aget_perm {A} k (l l' : list (bytes * A)) :
  NoDup (map fst l) -> Permutation l l' -> aget k l = aget k l'.
Proof.
  intros N P.
  assert (N' : NoDup (map fst l')) by (eapply Permutation_NoDup; [apply Permutation_map; exact P | exact N]).
  destruct (aget k l) as [x|] eqn:E.
  - apply aget_In in E. symmetry. apply In_aget_nodup; auto. eapply Permutation_in; eauto.
  - destruct (aget k l') as [y|] eqn:E'; auto.
    apply aget_In in E'. apply Permutation_sym in P. pose proof (Permutation_in _ P E') as Hin.
    apply In_aget_nodup in Hin; auto. congruence.
Qed.

Lemma mo_onodup_perm ms ms' : Permutation ms ms' -> onodup (OObj ms) = true -> onodup (OObj ms') = true.
Proof.
  intros P N. apply onodup_obj in N as [N1 N2]. apply onodup_obj. split.
  - eapply Permutation_NoDup; [apply Permutation_map; exact P | exact N1].
  - eapply Permutation_Forall; eauto.
Qed.

Lemma jeq_perm ms ms' : Permutation ms ms' -> onodup (OObj ms) = true -> jeq (OObj ms) (OObj ms') = true.
Proof.
  intros P N. pose proof (mo_onodup_perm _ _ P N) as N'.
  apply onodup_obj in N as [N1 N2]. apply onodup_obj in N' as [N1' N2'].
  apply jeq_obj_char; auto. intro k. rewrite <- (mo_aget_perm k ms ms') by auto.
  destruct (aget k ms) as [v|] eqn:E; simpl; auto. apply jeq_refl.
  apply (mo_forall_lookup (fun v => onodup v = true) _ _ _ N2 E).
Qed.

(* the statement asked for: any visiting order of the patch's members gives the same value *)
Theorem merge_patch_perm d ms ms' :
  Permutation ms ms' -> NoDup (map fst ms) -> Forall (fun kv => onodup (snd kv) = true) ms ->
  onodup d = true ->
  jeq (merge_patch d (OObj ms)) (merge_patch d (OObj ms')) = true.
Proof.
  intros P N1 N2 Nd. assert (N : onodup (OObj ms) = true) by (apply onodup_obj; auto).
  apply merge_patch_jeq_congr; auto.
  - eapply mo_onodup_perm; eauto.
  - apply jeq_perm; auto.
  - apply jeq_refl; auto.
Qed.

(* ---- hereditary permutation: equal up to reordering the members of objects at every level ---- *)
Inductive operm : ojson -> ojson -> Prop :=
| operm_null : operm ONull ONull
| operm_bool b : operm (OBool b) (OBool b)
| operm_num l : operm (ONum l) (ONum l)
| operm_str s : operm (OStr s) (OStr s)
| operm_arr l l' : operm_list l l' -> operm (OArr l) (OArr l')
| operm_obj ms ms1 ms' : operm_members ms ms1 -> Permutation ms1 ms' -> operm (OObj ms) (OObj ms')
with operm_list : list ojson -> list ojson -> Prop :=
| operm_lnil : operm_list [] []
| operm_lcons x y l l' : operm x y -> operm_list l l' -> operm_list (x :: l) (y :: l')
with operm_members : list (bytes * ojson) -> list (bytes * ojson) -> Prop :=
| operm_mnil : operm_members [] []
| operm_mcons k x y l l' : operm x y -> operm_members l l' -> operm_members ((k, x) :: l) ((k, y) :: l').

Scheme operm_ind' := Minimality for operm Sort Prop
  with operm_list_ind' := Minimality for operm_list Sort Prop
  with operm_members_ind' := Minimality for operm_members Sort Prop.
Combined Scheme operm_mutind from operm_ind', operm_list_ind', operm_members_ind'.

Definition mo_vals_ok (ms : list (bytes * ojson)) : Prop := Forall (fun kv => onodup (snd kv) = true) ms.
Definition mo_mrel (a b : bytes * ojson) : Prop := fst a = fst b /\ jeq (snd a) (snd b) = true.

Lemma mo_mrel_keys ms ms' : Forall2 mo_mrel ms ms' -> map fst ms = map fst ms'.
Proof. induction 1 as [|a b l l' [E _] _ IH]; simpl; congruence. Qed.

Lemma mo_mrel_lookup ms ms' : Forall2 mo_mrel ms ms' ->
  forall k, lookup_rel J (aget k ms) (aget k ms').
Proof.
  induction 1 as [|[k1 x] [k2 y] l l' [E1 E2] _ IH]; intro k; simpl; auto.
  simpl in E1, E2. subst k2. destruct (bseq k k1); simpl; auto.
Qed.

Lemma operm_sound :
  (forall a b, operm a b -> onodup a = true -> onodup b = true /\ jeq a b = true) /\
  (forall l l', operm_list l l' -> Forall (fun x => onodup x = true) l ->
     Forall (fun x => onodup x = true) l' /\ Forall2 J l l') /\
  (forall ms ms', operm_members ms ms' -> mo_vals_ok ms -> mo_vals_ok ms' /\ Forall2 mo_mrel ms ms').
Proof.
  apply operm_mutind.
  - intros _. split; reflexivity.
  - intros b _. split; [reflexivity | destruct b; reflexivity].
  - intros l _. split; [reflexivity | simpl; apply bseq_refl].
  - intros s _. split; [reflexivity | simpl; apply bseq_refl].
  - intros l l' _ IH N. apply onodup_arr in N. destruct (IH N) as [N' F]. split.
    + apply onodup_arr. exact N'.
    + rewrite jeq_arr. apply jeq_list_spec. exact F.
  - intros ms ms1 ms' _ IH P N. apply onodup_obj in N as [N1 N2].
    destruct (IH N2) as [N2' F].
    assert (Nm1 : onodup (OObj ms1) = true).
    { apply onodup_obj. split; auto. rewrite <- (mo_mrel_keys _ _ F). exact N1. }
    pose proof (mo_onodup_perm _ _ P Nm1) as Nm'.
    split; auto.
    apply (jeq_trans _ (OObj ms1)); auto.
    + apply onodup_obj. auto.
    + apply onodup_obj in Nm1 as [Q1 Q2]. apply jeq_obj_char; auto. apply mo_mrel_lookup. exact F.
    + apply jeq_perm; auto.
  - intros _. split; constructor.
  - intros x y l l' _ IH1 _ IH2 N. inversion N; subst.
    destruct (IH1 H1) as [A1 A2]. destruct (IH2 H2) as [B1 B2]. split; constructor; auto.
  - intros _. split; constructor.
  - intros k x y l l' _ IH1 _ IH2 N. inversion N; subst. simpl in H1.
    destruct (IH1 H1) as [A1 A2]. destruct (IH2 H2) as [B1 B2]. split; constructor; auto.
    split; auto.
Qed.

Lemma operm_jeq a b : operm a b -> onodup a = true -> jeq a b = true.
Proof. intros P N. apply (proj1 operm_sound a b P N). Qed.

Lemma operm_onodup a b : operm a b -> onodup a = true -> onodup b = true.
Proof. intros P N. apply (proj1 operm_sound a b P N). Qed.

(* operm is reflexive, and contains every top-level permutation *)
Lemma operm_refl a : operm a a.
Proof.
  induction a using ojson_rect'; try constructor.
  - induction H; constructor; auto.
  - apply (operm_obj ms ms ms); [|apply Permutation_refl].
    induction H as [|[k x] l Hx _ IH]; constructor; auto.
Qed.

Lemma operm_of_perm ms ms' : Permutation ms ms' -> operm (OObj ms) (OObj ms').
Proof.
  intro P. apply (operm_obj ms ms ms'); auto.
  pose proof (operm_refl (OObj ms)) as R. clear P.
  induction ms as [|[k x] l IH]; constructor; [apply operm_refl | apply IH; apply operm_refl].
Qed.

(* Go may visit the members of the patch, and of every nested patch object, in any order; and the
   target document it reads may have its members in any order: the merged VALUE is the same *)
Theorem merge_patch_operm d d' p p' :
  operm d d' -> operm p p' -> onodup d = true -> onodup p = true ->
  jeq (merge_patch d p) (merge_patch d' p') = true.
Proof.
  intros Pd Pp Nd Np. apply merge_patch_jeq_congr; auto.
  - eapply operm_onodup; eauto.
  - eapply operm_onodup; eauto.
  - apply operm_jeq; auto.
  - apply operm_jeq; auto.
Qed.

(* ---- 2. mm (MergeMergePatches) is a congruence for jeq, in both arguments ---- *)
Theorem mm_jeq_congr p2 : forall p2' p1 p1',
  onodup p1 = true -> onodup p1' = true -> onodup p2 = true -> onodup p2' = true ->
  jeq p1 p1' = true -> jeq p2 p2' = true ->
  jeq (mm p1 p2) (mm p1' p2') = true.
Proof.
  induction p2 using ojson_rect'; intros p2' p1 p1' N1 N1' N2 N2' E1 E2;
    try (destruct p2'; try discriminate E2;
         rewrite !mm_nonobj2 by (intros; discriminate); exact E2).
  destruct p2' as [| | | | |ms']; try discriminate E2.
  destruct (is_obj p1) eqn:O1.
  2:{ assert (O1' : is_obj p1' = false) by (rewrite <- (mo_is_obj_jeq _ _ E1); exact O1).
      rewrite !mm_nonobj1 by (apply is_obj_false; auto). exact E2. }
  assert (O1' : is_obj p1' = true) by (rewrite <- (mo_is_obj_jeq _ _ E1); exact O1).
  apply is_obj_true in O1 as [ms1 ->]. apply is_obj_true in O1' as [ms1' ->].
  rewrite !mm_obj.
  apply onodup_obj in N1 as [N1a N1b]. apply onodup_obj in N1' as [N1a' N1b'].
  apply onodup_obj in N2 as [N2a N2b]. apply onodup_obj in N2' as [N2a' N2b'].
  rewrite jeq_obj_char in E1, E2 by auto.
  apply jeq_obj_char; try (apply mm_members_nodup; auto). intro k.
  rewrite !mm_members_lookup by auto. specialize (E1 k). specialize (E2 k).
  destruct (aget k ms) as [v|] eqn:G2, (aget k ms') as [v'|] eqn:G2'; simpl in E2; try contradiction.
  2:{ simpl. exact E1. }
  destruct (null_dec v) as [->|NN].
  { apply mo_jeq_null_l in E2. subst v'. reflexivity. }
  assert (NN' : v' <> ONull) by (intro Q; subst v'; apply mo_jeq_null_r in E2; auto).
  destruct (aget k ms1) as [c|] eqn:G1, (aget k ms1') as [c'|] eqn:G1'; simpl in E1; try contradiction.
  2:{ rewrite !mm_lookup_fresh by auto. exact E2. }
  destruct (null_dec c) as [->|NC].
  { apply mo_jeq_null_l in E1. subst c'. rewrite !mm_lookup_fresh by auto. exact E2. }
  assert (NC' : c' <> ONull) by (intro Q; subst c'; apply mo_jeq_null_r in E1; auto).
  rewrite !mm_lookup_both by auto. simpl.
  pose proof (mo_forall_lookup (fun x => forall p2' p1 p1' : ojson,
     onodup p1 = true -> onodup p1' = true -> onodup x = true -> onodup p2' = true ->
     jeq p1 p1' = true -> jeq x p2' = true -> jeq (mm p1 x) (mm p1' p2') = true) _ _ _ H G2) as IHv.
  apply IHv; auto.
  - apply (mo_forall_lookup (fun v => onodup v = true) _ _ _ N1b G1).
  - apply (mo_forall_lookup (fun v => onodup v = true) _ _ _ N1b' G1').
  - apply (mo_forall_lookup (fun v => onodup v = true) _ _ _ N2b G2).
  - apply (mo_forall_lookup (fun v => onodup v = true) _ _ _ N2b' G2').
Qed.

(* any visiting order of the members of the second patch (the map Go ranges over) *)
Theorem mm_perm p1 ms ms' :
  Permutation ms ms' -> NoDup (map fst ms) -> Forall (fun kv => onodup (snd kv) = true) ms ->
  onodup p1 = true ->
  jeq (mm p1 (OObj ms)) (mm p1 (OObj ms')) = true.
Proof.
  intros P N1 N2 Np. assert (N : onodup (OObj ms) = true) by (apply onodup_obj; auto).
  apply mm_jeq_congr; auto.
  - eapply mo_onodup_perm; eauto.
  - apply jeq_refl; auto.
  - apply jeq_perm; auto.
Qed.

Theorem mm_operm p1 p1' p2 p2' :
  operm p1 p1' -> operm p2 p2' -> onodup p1 = true -> onodup p2 = true ->
  jeq (mm p1 p2) (mm p1' p2') = true.
Proof.
  intros P1 P2 N1 N2. apply mm_jeq_congr; auto.
  - eapply operm_onodup; eauto.
  - eapply operm_onodup; eauto.
  - apply operm_jeq; auto.
  - apply operm_jeq; auto.
Qed.

(* ---- 3. diff (CreateMergePatch) is a congruence for jeq, in both arguments ---- *)
Lemma mo_jeq_transfer a a' b b' :
  onodup a = true -> onodup a' = true -> onodup b = true -> onodup b' = true ->
  jeq a a' = true -> jeq b b' = true -> jeq a b = jeq a' b'.
Proof.
  intros Na Na' Nb Nb' Ea Eb.
  destruct (jeq a b) eqn:E1, (jeq a' b') eqn:E2; auto.
  - rewrite <- E2. symmetry. apply (jeq_trans _ a); auto. { apply jeq_sym; auto. }
    apply (jeq_trans _ b); auto.
  - rewrite <- E1. apply (jeq_trans _ a'); auto. apply (jeq_trans _ b'); auto. apply jeq_sym; auto.
Qed.

Lemma mo_diff_nodup a b : onodup a = true -> onodup b = true -> is_obj a = true -> is_obj b = true ->
  exists ms, diff a b = OObj ms /\ NoDup (map fst ms).
Proof.
  intros Na Nb Oa Ob. apply is_obj_true in Oa as [ams ->]. apply is_obj_true in Ob as [bms ->].
  apply onodup_obj in Na as [Na _]. apply onodup_obj in Nb as [Nb _].
  rewrite diff_obj. eexists. split; [reflexivity|]. apply diff_patch_nodup; auto.
Qed.

Theorem diff_jeq_congr b : forall b' a a',
  onodup a = true -> onodup a' = true -> onodup b = true -> onodup b' = true ->
  jeq a a' = true -> jeq b b' = true ->
  jeq (diff a b) (diff a' b') = true.
Proof.
  induction b using ojson_rect'; intros b' a a' Na Na' Nb Nb' Ea Eb;
    try (destruct b'; try discriminate Eb;
         rewrite !diff_nonobj by (apply andb_false_r); exact Eb).
  destruct b' as [| | | | |bms']; try discriminate Eb. rename ms into bms.
  destruct (is_obj a) eqn:Oa.
  2:{ assert (Oa' : is_obj a' = false) by (rewrite <- (mo_is_obj_jeq _ _ Ea); exact Oa).
      rewrite !diff_nonobj by (rewrite ?Oa, ?Oa'; reflexivity). exact Eb. }
  assert (Oa' : is_obj a' = true) by (rewrite <- (mo_is_obj_jeq _ _ Ea); exact Oa).
  apply is_obj_true in Oa as [ams ->]. apply is_obj_true in Oa' as [ams' ->].
  rewrite !diff_obj.
  apply onodup_obj in Na as [Na1 Na2]. apply onodup_obj in Na' as [Na1' Na2'].
  apply onodup_obj in Nb as [Nb1 Nb2]. apply onodup_obj in Nb' as [Nb1' Nb2'].
  rewrite jeq_obj_char in Ea, Eb by auto.
  apply jeq_obj_char; try (apply diff_patch_nodup; auto). intro k.
  rewrite !diff_patch_lookup by auto. specialize (Ea k). specialize (Eb k).
  destruct (aget k bms) as [bv|] eqn:Gb, (aget k bms') as [bv'|] eqn:Gb'; simpl in Eb; try contradiction.
  2:{ destruct (aget k ams), (aget k ams'); simpl in Ea; try contradiction; reflexivity. }
  pose proof (mo_forall_lookup (fun v => onodup v = true) _ _ _ Nb2 Gb) as Qb.
  pose proof (mo_forall_lookup (fun v => onodup v = true) _ _ _ Nb2' Gb') as Qb'.
  destruct (aget k ams) as [av|] eqn:Ga, (aget k ams') as [av'|] eqn:Ga'; simpl in Ea; try contradiction.
  2:{ simpl. exact Eb. }
  pose proof (mo_forall_lookup (fun v => onodup v = true) _ _ _ Na2 Ga) as Qa.
  pose proof (mo_forall_lookup (fun v => onodup v = true) _ _ _ Na2' Ga') as Qa'.
  unfold diff_entry.
  rewrite <- (mo_is_obj_jeq _ _ Ea), <- (mo_is_obj_jeq _ _ Eb).
  destruct (is_obj av && is_obj bv) eqn:OO.
  - apply andb_prop in OO as [O1 O2].
    pose proof (mo_forall_lookup (fun x => forall b' a a' : ojson,
       onodup a = true -> onodup a' = true -> onodup x = true -> onodup b' = true ->
       jeq a a' = true -> jeq x b' = true -> jeq (diff a x) (diff a' b') = true) _ _ _ H Gb) as IHv.
    specialize (IHv bv' av av' Qa Qa' Qb Qb' Ea Eb).
    assert (O1' : is_obj av' = true) by (rewrite <- (mo_is_obj_jeq _ _ Ea); exact O1).
    assert (O2' : is_obj bv' = true) by (rewrite <- (mo_is_obj_jeq _ _ Eb); exact O2).
    destruct (mo_diff_nodup av bv Qa Qb O1 O2) as [dm [D1 D2]].
    destruct (mo_diff_nodup av' bv' Qa' Qb' O1' O2') as [dm' [D1' D2']].
    rewrite D1, D1' in *.
    destruct dm as [|e dm].
    + apply mo_jeq_nil_l in IHv. subst dm'. exact I.
    + destruct dm' as [|e' dm']; [apply mo_jeq_nil_r in IHv; discriminate IHv|]. exact IHv.
  - rewrite <- (mo_jeq_transfer av av' bv bv') by auto.
    destruct (jeq av bv); simpl; auto.
Qed.

Theorem diff_operm a a' b b' :
  operm a a' -> operm b b' -> onodup a = true -> onodup b = true ->
  jeq (diff a b) (diff a' b') = true.
Proof.
  intros P1 P2 N1 N2. apply diff_jeq_congr; auto.
  - eapply operm_onodup; eauto.
  - eapply operm_onodup; eauto.
  - apply operm_jeq; auto.
  - apply operm_jeq; auto.
Qed.

(* non-vacuity: two visiting orders of the same patch give differently ORDERED but jeq-equal
   results (so the statement is about jeq, not about syntactic equality) *)
Example merge_order_witness :
  let d := OObj [(B "a", ONum (B "1"))] in
  let p := OObj [(B "x", ONum (B "2")); (B "y", OObj [(B "u", OBool true); (B "w", ONull)])] in
  let p' := OObj [(B "y", OObj [(B "w", ONull); (B "u", OBool true)]); (B "x", ONum (B "2"))] in
  operm p p' /\
  oeqb (merge_patch d p) (merge_patch d p') = false /\
  jeq (merge_patch d p) (merge_patch d p') = true.
Proof.
  split; [|vm_compute; split; reflexivity].
  eapply operm_obj.
  - apply operm_mcons; [apply operm_num|]. apply operm_mcons; [|apply operm_mnil].
    eapply operm_obj; [|apply perm_swap].
    apply operm_mcons; [apply operm_bool|]. apply operm_mcons; [apply operm_null | apply operm_mnil].
  - apply perm_swap.
Qed.

Print Assumptions merge_patch_jeq_congr.
Print Assumptions merge_patch_perm.
Print Assumptions merge_patch_operm.
Print Assumptions mm_jeq_congr.
Print Assumptions mm_perm.
Print Assumptions mm_operm.
Print Assumptions diff_jeq_congr.
Print Assumptions diff_operm.
Print Assumptions merge_order_witness.
