(* Totality.v — C04 for the v5 patch engine: api_apply never yields RPanic, for EVERY options record,
   EVERY document byte string, EVERY indent and every operation list whose add/replace operations
   on the whole document carry a value member (op_ok; DecodePatch guarantees it, and it is exactly
   the condition under which the model panics: see op_not_ok_panics).

   The invariant is much weaker than Abs.nwf: it only says that every key of a member map is in the
   ordered key list of its partialDoc (kinv), hereditarily through the parsed part of the tree.
   It holds for every decoded text (duplicate names included), is preserved by every operation for
   arbitrary tokens, and excludes every Panic producer of ImplV5. *)
From Coq Require Import Lia.
From JP Require Import Bytes Json Text Strings Den Pointer ImplV5 DecodeFacts JsonFacts Abs ImplFacts ApplyFacts ApplySim.

(* ---- the invariant ---- *)
Definition kinv (keys : list bytes) (obj : list (bytes * node)) : Prop :=
  forall k, In k (map fst obj) -> In k keys.

Fixpoint ninv (n : node) : Prop :=
  match n with
  | NNil => True
  | NRaw _ => True
  | NDoc keys obj =>
      kinv keys obj /\
      (fix all (m : list (bytes * node)) : Prop :=
         match m with [] => True | kv :: r => ninv (snd kv) /\ all r end) obj
  | NAry ns =>
      (fix all (l : list node) : Prop := match l with [] => True | x :: r => ninv x /\ all r end) ns
  end.

Lemma ninv_doc keys obj : ninv (NDoc keys obj) <-> kinv keys obj /\ Forall (fun kv => ninv (snd kv)) obj.
Proof.
  cbn [ninv]. split; intros [H1 H2]; (split; [exact H1|]); clear H1.
  - induction obj as [|kv obj IH]; constructor; destruct H2; auto.
  - induction obj as [|kv obj IH]; [exact I|]. inversion H2 as [|? ? Ha Hb]; subst. split; [exact Ha | apply IH; exact Hb].
Qed.

Lemma ninv_ary ns : ninv (NAry ns) <-> Forall ninv ns.
Proof.
  cbn [ninv]. split; intro H.
  - induction ns as [|x ns IH]; constructor; destruct H; auto.
  - induction ns as [|x ns IH]; [exact I|]. inversion H as [|? ? Ha Hb]; subst. split; [exact Ha | apply IH; exact Hb].
Qed.

Arguments ninv : simpl never.
Lemma ninv_nil : ninv NNil. Proof. exact I. Qed.
Lemma ninv_raw t : ninv (NRaw t). Proof. exact I. Qed.
Lemma ninv_child t : ninv (child t). Proof. destruct t; exact I. Qed.

Definition con_self (c : con) : node :=
  match c with KDoc s _ _ => s | KDocNil s _ => s | KAry s _ => s end.

Definition cinv (c : con) : Prop := ninv (con_self c) /\ ninv (node_of_con c).

Definition rinv (r : root) : Prop := match r with RCon c => cinv c | RNull => True end.

(* ---- key bookkeeping ---- *)
Lemma kinv_aset_in keys obj k (v : node) : kinv keys obj -> In k keys -> kinv keys (aset k v obj).
Proof.
  intros K Hin x Hx. rewrite keys_aset in Hx. destruct (amem k obj); auto.
  apply in_app_or in Hx as [Hx|[Hx|[]]]; auto. subst; auto.
Qed.

Lemma kinv_doc_set keys obj k v : kinv keys obj -> kinv (fst (doc_set keys obj k v)) (snd (doc_set keys obj k v)).
Proof.
  intro K. unfold doc_set. cbn [fst snd]. destruct (kmem k keys) eqn:M.
  - apply kinv_aset_in; auto. now apply kmem_In.
  - apply kinv_aset_in.
    + intros x Hx. apply in_or_app. left. auto.
    + apply in_or_app. right. now left.
Qed.

Lemma In_kdel1_other k keys x : In x keys -> x <> k -> In x (kdel1 k keys).
Proof.
  induction keys as [|k' keys IH]; simpl; auto. intros [H|H] N.
  - subst k'. assert (E : bseq k x = false) by (apply bseq_neq; congruence). rewrite E. now left.
  - destruct (bseq k k'); auto. right. auto.
Qed.

Lemma kinv_del keys obj k : kinv keys obj -> kinv (kdel1 k keys) (adel k obj).
Proof.
  intros K x Hx. apply In_keys_adel in Hx as [H1 H2]. apply In_kdel1_other; auto.
Qed.

Lemma build_with_keys f ms : forall acc x,
  In x (map fst (build_with f ms acc)) -> In x (map fst acc) \/ In x (map (fun kv => unquote (fst kv)) ms).
Proof.
  induction ms as [|[k v] ms IH]; intros acc x H; simpl in *; auto.
  apply IH in H as [H|H]; auto. rewrite keys_aset in H. destruct (amem (unquote k) acc); auto.
  apply in_app_or in H as [H|[H|[]]]; auto.
Qed.

Lemma build_with_Forall (P : node -> Prop) f ms : forall acc,
  Forall (fun kv => P (snd kv)) acc -> Forall (fun kv => P (f (snd kv))) ms ->
  Forall (fun kv => P (snd kv)) (build_with f ms acc).
Proof.
  induction ms as [|[k v] ms IH]; intros acc Ha Hf; simpl; auto.
  inversion Hf as [|? ? Hv Hr]; subst. apply IH; auto. apply Forall_aset; auto.
Qed.

Lemma build_obj_with ms : forall acc, build_obj ms acc = build_with child ms acc.
Proof. induction ms as [|[k v] ms IH]; intro acc; simpl; auto. Qed.

Lemma ninv_doc_of ms : ninv (NDoc (fst (doc_of ms)) (snd (doc_of ms))).
Proof.
  unfold doc_of. cbn [fst snd]. rewrite build_obj_with. apply ninv_doc. split.
  - intros x Hx. apply build_with_keys in Hx as [[]|Hx]. exact Hx.
  - apply build_with_Forall; [constructor|]. apply Forall_forall. intros kv _. apply ninv_child.
Qed.

Lemma Forall_ninv_children l : Forall ninv (map child l).
Proof. rewrite Forall_map. apply Forall_forall. intros x _. apply ninv_child. Qed.

(* ---- into_con / con_get / con_put ---- *)
Lemma into_con_inv n ch : ninv n -> into_con n = Some ch -> cinv ch.
Proof.
  intros N H. destruct n as [|t|keys obj|ns]; simpl in H; try discriminate.
  - destruct t; try discriminate.
    + inversion H; subst. split; [exact I|]. apply ninv_ary. apply Forall_ninv_children.
    + inversion H; subst. split; [exact I| exact (ninv_doc_of ms)].
  - inversion H; subst. split; [exact I| exact N].
  - inversion H; subst. split; [exact I| exact N].
Qed.

Lemma Forall_nth_ninv ns i : Forall ninv ns -> ninv (nth i ns NNil).
Proof.
  intro F. revert i. induction F as [|x l Hx F IH]; intros [|i]; simpl; auto; exact I.
Qed.

Lemma resolve_idx_get_nopanic o len key : resolve_idx_get o len key <> Panic.
Proof.
  unfold resolve_idx_get. destruct (atoi key) as [idx|]; [|discriminate].
  destruct (idx <? 0)%Z.
  - destruct (negb (o_neg o)); [discriminate|]. destruct (idx <? - len)%Z; [discriminate|].
    destruct (len <=? idx + len)%Z; discriminate.
  - destruct (len <=? idx)%Z; discriminate.
Qed.

Lemma con_get_nopanic o c key : con_get o c key <> Panic.
Proof.
  destruct c as [s keys obj|s st|s ns]; simpl; destruct key as [|b key]; try discriminate.
  - destruct (aget (b :: key) obj); discriminate.
  - pose proof (resolve_idx_get_nopanic o (zlen ns) (b :: key)) as R.
    destruct (resolve_idx_get o (zlen ns) (b :: key)); try discriminate. congruence.
Qed.

Lemma con_get_inv o c key n : cinv c -> con_get o c key = Ok n -> ninv n.
Proof.
  intros [Cs Cn] H. destruct c as [s keys obj|s st|s ns]; simpl in *.
  - destruct key as [|b key]; [inversion H; subst; exact Cs|].
    destruct (aget (b :: key) obj) as [v|] eqn:E; inversion H; subst.
    apply ninv_doc in Cn as [_ F]. apply aget_In in E. rewrite Forall_forall in F. apply (F _ E).
  - destruct key; inversion H; subst; exact Cs.
  - destruct key as [|b key]; [inversion H; subst; exact Cs|].
    destruct (resolve_idx_get o (zlen ns) (b :: key)); inversion H; subst.
    apply Forall_nth_ninv. now apply ninv_ary.
Qed.

Lemma In_firstn' {A} (x : A) i : forall l, In x (firstn i l) -> In x l.
Proof. induction i as [|i IH]; intros [|y l]; simpl; auto; try tauto. intros [H|H]; auto. Qed.

Lemma In_skipn' {A} (x : A) i : forall l, In x (skipn i l) -> In x l.
Proof. induction i as [|i IH]; intros [|y l]; simpl; auto. Qed.

Lemma Forall_set_at (P : node -> Prop) i v ns : Forall P ns -> P v -> Forall P (firstn i ns ++ v :: skipn (S i) ns).
Proof.
  intros F Hv. apply Forall_app. split.
  - apply Forall_forall. intros x Hx. rewrite Forall_forall in F. apply F. eapply In_firstn'; eauto.
  - constructor; auto. apply Forall_forall. intros x Hx. rewrite Forall_forall in F. apply F. eapply In_skipn'; eauto.
Qed.

Lemma Forall_ins_at (P : node -> Prop) i v ns : Forall P ns -> P v -> Forall P (firstn i ns ++ v :: skipn i ns).
Proof.
  intros F Hv. apply Forall_app. split.
  - apply Forall_forall. intros x Hx. rewrite Forall_forall in F. apply F. eapply In_firstn'; eauto.
  - constructor; auto. apply Forall_forall. intros x Hx. rewrite Forall_forall in F. apply F. eapply In_skipn'; eauto.
Qed.

Lemma Forall_del_at (P : node -> Prop) i ns : Forall P ns -> Forall P (firstn i ns ++ skipn (S i) ns).
Proof.
  intros F. apply Forall_app. split.
  - apply Forall_forall. intros x Hx. rewrite Forall_forall in F. apply F. eapply In_firstn'; eauto.
  - apply Forall_forall. intros x Hx. rewrite Forall_forall in F. apply F. eapply In_skipn'; eauto.
Qed.

(* con_put is only ever called with a key at which con_get has just succeeded *)
Lemma con_put_inv o c key ch x : cinv c -> ninv ch -> con_get o c key = Ok x -> cinv (con_put o c key ch).
Proof.
  intros [Cs Cn] Hch G. destruct c as [s keys obj|s st|s ns]; simpl in *.
  - destruct key as [|b key]; [split; auto|]. split; [exact Cs|]. cbn [node_of_con].
    destruct (aget (b :: key) obj) as [v|] eqn:E; [|discriminate].
    apply ninv_doc in Cn as [K F]. apply ninv_doc. split.
    + apply kinv_aset_in; auto. apply K. eapply aget_In_fst; eauto.
    + apply Forall_aset; auto.
  - destruct key; split; auto.
  - destruct key as [|b key]; [split; auto|].
    destruct (resolve_idx_get o (zlen ns) (b :: key)) as [i| |]; try (split; assumption).
    split; [exact Cs|]. cbn [node_of_con]. apply ninv_ary. apply ninv_ary in Cn. now apply Forall_set_at.
Qed.

(* ---- add / set / remove on a container ---- *)
Lemma ary_add_Forall (P : node -> Prop) o ns key v ns' :
  Forall P ns -> P v -> ary_add o ns key v = Ok ns' -> Forall P ns'.
Proof.
  intros F Hv. unfold ary_add. destruct (bseq key [x2d]).
  { intro H; inversion H; subst. apply Forall_app. split; auto. }
  destruct (atoi key) as [idx|]; [|discriminate].
  destruct (zlen ns + 1 <=? idx)%Z; [discriminate|].
  destruct (idx <? 0)%Z.
  - destruct (negb (o_neg o)); [discriminate|]. destruct (idx <? - (zlen ns + 1))%Z; [discriminate|].
    destruct (zlen ns <? idx + (zlen ns + 1))%Z; [discriminate|].
    intro H; inversion H; subst. now apply Forall_ins_at.
  - intro H; inversion H; subst. now apply Forall_ins_at.
Qed.

Lemma ary_set_Forall (P : node -> Prop) o ns key v ns' :
  Forall P ns -> P v -> ary_set o ns key v = Ok ns' -> Forall P ns'.
Proof.
  intros F Hv. unfold ary_set. destruct (atoi key) as [idx|]; [|discriminate].
  destruct (idx <? 0)%Z.
  - destruct (negb (o_neg o)); [discriminate|]. destruct (idx <? - zlen ns)%Z; [discriminate|].
    destruct (zlen ns <=? idx + zlen ns)%Z; [discriminate|].
    intro H; inversion H; subst. now apply Forall_set_at.
  - destruct (zlen ns <=? idx)%Z; [discriminate|]. intro H; inversion H; subst. now apply Forall_set_at.
Qed.

Lemma ary_remove_Forall (P : node -> Prop) o ns key ns' :
  Forall P ns -> ary_remove o ns key = Ok ns' -> Forall P ns'.
Proof.
  intros F. unfold ary_remove. destruct (atoi key) as [idx|]; [|discriminate].
  destruct (zlen ns <=? idx)%Z.
  { destruct (o_allow o); [|discriminate]. intro H; inversion H; subst; auto. }
  destruct (idx <? 0)%Z.
  - destruct (negb (o_neg o)); [discriminate|]. destruct (idx <? - zlen ns)%Z.
    + destruct (o_allow o); [|discriminate]. intro H; inversion H; subst; auto.
    + intro H; inversion H; subst. now apply Forall_del_at.
  - intro H; inversion H; subst. now apply Forall_del_at.
Qed.

Lemma ary_remove_nopanic o ns key : ary_remove o ns key <> Panic.
Proof.
  unfold ary_remove. destruct (atoi key) as [idx|]; [|discriminate].
  destruct (zlen ns <=? idx)%Z; [destruct (o_allow o); discriminate|].
  destruct (idx <? 0)%Z; [|discriminate].
  destruct (negb (o_neg o)); [discriminate|]. destruct (idx <? - zlen ns)%Z; [destruct (o_allow o)|]; discriminate.
Qed.

Lemma con_add_nopanic o c key v : con_add o c key v <> Panic.
Proof.
  destruct c as [s keys obj|s st|s ns]; simpl; try discriminate.
  pose proof (ary_add_never_panics o ns key v) as R. destruct (ary_add o ns key v); try discriminate. congruence.
Qed.

Lemma doc_set_inv keys obj key v :
  ninv (NDoc keys obj) -> ninv v -> ninv (NDoc (fst (doc_set keys obj key v)) (snd (doc_set keys obj key v))).
Proof.
  intros N Hv. apply ninv_doc in N as [K F]. apply ninv_doc. split.
  - now apply kinv_doc_set.
  - unfold doc_set. cbn [snd]. apply Forall_aset; auto.
Qed.

Lemma con_add_inv o c key v c' : cinv c -> ninv v -> con_add o c key v = Ok c' -> cinv c'.
Proof.
  intros [Cs Cn] Hv H. destruct c as [s keys obj|s st|s ns]; simpl in *; try discriminate.
  - inversion H; subst. split; [exact Cs | exact (doc_set_inv keys obj key v Cn Hv)].
  - destruct (ary_add o ns key v) as [ns'| |] eqn:E; inversion H; subst. split; [exact Cs|].
    cbn [node_of_con]. apply ninv_ary. apply ninv_ary in Cn. eapply ary_add_Forall; eauto.
Qed.

Lemma con_set_inv o c key v c' : cinv c -> ninv v -> con_set o c key v = Ok c' -> cinv c'.
Proof.
  intros [Cs Cn] Hv H. destruct c as [s keys obj|s st|s ns]; simpl in *; try discriminate.
  - inversion H; subst. split; [exact Cs | exact (doc_set_inv keys obj key v Cn Hv)].
  - destruct (ary_set o ns key v) as [ns'| |] eqn:E; inversion H; subst. split; [exact Cs|].
    cbn [node_of_con]. apply ninv_ary. apply ninv_ary in Cn. eapply ary_set_Forall; eauto.
Qed.

Lemma atoi_nil : atoi [] = None. Proof. reflexivity. Qed.

(* partialArray.set is unchecked: it cannot panic after the get that replace performs first *)
Lemma con_set_after_get_nopanic o c key v x : con_get o c key = Ok x -> con_set o c key v <> Panic.
Proof.
  intro G. destruct c as [s keys obj|s st|s ns]; simpl in *.
  - destruct (doc_set keys obj key v); discriminate.
  - discriminate.
  - destruct key as [|b key].
    + unfold ary_set. rewrite atoi_nil. discriminate.
    + destruct (resolve_idx_get o (zlen ns) (b :: key)) as [i| |] eqn:R; try discriminate.
      rewrite (ary_set_after_get o ns (b :: key) v i R). discriminate.
Qed.

(* partialDoc.remove slices keys at the index of the key: the invariant puts every key of the map
   in the key list *)
Lemma con_remove_nopanic o c key : cinv c -> con_remove o c key <> Panic.
Proof.
  intros [Cs Cn]. destruct c as [s keys obj|s st|s ns]; simpl in *; try discriminate.
  - destruct (amem key obj) eqn:M.
    + apply ninv_doc in Cn as [K _]. apply amem_In in M. apply K in M. apply kmem_In in M. rewrite M. discriminate.
    + destruct (o_allow o); discriminate.
  - pose proof (ary_remove_nopanic o ns key) as R. destruct (ary_remove o ns key); try discriminate. congruence.
Qed.

Lemma con_remove_inv o c key c' : cinv c -> con_remove o c key = Ok c' -> cinv c'.
Proof.
  intros [Cs Cn] H. destruct c as [s keys obj|s st|s ns]; simpl in *; try discriminate.
  - destruct (amem key obj).
    + destruct (kmem key keys); inversion H; subst. split; [exact Cs|]. cbn [node_of_con].
      apply ninv_doc in Cn as [K F]. apply ninv_doc. split; [now apply kinv_del | now apply Forall_adel].
    + destruct (o_allow o); inversion H; subst. split; auto.
  - destruct (ary_remove o ns key) as [ns'| |] eqn:E; inversion H; subst. split; [exact Cs|].
    cbn [node_of_con]. apply ninv_ary. apply ninv_ary in Cn. eapply ary_remove_Forall; eauto.
Qed.

Lemma cinv_node c : cinv c -> ninv (node_of_con c).
Proof. intros [_ H]; exact H. Qed.

(* ---- walk / find: any leaf action that keeps the invariant, for arbitrary tokens ---- *)
Lemma walk_inv {A} (Q : A -> Prop) o parts : forall c (f : con -> A * con),
  (forall c0, cinv c0 -> Q (fst (f c0)) /\ cinv (snd (f c0))) ->
  cinv c ->
  cinv (snd (walk o parts c f)) /\ (forall a, fst (walk o parts c f) = Some a -> Q a).
Proof.
  induction parts as [|p rest IH]; intros c f Hf C; cbn [walk].
  - destruct (Hf c C) as [H1 H2]. destruct (f c) as [a c']. cbn [fst snd] in *. split; auto.
    intros a0 E. inversion E; subst; auto.
  - destruct (con_get o c (decode_token p)) as [next| |] eqn:G; try (cbn [fst snd]; split; [exact C | discriminate]).
    destruct (into_con next) as [ch|] eqn:IC; [|cbn [fst snd]; split; [exact C | discriminate]].
    assert (Cch : cinv ch) by (eapply into_con_inv; eauto; eapply con_get_inv; eauto).
    destruct (IH ch f Hf Cch) as [H1 H2]. destruct (walk o rest ch f) as [r ch']. cbn [fst snd] in *. split; auto.
    eapply con_put_inv; eauto. now apply cinv_node.
Qed.

Lemma find_inv {A} (Q : A -> Prop) o c path (f : con -> bytes -> A * con) :
  (forall c0 key, cinv c0 -> Q (fst (f c0 key)) /\ cinv (snd (f c0 key))) ->
  cinv c ->
  cinv (snd (find o c path f)) /\ (forall a, fst (find o c path f) = FoundAt a -> Q a).
Proof.
  intros Hf C. unfold find. destruct (split_path path) as [[parts key]|].
  - destruct (walk_inv Q o parts c (fun c' => f c' key) (fun c0 => Hf c0 key) C) as [H1 H2].
    destruct (walk o parts c (fun c' => f c' key)) as [[a|] c']; cbn [fst snd] in *.
    + split; auto. intros a0 E. inversion E; subst. auto.
    + split; auto. discriminate.
  - destruct path.
    + destruct (Hf c [] C) as [H1 H2]. destruct (f c []) as [a c']. cbn [fst snd] in *. split; auto.
      intros a0 E; inversion E; subst; auto.
    + cbn [fst snd]. split; auto. discriminate.
Qed.

(* ---- ensurePathExists ---- *)
Lemma pad_nulls_inv o : forall count c from, cinv c -> cinv (pad_nulls o c from count).
Proof.
  induction count as [|k IH]; intros c from C; simpl; auto.
  destruct (con_add o c (itoa (N.of_nat from)) (NRaw TNull)) as [c'| |] eqn:E; apply IH; auto.
  eapply con_add_inv; eauto. exact I.
Qed.

Lemma ignore_err_add_inv o c key v : cinv c -> ninv v -> cinv (ignore_err c (con_add o c key v)).
Proof.
  intros C Hv. destruct (con_add o c key v) as [c'| |] eqn:E; simpl; auto. eapply con_add_inv; eauto.
Qed.

Lemma cinv_empty_doc : cinv (KDoc NNil [] []).
Proof. split; [exact I|]. apply ninv_doc. split; [intros k []|constructor]. Qed.

Lemma cinv_empty_ary : cinv (KAry NNil []).
Proof. split; [exact I|]. apply ninv_ary. constructor. Qed.

Lemma ensure_inv o parts : forall c, cinv c -> cinv (snd (ensure o parts c)).
Proof.
  induction parts as [|part parts IH]; intros c C; [exact C|].
  destruct parts as [|nextp rest]; [exact C|].
  rewrite ensure_unfold. cbv zeta.
  set (key := decode_token part).
  assert (C1 : cinv (match atoi part, c with
                     | Some idx, KAry _ ns =>
                         if (zlen ns + 1 <=? idx)%Z then pad_nulls o c (length ns) (Z.to_nat (idx - zlen ns)) else c
                     | _, _ => c
                     end)).
  { destruct (atoi part); auto. destruct c; auto. destruct (zlen nodes + 1 <=? z)%Z; auto. now apply pad_nulls_inv. }
  set (c1 := match atoi part, c with
             | Some idx, KAry _ ns =>
                 if (zlen ns + 1 <=? idx)%Z then pad_nulls o c (length ns) (Z.to_nat (idx - zlen ns)) else c
             | _, _ => c
             end) in *.
  assert (NoneCase :
    cinv (snd (match atoi nextp, bseq nextp [x2d] with
      | None, false =>
          let (e, ch') := ensure o (nextp :: rest) (KDoc NNil [] []) in
          (e, ignore_err c1 (con_add o c1 key (node_of_con ch')))
      | _, _ =>
          if ((match atoi nextp with Some i => i | None => 0%Z end) <? 0)%Z && negb (o_neg o) then (Some EInvalidIndex, c1)
          else if ((match atoi nextp with Some i => i | None => 0%Z end) <? -1)%Z then (Some EInvalidIndex, c1)
          else
            let (e, ch') := ensure o (nextp :: rest)
                              (pad_nulls o (KAry NNil []) 0
                                 (Z.to_nat (if ((match atoi nextp with Some i => i | None => 0%Z end) <? 0)%Z then 0%Z
                                            else (match atoi nextp with Some i => i | None => 0%Z end)))) in
            (e, ignore_err c1 (con_add o c1 key (node_of_con ch')))
      end))).
  { assert (Arr : forall ai,
       cinv (snd (if (ai <? 0)%Z && negb (o_neg o) then (Some EInvalidIndex, c1)
                  else if (ai <? -1)%Z then (Some EInvalidIndex, c1)
                  else let (e, ch') := ensure o (nextp :: rest)
                                         (pad_nulls o (KAry NNil []) 0 (Z.to_nat (if (ai <? 0)%Z then 0%Z else ai))) in
                       (e, ignore_err c1 (con_add o c1 key (node_of_con ch')))))).
    { intro ai. destruct ((ai <? 0)%Z && negb (o_neg o)); [exact C1|]. destruct (ai <? -1)%Z; [exact C1|].
      pose proof (IH _ (pad_nulls_inv o (Z.to_nat (if (ai <? 0)%Z then 0%Z else ai)) _ 0%nat cinv_empty_ary)) as E.
      destruct (ensure o (nextp :: rest) _) as [e ch']. cbn [snd] in *.
      apply ignore_err_add_inv; auto. now apply cinv_node. }
    destruct (atoi nextp) as [i|]; [apply Arr|]. destruct (bseq nextp [x2d]); [apply Arr|].
    pose proof (IH _ cinv_empty_doc) as E. destruct (ensure o (nextp :: rest) (KDoc NNil [] [])) as [e ch']. cbn [snd] in *.
    apply ignore_err_add_inv; auto. now apply cinv_node. }
  destruct (con_get o c key) as [n| |] eqn:G; try exact NoneCase.
  assert (Hn : ninv n) by exact (con_get_inv o c key n C G).
  assert (Put : forall ch, into_con n = Some ch ->
                  cinv (snd (let (e, ch') := ensure o (nextp :: rest) ch in (e, con_put o c key (node_of_con ch'))))).
  { intros ch IC. pose proof (IH ch (into_con_inv n ch Hn IC)) as E.
    destruct (ensure o (nextp :: rest) ch) as [e ch']. cbn [snd] in *.
    apply (con_put_inv o c key _ n C); auto. now apply cinv_node. }
  destruct n as [|t|keys obj|ns]; try exact NoneCase.
  - destruct t; try (destruct (into_con _) as [[| |]|] eqn:IC; try exact C; apply Put; reflexivity).
  - destruct (into_con _) as [[| |]|] eqn:IC; try exact C; apply Put; reflexivity.
  - destruct (into_con _) as [ch|] eqn:IC; try exact C; apply Put; reflexivity.
Qed.

Lemma ensure_path_inv o c path : cinv c -> cinv (snd (ensure_path o c path)).
Proof.
  intro C. unfold ensure_path. destruct (split_slash path) as [|x [|p ps]]; auto. now apply ensure_inv.
Qed.

(* ---- what a passing test leaves behind ---- *)
Lemma ninv_deep_t t : ninv (deep_t t).
Proof.
  induction t as [| | |l|s|l IH|ms IH] using tjson_rect'; try exact I.
  - cbn [deep_t]. apply ninv_ary. rewrite Forall_map. exact IH.
  - rewrite deep_t_obj. apply ninv_doc. split.
    + intros x Hx. apply build_with_keys in Hx as [[]|Hx]. exact Hx.
    + apply build_with_Forall; [constructor | exact IH].
Qed.

Lemma ninv_deep n : ninv n -> ninv (deep n).
Proof.
  induction n as [|t|keys obj IH|ns IH] using node_rect'; intro N.
  - exact I.
  - destruct t; try exact I; apply ninv_deep_t.
  - cbn [deep]. apply ninv_doc in N as [K F]. apply ninv_doc. split.
    + intros x Hx. rewrite map_map in Hx. cbn [fst] in Hx. auto.
    + rewrite Forall_map. cbn [snd]. rewrite Forall_forall in *. intros kv Hin. apply IH; auto.
  - cbn [deep]. apply ninv_ary in N. apply ninv_ary. rewrite Forall_map. rewrite Forall_forall in *.
    intros x Hin. apply IH; auto.
Qed.

Lemma ninv_deep_copy o v : ninv (fst (deep_copy o v)).
Proof. destruct v; exact I. Qed.

(* ---- values carried by operations ---- *)
Lemma op_value_shape op : op_value op = None \/ exists t, op_value op = Some (NRaw t).
Proof. unfold op_value. destruct (aget (B "value") op) as [[t|]|]; eauto. Qed.

Lemma op_value_inv op : ninv (match op_value op with Some v => v | None => NNil end).
Proof. destruct (op_value_shape op) as [E|[t E]]; rewrite E; exact I. Qed.

Lemma op_value_amem op : amem (B "value") op = true -> exists t, op_value op = Some (NRaw t).
Proof. unfold amem, op_value. destruct (aget (B "value") op) as [[t|]|]; eauto. discriminate. Qed.

Lemma op_str_nopanic op name : op_str op name <> Panic.
Proof. unfold op_str. destruct (aget name op) as [[[]|]|]; discriminate. Qed.

(* the one requirement on an operation: add / replace aimed at the whole document carry a value
   (validateOperation checks it for every add and replace) *)
Definition op_ok (op : operation) : bool :=
  match op_kind op with
  | KAdd | KReplace =>
      match op_str op (B "path") with
      | Ok [] => amem (B "value") op
      | _ => true
      end
  | _ => true
  end.

Lemma validate_op_ok op : validate_operation op = true -> op_ok op = true.
Proof.
  unfold validate_operation, op_ok. destruct (op_kind op); auto;
    destruct (amem (B "value") op); simpl; try discriminate; destruct (op_str op (B "path")) as [[|]| |]; auto.
Qed.

Lemma root_of_value_inv o t r : root_of_value o t = Ok r -> rinv r.
Proof.
  destruct t; simpl; intro H; inversion H; subst; simpl.
  - split; exact I.
  - split; [exact I|]. apply ninv_ary. apply Forall_ninv_children.
  - split; [exact I|]. exact (ninv_doc_of ms).
Qed.

Lemma root_of_value_nopanic o t : root_of_value o t <> Panic.
Proof. destruct t; simpl; discriminate. Qed.

(* ---- the leaf actions ---- *)
Definition add_leaf (o : opts) (v : node) : con -> bytes -> res con * con :=
  fun c' key => (con_add o c' key v, match con_add o c' key v with Ok c'' => c'' | _ => c' end).

Lemma find_add_inv o c path v : cinv c -> ninv v ->
  cinv (snd (find o c path (add_leaf o v))) /\ fst (find o c path (add_leaf o v)) <> FoundAt Panic.
Proof.
  intros C Hv.
  destruct (find_inv (fun r : res con => r <> Panic) o c path (add_leaf o v)) as [H1 H2]; auto.
  - intros c0 key C0. unfold add_leaf. cbn [fst snd]. split; [apply con_add_nopanic|].
    destruct (con_add o c0 key v) as [c''| |] eqn:E; auto. eapply con_add_inv; eauto.
  - split; auto. intro E. apply (H2 Panic E). reflexivity.
Qed.

Definition stinv (st : state) : Prop := rinv (s_root st).

Definition step_safe (r : res state) : Prop := r <> Panic /\ (forall st', r = Ok st' -> stinv st').

Lemma safe_err e : step_safe (Err e).
Proof. split; discriminate. Qed.

Lemma safe_ok st : stinv st -> step_safe (Ok st).
Proof. intro H. split; [discriminate|]. intros st' E. inversion E; subst; auto. Qed.

Lemma op_add_safe o st op : stinv st -> op_ok op = true -> op_kind op = KAdd -> step_safe (op_add o st op).
Proof.
  intros S OK K. unfold op_ok in OK. rewrite K in OK. unfold op_add.
  destruct (op_str op (B "path")) as [path| |]; try apply safe_err.
  destruct path as [|b path].
  - apply op_value_amem in OK as [t E]. rewrite E.
    pose proof (root_of_value_nopanic o t) as NP. pose proof (root_of_value_inv o t) as RI.
    destruct (root_of_value o t) as [r| |]; [|apply safe_err|congruence].
    apply safe_ok. apply RI. reflexivity.
  - unfold stinv in S. destruct (s_root st) as [c|]; [|apply safe_err]. simpl in S.
    assert (C1 : cinv (snd (if o_ensure o then ensure_path o c (b :: path) else (None, c)))).
    { destruct (o_ensure o); [now apply ensure_path_inv | exact S]. }
    destruct (if o_ensure o then ensure_path o c (b :: path) else (None, c)) as [e c1]. cbn [snd] in C1.
    destruct e; [apply safe_err|].
    destruct (find_add_inv o c1 (b :: path) _ C1 (op_value_inv op)) as [H1 H2].
    unfold add_leaf in *.
    destruct (find o c1 (b :: path) _) as [[| |[c''|e|]] c2]; cbn [fst snd] in *;
      try apply safe_err; [apply safe_ok; exact H1 | congruence].
Qed.

Lemma op_remove_safe o st op : stinv st -> step_safe (op_remove o st op).
Proof.
  intros S. unfold op_remove.
  destruct (op_str op (B "path")) as [path| |]; try apply safe_err.
  unfold stinv in S. destruct (s_root st) as [c|] eqn:R.
  2:{ destruct (o_allow o); [|apply safe_err]. apply safe_ok. unfold stinv. now rewrite R. }
  simpl in S.
  destruct (find_inv (fun r : res con => r <> Panic) o c path
              (fun c' key => (con_remove o c' key, match con_remove o c' key with Ok c'' => c'' | _ => c' end))) as [H1 H2]; auto.
  { intros c0 key C0. cbn [fst snd]. split; [now apply con_remove_nopanic|].
    destruct (con_remove o c0 key) as [c''| |] eqn:E; auto. eapply con_remove_inv; eauto. }
  destruct (find o c path _) as [[| |[c''|e|]] c2]; cbn [fst snd] in *;
    try apply safe_err; try (apply safe_ok; exact H1); try (destruct (o_allow o); [apply safe_ok; exact H1 | apply safe_err]).
  exfalso. apply (H2 Panic); reflexivity.
Qed.

Lemma op_replace_safe o st op : stinv st -> op_ok op = true -> op_kind op = KReplace -> step_safe (op_replace o st op).
Proof.
  intros S OK K. unfold op_ok in OK. rewrite K in OK. unfold op_replace.
  pose proof (op_str_nopanic op (B "path")) as NPp.
  destruct (op_str op (B "path")) as [path| |]; try apply safe_err; [|congruence].
  destruct path as [|b path].
  - apply op_value_amem in OK as [t E]. rewrite E. destruct t; try apply safe_err.
    + apply safe_ok. exact I.
    + apply safe_ok. split; [exact I|]. apply ninv_ary. apply Forall_ninv_children.
    + pose proof (ninv_doc_of ms) as D. destruct (doc_of ms) as [k ob]. apply safe_ok. split; [exact I | exact D].
  - unfold stinv in S. destruct (s_root st) as [c|]; [|apply safe_err]. simpl in S.
    set (v := match op_value op with Some v => v | None => NNil end).
    assert (Hv : ninv v) by apply op_value_inv.
    destruct (find_inv (fun r : res con => r <> Panic) o c (b :: path)
                (fun c' key => match con_get o c' key with
                               | Ok _ => (con_set o c' key v, match con_set o c' key v with Ok c'' => c'' | _ => c' end)
                               | Err _ => (Err EMissing, c')
                               | Panic => (Panic, c')
                               end)) as [H1 H2]; auto.
    { intros c0 key C0. pose proof (con_get_nopanic o c0 key) as NP.
      destruct (con_get o c0 key) as [x|e|] eqn:G; cbn [fst snd]; [|split; [discriminate | exact C0] | congruence].
      split; [eapply con_set_after_get_nopanic; eauto|].
      destruct (con_set o c0 key v) as [c''| |] eqn:E; auto. eapply con_set_inv; eauto. }
    destruct (find o c (b :: path) _) as [[| |[c''|e|]] c2]; cbn [fst snd] in *;
      try apply safe_err; [apply safe_ok; exact H1|].
    exfalso. apply (H2 Panic); reflexivity.
Qed.

Lemma op_move_safe o st op : stinv st -> step_safe (op_move o st op).
Proof.
  intros S. unfold op_move.
  pose proof (op_str_nopanic op (B "from")) as NPf. pose proof (op_str_nopanic op (B "path")) as NPp.
  destruct (op_str op (B "from")) as [from| |]; [|apply safe_err|congruence].
  destruct from as [|b from]; [apply safe_err|].
  unfold stinv in S. destruct (s_root st) as [c|]; [|apply safe_err]. simpl in S.
  destruct (find_inv (fun r : res node => r <> Panic /\ forall v, r = Ok v -> ninv v) o c (b :: from)
              (fun c' key =>
                 match con_get o c' key with
                 | Ok v => match con_remove o c' key with
                           | Ok c'' => (Ok v, c'')
                           | Err e => (Err e, c')
                           | Panic => (Panic, c')
                           end
                 | Err e => (Err e, c')
                 | Panic => (Panic, c')
                 end)) as [H1 H2]; auto.
  { intros c0 key C0. pose proof (con_get_nopanic o c0 key) as NP.
    destruct (con_get o c0 key) as [x|e|] eqn:G; cbn [fst snd];
      [|split; [split; [discriminate | discriminate] | exact C0] | congruence].
    pose proof (con_remove_nopanic o c0 key C0) as NR.
    destruct (con_remove o c0 key) as [c''|e|] eqn:E; cbn [fst snd]; [| |congruence].
    - split; [split; [discriminate|]|eapply con_remove_inv; eauto].
      intros v Ev. inversion Ev; subst. eapply con_get_inv; eauto.
    - split; [split; discriminate | exact C0]. }
  destruct (find o c (b :: from) _) as [[| |[v|e|]] c1]; cbn [fst snd] in *; try apply safe_err.
  2:{ exfalso. destruct (H2 Panic eq_refl) as [X _]. congruence. }
  destruct (H2 (Ok v) eq_refl) as [_ Hv]. specialize (Hv v eq_refl).
  destruct (op_str op (B "path")) as [path| |]; [|apply safe_err|congruence].
  destruct (find_add_inv o c1 path v H1 Hv) as [A1 A2]. unfold add_leaf in *.
  destruct (find o c1 path _) as [[| |[c''|e|]] c2]; cbn [fst snd] in *;
    try apply safe_err; [apply safe_ok; exact A1 | congruence].
Qed.

Lemma op_test_safe o st op : stinv st -> step_safe (op_test o st op).
Proof.
  intros S. unfold op_test.
  pose proof (op_str_nopanic op (B "path")) as NPp.
  destruct (op_str op (B "path")) as [path| |]; [|apply safe_err|congruence].
  set (ov := match op_value op with Some v => v | None => NNil end).
  destruct path as [|b path].
  - unfold stinv in S. cbv zeta.
    match goal with |- step_safe (if ?b then _ else Err ETestFailed) => destruct b end; [|apply safe_err].
    destruct (s_root st) as [[s k ob|s stl|s ns]|] eqn:R; try (apply safe_ok; unfold stinv; rewrite R; exact S).
    + destruct S as [Ss Sn]. cbn [con_self node_of_con] in *. cbn [deep].
      apply safe_ok. split; [exact Ss|]. exact (ninv_deep _ Sn).
    + destruct S as [Ss Sn]. cbn [con_self node_of_con] in *.
      apply safe_ok. split; [exact Ss|]. exact (ninv_deep _ Sn).
  - unfold stinv in S. destruct (s_root st) as [c|]; [|apply safe_err]. simpl in S.
    destruct (find_inv (fun r : res unit => r <> Panic) o c (b :: path)
                (fun c' key =>
                   match con_get o c' key with
                   | Ok v =>
                       if is_null v then ((if is_null ov then Ok tt else Err ETestFailed), c')
                       else if is_null ov then (Err ETestFailed, c')
                       else if node_equal v ov then (Ok tt, con_put o c' key (deep v))
                       else (Err ETestFailed, c')
                   | Err EMissing => ((if is_null ov then Ok tt else Err ETestFailed), c')
                   | Err e => (Err e, c')
                   | Panic => (Panic, c')
                   end)) as [H1 H2]; auto.
    { intros c0 key C0. pose proof (con_get_nopanic o c0 key) as NP.
      destruct (con_get o c0 key) as [x|e|] eqn:G; [| |congruence].
      - destruct (is_null x); [split; [destruct (is_null ov); discriminate | exact C0]|].
        destruct (is_null ov); [split; [discriminate | exact C0]|].
        destruct (node_equal x ov); [|split; [discriminate | exact C0]].
        split; [discriminate|]. cbn [snd]. apply (con_put_inv o c0 key _ x C0); auto.
        apply ninv_deep. eapply con_get_inv; eauto.
      - destruct e; cbn [fst snd]; (split; [try discriminate | exact C0]).
        destruct (is_null ov); discriminate. }
    destruct (find o c (b :: path) _) as [[| |[u|e|]] c2]; cbn [fst snd] in *;
      try apply safe_err; [apply safe_ok; exact H1|].
    exfalso. apply (H2 Panic); reflexivity.
Qed.

Lemma find_get_inv o c path :
  cinv c ->
  cinv (snd (find o c path (fun c' key => (con_get o c' key, c')))) /\
  fst (find o c path (fun c' key => (con_get o c' key, c'))) <> FoundAt Panic.
Proof.
  intro C.
  destruct (find_inv (fun r : res node => r <> Panic) o c path (fun c' key => (con_get o c' key, c'))) as [H1 H2]; auto.
  - intros c0 key C0. cbn [fst snd]. split; [apply con_get_nopanic | exact C0].
  - split; auto. intro E. apply (H2 Panic E). reflexivity.
Qed.

Lemma op_copy_safe o st op : stinv st -> step_safe (op_copy o st op).
Proof.
  intros S. unfold op_copy.
  pose proof (op_str_nopanic op (B "from")) as NPf.
  destruct (op_str op (B "from")) as [from| |]; [|apply safe_err|congruence].
  unfold stinv in S. destruct (s_root st) as [c|]; [|apply safe_err]. simpl in S.
  destruct (find_get_inv o c from S) as [C1 N1].
  destruct (find o c from _) as [[| |[x|e|]] c1]; cbn [fst snd] in *; try apply safe_err; [|congruence].
  destruct (op_str op (B "path")) as [path| |]; try apply safe_err.
  destruct (find_inv (fun _ : unit => True) o c1 path (fun c' key => (tt, c'))) as [C2 _]; auto.
  destruct (find o c1 path _) as [[| |u] c2]; cbn [fst snd] in *; try apply safe_err.
  assert (SRC : (match from with
                 | [] => Ok (node_of_con c2)
                 | _ => match find o c2 from (fun c' key => (con_get o c' key, c')) with
                        | (FoundAt r, _) => r
                        | _ => Err EMissing
                        end
                 end) <> Panic).
  { destruct from as [|b from]; [discriminate|].
    destruct (find_get_inv o c2 (b :: from) C2) as [_ N3].
    destruct (find o c2 (b :: from) _) as [[| |r] c3]; cbn [fst] in *; try discriminate. congruence. }
  destruct (match from with [] => Ok (node_of_con c2) | _ => _ end) as [v|e|]; [|apply safe_err|congruence].
  destruct (copy_too_deep o v); [apply safe_err|].
  pose proof (ninv_deep_copy o v) as Hcp. destruct (deep_copy o v) as [cp sz]. cbn [fst] in Hcp.
  destruct ((0 <? o_limit o)%Z && (o_limit o <? s_acc st + sz)%Z); [apply safe_err|].
  destruct (find_add_inv o c2 path cp C2 Hcp) as [A1 A2]. unfold add_leaf in *.
  destruct (find o c2 path _) as [[| |[c''|e|]] c3]; cbn [fst snd] in *;
    try apply safe_err; [apply safe_ok; exact A1 | congruence].
Qed.

(* ---- one operation, the whole patch ---- *)
Theorem step_safe_all o st op : stinv st -> op_ok op = true -> step_safe (step o st op).
Proof.
  intros S OK. unfold step. destruct (op_kind op) eqn:K.
  - now apply op_add_safe.
  - now apply op_remove_safe.
  - now apply op_replace_safe.
  - now apply op_move_safe.
  - now apply op_copy_safe.
  - now apply op_test_safe.
  - apply safe_err.
Qed.

(* the condition is exactly the one under which the model panics *)
Theorem op_not_ok_panics o st op : op_ok op = false -> step o st op = Panic.
Proof.
  unfold op_ok, step. destruct (op_kind op) eqn:K; try discriminate.
  - unfold op_add. destruct (op_str op (B "path")) as [[|b path]| |]; try discriminate.
    unfold amem, op_value. destruct (aget (B "value") op); [discriminate | reflexivity].
  - unfold op_replace. destruct (op_str op (B "path")) as [[|b path]| |]; try discriminate.
    unfold amem, op_value. destruct (aget (B "value") op); [discriminate | reflexivity].
Qed.

Theorem apply_from_never_panics o : forall p i st,
  stinv st -> forallb op_ok p = true -> forall j, apply_from o i st p <> APanic j.
Proof.
  induction p as [|op p IH]; intros i st S OK j; simpl; [discriminate|].
  simpl in OK. apply andb_true_iff in OK as [OK1 OK2].
  destruct (step_safe_all o st op S OK1) as [NP PR].
  destruct (step o st op) as [st'|e|]; [|discriminate|congruence].
  apply IH; auto.
Qed.

Lemma load_doc_inv o t r : load_doc o t = Ok r -> rinv r.
Proof. exact (root_of_value_inv o t r). Qed.

Theorem apply_tree_never_panics o indent p t : forallb op_ok p = true -> apply_tree o indent p t <> RPanic.
Proof.
  intro OK. unfold apply_tree.
  pose proof (load_doc_inv o t) as LI.
  assert (LN : load_doc o t <> Panic) by exact (root_of_value_nopanic o t).
  destruct (load_doc o t) as [r| |]; [|discriminate|congruence].
  pose proof (apply_from_never_panics o p 0%nat (mkState r 0) (LI r eq_refl) OK) as AP.
  destruct (apply_from o 0 (mkState r 0) p) as [st|i e|i]; [|discriminate|exfalso; eapply AP; reflexivity].
  destruct (s_root st) as [[| |]|]; simpl; discriminate.
Qed.

(* the main theorem: every options record, every indent, every document byte string *)
Theorem api_apply_never_panics o indent p doc : forallb op_ok p = true -> api_apply o indent p doc <> RPanic.
Proof.
  intro OK. unfold api_apply. destruct doc as [|b doc]; [discriminate|].
  destruct (parse (b :: doc)); [now apply apply_tree_never_panics | discriminate].
Qed.

(* conversely: a patch whose first not-ok operation is reached does panic; so op_ok is the weakest
   condition on the patch alone, up to operations that are never reached *)
Theorem api_apply_panics_on_not_ok o indent op p doc t r :
  parse doc = Some t -> doc <> [] -> load_doc o t = Ok r -> op_ok op = false ->
  api_apply o indent (op :: p) doc = RPanic.
Proof.
  intros P NE L NOK. unfold api_apply. destruct doc; [congruence|]. rewrite P. unfold apply_tree. rewrite L.
  simpl. rewrite (op_not_ok_panics o _ op NOK). reflexivity.
Qed.

(* ---- patches produced by DecodePatch ---- *)
Lemma decode_patch_ok t p : decode_patch_t t = Some p -> forallb op_ok p = true.
Proof.
  destruct t as [| | |lit|body|els|ms]; simpl; try discriminate.
  - intro H; inversion H; reflexivity.
  - destruct (forallb _ els); [|discriminate].
    destruct (forallb validate_operation _) eqn:V; [|discriminate]. intro H; inversion H; subst. clear H.
    rewrite forallb_forall in *. intros op Hin. apply validate_op_ok. auto.
Qed.

Theorem api_decode_ok bs p : api_decode bs = Some p -> forallb op_ok p = true.
Proof. unfold api_decode. destruct (parse bs); [apply decode_patch_ok | discriminate]. Qed.

(* DecodePatch then Apply: all byte strings on both sides *)
Theorem decode_apply_never_panics o indent patch doc p :
  api_decode patch = Some p -> api_apply o indent p doc <> RPanic.
Proof. intro D. apply api_apply_never_panics. eapply api_decode_ok; eauto. Qed.

(* the hand-assembled operations outside op_ok: the panic of add / replace without value *)
Example add_without_value_panics :
  api_apply (mkOpts false 0 false false true [] None) [] [[(B "op", Some (TStr (B "add"))); (B "path", Some (TStr []))]] (B "{}") = RPanic.
Proof. vm_compute. reflexivity. Qed.

Example replace_without_value_panics :
  api_apply (mkOpts false 0 false false true [] None) [] [[(B "op", Some (TStr (B "replace"))); (B "path", Some (TStr []))]] (B "[]") = RPanic.
Proof. vm_compute. reflexivity. Qed.

(* DecodePatch rejects both *)
Example add_without_value_rejected :
  api_decode (B "[{""op"":""add"",""path"":""""}]") = None /\ api_decode (B "[{""op"":""replace"",""path"":""""}]") = None.
Proof. vm_compute. split; reflexivity. Qed.

Print Assumptions api_apply_never_panics.
Print Assumptions decode_apply_never_panics.
Print Assumptions op_not_ok_panics.
