(* Strings.v — decoding and encoding of JSON strings as the embedded codec does it.  No proofs here.

   unquote : model of decode.go unquoteBytes applied to the bytes between the quotes of a string
             that the scanner accepted (escapes, \uXXXX with surrogate pairing, invalid UTF-8 and
             lone surrogates become U+FFFD).
   quote   : model of encode.go encodeState.string: the bytes between the quotes.
   The escape tables safeSet / htmlSafeSet are read from the generated file gen/TablesGen.v. *)
From JP Require Import Bytes.
From JP.gen Require Import TablesGen.

(* ---- UTF-8 (unicode/utf8.DecodeRune): length of the valid sequence at the head of s, or 0 ---- *)
Definition in_range (lo hi : N) (b : byte) : bool := (lo <=? bn b) && (bn b <=? hi).
Definition cont (b : byte) : bool := in_range 128 191 b.

Definition utf8_len (s : bytes) : nat :=
  match s with
  | [] => 0
  | c :: r =>
      let n := bn c in
      if n <? 128 then 1
      else if n <? 194 then 0
      else if n <? 224 then
        match r with c1 :: _ => if cont c1 then 2 else 0 | _ => 0 end
      else if n <? 240 then
        match r with
        | c1 :: c2 :: _ =>
            let lo := if n =? 224 then 160 else 128 in
            let hi := if n =? 237 then 159 else 191 in
            if in_range lo hi c1 && cont c2 then 3 else 0
        | _ => 0
        end
      else if n <? 245 then
        match r with
        | c1 :: c2 :: c3 :: _ =>
            let lo := if n =? 240 then 144 else 128 in
            let hi := if n =? 244 then 143 else 191 in
            if in_range lo hi c1 && cont c2 && cont c3 then 4 else 0
        | _ => 0
        end
      else 0
  end.

Definition replacement : bytes := [xef; xbf; xbd].   (* U+FFFD *)

(* utf8.EncodeRune for a code point below 0x110000 that is not a surrogate *)
Definition encode_rune (r : N) : bytes :=
  if r <? 128 then [nb r]
  else if r <? 2048 then [nb (192 + r / 64); nb (128 + r mod 64)]
  else if r <? 65536 then [nb (224 + r / 4096); nb (128 + (r / 64) mod 64); nb (128 + r mod 64)]
  else [nb (240 + r / 262144); nb (128 + (r / 4096) mod 64); nb (128 + (r / 64) mod 64); nb (128 + r mod 64)].

Definition hex4 (a b c d : byte) : N :=
  ((hexval a * 16 + hexval b) * 16 + hexval c) * 16 + hexval d.

(* getu4 on the head of s: \uXXXX *)
Definition getu4 (s : bytes) : option N :=
  match s with
  | x5c :: x75 :: a :: b :: c :: d :: _ =>
      if is_hex a && is_hex b && is_hex c && is_hex d then Some (hex4 a b c d) else None
  | _ => None
  end.

Definition is_surrogate (r : N) : bool := (55296 <=? r) && (r <? 57344).

(* fuel = length of the body; every step consumes at least one byte *)
Fixpoint unquote_go (fuel : nat) (s : bytes) : bytes :=
  match fuel with
  | O => []
  | S f =>
      match s with
      | [] => []
      | c :: r =>
          if Byte.eqb c x5c then
            match r with
            | [] => []
            | e :: r' =>
                match e with
                | x62 => x08 :: unquote_go f r'
                | x66 => x0c :: unquote_go f r'
                | x6e => x0a :: unquote_go f r'
                | x72 => x0d :: unquote_go f r'
                | x74 => x09 :: unquote_go f r'
                | x75 =>
                    match getu4 s with
                    | None => []
                    | Some rr =>
                        let rest := skipn 6 s in
                        if is_surrogate rr then
                          match getu4 rest with
                          | Some rr1 =>
                              if (rr <? 56320) && (56320 <=? rr1) && (rr1 <? 57344) then
                                encode_rune (65536 + (rr - 55296) * 1024 + (rr1 - 56320))
                                  ++ unquote_go f (skipn 6 rest)
                              else replacement ++ unquote_go f rest
                          | None => replacement ++ unquote_go f rest
                          end
                        else encode_rune rr ++ unquote_go f rest
                    end
                | _ => e :: unquote_go f r'     (* the remaining escapes stand for themselves *)
                end
            end
          else if bn c <? 128 then c :: unquote_go f r
          else
            match utf8_len s with
            | O => replacement ++ unquote_go f r
            | n => firstn n s ++ unquote_go f (skipn n s)
            end
      end
  end.

Definition unquote (body : bytes) : bytes := unquote_go (length body) body.

(* ---- encoding ---- *)
Definition tbl (t : list bool) (b : byte) : bool := nth (N.to_nat (bn b)) t false.

Fixpoint quote_go (fuel : nat) (esc : bool) (s : bytes) : bytes :=
  match fuel with
  | O => []
  | S f =>
      match s with
      | [] => []
      | c :: r =>
          if bn c <? 128 then
            if tbl htmlSafeSet c || (negb esc && tbl safeSet c) then c :: quote_go f esc r
            else
              match c with
              | x5c | x22 => x5c :: c :: quote_go f esc r
              | x0a => x5c :: x6e :: quote_go f esc r
              | x0d => x5c :: x72 :: quote_go f esc r
              | x09 => x5c :: x74 :: quote_go f esc r
              | _ => B "\u00" ++ [hexdigit (bn c / 16); hexdigit (bn c mod 16)] ++ quote_go f esc r
              end
          else
            match utf8_len s with
            | O => B "\ufffd" ++ quote_go f esc r
            | n =>
                match s with
                | xe2 :: x80 :: xa8 :: r' => B "\u2028" ++ quote_go f esc r'
                | xe2 :: x80 :: xa9 :: r' => B "\u2029" ++ quote_go f esc r'
                | _ => firstn n s ++ quote_go f esc (skipn n s)
                end
            end
      end
  end.

Definition quote (esc : bool) (s : bytes) : bytes := quote_go (length s) esc s.
