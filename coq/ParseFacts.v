(* ParseFacts.v — facts about the independent RFC 8259 reader (Text.parse). *)
From Coq Require Import Lia.
From JP Require Import Bytes Json Text DecodeFacts JsonFacts EqualFacts.

Lemma scan_int_first s i rest : scan_int s = Some (i, rest) -> exists c r, i = c :: r /\ is_digit c = true.
Proof.
  unfold scan_int. destruct s as [|c r]; try discriminate.
  destruct (Byte.eqb c x30) eqn:E0.
  - intro H; inversion H; subst. exists c, []. split; auto. apply Byte.byte_dec_bl in E0. subst. reflexivity.
  - destruct (is_digit19 c) eqn:E1; try discriminate. destruct (take_digits r) as [d rest'].
    intro H; inversion H; subst. exists c, d. split; auto.
    unfold is_digit19, is_digit in *. apply andb_prop in E1 as [A B]. apply andb_true_intro. split; auto.
    apply N.leb_le in A. apply N.leb_le. lia.
Qed.

Lemma scan_number_lit s lit rest : scan_number s = Some (lit, rest) -> lit_ok lit = true.
Proof.
  unfold scan_number.
  destruct (match s with x2d :: r => ([x2d], r) | _ => ([], s) end) as [neg s1] eqn:En.
  destruct (scan_int s1) as [[i s2]|] eqn:Ei; try discriminate.
  destruct (scan_frac s2) as [[f s3]|]; try discriminate.
  destruct (scan_exp s3) as [[e s4]|]; try discriminate.
  intro H; inversion H; subst. apply scan_int_first in Ei as [c [r [-> Dc]]].
  assert (N : neg = [x2d] \/ neg = []).
  { destruct s as [|c0 r0]; [inversion En; auto|]. destruct c0; inversion En; auto. }
  destruct N as [-> | ->]; simpl; auto. rewrite Dc. apply orb_true_r.
Qed.

Lemma parse_value_tlit : forall fuel,
  (forall d s t rest, parse_value fuel d s = Some (t, rest) -> tlit t = true) /\
  (forall d s l rest, parse_elems fuel d s = Some (l, rest) -> forallb tlit l = true) /\
  (forall d s ms rest, parse_members fuel d s = Some (ms, rest) -> forallb (fun kv => tlit (snd kv)) ms = true).
Proof.
  induction fuel as [|f [IHv [IHe IHm]]]; [repeat split; intros; discriminate|].
  repeat split.
  - intros d s t rest. cbn [parse_value]. destruct (skip_ws s) as [|c r]; try discriminate.
    destruct c; try (destruct (scan_number _) as [[lit rest']|] eqn:En; [|discriminate]; intro H; inversion H; subst;
                     simpl; eapply scan_number_lit; eauto).
    + (* quote *) destruct (scan_string r) as [[b rest']|]; try discriminate. intro H; inversion H; reflexivity.
    + (* [ *) destruct (d =? 0); try discriminate. destruct (skip_ws r) as [|c' r'] eqn:Es.
      * destruct (parse_elems f (d - 1) r) as [[l rest']|] eqn:Ee; try discriminate. intro H; inversion H; subst. simpl. eauto.
      * destruct c'; try (destruct (parse_elems f (d - 1) r) as [[l rest']|] eqn:Ee; [|discriminate]; intro H; inversion H; subst; simpl; eauto).
        intro H; inversion H; reflexivity.
    + (* f *) destruct (strip_prefix _ r); try discriminate. intro H; inversion H; reflexivity.
    + (* n *) destruct (strip_prefix _ r); try discriminate. intro H; inversion H; reflexivity.
    + (* t *) destruct (strip_prefix _ r); try discriminate. intro H; inversion H; reflexivity.
    + (* { *) destruct (d =? 0); try discriminate. destruct (skip_ws r) as [|c' r'] eqn:Es.
      * destruct (parse_members f (d - 1) r) as [[ms rest']|] eqn:Ee; try discriminate. intro H; inversion H; subst. simpl. eauto.
      * destruct c'; try (destruct (parse_members f (d - 1) r) as [[ms rest']|] eqn:Ee; [|discriminate]; intro H; inversion H; subst; simpl; eauto).
        intro H; inversion H; reflexivity.
  - intros d s l rest. cbn [parse_elems]. destruct (parse_value f d s) as [[v rest0]|] eqn:Ev; try discriminate.
    destruct (skip_ws rest0) as [|c r]; try discriminate.
    destruct c; try discriminate.
    + destruct (parse_elems f d r) as [[l' rest']|] eqn:Ee; try discriminate. intro H; inversion H; subst.
      simpl. rewrite (IHv _ _ _ _ Ev). simpl. eauto.
    + intro H; inversion H; subst. simpl. rewrite (IHv _ _ _ _ Ev). reflexivity.
  - intros d s ms rest. cbn [parse_members]. destruct (skip_ws s) as [|c r]; try discriminate.
    destruct c; try discriminate. destruct (scan_string r) as [[k rest0]|]; try discriminate.
    destruct (skip_ws rest0) as [|c1 r1]; try discriminate. destruct c1; try discriminate.
    destruct (parse_value f d r1) as [[v rest1]|] eqn:Ev; try discriminate.
    destruct (skip_ws rest1) as [|c2 r2]; try discriminate. destruct c2; try discriminate.
    + destruct (parse_members f d r2) as [[ms' rest']|] eqn:Em; try discriminate. intro H; inversion H; subst.
      simpl. rewrite (IHv _ _ _ _ Ev). simpl. eauto.
    + intro H; inversion H; subst. simpl. rewrite (IHv _ _ _ _ Ev). reflexivity.
Qed.

Theorem parse_tlit bs t : parse bs = Some t -> tlit t = true.
Proof.
  unfold parse. destruct (parse_value (parse_fuel bs) max_depth bs) as [[t' rest]|] eqn:E; try discriminate.
  destruct (skip_ws rest); try discriminate. intro H; inversion H; subst.
  eapply (proj1 (parse_value_tlit _)); eauto.
Qed.
