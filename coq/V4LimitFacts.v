(* V4LimitFacts.v — C12 / C18 for the LEGACY root package (ImplV4): the accumulated copy-size limit
   (the package variable AccumulatedCopySizeLimit, g_limit; the counter accumulatedCopySize, acc4),
   proved of the model ImplV4.step4 / apply4_from / api_apply4 for EVERY operation list, every
   document and every setting of the package variables (no domain hypothesis).

   1  where errors come from: the leaf functions (con4_get/add/set/remove, op_str) never return the
      limit error; the one place that does is the comparison in the copy case (step4_copy_reach).
      copy_reach4 / copy_src4 / copy_probe4 / copy_over4 name the source value a copy hands to
      deepCopy, the size deepCopy reports for it and the total the limit error reports.
   2  v4_limit_error_iff, v4_limit_error_only_when_exceeded (the error, exactly);
      v4_zero_disables (a limit <= 0 disables the check);
      v4_others_do_not_count, v4_copy_counts (what each operation adds to the counter);
      v4_total_is_sum (the counter after a run is the sum of the sizes of its copies);
      v4_total_within_limit; v4_limit_stops_with_no_document (api level).
   3  v4_counted_size_is_spelling_length: the size counted is the byte length of marshal4 of the source
      (members sorted, HTML escaping on), which is also the spelling of the node stored; a copied
      nil counts 0 (or the fixed g_nullsz).
   4  the bytes of the output: the node a successful copy stores is a descendant of the new tree,
      hence its spelling (whose length was counted) is a contiguous part of the compact output
      (v4_copy_step_spelling, v4_copy_last_output, v4_copy_in_patch_output).  The invariant needed
      (member names of every Go map distinct: nnd) holds of every parsed document and is kept by
      every operation (step4_nnd, apply4_from_nnd).
   5  non-vacuity by computation. *)
From Coq Require Import Lia.
From Coq Require Import Permutation.
From JP Require Import Bytes Json Text Strings Den Pointer ImplV5 ImplMerge ImplV4 DecodeFacts JsonFacts
                       ApplyFacts Totality PrintParse Scan V4ApplySim SizeFacts V4OutputFacts.

(* ================================================================================================ *)
(* 1. where errors come from                                                                         *)
(* ================================================================================================ *)
(* a result that is not the limit error *)
Definition nocl {A} (r : res A) : Prop :=
  match r with Err e => is_copy_limit e = false | _ => True end.
(* ... and not a success either *)
Definition plainfail {A} (r : res A) : Prop :=
  match r with Ok _ => False | Err e => is_copy_limit e = false | Panic => True end.

Lemma plainfail_nocl {A} (r : res A) : plainfail r -> nocl r.
Proof. destruct r; cbn; auto. Qed.

Lemma con4_get_nocl g c key : nocl (con4_get g c key).
Proof.
  destruct c as [obj| |ns]; cbn [con4_get nocl]; auto.
  destruct (resolve_idx_get (o5 g) (zlen ns) key) as [i|e|] eqn:E; cbn [nocl]; auto.
  apply plain_nocl. eapply resolve_idx_get_err; eauto.
Qed.

Lemma con4_add_nocl g c key v : nocl (con4_add g c key v).
Proof.
  destruct c as [obj| |ns]; cbn [con4_add nocl]; auto.
  destruct (ary_add (o5 g) ns key v) as [ns'|e|] eqn:E; cbn [nocl]; auto.
  apply plain_nocl. eapply ary_add_err; eauto.
Qed.

Lemma con4_set_nocl g c key v : nocl (con4_set g c key v).
Proof.
  destruct c as [obj| |ns]; cbn [con4_set nocl]; auto.
  destruct (ary_set (o5 g) ns key v) as [ns'|e|] eqn:E; cbn [nocl]; auto.
  apply plain_nocl. eapply ary_set_err; eauto.
Qed.

Lemma con4_remove_nocl g c key : nocl (con4_remove g c key).
Proof.
  destruct c as [obj| |ns]; cbn [con4_remove nocl]; auto.
  - destruct (amem key obj); cbn; auto.
  - destruct (ary_remove (o5 g) ns key) as [ns'|e|] eqn:E; cbn [nocl]; auto.
    apply plain_nocl. eapply ary_remove_err; eauto.
Qed.

Lemma op_str_nocl op name : nocl (op_str op name).
Proof. unfold op_str. destruct (aget name op) as [[t|]|]; cbn; auto. destruct t; cbn; auto. Qed.

Lemma upd_nocl {A} (r : res con4) c (a : A) : nocl r -> nocl (fst (upd r c a)).
Proof. destruct r; cbn; auto. Qed.

(* what a walk returns was computed by the leaf function *)
Lemma walk4_result {A} g parts : forall c (f : con4 -> A * con4) a c',
  walk4 g parts c f = (Some a, c') -> exists c0, fst (f c0) = a.
Proof.
  induction parts as [|p rest IH]; intros c f a c'; cbn [walk4].
  - destruct (f c) as [a0 c0] eqn:E. intro H; inversion H; subst. exists c. rewrite E. reflexivity.
  - destruct (con4_get g c (decode_token p)) as [next|e|]; try discriminate.
    destruct (into_con4 next) as [ch|]; [|discriminate].
    destruct (walk4 g rest ch f) as [r ch'] eqn:W. intro H; inversion H; subst. eapply IH; eauto.
Qed.

Lemma find4_result {A} g c path (f : con4 -> bytes -> A * con4) a c' :
  find4 g c path f = (Some a, c') -> exists c0 key, fst (f c0 key) = a.
Proof.
  unfold find4. destruct (split_path path) as [[parts key]|]; [|discriminate].
  intro H. apply walk4_result in H as [c0 H]. eauto.
Qed.

Lemma find4_nocl {A} g c path (f : con4 -> bytes -> res A * con4) r c' :
  (forall c0 key, nocl (fst (f c0 key))) -> find4 g c path f = (Some r, c') -> nocl r.
Proof. intros Hf H. apply find4_result in H as [c0 [key H]]. rewrite <- H. apply Hf. Qed.

Lemma lift4_nocl {A} (r : option (res A) * con4) st (k : A -> con4 -> res state4) :
  (forall a, fst r = Some a -> nocl a) -> (forall a c, nocl (k a c)) -> nocl (lift4 r st k).
Proof.
  intros Hr Hk. destruct r as [[[a|e|]|] c]; cbn [lift4 fst] in *.
  - apply Hk.
  - apply (Hr (Err e) eq_refl).
  - exact I.
  - reflexivity.
Qed.

Lemma find4_lift_nocl {A} g c path (f : con4 -> bytes -> res A * con4) st (k : A -> con4 -> res state4) :
  (forall c0 key, nocl (fst (f c0 key))) -> (forall a c1, nocl (k a c1)) ->
  nocl (lift4 (find4 g c path f) st k).
Proof.
  intros Hf Hk. apply lift4_nocl; [|exact Hk].
  intros a E. destruct (find4 g c path f) as [r c'] eqn:F. cbn [fst] in E. subst r.
  eapply find4_nocl; eauto.
Qed.

Lemma keep_acc_nocl st (u : unit) (c : con4) : nocl (keep_acc st u c).
Proof. exact I. Qed.

Lemma add_fn4_nocl g v c0 key : nocl (fst (add_fn4 g v c0 key)).
Proof. unfold add_fn4. apply upd_nocl. apply con4_add_nocl. Qed.

Lemma remove_fn4_nocl g c0 key : nocl (fst (remove_fn4 g c0 key)).
Proof. unfold remove_fn4. apply upd_nocl. apply con4_remove_nocl. Qed.

Lemma replace_fn4_nocl g v c0 key : nocl (fst (replace_fn4 g v c0 key)).
Proof.
  unfold replace_fn4. destruct (con4_get g c0 key) as [x|e|]; cbn [fst nocl]; auto.
  apply upd_nocl. apply con4_set_nocl.
Qed.

Lemma move_src_fn4_nocl g c0 key : nocl (fst (move_src_fn4 g c0 key)).
Proof.
  unfold move_src_fn4. pose proof (con4_get_nocl g c0 key) as G.
  destruct (con4_get g c0 key) as [x|e|]; cbn [fst nocl]; auto.
  apply upd_nocl. apply con4_remove_nocl.
Qed.

Lemma get_fn4_nocl g c0 key : nocl (fst (get_fn4 g c0 key)).
Proof. unfold get_fn4. cbn [fst]. apply con4_get_nocl. Qed.

Lemma test_fn4_nocl g op c0 key : nocl (fst (test_fn4 g op c0 key)).
Proof.
  unfold test_fn4. pose proof (con4_get_nocl g c0 key) as G.
  destruct (con4_get g c0 key) as [x|e|]; cbn [fst nocl]; auto.
  destruct (is_null4 x); cbn [fst].
  - destruct (null4 (opv4 op)); exact I || reflexivity.
  - destruct (op_value4 op) as [ov|]; cbn [fst nocl]; auto. destruct (node_equal4 x ov); exact I || reflexivity.
Qed.

(* an operation that is not a copy never returns the limit error *)
Theorem step4_noncopy_nocl g st op : op_kind op <> KCopy -> nocl (step4 g st op).
Proof.
  intro K. destruct (op_kind op) eqn:E; try congruence.
  - rewrite (step4_add g st op E). destruct (op_str op (B "path")) as [path|e|]; cbn [nocl]; auto.
    apply find4_lift_nocl; [apply add_fn4_nocl | apply keep_acc_nocl].
  - rewrite (step4_remove g st op E). destruct (op_str op (B "path")) as [path|e|]; cbn [nocl]; auto.
    apply find4_lift_nocl; [apply remove_fn4_nocl | apply keep_acc_nocl].
  - rewrite (step4_replace g st op E). pose proof (op_str_nocl op (B "path")) as P.
    destruct (op_str op (B "path")) as [[|b path]|e|]; cbn [nocl]; auto.
    + destruct (op_value4 op) as [[|t|ks obj|ns]|]; cbn [nocl]; auto. destruct t; cbn [nocl]; auto.
    + apply find4_lift_nocl; [apply replace_fn4_nocl | apply keep_acc_nocl].
  - rewrite (step4_move g st op E). pose proof (op_str_nocl op (B "from")) as P.
    destruct (op_str op (B "from")) as [from|e|]; cbn [nocl]; auto.
    apply find4_lift_nocl; [apply move_src_fn4_nocl|]. intros v c1.
    pose proof (op_str_nocl op (B "path")) as P2.
    destruct (op_str op (B "path")) as [path|e|]; cbn [nocl]; auto.
    apply find4_lift_nocl; [apply add_fn4_nocl | apply keep_acc_nocl].
  - rewrite (step4_test g st op E). pose proof (op_str_nocl op (B "path")) as P.
    destruct (op_str op (B "path")) as [[|b path]|e|]; cbn [nocl]; auto.
    + destruct (node_equal4 _ _ && _)%bool; cbn [nocl]; auto.
    + apply find4_lift_nocl; [apply test_fn4_nocl | apply keep_acc_nocl].
  - rewrite (step4_unknown g st op E). reflexivity.
Qed.

(* ---- the copy: how far it gets ---- *)
(* the copy reaches deepCopy: the source value it hands over, the document it then adds to, the
   destination path *)
Definition copy_reach4 (g : opts4) (st : state4) (op : operation) : option (node * con4 * bytes) :=
  match op_str op (B "from") with
  | Ok from =>
      match find4 g (r4 st) from (get_fn4 g) with
      | (Some (Ok _), c1) =>
          match op_str op (B "path") with
          | Ok path =>
              match find4 g c1 path unit_fn4 with
              | (Some _, c2) =>
                  match find4 g c2 from (get_fn4 g) with
                  | (Some (Ok v), _) => Some (v, c2, path)
                  | _ => None
                  end
              | (None, _) => None
              end
          | _ => None
          end
      | _ => None
      end
  | _ => None
  end.

Definition copy_src4 (g : opts4) (st : state4) (op : operation) : option node :=
  match copy_reach4 g st op with Some (v, _, _) => Some v | None => None end.

(* the number of bytes deepCopy reports for this copy, if the copy gets as far as deepCopy *)
Definition copy_probe4 (g : opts4) (st : state4) (op : operation) : option Z :=
  match copy_src4 g st op with Some v => Some (snd (deep_copy4 g v)) | None => None end.

Definition over4 (g : opts4) (st : state4) (sz : Z) : bool :=
  ((0 <? g_limit g)%Z && (g_limit g <? acc4 st + sz)%Z)%bool.

(* the total the limit error reports, when this operation is a copy that trips the limit *)
Definition copy_over4 (g : opts4) (st : state4) (op : operation) : option Z :=
  match op_kind op with
  | KCopy =>
      match copy_probe4 g st op with
      | Some sz => if over4 g st sz then Some (acc4 st + sz)%Z else None
      | None => None
      end
  | _ => None
  end.

Definition copy_tail4 (g : opts4) (st : state4) (v : node) (c2 : con4) (path : bytes) : res state4 :=
  if over4 g st (snd (deep_copy4 g v)) then Err (ECopyLimit (g_limit g) (acc4 st + snd (deep_copy4 g v)))
  else lift4 (find4 g c2 path (add_fn4 g (fst (deep_copy4 g v)))) st
             (fun _ c3 => Ok (mkState4 c3 (acc4 st + snd (deep_copy4 g v)))).

Theorem step4_copy_reach g st op : op_kind op = KCopy ->
  match copy_reach4 g st op with
  | Some (v, c2, path) => step4 g st op = copy_tail4 g st v c2 path
  | None => plainfail (step4 g st op)
  end.
Proof.
  intro K. rewrite (step4_copy g st op K). unfold copy_reach4.
  pose proof (op_str_nocl op (B "from")) as P1.
  destruct (op_str op (B "from")) as [from|e|]; cbn [plainfail nocl] in *; auto.
  destruct (find4 g (r4 st) from (get_fn4 g)) as [[[v0|e|]|] c1] eqn:F1; cbn [lift4 plainfail]; auto.
  2:{ apply (find4_nocl g (r4 st) from (get_fn4 g) (Err e) c1 (get_fn4_nocl g) F1). }
  destruct (op_str op (B "path")) as [path|e|]; cbn [plainfail]; auto.
  destruct (find4 g c1 path unit_fn4) as [[u|] c2]; cbn [plainfail]; auto.
  destruct (find4 g c2 from (get_fn4 g)) as [[[v|e|]|] c3] eqn:F3; cbn [lift4 plainfail]; auto.
  2:{ apply (find4_nocl g c2 from (get_fn4 g) (Err e) c3 (get_fn4_nocl g) F3). }
  unfold copy_tail4, over4. destruct (deep_copy4 g v) as [cp sz]. cbn [fst snd]. reflexivity.
Qed.

(* the tail of a copy: the limit error, or an error that is not the limit error, or a new state with
   the size added *)
Lemma copy_tail4_cases g st v c2 path :
  let sz := snd (deep_copy4 g v) in
  if over4 g st sz then copy_tail4 g st v c2 path = Err (ECopyLimit (g_limit g) (acc4 st + sz))
  else nocl (copy_tail4 g st v c2 path) /\
       forall st', copy_tail4 g st v c2 path = Ok st' ->
                   acc4 st' = (acc4 st + sz)%Z /\
                   exists u, find4 g c2 path (add_fn4 g (fst (deep_copy4 g v))) = (Some (Ok u), r4 st').
Proof.
  cbv zeta. unfold copy_tail4. destruct (over4 g st (snd (deep_copy4 g v))); [reflexivity|]. split.
  - apply find4_lift_nocl; [apply add_fn4_nocl | intros; exact I].
  - intros st'. destruct (find4 g c2 path (add_fn4 g (fst (deep_copy4 g v)))) as [[[u|e|]|] c3]; cbn [lift4]; try discriminate.
    intro H; inversion H; subst. cbn [acc4 r4]. split; [reflexivity | exists u; reflexivity].
Qed.

Lemma over4_true g st sz : over4 g st sz = true <-> (0 < g_limit g)%Z /\ (g_limit g < acc4 st + sz)%Z.
Proof. unfold over4. rewrite andb_true_iff, !Z.ltb_lt. tauto. Qed.

Lemma copy_over4_inv g st op total :
  copy_over4 g st op = Some total <->
  op_kind op = KCopy /\ exists v, copy_src4 g st op = Some v /\ total = (acc4 st + snd (deep_copy4 g v))%Z /\
                                  (0 < g_limit g)%Z /\ (g_limit g < total)%Z.
Proof.
  unfold copy_over4, copy_probe4. split.
  - destruct (op_kind op); try discriminate. destruct (copy_src4 g st op) as [v|]; [|discriminate].
    destruct (over4 g st (snd (deep_copy4 g v))) eqn:O; [|discriminate]. apply over4_true in O as [O1 O2].
    intro H; inversion H; subst. split; [reflexivity|]. exists v. auto.
  - intros [K [v [HS [-> [L1 L2]]]]]. rewrite K, HS.
    destruct (over4 g st (snd (deep_copy4 g v))) eqn:O; [reflexivity|].
    assert (T : over4 g st (snd (deep_copy4 g v)) = true) by (apply over4_true; auto). congruence.
Qed.

(* the limit error of one operation, exactly *)
Theorem step4_limit_iff g st op l a :
  step4 g st op = Err (ECopyLimit l a) <-> (copy_over4 g st op = Some a /\ l = g_limit g).
Proof.
  destruct (opk_eq_copy (op_kind op)) as [K|K].
  - pose proof (step4_copy_reach g st op K) as R. unfold copy_over4, copy_probe4, copy_src4. rewrite K.
    destruct (copy_reach4 g st op) as [[[v c2] path]|].
    + rewrite R. pose proof (copy_tail4_cases g st v c2 path) as T. cbv zeta in T.
      destruct (over4 g st (snd (deep_copy4 g v))).
      * rewrite T. split; [intro H; inversion H; subst; auto | intros [H ->]; inversion H; subst; reflexivity].
      * destruct T as [T _]. split; [|intros [H _]; discriminate].
        intro H. rewrite H in T. discriminate T.
    + split; [|intros [H _]; discriminate]. intro H. rewrite H in R. discriminate R.
  - pose proof (step4_noncopy_nocl g st op K) as N. unfold copy_over4.
    split; [intro H; rewrite H in N; discriminate N|].
    destruct (op_kind op); try congruence; intros [H _]; discriminate.
Qed.

(* ================================================================================================ *)
(* 2. what each operation adds to the counter; the run                                               *)
(* ================================================================================================ *)
Lemma lift4_acc {A} (r : option (res A) * con4) st (k : A -> con4 -> res state4) x st' :
  (forall a c st1, k a c = Ok st1 -> acc4 st1 = x) -> lift4 r st k = Ok st' -> acc4 st' = x.
Proof.
  intros Hk. destruct r as [[[a|e|]|] c]; cbn [lift4]; try discriminate. apply Hk.
Qed.

Lemma keep_acc_acc st (u : unit) c st1 : keep_acc st u c = Ok st1 -> acc4 st1 = acc4 st.
Proof. unfold keep_acc. intro H; inversion H; reflexivity. Qed.

(* operations other than copy leave the counter as it is *)
Theorem v4_others_do_not_count g st op st' :
  op_kind op <> KCopy -> step4 g st op = Ok st' -> acc4 st' = acc4 st.
Proof.
  intro K. destruct (op_kind op) eqn:E; try congruence.
  - rewrite (step4_add g st op E). destruct (op_str op (B "path")) as [path|e|]; try discriminate.
    apply lift4_acc. apply keep_acc_acc.
  - rewrite (step4_remove g st op E). destruct (op_str op (B "path")) as [path|e|]; try discriminate.
    apply lift4_acc. apply keep_acc_acc.
  - rewrite (step4_replace g st op E). destruct (op_str op (B "path")) as [[|b path]|e|]; try discriminate.
    + destruct (op_value4 op) as [[|t|ks obj|ns]|]; try discriminate.
      destruct t; try discriminate; intro H; inversion H; reflexivity.
    + apply lift4_acc. apply keep_acc_acc.
  - rewrite (step4_move g st op E). destruct (op_str op (B "from")) as [from|e|]; try discriminate.
    apply lift4_acc. intros v c1 st1. destruct (op_str op (B "path")) as [path|e|]; try discriminate.
    apply lift4_acc. apply keep_acc_acc.
  - rewrite (step4_test g st op E). destruct (op_str op (B "path")) as [[|b path]|e|]; try discriminate.
    + destruct (node_equal4 _ _ && _)%bool; [|discriminate]. intro H; inversion H; reflexivity.
    + apply lift4_acc. apply keep_acc_acc.
  - rewrite (step4_unknown g st op E). discriminate.
Qed.

(* a successful copy reached deepCopy with a source value v, adds exactly the size deepCopy reports
   for v, the total stays within a positive limit, and the node deepCopy made was added at the path *)
Theorem v4_copy_counts g st op st' :
  op_kind op = KCopy -> step4 g st op = Ok st' ->
  exists v c2 path u,
    copy_reach4 g st op = Some (v, c2, path) /\
    acc4 st' = (acc4 st + snd (deep_copy4 g v))%Z /\
    over4 g st (snd (deep_copy4 g v)) = false /\
    find4 g c2 path (add_fn4 g (fst (deep_copy4 g v))) = (Some (Ok u), r4 st').
Proof.
  intros K H. pose proof (step4_copy_reach g st op K) as R.
  destruct (copy_reach4 g st op) as [[[v c2] path]|]; [|rewrite H in R; destruct R].
  rewrite R in H. pose proof (copy_tail4_cases g st v c2 path) as T. cbv zeta in T.
  destruct (over4 g st (snd (deep_copy4 g v))) eqn:O; [rewrite T in H; discriminate|].
  destruct T as [_ T]. destruct (T st' H) as [A [u F]]. exists v, c2, path, u. auto.
Qed.

Corollary v4_copy_adds_probe g st op st' :
  op_kind op = KCopy -> step4 g st op = Ok st' ->
  exists sz, copy_probe4 g st op = Some sz /\ acc4 st' = (acc4 st + sz)%Z.
Proof.
  intros K H. destruct (v4_copy_counts g st op st' K H) as [v [c2 [path [u [R [A _]]]]]].
  exists (snd (deep_copy4 g v)). unfold copy_probe4, copy_src4. rewrite R. auto.
Qed.

(* both in one statement (mirror of CauseFacts.step_acc) *)
Theorem step4_acc g st op st' :
  step4 g st op = Ok st' ->
  match op_kind op with
  | KCopy => exists sz, copy_probe4 g st op = Some sz /\ acc4 st' = (acc4 st + sz)%Z
  | _ => acc4 st' = acc4 st
  end.
Proof.
  intro H. destruct (op_kind op) eqn:K; try (apply (v4_others_do_not_count g st op st'); [congruence | exact H]).
  apply v4_copy_adds_probe; assumption.
Qed.

(* one successful step keeps the counter within a positive limit *)
Lemma step4_within g st op st' :
  step4 g st op = Ok st' -> (0 < g_limit g)%Z -> (acc4 st <= g_limit g)%Z -> (acc4 st' <= g_limit g)%Z.
Proof.
  intros H L A. destruct (opk_eq_copy (op_kind op)) as [K|K].
  - destruct (v4_copy_counts g st op st' K H) as [v [c2 [path [u [_ [E [O _]]]]]]]. rewrite E.
    unfold over4 in O. apply andb_false_iff in O as [O|O]; apply Z.ltb_ge in O; lia.
  - rewrite (v4_others_do_not_count g st op st' K H). exact A.
Qed.

(* ---- the run ---- *)
Lemma apply4_from_ok_index g : forall p i st st' j, apply4_from g i st p = (Ok st', j) -> j = (i + length p)%nat.
Proof.
  induction p as [|op p IH]; intros i st st' j; cbn [apply4_from length].
  - intro H; inversion H; lia.
  - destruct (step4 g st op) as [st1|e|]; try discriminate. intro H. apply IH in H. lia.
Qed.

Lemma apply4_from_app g p1 : forall p2 i st,
  apply4_from g i st (p1 ++ p2) =
  match apply4_from g i st p1 with
  | (Ok st1, j) => apply4_from g j st1 p2
  | r => r
  end.
Proof.
  induction p1 as [|op p1 IH]; intros p2 i st; cbn [apply4_from app]; [reflexivity|].
  destruct (step4 g st op) as [st1|e|]; try reflexivity. apply IH.
Qed.

(* an error of the run is the error of its first failing operation *)
Theorem apply4_err_split g p : forall i st e k,
  apply4_from g i st p = (Err e, k) <->
  exists p1 op p2 st1, p = p1 ++ op :: p2 /\ k = (i + length p1)%nat /\
                       apply4_from g i st p1 = (Ok st1, k) /\ step4 g st1 op = Err e.
Proof.
  induction p as [|op p IH]; intros i st e k.
  - cbn [apply4_from]. split; [discriminate|]. intros [p1 [op [p2 [st1 [H _]]]]]. destruct p1; discriminate.
  - cbn [apply4_from]. destruct (step4 g st op) as [st1|e1|] eqn:E.
    + rewrite IH. split.
      * intros [p1 [op1 [p2 [st2 [-> [-> [A HS]]]]]]]. exists (op :: p1), op1, p2, st2.
        split; [reflexivity|]. split; [cbn [length]; lia|]. split; [|exact HS].
        cbn [apply4_from length]. rewrite E. replace (i + S (length p1))%nat with (S i + length p1)%nat by lia. exact A.
      * intros [p1 [op1 [p2 [st2 [Hp [-> [A HS]]]]]]]. destruct p1 as [|q p1]; cbn [app] in Hp; inversion Hp; subst.
        -- cbn [apply4_from] in A. inversion A; subst. rewrite E in HS. discriminate.
        -- cbn [apply4_from length] in A. rewrite E in A. exists p1, op1, p2, st2.
           split; [reflexivity|]. split; [cbn [length]; lia|]. split; [|exact HS].
           replace (S i + length p1)%nat with (i + S (length p1))%nat by lia. exact A.
    + split.
      * intro H; inversion H; subst. exists [], op, p, st. split; [reflexivity|]. split; [cbn [length]; lia|].
        split; [cbn [apply4_from length]; f_equal; lia | exact E].
      * intros [p1 [op1 [p2 [st2 [Hp [-> [A HS]]]]]]]. destruct p1 as [|q p1]; cbn [app] in Hp; inversion Hp; subst.
        -- cbn [apply4_from] in A. inversion A; subst. rewrite E in HS. inversion HS; subst. f_equal. cbn [length]. lia.
        -- cbn [apply4_from] in A. rewrite E in A. discriminate.
    + split; [discriminate|].
      intros [p1 [op1 [p2 [st2 [Hp [-> [A HS]]]]]]]. destruct p1 as [|q p1]; cbn [app] in Hp; inversion Hp; subst.
      * cbn [apply4_from] in A. inversion A; subst. rewrite E in HS. discriminate.
      * cbn [apply4_from] in A. rewrite E in A. discriminate.
Qed.

Lemma nth_error_mid4 {A} (p1 : list A) op p2 : nth_error (p1 ++ op :: p2) (length p1) = Some op.
Proof. rewrite nth_error_app2 by lia. rewrite Nat.sub_diag. reflexivity. Qed.

(* (1) the limit error, exactly: Apply returns it at index k iff the operations before k succeeded,
   the k-th is a copy that reaches deepCopy with a source value v, the limit is positive, and the
   counter before it plus the size of v exceeds the limit; the error carries the limit and that
   total (mirror of C08_limit_error_iff) *)
Theorem v4_limit_error_iff g p i st k l a :
  apply4_from g i st p = (Err (ECopyLimit l a), k) <->
  exists p1 op p2 st1 v,
    p = p1 ++ op :: p2 /\ k = (i + length p1)%nat /\ apply4_from g i st p1 = (Ok st1, k) /\
    op_kind op = KCopy /\ copy_src4 g st1 op = Some v /\
    (0 < g_limit g)%Z /\ l = g_limit g /\
    a = (acc4 st1 + snd (deep_copy4 g v))%Z /\ (g_limit g < a)%Z.
Proof.
  rewrite apply4_err_split. split.
  - intros [p1 [op [p2 [st1 [Hp [Hk [A HS]]]]]]]. apply step4_limit_iff in HS as [HS ->].
    apply copy_over4_inv in HS as [K [v [Sv [Ha [L1 L2]]]]].
    exists p1, op, p2, st1, v. repeat (split; [assumption || reflexivity|]). assumption.
  - intros [p1 [op [p2 [st1 [v [Hp [Hk [A [K [Sv [L1 [-> [Ha L2]]]]]]]]]]]]].
    exists p1, op, p2, st1. repeat (split; [assumption|]).
    apply step4_limit_iff. split; [|reflexivity]. apply copy_over4_inv. split; [exact K|]. exists v. auto.
Qed.

(* the form of C12_error_only_when_exceeded, from index 0 *)
Theorem v4_limit_error_only_when_exceeded g p st k l a :
  apply4_from g 0 st p = (Err (ECopyLimit l a), k) ->
  exists op, nth_error p k = Some op /\ op_kind op = KCopy /\
             (0 < g_limit g)%Z /\ l = g_limit g /\ (g_limit g < a)%Z /\
             exists st1 v, apply4_from g 0 st (firstn k p) = (Ok st1, k) /\
                           copy_src4 g st1 op = Some v /\ a = (acc4 st1 + snd (deep_copy4 g v))%Z.
Proof.
  intro H. apply v4_limit_error_iff in H as [p1 [op [p2 [st1 [v [-> [-> [A [K [Sv [L1 [-> [Ha L2]]]]]]]]]]]]].
  cbn [Nat.add] in *. exists op. split; [apply nth_error_mid4|]. repeat (split; [assumption || reflexivity|]).
  exists st1, v. rewrite firstn_app, firstn_all, Nat.sub_diag. cbn [firstn]. rewrite app_nil_r. auto.
Qed.

(* (2) a limit that is not positive disables the check *)
Theorem step4_zero_never g st op l a : (g_limit g <= 0)%Z -> step4 g st op <> Err (ECopyLimit l a).
Proof. intros Z0 H. apply step4_limit_iff in H as [H _]. apply copy_over4_inv in H as [_ [v [_ [_ [L _]]]]]. lia. Qed.

Theorem v4_zero_disables g p i st k l a :
  (g_limit g <= 0)%Z -> apply4_from g i st p <> (Err (ECopyLimit l a), k).
Proof. intros Z0 H. apply v4_limit_error_iff in H as [p1 [op [p2 [st1 [v [_ [_ [_ [_ [_ [L _]]]]]]]]]]]. lia. Qed.

(* (4) a run that ends under a positive limit kept the counter within it *)
Theorem v4_total_within_limit g : forall p i st st' j,
  apply4_from g i st p = (Ok st', j) -> (0 < g_limit g)%Z -> (acc4 st <= g_limit g)%Z -> (acc4 st' <= g_limit g)%Z.
Proof.
  induction p as [|op p IH]; intros i st st' j; cbn [apply4_from].
  - intro H; inversion H; subst; auto.
  - destruct (step4 g st op) as [st1|e|] eqn:E; try discriminate. intros H L A.
    apply (IH (S i) st1 st' j H L). apply (step4_within g st op st1 E L A).
Qed.

(* the counter is the sum of the sizes deepCopy reported for the copies of the run *)
Definition op_size4 (g : opts4) (st : state4) (op : operation) : Z :=
  match op_kind op with
  | KCopy => match copy_probe4 g st op with Some sz => sz | None => 0%Z end
  | _ => 0%Z
  end.

Fixpoint sizes4 (g : opts4) (st : state4) (p : list operation) : Z :=
  match p with
  | [] => 0%Z
  | op :: rest =>
      match step4 g st op with
      | Ok st' => (op_size4 g st op + sizes4 g st' rest)%Z
      | _ => 0%Z
      end
  end.

Lemma step4_acc_size g st op st' : step4 g st op = Ok st' -> acc4 st' = (acc4 st + op_size4 g st op)%Z.
Proof.
  intro H. pose proof (step4_acc g st op st' H) as A. unfold op_size4.
  destruct (op_kind op); try lia. destruct A as [sz [-> ->]]. reflexivity.
Qed.

Theorem v4_total_is_sum g : forall p i st st' j,
  apply4_from g i st p = (Ok st', j) -> acc4 st' = (acc4 st + sizes4 g st p)%Z.
Proof.
  induction p as [|op p IH]; intros i st st' j; cbn [apply4_from sizes4].
  - intro H; inversion H; subst; lia.
  - destruct (step4 g st op) as [st1|e|] eqn:E; try discriminate. intro H.
    rewrite (IH (S i) st1 st' j H), (step4_acc_size g st op st1 E). lia.
Qed.

(* (6) the api: stopped by the limit, Apply / ApplyIndent return the error and no document; and it is
   the only way the api returns the limit error *)
Theorem v4_limit_stops_with_no_document g indent p doc j l a :
  api_apply4 g indent p doc = Err4 j (ECopyLimit l a) <->
  exists t c k, doc <> [] /\ parse doc = Some t /\ start4 t = Some c /\ j = Some k /\
                apply4_from g 0 (mkState4 c 0) p = (Err (ECopyLimit l a), k).
Proof.
  destruct doc as [|b doc].
  - cbn [api_apply4]. split; [discriminate|]. intros [t [c [k [H _]]]]. congruence.
  - destruct (parse (b :: doc)) as [t|] eqn:Pd.
    + rewrite (api_apply4_unfold g indent p b doc t Pd). destruct (start4 t) as [c|] eqn:HS.
      * destruct (apply4_from g 0 (mkState4 c 0) p) as [[st|e|] i] eqn:A.
        -- split; [discriminate|]. intros [t' [c' [k [_ [P' [S' [_ A']]]]]]]. congruence.
        -- split.
           ++ intro H; inversion H; subst. exists t, c, i. repeat (split; [assumption || reflexivity || discriminate|]). exact A.
           ++ intros [t' [c' [k [_ [P' [S' [-> A']]]]]]]. inversion P'; subst t'. rewrite HS in S'. inversion S'; subst c'.
              rewrite A in A'. inversion A'; subst. reflexivity.
        -- split; [discriminate|]. intros [t' [c' [k [_ [P' [S' [_ A']]]]]]]. congruence.
      * split; [discriminate|]. intros [t' [c' [k [_ [P' [S' _]]]]]]. congruence.
    + unfold api_apply4. rewrite Pd. split; [discriminate|]. intros [t' [c' [k [_ [P' _]]]]]. discriminate.
Qed.

Corollary v4_api_limit_no_output g indent p doc t c k l a :
  doc <> [] -> parse doc = Some t -> start4 t = Some c ->
  apply4_from g 0 (mkState4 c 0) p = (Err (ECopyLimit l a), k) ->
  api_apply4 g indent p doc = Err4 (Some k) (ECopyLimit l a) /\
  forall out, api_apply4 g indent p doc <> Out4 out.
Proof.
  intros D P HS A.
  assert (E : api_apply4 g indent p doc = Err4 (Some k) (ECopyLimit l a)).
  { apply v4_limit_stops_with_no_document. exists t, c, k. auto. }
  split; [exact E|]. intros out H. rewrite E in H. discriminate.
Qed.

(* at the api: the error carries the package limit and a total above it; with a limit <= 0, never *)
Theorem v4_api_limit_error g indent p doc j l a :
  api_apply4 g indent p doc = Err4 j (ECopyLimit l a) ->
  (0 < g_limit g)%Z /\ l = g_limit g /\ (g_limit g < a)%Z /\
  exists k op, j = Some k /\ nth_error p k = Some op /\ op_kind op = KCopy.
Proof.
  intro H. apply v4_limit_stops_with_no_document in H as [t [c [k [_ [_ [_ [-> A]]]]]]].
  apply v4_limit_error_only_when_exceeded in A as [op [N [K [L1 [L2 [L3 _]]]]]].
  repeat (split; [assumption|]). exists k, op. auto.
Qed.

Theorem v4_api_zero_disables g indent p doc j l a :
  (g_limit g <= 0)%Z -> api_apply4 g indent p doc <> Err4 j (ECopyLimit l a).
Proof. intros Z0 H. apply v4_api_limit_error in H as [L _]. lia. Qed.

(* at the api: a document returned under a positive limit means the total stayed within it *)
Theorem v4_api_within_limit g indent p doc out :
  api_apply4 g indent p doc = Out4 out -> doc <> [] -> (0 < g_limit g)%Z ->
  exists t c st k, parse doc = Some t /\ start4 t = Some c /\
                   apply4_from g 0 (mkState4 c 0) p = (Ok st, k) /\
                   acc4 st = sizes4 g (mkState4 c 0) p /\ (acc4 st <= g_limit g)%Z.
Proof.
  intros H D L. destruct doc as [|b doc]; [congruence|].
  destruct (parse (b :: doc)) as [t|] eqn:Pd; [|unfold api_apply4 in H; rewrite Pd in H; discriminate].
  rewrite (api_apply4_unfold g indent p b doc t Pd) in H. destruct (start4 t) as [c|] eqn:HS; [|discriminate].
  destruct (apply4_from g 0 (mkState4 c 0) p) as [[st|e|] k] eqn:A; try discriminate.
  exists t, c, st, k. split; [reflexivity|]. split; [exact HS|]. split; [exact A|]. split.
  - rewrite (v4_total_is_sum g p 0%nat (mkState4 c 0) st k A). cbn [acc4]. lia.
  - apply (v4_total_within_limit g p 0%nat (mkState4 c 0) st k A L). cbn [acc4]. lia.
Qed.

(* ================================================================================================ *)
(* 3. the size counted is the length of the spelling                                                 *)
(* ================================================================================================ *)
(* legacy deepCopy: src.MarshalJSON() (marshal4: members sorted by name, HTML escaping on), the size is
   the length of those bytes, the copy is a raw message holding them.  The raw message is kept in the
   model as the escaped tree; written again (always with escaping on) it is spelled as the source. *)
Lemma marshal4_raw t : marshal4 (NRaw t) = print true t.
Proof. reflexivity. Qed.

(* a node that is not nil but marshals as null (the operation value null raw_nil4, the raw text null
   raw_null4, the entered nil map nil_doc4) is copied as the raw text null, counted with its 4 bytes *)
Lemma deep_copy4_fst g v : v <> NNil ->
  fst (deep_copy4 g v) = match render4 v with TNull => raw_null4 | t => NRaw (escape_tree true t) end.
Proof. destruct v; [congruence| | |]; unfold deep_copy4; cbn [fst]; destruct (render4 _); reflexivity. Qed.

Lemma deep_copy4_snd g v : v <> NNil -> snd (deep_copy4 g v) = zlen (marshal4 v).
Proof. destruct v; [congruence| | |]; reflexivity. Qed.

Theorem deep_copy4_nonnil g v : v <> NNil -> render4 v <> TNull ->
  deep_copy4 g v = (NRaw (escape_tree true (render4 v)), zlen (marshal4 v)).
Proof.
  intros N R. rewrite (surjective_pairing (deep_copy4 g v)), (deep_copy4_fst g v N), (deep_copy4_snd g v N).
  destruct (render4 v); congruence.
Qed.

Theorem v4_copy_spelled_as_source g v : marshal4 (fst (deep_copy4 g v)) = marshal4 v.
Proof.
  destruct v as [|t|ks obj|ns]; [reflexivity| | |];
    (rewrite deep_copy4_fst by discriminate; unfold marshal4 at 2;
     match goal with |- context [match ?r with TNull => _ | _ => _ end] => destruct r end;
     [reflexivity | ..]; rewrite marshal4_raw; apply print_escape_tree).
Qed.

(* ... also in indented output *)
Theorem v4_copy_spelled_as_source_pp g ind k v :
  pp true ind k (render4 (fst (deep_copy4 g v))) = pp true ind k (render4 v).
Proof.
  destruct v as [|t|ks obj|ns]; [reflexivity| | |];
    (rewrite deep_copy4_fst by discriminate;
     match goal with |- context [match ?r with TNull => _ | _ => _ end] => destruct r end;
     [reflexivity | ..]; cbn [render4]; apply pp_escape_tree).
Qed.

(* (5) the size counted for a source that is not a nil node is the byte length of its re-encoding,
   which is the byte length of the spelling of the node stored *)
Theorem v4_counted_size_is_spelling_length g v : v <> NNil ->
  snd (deep_copy4 g v) = zlen (marshal4 v) /\
  snd (deep_copy4 g v) = zlen (marshal4 (fst (deep_copy4 g v))).
Proof.
  intro N. rewrite v4_copy_spelled_as_source. rewrite (deep_copy4_snd g v N). split; reflexivity.
Qed.

(* a nil node (an absent member, a null the decoder read; NOT the null value of an operation, which is
   the non-nil node raw_nil4 and counts 4): deepCopy
   returns nil and 0 as the code counts (g_nullsz = None), a fixed z otherwise; the copy is spelled
   with the 4 bytes null.  So for nil the size counted is NOT the length of the spelling. *)
Theorem v4_nil_size g :
  deep_copy4 g NNil = (NNil, match g_nullsz g with Some z => z | None => 0%Z end) /\ marshal4 NNil = B "null".
Proof. split; reflexivity. Qed.

Example v4_nil_counts_zero_spelled_with_four_bytes :
  snd (deep_copy4 (mkOpts4 true 0 None) NNil) = 0%Z /\ zlen (marshal4 (fst (deep_copy4 (mkOpts4 true 0 None) NNil))) = 4%Z.
Proof. vm_compute. split; reflexivity. Qed.

(* ================================================================================================ *)
(* 4. the bytes of the output                                                                         *)
(* ================================================================================================ *)
(* ---- 4a. the invariant: the member names of every Go map of the state are distinct ---- *)
Fixpoint nnd (n : node) : Prop :=
  match n with
  | NDoc _ obj =>
      NoDup (map fst obj) /\
      (fix all (m : list (bytes * node)) : Prop :=
         match m with [] => True | kv :: r => nnd (snd kv) /\ all r end) obj
  | NAry ns =>
      (fix all (l : list node) : Prop := match l with [] => True | x :: r => nnd x /\ all r end) ns
  | _ => True
  end.

Lemma nnd_doc ks obj : nnd (NDoc ks obj) <-> NoDup (map fst obj) /\ Forall (fun kv => nnd (snd kv)) obj.
Proof.
  cbn [nnd]. split; intros [H1 H2]; (split; [exact H1|]); clear H1.
  - induction obj as [|kv obj IH]; constructor; destruct H2; auto.
  - induction obj as [|kv obj IH]; [exact I|]. inversion H2 as [|? ? Ha Hb]; subst. split; [exact Ha | apply IH; exact Hb].
Qed.

Lemma nnd_ary ns : nnd (NAry ns) <-> Forall nnd ns.
Proof.
  cbn [nnd]. split; intro H.
  - induction ns as [|x ns IH]; constructor; destruct H; auto.
  - induction ns as [|x ns IH]; [exact I|]. inversion H as [|? ? Ha Hb]; subst. split; [exact Ha | apply IH; exact Hb].
Qed.

Arguments nnd : simpl never.

Definition cnd (c : con4) : Prop := nnd (node_of_con4 c).
Definition snd4 (st : state4) : Prop := cnd (r4 st).

Lemma cnd_doc obj : cnd (DDoc obj) <-> NoDup (map fst obj) /\ Forall (fun kv => nnd (snd kv)) obj.
Proof. unfold cnd. cbn [node_of_con4]. apply nnd_doc. Qed.
Lemma cnd_ary ns : cnd (DAry ns) <-> Forall nnd ns.
Proof. unfold cnd. cbn [node_of_con4]. apply nnd_ary. Qed.
Lemma cnd_nil : cnd DDocNil.
Proof. unfold cnd. cbn [node_of_con4]. apply nnd_doc. split; constructor. Qed.

Lemma nnd_child t : nnd (child t).
Proof. destruct t; exact I. Qed.

Lemma build_obj_nnd ms : forall acc,
  NoDup (map fst acc) -> Forall (fun kv => nnd (snd kv)) acc ->
  NoDup (map fst (build_obj ms acc)) /\ Forall (fun kv => nnd (snd kv)) (build_obj ms acc).
Proof.
  induction ms as [|[k v] ms IH]; intros acc N F; cbn [build_obj]; [auto|].
  apply IH; [apply NoDup_keys_aset; exact N | apply Forall_aset; [exact F | intro k'; apply nnd_child]].
Qed.

Lemma cnd_obj_of ms : cnd (DDoc (obj_of ms)).
Proof. apply cnd_doc. unfold obj_of. apply build_obj_nnd; constructor. Qed.

Lemma cnd_children l : cnd (DAry (map child l)).
Proof. apply cnd_ary. rewrite Forall_map. apply Forall_forall. intros t _. apply nnd_child. Qed.

Lemma into_con4_nnd n ch : nnd n -> into_con4 n = Some ch -> cnd ch.
Proof.
  intros N H. destruct n as [|t|keys obj|ns]; cbn [into_con4] in H; try discriminate.
  - destruct t; try discriminate; inversion H; subst; [apply cnd_children | apply cnd_obj_of].
  - destruct keys as [|k0 keys]; inversion H; subst; [exact N | apply cnd_nil].
  - inversion H; subst. exact N.
Qed.

Lemma Forall_nth_nnd ns i : Forall nnd ns -> nnd (nth i ns NNil).
Proof.
  intro F. destruct (nth_in_or_default i ns NNil) as [H|H]; [|rewrite H; exact I].
  rewrite Forall_forall in F. apply F. exact H.
Qed.

Lemma con4_get_nnd g c key n : cnd c -> con4_get g c key = Ok n -> nnd n.
Proof.
  intros C H. destruct c as [obj| |ns]; cbn [con4_get] in H.
  - inversion H; subst. destruct (aget key obj) as [v|] eqn:E; [|exact I].
    apply cnd_doc in C as [_ C]. apply aget_In in E. rewrite Forall_forall in C. apply (C _ E).
  - inversion H; subst. exact I.
  - destruct (resolve_idx_get (o5 g) (zlen ns) key) as [i| |]; inversion H; subst.
    apply Forall_nth_nnd. apply cnd_ary. exact C.
Qed.

Lemma con4_put_nnd g c key ch : cnd c -> nnd ch -> cnd (con4_put g c key ch).
Proof.
  intros C Hch. destruct c as [obj| |ns]; cbn [con4_put].
  - apply cnd_doc. apply cnd_doc in C as [C1 C2]. split; [apply NoDup_keys_aset; exact C1 | apply Forall_aset; auto].
  - exact C.
  - destruct (resolve_idx_get (o5 g) (zlen ns) key) as [i| |]; try exact C.
    apply cnd_ary. apply cnd_ary in C. now apply Totality.Forall_set_at.
Qed.

Lemma con4_add_nnd g c key v c' : cnd c -> nnd v -> con4_add g c key v = Ok c' -> cnd c'.
Proof.
  intros C Hv H. destruct c as [obj| |ns]; cbn [con4_add] in H; try discriminate.
  - inversion H; subst. apply cnd_doc. apply cnd_doc in C as [C1 C2].
    split; [apply NoDup_keys_aset; exact C1 | apply Forall_aset; auto].
  - destruct (ary_add (o5 g) ns key v) as [ns'| |] eqn:E; inversion H; subst.
    apply cnd_ary. apply cnd_ary in C. eapply ary_add_Forall; eauto.
Qed.

Lemma con4_set_nnd g c key v c' : cnd c -> nnd v -> con4_set g c key v = Ok c' -> cnd c'.
Proof.
  intros C Hv H. destruct c as [obj| |ns]; cbn [con4_set] in H; try discriminate.
  - inversion H; subst. apply cnd_doc. apply cnd_doc in C as [C1 C2].
    split; [apply NoDup_keys_aset; exact C1 | apply Forall_aset; auto].
  - destruct (ary_set (o5 g) ns key v) as [ns'| |] eqn:E; inversion H; subst.
    apply cnd_ary. apply cnd_ary in C. eapply ary_set_Forall; eauto.
Qed.

Lemma con4_remove_nnd g c key c' : cnd c -> con4_remove g c key = Ok c' -> cnd c'.
Proof.
  intros C H. destruct c as [obj| |ns]; cbn [con4_remove] in H; try discriminate.
  - destruct (amem key obj); inversion H; subst. apply cnd_doc. apply cnd_doc in C as [C1 C2].
    split; [apply NoDup_keys_adel; exact C1 | now apply Forall_adel].
  - destruct (ary_remove (o5 g) ns key) as [ns'| |] eqn:E; inversion H; subst.
    apply cnd_ary. apply cnd_ary in C. eapply ary_remove_Forall; eauto.
Qed.

Lemma walk4_nnd {A} (Q : A -> Prop) g parts : forall c (f : con4 -> A * con4),
  (forall c0, cnd c0 -> Q (fst (f c0)) /\ cnd (snd (f c0))) ->
  cnd c ->
  cnd (snd (walk4 g parts c f)) /\ (forall a, fst (walk4 g parts c f) = Some a -> Q a).
Proof.
  induction parts as [|p rest IH]; intros c f Hf C; cbn [walk4].
  - destruct (Hf c C) as [H1 H2]. destruct (f c) as [a c']. cbn [fst snd] in *. split; auto.
    intros a0 E. inversion E; subst; auto.
  - destruct (con4_get g c (decode_token p)) as [next| |] eqn:G; try (cbn [fst snd]; split; [exact C | discriminate]).
    destruct (into_con4 next) as [ch|] eqn:IC; [|cbn [fst snd]; split; [exact C | discriminate]].
    assert (Cch : cnd ch) by (apply (into_con4_nnd next ch); [exact (con4_get_nnd g c (decode_token p) next C G) | exact IC]).
    destruct (IH ch f Hf Cch) as [H1 H2]. destruct (walk4 g rest ch f) as [r ch']. cbn [fst snd] in *. split; auto.
    apply con4_put_nnd; auto.
Qed.

Lemma find4_nnd {A} (Q : A -> Prop) g c path (f : con4 -> bytes -> A * con4) :
  (forall c0 key, cnd c0 -> Q (fst (f c0 key)) /\ cnd (snd (f c0 key))) ->
  cnd c ->
  cnd (snd (find4 g c path f)) /\ (forall a, fst (find4 g c path f) = Some a -> Q a).
Proof.
  intros Hf C. unfold find4. destruct (split_path path) as [[parts key]|].
  - apply (walk4_nnd Q g parts c (fun c' => f c' key) (fun c0 => Hf c0 key) C).
  - cbn [fst snd]. split; [exact C | discriminate].
Qed.

Lemma upd_nnd {A} (r : res con4) c (a : A) :
  cnd c -> (forall c', r = Ok c' -> cnd c') -> cnd (snd (upd r c a)).
Proof. intros C H. destruct r as [c'| |]; cbn [upd snd]; auto. Qed.

Lemma add_fn4_nnd g v c0 key : nnd v -> cnd c0 -> cnd (snd (add_fn4 g v c0 key)).
Proof. intros Hv C. unfold add_fn4. apply upd_nnd; [exact C|]. intros c' E. exact (con4_add_nnd g c0 key v c' C Hv E). Qed.

Lemma remove_fn4_nnd g c0 key : cnd c0 -> cnd (snd (remove_fn4 g c0 key)).
Proof. intros C. unfold remove_fn4. apply upd_nnd; [exact C|]. intros c' E. exact (con4_remove_nnd g c0 key c' C E). Qed.

Lemma replace_fn4_nnd g v c0 key : nnd v -> cnd c0 -> cnd (snd (replace_fn4 g v c0 key)).
Proof.
  intros Hv C. unfold replace_fn4. destruct (con4_get g c0 key) as [x|e|]; try exact C.
  apply upd_nnd; [exact C|]. intros c' E. exact (con4_set_nnd g c0 key v c' C Hv E).
Qed.

Lemma move_src_fn4_nnd g c0 key :
  cnd c0 -> (forall v, fst (move_src_fn4 g c0 key) = Ok v -> nnd v) /\ cnd (snd (move_src_fn4 g c0 key)).
Proof.
  intros C. unfold move_src_fn4. destruct (con4_get g c0 key) as [x|e|] eqn:G; try (split; [discriminate | exact C]).
  pose proof (con4_get_nnd g c0 key x C G) as Hx.
  destruct (con4_remove g c0 key) as [c'|e|] eqn:E; cbn [upd fst snd]; try (split; [discriminate | exact C]).
  split; [intros v Ev; inversion Ev; subst; exact Hx | exact (con4_remove_nnd g c0 key c' C E)].
Qed.

Lemma get_fn4_nnd g c0 key :
  cnd c0 -> (forall v, fst (get_fn4 g c0 key) = Ok v -> nnd v) /\ cnd (snd (get_fn4 g c0 key)).
Proof. intros C. unfold get_fn4. cbn [fst snd]. split; [|exact C]. intros v E. exact (con4_get_nnd g c0 key v C E). Qed.

Lemma test_fn4_nnd g op c0 key : cnd c0 -> cnd (snd (test_fn4 g op c0 key)).
Proof.
  intros C. unfold test_fn4. destruct (con4_get g c0 key) as [x|e|]; try exact C.
  destruct (is_null4 x); [exact C|]. destruct (op_value4 op); exact C.
Qed.

Lemma opv4_nnd op : nnd (opv4 op).
Proof. unfold opv4, op_value4. destruct (aget (B "value") op) as [[t|]|]; exact I. Qed.

Lemma deep_copy4_nnd g v : nnd (fst (deep_copy4 g v)).
Proof.
  destruct (deep_copy4_cases g v) as [E|[E|E]]; rewrite E; try exact I.
  apply nnd_doc. split; constructor.
Qed.

(* the source a copy hands to deepCopy was read from a document with the invariant *)
Lemma copy_reach4_nnd g st op v c2 path : snd4 st -> copy_reach4 g st op = Some (v, c2, path) -> cnd c2.
Proof.
  intros HS R. unfold snd4 in HS. unfold copy_reach4 in R. destruct (op_str op (B "from")) as [from| |]; try discriminate.
  destruct (find4_nnd (fun _ : res node => True) g (r4 st) from (get_fn4 g)) as [C1 _];
    [intros c0 key C0; split; [exact I | exact C0] | exact HS |].
  destruct (find4 g (r4 st) from (get_fn4 g)) as [[[v0|e|]|] c1]; cbn [fst snd] in *; try discriminate.
  destruct (op_str op (B "path")) as [path'| |]; try discriminate.
  destruct (find4_nnd (fun _ : unit => True) g c1 path' unit_fn4) as [C2 _];
    [intros c0 key C0; split; [exact I | exact C0] | exact C1 |].
  destruct (find4 g c1 path' unit_fn4) as [[u'|] c2']; cbn [fst snd] in *; try discriminate.
  destruct (find4 g c2' from (get_fn4 g)) as [[[v'|e|]|] c3]; try discriminate.
  inversion R; subst. exact C2.
Qed.

(* the invariant is kept by every operation, whatever its members, paths and the package variables *)
Theorem step4_nnd g st op st' : snd4 st -> step4 g st op = Ok st' -> snd4 st'.
Proof.
  intros HS. unfold snd4 in *. pose proof (opv4_nnd op) as Hv. destruct (op_kind op) eqn:K.
  - rewrite (step4_add g st op K). destruct (op_str op (B "path")) as [path| |]; try discriminate.
    intro H. unfold keep_acc in H. rewrite (lift4_state _ _ _ _ H).
    apply (find4_nnd (fun _ => True) g (r4 st) path (add_fn4 g (opv4 op))); [|exact HS].
    intros c0 key C0. split; [exact I | apply add_fn4_nnd; assumption].
  - rewrite (step4_remove g st op K). destruct (op_str op (B "path")) as [path| |]; try discriminate.
    intro H. unfold keep_acc in H. rewrite (lift4_state _ _ _ _ H).
    apply (find4_nnd (fun _ => True) g (r4 st) path (remove_fn4 g)); [|exact HS].
    intros c0 key C0. split; [exact I | apply remove_fn4_nnd; assumption].
  - rewrite (step4_replace g st op K). destruct (op_str op (B "path")) as [[|b path]| |]; try discriminate.
    + destruct (op_value4 op) as [[|t|ks obj|ns]|]; try discriminate.
      destruct t; try discriminate; intro H; inversion H; subst; cbn [r4]; [apply cnd_children | apply cnd_obj_of].
    + intro H. unfold keep_acc in H. rewrite (lift4_state _ _ _ _ H).
      apply (find4_nnd (fun _ => True) g (r4 st) (b :: path) (replace_fn4 g (opv4 op))); [|exact HS].
      intros c0 key C0. split; [exact I | apply replace_fn4_nnd; assumption].
  - rewrite (step4_move g st op K). destruct (op_str op (B "from")) as [from| |]; try discriminate.
    destruct (find4_nnd (fun r : res node => forall v, r = Ok v -> nnd v) g (r4 st) from (move_src_fn4 g)) as [C1 Q1];
      [intros c0 key C0; apply move_src_fn4_nnd; exact C0 | exact HS |].
    destruct (find4 g (r4 st) from (move_src_fn4 g)) as [[[v|e|]|] c1]; cbn [lift4 fst snd] in *; try discriminate.
    pose proof (Q1 (Ok v) eq_refl v eq_refl) as Hmv.
    destruct (op_str op (B "path")) as [path| |]; try discriminate.
    intro H. unfold keep_acc in H. rewrite (lift4_state _ _ _ _ H).
    apply (find4_nnd (fun _ => True) g c1 path (add_fn4 g v)); [|exact C1].
    intros c0 key C0. split; [exact I | apply add_fn4_nnd; assumption].
  - intro H. destruct (v4_copy_counts g st op st' K H) as [v [c2 [path [u [R [_ [_ F]]]]]]].
    pose proof (copy_reach4_nnd g st op v c2 path HS R) as C2.
    destruct (find4_nnd (fun _ : res unit => True) g c2 path (add_fn4 g (fst (deep_copy4 g v)))) as [C3 _];
      [intros c0 key C0; split; [exact I | apply add_fn4_nnd; [apply deep_copy4_nnd | exact C0]] | exact C2 |].
    rewrite F in C3. exact C3.
  - rewrite (step4_test g st op K). destruct (op_str op (B "path")) as [[|b path]| |]; try discriminate.
    + destruct (node_equal4 _ _ && _)%bool; [|discriminate]. intro H; inversion H; subst. exact HS.
    + intro H. unfold keep_acc in H. rewrite (lift4_state _ _ _ _ H).
      apply (find4_nnd (fun _ => True) g (r4 st) (b :: path) (test_fn4 g op)); [|exact HS].
      intros c0 key C0. split; [exact I | apply test_fn4_nnd; assumption].
  - rewrite (step4_unknown g st op K). discriminate.
Qed.

Theorem apply4_from_nnd g : forall p i st st' j, snd4 st -> apply4_from g i st p = (Ok st', j) -> snd4 st'.
Proof.
  induction p as [|op p IH]; intros i st st' j Hs; cbn [apply4_from].
  - intro H; inversion H; subst; exact Hs.
  - destruct (step4 g st op) as [st1|e|] eqn:E; try discriminate.
    apply (IH (S i) st1 st' j (step4_nnd g st op st1 Hs E)).
Qed.

(* every document Apply starts from has it *)
Lemma start4_nnd t c : start4 t = Some c -> cnd c.
Proof.
  destruct t; cbn [start4]; try discriminate; intro H; inversion H; subst;
    [apply cnd_nil | apply cnd_children | apply cnd_obj_of].
Qed.

(* ---- 4b. what render4 shows of a node: every member of a map with distinct names, every element ---- *)
Definition nchild4 (sub n : node) : Prop :=
  match n with
  | NDoc [] obj => NoDup (map fst obj) /\ exists k, In (k, sub) obj   (* a live map; the tagged nodes are written as null *)
  | NAry ns => In sub ns
  | _ => False
  end.

Inductive subnode4 (sub : node) : node -> Prop :=
| subnode4_refl : subnode4 sub sub
| subnode4_step m n : nchild4 m n -> subnode4 sub m -> subnode4 sub n.

Lemma subnode4_child sub n : nchild4 sub n -> subnode4 sub n.
Proof. intro H. eapply subnode4_step; [exact H | apply subnode4_refl]. Qed.

Lemma subnode4_trans a b c : subnode4 a b -> subnode4 b c -> subnode4 a c.
Proof. intros H1 H2. induction H2 as [|m t Hc Hd IH]; [exact H1|]. eapply subnode4_step; eauto. Qed.

(* sorting the members by name loses none of them when the names are distinct *)
Lemma render4_child sub n : nchild4 sub n -> tchild (render4 sub) (render4 n).
Proof.
  destruct n as [|t|keys obj|ns]; cbn [nchild4]; try contradiction.
  - destruct keys as [|k0 keys]; [|contradiction]. intros [N [k Hk]]. rewrite render4_doc. cbn [tchild]. exists (quote true k).
    apply (in_map (fun kv : bytes * tjson => (quote true (fst kv), snd kv)) _ (k, render4 sub)).
    assert (P : Permutation (sort4 (msnd render4 obj)) (msnd render4 obj))
      by (apply sort4_perm; rewrite msnd_keys; exact N).
    apply (Permutation_in _ (Permutation_sym P)).
    apply (in_map (fun kv : bytes * node => (fst kv, render4 (snd kv))) obj (k, sub)). exact Hk.
  - intro H. cbn [render4 tchild]. apply in_map. exact H.
Qed.

Theorem render4_desc sub n : subnode4 sub n -> tdesc (render4 sub) (render4 n).
Proof.
  induction 1 as [|m n Hc Hd IH]; [apply tdesc_refl|].
  eapply tdesc_step; [apply render4_child; exact Hc | exact IH].
Qed.

(* descendant => substring: what the legacy encoder writes for a node contains, as a contiguous
   part, what it writes for every node in it *)
Theorem subnode4_output cp root : subnode4 cp root -> infix (marshal4 cp) (marshal4 root).
Proof. intro H. unfold marshal4. apply print_desc. apply render4_desc. exact H. Qed.

(* ---- 4c. the node a copy adds is in the document afterwards ---- *)
Lemma In_aset_same {A} k (v : A) m : In (k, v) (aset k v m).
Proof. apply aget_In. apply aget_aset_same. Qed.

Lemma con4_add_child g c key v c' : cnd c -> con4_add g c key v = Ok c' -> nchild4 v (node_of_con4 c').
Proof.
  intros C H. destruct c as [obj| |ns]; cbn [con4_add] in H; try discriminate.
  - inversion H; subst. cbn [node_of_con4 nchild4]. apply cnd_doc in C as [C1 _].
    split; [apply NoDup_keys_aset; exact C1 | exists key; apply In_aset_same].
  - destruct (ary_add (o5 g) ns key v) as [ns'| |] eqn:E; inversion H; subst.
    cbn [node_of_con4 nchild4]. eapply ary_add_In; eauto.
Qed.

(* putting a container back where a get found a node that could be entered makes it a visible member
   (no condition on the token: the legacy get has no special case for the empty name) *)
Lemma con4_put_child g c key x ch0 ch :
  cnd c -> con4_get g c key = Ok x -> into_con4 x = Some ch0 -> nchild4 ch (node_of_con4 (con4_put g c key ch)).
Proof.
  intros C G IC. destruct c as [obj| |ns]; cbn [con4_get con4_put] in *.
  - cbn [node_of_con4 nchild4]. apply cnd_doc in C as [C1 _].
    split; [apply NoDup_keys_aset; exact C1 | exists key; apply In_aset_same].
  - inversion G; subst. discriminate.
  - destruct (resolve_idx_get (o5 g) (zlen ns) key) as [i| |]; try discriminate.
    cbn [node_of_con4 nchild4]. apply in_or_app. right. left. reflexivity.
Qed.

Lemma walk4_add_subnode g v key parts : forall c u c3,
  cnd c -> walk4 g parts c (fun c' => add_fn4 g v c' key) = (Some (Ok u), c3) ->
  subnode4 v (node_of_con4 c3).
Proof.
  induction parts as [|p rest IH]; intros c u c3 C; cbn [walk4].
  - unfold add_fn4. destruct (con4_add g c key v) as [c''| |] eqn:E; cbn [upd]; intro H; inversion H; subst.
    apply subnode4_child. eapply con4_add_child; eauto.
  - destruct (con4_get g c (decode_token p)) as [next| |] eqn:G; try discriminate.
    destruct (into_con4 next) as [ch|] eqn:IC; [|discriminate].
    assert (Cch : cnd ch) by (eapply into_con4_nnd; [eapply con4_get_nnd; eauto | exact IC]).
    destruct (walk4 g rest ch (fun c' => add_fn4 g v c' key)) as [r' ch'] eqn:W.
    intro H; inversion H; subst.
    eapply subnode4_step; [eapply con4_put_child; eauto|].
    eapply IH; eauto.
Qed.

Lemma find4_add_subnode g c path v u c3 :
  cnd c -> find4 g c path (add_fn4 g v) = (Some (Ok u), c3) -> subnode4 v (node_of_con4 c3).
Proof.
  intros C. unfold find4. destruct (split_path path) as [[parts key]|]; [|discriminate].
  apply walk4_add_subnode. exact C.
Qed.

(* the text Apply writes for a document that holds a node of kind raw or nil below its root *)
(* the root document null is the nil map nil_doc4, written as null: the tree of every container is
   the rendering of its node (the former side condition, the copy is no NDoc, is gone: a copy of a
   non-nil null IS the tagged NDoc raw_null4) *)
Lemma tree4_render4 c : tree4 c = render4 (node_of_con4 c).
Proof. destruct c; reflexivity. Qed.

Lemma subnode4_tree4 cp c : subnode4 cp (node_of_con4 c) -> tree4 c = render4 (node_of_con4 c).
Proof. intros _. apply tree4_render4. Qed.

(* deepCopy returns the nil node, a raw message, or the raw text null raw_null4 *)
Lemma deep_copy4_not_live_doc g v obj : fst (deep_copy4 g v) <> NDoc [] obj.
Proof. destruct (deep_copy4_cases g v) as [E|[E|E]]; rewrite E; discriminate. Qed.

(* one successful copy: the source value v it read, the node cp deepCopy made of it and its size sz;
   sz is what the counter grew by, cp is in the tree of the new state, spelled as the source, its
   spelling is a contiguous part of the compact text of the new document, and (unless v is nil) sz
   is the length of that spelling *)
Theorem v4_copy_step_spelling g st op st' :
  snd4 st -> op_kind op = KCopy -> step4 g st op = Ok st' ->
  exists v cp sz,
    copy_src4 g st op = Some v /\ deep_copy4 g v = (cp, sz) /\ acc4 st' = (acc4 st + sz)%Z /\
    marshal4 cp = marshal4 v /\
    subnode4 cp (node_of_con4 (r4 st')) /\
    infix (marshal4 cp) (output4 [] (tree4 (r4 st'))) /\
    (v <> NNil -> sz = zlen (marshal4 cp)).
Proof.
  intros HS K H. destruct (v4_copy_counts g st op st' K H) as [v [c2 [path [u [R [A [_ F]]]]]]].
  pose proof (copy_reach4_nnd g st op v c2 path HS R) as C2.
  pose proof (find4_add_subnode g c2 path _ u (r4 st') C2 F) as Sub.
  exists v, (fst (deep_copy4 g v)), (snd (deep_copy4 g v)).
  split; [unfold copy_src4; rewrite R; reflexivity|].
  split; [destruct (deep_copy4 g v); reflexivity|]. split; [exact A|].
  split; [apply v4_copy_spelled_as_source|]. split; [exact Sub|]. split.
  - cbn [output4]. rewrite (subnode4_tree4 _ (r4 st') Sub).
    apply (subnode4_output _ _ Sub).
  - intro N. apply (proj2 (v4_counted_size_is_spelling_length g v N)).
Qed.

(* a later state: as long as the node is still in the tree its spelling is in the compact output *)
Corollary v4_copied_node_in_output cp c :
  subnode4 cp (node_of_con4 c) ->
  infix (marshal4 cp) (output4 [] (tree4 c)).
Proof. intros Sub. cbn [output4]. rewrite (subnode4_tree4 cp c Sub). apply (subnode4_output _ _ Sub). Qed.

(* the copy at position length p1 of a patch that Apply runs to the end on a parsed document: what it
   adds to the counter is the length of the spelling of the node it stores (nil apart), that spelling is
   in the compact text of the document right after it, and, if the node is still in the tree at the
   end, in the bytes Apply returns (no indent) *)
Theorem v4_copy_in_patch_output g p1 op p2 st0 stf j :
  snd4 st0 -> op_kind op = KCopy ->
  apply4_from g 0 st0 (p1 ++ op :: p2) = (Ok stf, j) ->
  exists st1 st2 v cp sz,
    apply4_from g 0 st0 p1 = (Ok st1, length p1) /\ step4 g st1 op = Ok st2 /\
    apply4_from g (S (length p1)) st2 p2 = (Ok stf, j) /\
    copy_src4 g st1 op = Some v /\ deep_copy4 g v = (cp, sz) /\ acc4 st2 = (acc4 st1 + sz)%Z /\
    marshal4 cp = marshal4 v /\ (v <> NNil -> sz = zlen (marshal4 cp)) /\
    infix (marshal4 cp) (output4 [] (tree4 (r4 st2))) /\
    (subnode4 cp (node_of_con4 (r4 stf)) -> infix (marshal4 cp) (output4 [] (tree4 (r4 stf)))).
Proof.
  intros HS K H. rewrite apply4_from_app in H.
  destruct (apply4_from g 0 st0 p1) as [[st1|e|] j1] eqn:A1; try discriminate.
  pose proof (apply4_from_ok_index g p1 0%nat st0 st1 j1 A1) as Ej. cbn [Nat.add] in Ej. subst j1.
  cbn [apply4_from] in H. destruct (step4 g st1 op) as [st2|e|] eqn:St; try discriminate.
  pose proof (apply4_from_nnd g p1 0%nat st0 st1 _ HS A1) as S1.
  destruct (v4_copy_step_spelling g st1 op st2 S1 K St) as [v [cp [sz [Sv [D [A [Sp [Sub [Inf Z]]]]]]]]].
  exists st1, st2, v, cp, sz. repeat (split; [assumption || reflexivity|]).
  intro Sf. apply v4_copied_node_in_output. exact Sf.
Qed.

(* the copy is the last operation of a patch applied to a parsed document: the bytes Apply returns
   contain the copy's spelling and its length is what the copy added to the counter *)
Theorem v4_copy_last_output g p1 op doc t c out :
  parse doc = Some t -> start4 t = Some c -> op_kind op = KCopy ->
  api_apply4 g [] (p1 ++ [op]) doc = Out4 out ->
  exists st1 st2 v cp sz,
    apply4_from g 0 (mkState4 c 0) p1 = (Ok st1, length p1) /\ step4 g st1 op = Ok st2 /\
    copy_src4 g st1 op = Some v /\ deep_copy4 g v = (cp, sz) /\ acc4 st2 = (acc4 st1 + sz)%Z /\
    marshal4 cp = marshal4 v /\ (v <> NNil -> sz = zlen (marshal4 cp)) /\
    infix (marshal4 cp) out.
Proof.
  intros Pd St K H. apply (api_apply4_out g [] (p1 ++ [op]) doc t out Pd) in H as [tr [R ->]].
  unfold result4_tree in R. rewrite St in R.
  destruct (apply4_from g 0 (mkState4 c 0) (p1 ++ [op])) as [[stf|e|] j] eqn:A; try discriminate.
  inversion R; subst tr. clear R.
  destruct (v4_copy_in_patch_output g p1 op [] (mkState4 c 0) stf j (start4_nnd t c St) K A)
    as [st1 [st2 [v [cp [sz [A1 [A2 [A3 [Sv [D [Ac [Sp [Z [Inf _]]]]]]]]]]]]]].
  cbn [apply4_from] in A3. inversion A3; subst.
  exists st1, stf, v, cp, sz. repeat (split; [assumption|]). exact Inf.
Qed.

(* indented output: the codec's Compact of it (HTML escaping on) is the compact text, in which the
   copy's spelling is found *)
Theorem v4_compact_of_indented ind t :
  wsb ind = true -> twf t -> compact_go true (pp true ind 0 t) = Some (print true t).
Proof. apply compact_of_indented. Qed.

(* ================================================================================================ *)
(* 5. non-vacuity                                                                                     *)
(* ================================================================================================ *)
(* {"a":"<x>"}, copy /a to /b, copy /a to /c.  The legacy encoder always escapes HTML: the value is
   spelled with 15 bytes, each copy counts 15. *)
Definition v4_ex_doc := B "{""a"":""<x>""}".
Definition v4_ex_patch := B "[{""op"":""copy"",""from"":""/a"",""path"":""/b""},{""op"":""copy"",""from"":""/a"",""path"":""/c""}]".
Definition v4_ex_p : list operation := match api_decode4 v4_ex_patch with Some p => p | None => [] end.
Definition v4_ex_g (l : Z) : opts4 := mkOpts4 true l None.
Definition v4_ex_c : con4 := match parse v4_ex_doc with
                             | Some t => match start4 t with Some c => c | None => DDocNil end
                             | None => DDocNil end.
Definition v4_ex_sp : bytes := marshal4 (NRaw (TStr (B "<x>"))).

Example v4_ex_decodes : exists op1 op2, api_decode4 v4_ex_patch = Some [op1; op2] /\ op_kind op1 = KCopy /\ op_kind op2 = KCopy.
Proof. eexists. eexists. split; [vm_compute; reflexivity|]. split; vm_compute; reflexivity. Qed.

(* (7) a limit strictly between the total after the first copy (15) and after the second (30): the
   error at the second copy, with the limit and the total; just below the first size: at the first
   copy; at the total, 0 and a negative limit: the document, with the three spellings *)
Example v4_nonvacuous :
  zlen v4_ex_sp = 15%Z /\
  api_apply4 (v4_ex_g 20) [] v4_ex_p v4_ex_doc = Err4 (Some 1%nat) (ECopyLimit 20 30) /\
  api_apply4 (v4_ex_g 29) [] v4_ex_p v4_ex_doc = Err4 (Some 1%nat) (ECopyLimit 29 30) /\
  api_apply4 (v4_ex_g 14) [] v4_ex_p v4_ex_doc = Err4 (Some 0%nat) (ECopyLimit 14 15) /\
  (let out := B "{""a"":" ++ v4_ex_sp ++ B ",""b"":" ++ v4_ex_sp ++ B ",""c"":" ++ v4_ex_sp ++ B "}" in
   api_apply4 (v4_ex_g 30) [] v4_ex_p v4_ex_doc = Out4 out /\
   api_apply4 (v4_ex_g 0) [] v4_ex_p v4_ex_doc = Out4 out /\
   api_apply4 (v4_ex_g (-5)) [] v4_ex_p v4_ex_doc = Out4 out).
Proof. vm_compute. repeat split; reflexivity. Qed.

(* the same with ApplyIndent: the limit error does not depend on the indent *)
Example v4_nonvacuous_indent :
  api_apply4 (v4_ex_g 20) (B "  ") v4_ex_p v4_ex_doc = Err4 (Some 1%nat) (ECopyLimit 20 30) /\
  exists out, api_apply4 (v4_ex_g 0) (B "  ") v4_ex_p v4_ex_doc = Out4 out.
Proof. vm_compute. split; [reflexivity | eexists; reflexivity]. Qed.

(* a member still held as a raw message ({"b":1, "a":[1, 2]} under /o) is re-encoded compact with its
   members in the order written: 17 bytes counted, and those 17 bytes appear in the output *)
Example v4_nonvacuous_raw_object :
  match api_decode4 (B "[{""op"":""copy"",""from"":""/o"",""path"":""/p""}]") with
  | Some p =>
      api_apply4 (v4_ex_g 1) [] p (B "{""o"":{""b"":1, ""a"":[1, 2]}}") = Err4 (Some 0%nat) (ECopyLimit 1 17) /\
      api_apply4 (v4_ex_g 0) [] p (B "{""o"":{""b"":1, ""a"":[1, 2]}}") =
        Out4 (B "{""o"":{""b"":1,""a"":[1,2]},""p"":{""b"":1,""a"":[1,2]}}")
  | None => False
  end.
Proof. vm_compute. split; reflexivity. Qed.

(* once an add has gone below /o the member is a decoded Go map: the copy re-encodes it with the
   member names sorted: 23 bytes {"a":[1,2],"b":1,"c":2} counted, and those bytes appear in the output *)
Example v4_nonvacuous_sorted_object :
  match api_decode4 (B "[{""op"":""add"",""path"":""/o/c"",""value"":2},{""op"":""copy"",""from"":""/o"",""path"":""/p""}]") with
  | Some p =>
      api_apply4 (v4_ex_g 1) [] p (B "{""o"":{""b"":1, ""a"":[1, 2]}}") = Err4 (Some 1%nat) (ECopyLimit 1 23) /\
      api_apply4 (v4_ex_g 0) [] p (B "{""o"":{""b"":1, ""a"":[1, 2]}}") =
        Out4 (B "{""o"":{""a"":[1,2],""b"":1,""c"":2},""p"":{""a"":[1,2],""b"":1,""c"":2}}")
  | None => False
  end.
Proof. vm_compute. split; reflexivity. Qed.

(* a copy of an absent member copies nil: it counts 0 (a limit of 1 lets it pass) and is written null *)
Example v4_nonvacuous_nil :
  match api_decode4 (B "[{""op"":""copy"",""from"":""/zz"",""path"":""/b""}]") with
  | Some p => api_apply4 (v4_ex_g 1) [] p (B "{""a"":1}") = Out4 (B "{""a"":1,""b"":null}")
  | None => False
  end.
Proof. vm_compute. reflexivity. Qed.

(* ---- the theorems applied to the example ---- *)
Example v4_main_theorems_apply :
  (* (1) under limit 20 the run stops at index 1; the theorem gives the copy, the limit and the total *)
  (exists op st1 v, nth_error v4_ex_p 1 = Some op /\ op_kind op = KCopy /\
                    apply4_from (v4_ex_g 20) 0 (mkState4 v4_ex_c 0) (firstn 1 v4_ex_p) = (Ok st1, 1%nat) /\
                    copy_src4 (v4_ex_g 20) st1 op = Some v /\
                    30%Z = (acc4 st1 + snd (deep_copy4 (v4_ex_g 20) v))%Z) /\
  (* (6) and the api returns the error, no document *)
  (api_apply4 (v4_ex_g 20) [] v4_ex_p v4_ex_doc = Err4 (Some 1%nat) (ECopyLimit 20 30) /\
   forall out, api_apply4 (v4_ex_g 20) [] v4_ex_p v4_ex_doc <> Out4 out) /\
  (* (4) under limit 30 the run ends and the counter, the sum of the sizes, is within the limit *)
  (exists st' j, apply4_from (v4_ex_g 30) 0 (mkState4 v4_ex_c 0) v4_ex_p = (Ok st', j) /\
                 acc4 st' = sizes4 (v4_ex_g 30) (mkState4 v4_ex_c 0) v4_ex_p /\ (acc4 st' <= 30)%Z) /\
  (* (2) under limit 0 no limit error *)
  (forall k l a, apply4_from (v4_ex_g 0) 0 (mkState4 v4_ex_c 0) v4_ex_p <> (Err (ECopyLimit l a), k)).
Proof.
  assert (E : apply4_from (v4_ex_g 20) 0 (mkState4 v4_ex_c 0) v4_ex_p = (Err (ECopyLimit 20 30), 1%nat))
    by (vm_compute; reflexivity).
  split; [|split; [|split]].
  - destruct (v4_limit_error_only_when_exceeded (v4_ex_g 20) v4_ex_p (mkState4 v4_ex_c 0) 1%nat 20%Z 30%Z E)
      as [op [H1 [H2 [_ [_ [_ [st1 [v [H3 [H4 H5]]]]]]]]]].
    exists op, st1, v. auto.
  - apply (v4_api_limit_no_output (v4_ex_g 20) [] v4_ex_p v4_ex_doc
             (match parse v4_ex_doc with Some t => t | None => TNull end) v4_ex_c 1%nat 20%Z 30%Z);
      [discriminate | vm_compute; reflexivity | vm_compute; reflexivity | exact E].
  - destruct (apply4_from (v4_ex_g 30) 0 (mkState4 v4_ex_c 0) v4_ex_p) as [[st'|e|] j] eqn:A;
      [|vm_compute in A; discriminate A|vm_compute in A; discriminate A].
    exists st', j. split; [reflexivity|]. split.
    + rewrite (v4_total_is_sum (v4_ex_g 30) v4_ex_p 0%nat (mkState4 v4_ex_c 0) st' j A). reflexivity.
    + apply (v4_total_within_limit (v4_ex_g 30) v4_ex_p 0%nat (mkState4 v4_ex_c 0) st' j A); [reflexivity | vm_compute; discriminate].
  - intros k l a. apply v4_zero_disables. vm_compute. discriminate.
Qed.

(* (5) on the example: the copy that ends the one-copy patch adds 15, the length of the spelling that
   appears in the bytes returned *)
Example v4_spelling_nonvacuous :
  exists out st1 st2 v cp,
    api_apply4 (v4_ex_g 0) [] (firstn 1 v4_ex_p) v4_ex_doc = Out4 out /\
    step4 (v4_ex_g 0) st1 (nth 0 v4_ex_p []) = Ok st2 /\
    copy_src4 (v4_ex_g 0) st1 (nth 0 v4_ex_p []) = Some v /\ v <> NNil /\
    deep_copy4 (v4_ex_g 0) v = (cp, 15%Z) /\ acc4 st2 = (acc4 st1 + 15)%Z /\
    marshal4 cp = v4_ex_sp /\ zlen (marshal4 cp) = 15%Z /\ infix (marshal4 cp) out.
Proof.
  destruct (api_apply4 (v4_ex_g 0) [] (firstn 1 v4_ex_p) v4_ex_doc) as [out| |] eqn:A;
    [|vm_compute in A; discriminate A|vm_compute in A; discriminate A].
  assert (K : op_kind (nth 0 v4_ex_p []) = KCopy) by (vm_compute; reflexivity).
  assert (Pd : parse v4_ex_doc = Some (match parse v4_ex_doc with Some t => t | None => TNull end)) by (vm_compute; reflexivity).
  assert (St : start4 (match parse v4_ex_doc with Some t => t | None => TNull end) = Some v4_ex_c) by (vm_compute; reflexivity).
  change (firstn 1 v4_ex_p) with ([] ++ [nth 0 v4_ex_p []]) in A.
  destruct (v4_copy_last_output (v4_ex_g 0) [] (nth 0 v4_ex_p []) v4_ex_doc _ v4_ex_c out Pd St K A)
    as [st1 [st2 [v [cp [sz [A1 [A2 [Sv [D [Ac [Sp [Z Inf]]]]]]]]]]]].
  cbn [apply4_from length] in A1. inversion A1; subst st1.
  assert (Ev : v = NRaw (TStr (B "<x>"))) by (vm_compute in Sv; inversion Sv; reflexivity).
  subst v. assert (Nn : NRaw (TStr (B "<x>")) <> NNil) by discriminate.
  assert (Esz : sz = 15%Z) by (vm_compute in D; inversion D; reflexivity). subst sz.
  exists out, (mkState4 v4_ex_c 0), st2, (NRaw (TStr (B "<x>"))), cp.
  repeat (split; [assumption || reflexivity || exact Sp || (symmetry; apply Z; exact Nn)|]). exact Inf.
Qed.

(* ================================================================================================ *)
Print Assumptions step4_limit_iff.
Print Assumptions v4_limit_error_iff.
Print Assumptions v4_limit_error_only_when_exceeded.
Print Assumptions v4_zero_disables.
Print Assumptions v4_api_zero_disables.
Print Assumptions v4_others_do_not_count.
Print Assumptions v4_copy_counts.
Print Assumptions step4_acc.
Print Assumptions v4_total_is_sum.
Print Assumptions v4_total_within_limit.
Print Assumptions v4_api_within_limit.
Print Assumptions v4_limit_stops_with_no_document.
Print Assumptions v4_api_limit_no_output.
Print Assumptions v4_api_limit_error.
Print Assumptions v4_counted_size_is_spelling_length.
Print Assumptions v4_copy_spelled_as_source.
Print Assumptions v4_nil_size.
Print Assumptions step4_nnd.
Print Assumptions apply4_from_nnd.
Print Assumptions subnode4_output.
Print Assumptions v4_copy_step_spelling.
Print Assumptions v4_copy_in_patch_output.
Print Assumptions v4_copy_last_output.
Print Assumptions v4_compact_of_indented.
Print Assumptions v4_nonvacuous.
Print Assumptions v4_main_theorems_apply.
Print Assumptions v4_spelling_nonvacuous.
