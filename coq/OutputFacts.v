(* OutputFacts.v — the output BYTES of the model's entry points are well-formed JSON texts that the
   independent reader Text.parse reads back as the intended value (C15, C02, C07, C17, C19).

   ntok n    : every raw message stored in the node n is a tree whose string bodies are bodies the
               reader accepts and whose number literals are complete RFC 8259 numbers
               (PrintParse.tok).  Nothing is required of member names: the encoder writes a body the
               reader accepts for EVERY Go string (sbody_quote_any; invalid UTF-8 becomes U+FFFD).
   The invariant holds of every parsed document and of every value of a decoded patch, and is kept
   by every operation of the v5 patch engine for ARBITRARY operations, paths and options
   (step_ntok, apply_from_ntok: a separate invariant in the style of Totality.v, generic in the
   predicate on raw messages: Section RawInv).
   The nesting depth of Apply's result is a hypothesis of its output theorems (a copy / add can nest
   the result deeper than the reader accepts: ex_result_too_deep); it holds when the patch is empty.
   MergePatch / MergeMergePatches / CreateMergePatch (v5) and the legacy MergePatch /
   MergeMergePatches need no such hypothesis: a second invariant indexed by the nesting still
   allowed (Section MergeInv: nlv) is kept by pruneNulls and merge, so the result is nested no
   deeper than the deeper input.

   sections:  1 Json.tdepth = Text.tdepth          2 sbody (quote esc s) for every s
              3 escaping, either setting            4 Section RawInv (nall, walk_all, find_all, step_all)
              5 ntok, tok_render, api_decode_tok    6 Apply: result_tree, api_apply_output_general
              7 Apply in the simulation's domain: api_apply_output_sim
              8 Section MergeInv, api_merge_output(_general), api_mergemerge_output
              9 CreateMergePatch: api_create_output(_general)      10 concrete checks
             11 legacy merge: api_merge4_output_general, api_merge4_output_bytes, api_mergemerge4_output_bytes
             12 Compact / Indent of the codec: compact_output_value, indent_output_value *)
From Coq Require Import Lia.
From JP Require Import Bytes Json Text Strings Den Pointer Rfc6902 ImplV5 DecodeFacts JsonFacts Abs EqualFacts ParseFacts
                       ImplFacts RefFacts ApplyFacts Codec StrInv PrintParse Depth ApplySim Totality.

(* ================================================================================================ *)
(* 1. the two depth functions agree                                                                  *)
(* ================================================================================================ *)
Lemma maxd_fold {A} (f : A -> N) l : maxd f l = fold_right (fun x a => N.max (f x) a) 0%N l.
Proof. reflexivity. Qed.

Theorem tdepth_eq t : Json.tdepth t = Text.tdepth t.
Proof. induction t using tjson_rect'; reflexivity. Qed.

Lemma twf_text t : twf t <-> tok t /\ (Text.tdepth t <= max_depth)%N.
Proof. unfold twf. now rewrite tdepth_eq. Qed.

(* ================================================================================================ *)
(* 2. the encoder writes a string body the reader accepts, for every Go string                       *)
(* ================================================================================================ *)
Lemma quote_invalid esc c r : (bn c <? 128) = false -> utf8_len (c :: r) = 0%nat ->
  quote esc (c :: r) = [x5c; x75; x66; x66; x66; x64] ++ quote esc r.
Proof.
  intros H E. unfold quote at 1. cbn [length]. rewrite quote_go_S, H, E. reflexivity.
Qed.

Theorem sbody_quote_any esc : forall n s, (length s <= n)%nat -> sbody (quote esc s).
Proof.
  induction n as [|n IH]; intros s L.
  { destruct s; [constructor | simpl in L; lia]. }
  destruct s as [|c r]; [constructor|]. simpl in L.
  destruct (bn c <? 128) eqn:H.
  - rewrite quote_ascii by exact H. apply si_sbody_qshape; [apply si_qshape_qchar; exact H | apply IH; lia].
  - destruct (utf8_len (c :: r)) as [|k] eqn:E.
    + rewrite (quote_invalid esc c r H E). cbn [app]. apply SB_u; [reflexivity | apply IH; lia].
    + rewrite (quote_multi esc c r k H E).
      assert (IHs : sbody (quote esc (skipn (S k) (c :: r)))).
      { apply IH. cbn [skipn]. pose proof (skipn_length_le k r). lia. }
      destruct (is_ls (c :: r)) as [[d r']|] eqn:Ls.
      * unfold is_ls in Ls. destruct c; try discriminate. destruct r as [|c1 r1]; try discriminate.
        destruct c1; try discriminate. destruct r1 as [|c2 r2]; try discriminate.
        destruct c2; try discriminate; inversion Ls; subst d r';
          (cbn [app]; apply SB_u; [reflexivity | apply IH; cbn [length] in L; lia]).
      * apply si_sbody_high_app; [apply si_utf8_seq_high; assumption | exact IHs].
Qed.

Corollary body_ok_quote esc s : body_ok (quote esc s).
Proof. apply body_ok_sbody. apply (sbody_quote_any esc (length s)). apply le_n. Qed.

(* ================================================================================================ *)
(* 3. escaping, for either setting of the switch                                                     *)
(* ================================================================================================ *)
Lemma tok_escape_any esc t : tok t -> tok (escape_tree esc t).
Proof. destruct esc; [apply tok_escape | auto]. Qed.

Lemma body_ok_esc_body esc b : body_ok b -> body_ok (esc_body esc b).
Proof. destruct esc; [apply html_escape_body_ok | auto]. Qed.

Lemma print_any esc t : print esc t = print false (escape_tree esc t).
Proof. destruct esc; [apply print_true | reflexivity]. Qed.

Lemma pp_any esc ind k t : pp esc ind k t = pp false ind k (escape_tree esc t).
Proof. destruct esc; [apply pp_true | reflexivity]. Qed.

Lemma twf_escape_any esc t : twf t -> twf (escape_tree esc t).
Proof. destruct esc; [apply twf_escape | auto]. Qed.

Theorem parse_pp_any esc ind k t : wsb ind = true -> twf t -> parse (pp esc ind k t) = Some (escape_tree esc t).
Proof. destruct esc; [apply parse_pp_esc | apply parse_pp]. Qed.

(* ================================================================================================ *)
(* 4. an invariant of the raw messages stored in a node, kept by the v5 patch engine                 *)
(*    (generic in the predicate P on raw messages; instantiated with PrintParse.tok below)           *)
(* ================================================================================================ *)
Section RawInv.
  Variable P : tjson -> Prop.

  Fixpoint nall (n : node) : Prop :=
    match n with
    | NNil => True
    | NRaw t => P t
    | NDoc _ obj =>
        (fix all (m : list (bytes * node)) : Prop :=
           match m with [] => True | kv :: r => nall (snd kv) /\ all r end) obj
    | NAry ns =>
        (fix all (l : list node) : Prop := match l with [] => True | x :: r => nall x /\ all r end) ns
    end.

  Lemma nall_doc keys obj : nall (NDoc keys obj) <-> Forall (fun kv => nall (snd kv)) obj.
  Proof.
    cbn [nall]. split; intro H.
    - induction obj as [|kv obj IH]; constructor; destruct H; auto.
    - induction obj as [|kv obj IH]; [exact I|]. inversion H as [|? ? Ha Hb]; subst. split; [exact Ha | apply IH; exact Hb].
  Qed.

  Lemma nall_ary ns : nall (NAry ns) <-> Forall nall ns.
  Proof.
    cbn [nall]. split; intro H.
    - induction ns as [|x ns IH]; constructor; destruct H; auto.
    - induction ns as [|x ns IH]; [exact I|]. inversion H as [|? ? Ha Hb]; subst. split; [exact Ha | apply IH; exact Hb].
  Qed.

  Lemma nall_nil : nall NNil. Proof. exact I. Qed.
  Lemma nall_raw t : nall (NRaw t) <-> P t. Proof. reflexivity. Qed.

  (* what is required of P: null has it, the parts of a tree that has it have it, and re-encoding a
     node whose raw messages have it gives a tree that has it *)
  Hypothesis P_null : P TNull.
  Hypothesis P_arr : forall l, P (TArr l) -> Forall P l.
  Hypothesis P_obj : forall ms, P (TObj ms) -> Forall (fun kv => P (snd kv)) ms.
  Hypothesis P_copy : forall esc v, nall v -> P (escape_tree esc (render esc v)).

  Lemma nall_child t : P t -> nall (child t).
  Proof. destruct t; intro H; try exact I; exact H. Qed.

  Definition call (c : con) : Prop := nall (con_self c) /\ nall (node_of_con c).
  Definition rall (r : root) : Prop := match r with RCon c => call c | RNull => True end.
  Definition sall (st : state) : Prop := rall (s_root st).

  Lemma nall_doc_of ms : P (TObj ms) -> nall (NDoc (fst (doc_of ms)) (snd (doc_of ms))).
  Proof.
    intro H. unfold doc_of. cbn [fst snd]. rewrite build_obj_with. apply nall_doc.
    apply build_with_Forall; [constructor|]. apply P_obj in H. rewrite Forall_forall in *.
    intros kv Hk. apply nall_child. apply (H kv Hk).
  Qed.

  Lemma Forall_nall_children l : P (TArr l) -> Forall nall (map child l).
  Proof.
    intro H. apply P_arr in H. rewrite Forall_map. rewrite Forall_forall in *. intros x Hx. apply nall_child. apply (H x Hx).
  Qed.

  Lemma into_con_all n ch : nall n -> into_con n = Some ch -> call ch.
  Proof.
    intros N H. destruct n as [|t|keys obj|ns]; cbn [into_con] in H; try discriminate.
    - destruct t; try discriminate.
      + inversion H; subst. split; [exact I|]. cbn [node_of_con]. apply nall_ary. apply Forall_nall_children. exact N.
      + pose proof (nall_doc_of ms N) as D. destruct (doc_of ms) as [k ob]. inversion H; subst. split; [exact I | exact D].
    - inversion H; subst. split; [exact I | exact N].
    - inversion H; subst. split; [exact I | exact N].
  Qed.

  Lemma Forall_nth_nall ns i : Forall nall ns -> nall (nth i ns NNil).
  Proof. intro F. revert i. induction F as [|x l Hx F IH]; intros [|i]; cbn [nth]; auto; exact I. Qed.

  Lemma con_get_all o c key n : call c -> con_get o c key = Ok n -> nall n.
  Proof.
    intros [Cs Cn] H. destruct c as [s keys obj|s st|s ns]; cbn [con_get con_self node_of_con] in *.
    - destruct key as [|b key]; [inversion H; subst; exact Cs|].
      destruct (aget (b :: key) obj) as [v|] eqn:E; inversion H; subst.
      apply nall_doc in Cn. apply aget_In in E. rewrite Forall_forall in Cn. apply (Cn _ E).
    - destruct key; inversion H; subst; exact Cs.
    - destruct key as [|b key]; [inversion H; subst; exact Cs|].
      destruct (resolve_idx_get o (zlen ns) (b :: key)); inversion H; subst.
      apply Forall_nth_nall. now apply nall_ary.
  Qed.

  Lemma con_put_all o c key ch : call c -> nall ch -> call (con_put o c key ch).
  Proof.
    intros [Cs Cn] Hch. destruct c as [s keys obj|s st|s ns]; cbn [con_put con_self node_of_con] in *.
    - destruct key as [|b key]; [split; auto|]. split; [exact Cs|]. cbn [node_of_con].
      apply nall_doc in Cn. apply nall_doc. apply Forall_aset; auto.
    - split; auto.
    - destruct key as [|b key]; [split; auto|].
      destruct (resolve_idx_get o (zlen ns) (b :: key)) as [i| |]; try (split; assumption).
      split; [exact Cs|]. cbn [node_of_con]. apply nall_ary. apply nall_ary in Cn. now apply Totality.Forall_set_at.
  Qed.

  Lemma doc_set_all keys obj key v :
    nall (NDoc keys obj) -> nall v -> nall (NDoc (fst (doc_set keys obj key v)) (snd (doc_set keys obj key v))).
  Proof.
    intros N Hv. apply nall_doc in N. apply nall_doc. unfold doc_set. cbn [snd]. apply Forall_aset; auto.
  Qed.

  Lemma con_add_all o c key v c' : call c -> nall v -> con_add o c key v = Ok c' -> call c'.
  Proof.
    intros [Cs Cn] Hv H. destruct c as [s keys obj|s st|s ns]; cbn [con_add con_self node_of_con] in *; try discriminate.
    - pose proof (doc_set_all keys obj key v Cn Hv) as D. destruct (doc_set keys obj key v) as [k' o'].
      inversion H; subst. split; [exact Cs | exact D].
    - destruct (ary_add o ns key v) as [ns'| |] eqn:E; inversion H; subst. split; [exact Cs|].
      cbn [node_of_con]. apply nall_ary. apply nall_ary in Cn. eapply ary_add_Forall; eauto.
  Qed.

  Lemma con_set_all o c key v c' : call c -> nall v -> con_set o c key v = Ok c' -> call c'.
  Proof.
    intros [Cs Cn] Hv H. destruct c as [s keys obj|s st|s ns]; cbn [con_set con_self node_of_con] in *; try discriminate.
    - pose proof (doc_set_all keys obj key v Cn Hv) as D. destruct (doc_set keys obj key v) as [k' o'].
      inversion H; subst. split; [exact Cs | exact D].
    - destruct (ary_set o ns key v) as [ns'| |] eqn:E; inversion H; subst. split; [exact Cs|].
      cbn [node_of_con]. apply nall_ary. apply nall_ary in Cn. eapply ary_set_Forall; eauto.
  Qed.

  Lemma con_remove_all o c key c' : call c -> con_remove o c key = Ok c' -> call c'.
  Proof.
    intros [Cs Cn] H. destruct c as [s keys obj|s st|s ns]; cbn [con_remove con_self node_of_con] in *; try discriminate.
    - destruct (amem key obj).
      + destruct (kmem key keys); inversion H; subst. split; [exact Cs|]. cbn [node_of_con].
        apply nall_doc in Cn. apply nall_doc. now apply Forall_adel.
      + destruct (o_allow o); inversion H; subst. split; auto.
    - destruct (ary_remove o ns key) as [ns'| |] eqn:E; inversion H; subst. split; [exact Cs|].
      cbn [node_of_con]. apply nall_ary. apply nall_ary in Cn. eapply ary_remove_Forall; eauto.
  Qed.

  Lemma call_node c : call c -> nall (node_of_con c).
  Proof. intros [_ H]; exact H. Qed.

  (* ---- walk / find: any leaf action that keeps the invariant, for arbitrary tokens ---- *)
  Lemma walk_all {A} (Q : A -> Prop) o parts : forall c (f : con -> A * con),
    (forall c0, call c0 -> Q (fst (f c0)) /\ call (snd (f c0))) ->
    call c ->
    call (snd (walk o parts c f)) /\ (forall a, fst (walk o parts c f) = Some a -> Q a).
  Proof.
    induction parts as [|p rest IH]; intros c f Hf C; cbn [walk].
    - destruct (Hf c C) as [H1 H2]. destruct (f c) as [a c']. cbn [fst snd] in *. split; auto.
      intros a0 E. inversion E; subst; auto.
    - destruct (con_get o c (decode_token p)) as [next| |] eqn:G; try (cbn [fst snd]; split; [exact C | discriminate]).
      destruct (into_con next) as [ch|] eqn:IC; [|cbn [fst snd]; split; [exact C | discriminate]].
      assert (Cch : call ch) by (eapply into_con_all; eauto; eapply con_get_all; eauto).
      destruct (IH ch f Hf Cch) as [H1 H2]. destruct (walk o rest ch f) as [r ch']. cbn [fst snd] in *. split; auto.
      apply con_put_all; auto. now apply call_node.
  Qed.

  Lemma find_all {A} (Q : A -> Prop) o c path (f : con -> bytes -> A * con) :
    (forall c0 key, call c0 -> Q (fst (f c0 key)) /\ call (snd (f c0 key))) ->
    call c ->
    call (snd (find o c path f)) /\ (forall a, fst (find o c path f) = FoundAt a -> Q a).
  Proof.
    intros Hf C. unfold find. destruct (split_path path) as [[parts key]|].
    - destruct (walk_all Q o parts c (fun c' => f c' key) (fun c0 => Hf c0 key) C) as [H1 H2].
      destruct (walk o parts c (fun c' => f c' key)) as [[a|] c']; cbn [fst snd] in *.
      + split; auto. intros a0 E. inversion E; subst. auto.
      + split; auto. discriminate.
    - destruct path.
      + destruct (Hf c [] C) as [H1 H2]. destruct (f c []) as [a c']. cbn [fst snd] in *. split; auto.
        intros a0 E; inversion E; subst; auto.
      + cbn [fst snd]. split; auto. discriminate.
  Qed.
  (* ---- ensurePathExists ---- *)
  Lemma pad_nulls_all o : forall count c from, call c -> call (pad_nulls o c from count).
  Proof.
    induction count as [|k IH]; intros c from C; cbn [pad_nulls]; auto.
    destruct (con_add o c (itoa (N.of_nat from)) (NRaw TNull)) as [c'| |] eqn:E; apply IH; auto.
    eapply con_add_all; eauto. exact P_null.
  Qed.

  Lemma ignore_err_add_all o c key v : call c -> nall v -> call (ignore_err c (con_add o c key v)).
  Proof.
    intros C Hv. destruct (con_add o c key v) as [c'| |] eqn:E; cbn [ignore_err]; auto. eapply con_add_all; eauto.
  Qed.

  Lemma call_empty_doc : call (KDoc NNil [] []).
  Proof. split; [exact I|]. cbn [node_of_con]. apply nall_doc. constructor. Qed.

  Lemma call_empty_ary : call (KAry NNil []).
  Proof. split; [exact I|]. cbn [node_of_con]. apply nall_ary. constructor. Qed.

  Lemma ensure_all o parts : forall c, call c -> call (snd (ensure o parts c)).
  Proof.
    induction parts as [|part parts IH]; intros c C; [exact C|].
    destruct parts as [|nextp rest]; [exact C|].
    rewrite ensure_unfold. cbv zeta.
    set (key := decode_token part).
    assert (C1 : call (match atoi part, c with
                       | Some idx, KAry _ ns =>
                           if (zlen ns + 1 <=? idx)%Z then pad_nulls o c (length ns) (Z.to_nat (idx - zlen ns)) else c
                       | _, _ => c
                       end)).
    { destruct (atoi part); auto. destruct c; auto. destruct (zlen nodes + 1 <=? z)%Z; auto. now apply pad_nulls_all. }
    set (c1 := match atoi part, c with
               | Some idx, KAry _ ns =>
                   if (zlen ns + 1 <=? idx)%Z then pad_nulls o c (length ns) (Z.to_nat (idx - zlen ns)) else c
               | _, _ => c
               end) in *.
    assert (NoneCase :
      call (snd (match atoi nextp, bseq nextp [x2d] with
        | None, false =>
            let (e, ch') := ensure o (nextp :: rest) (KDoc NNil [] []) in
            (e, ignore_err c1 (con_add o c1 key (node_of_con ch')))
        | _, _ =>
            if ((match atoi nextp with Some i => i | None => 0%Z end) <? 0)%Z && negb (o_neg o) then (Some EInvalidIndex, c1)
            else if ((match atoi nextp with Some i => i | None => 0%Z end) <? -1)%Z then (Some EInvalidIndex, c1)
            else
              let (e, ch') := ensure o (nextp :: rest)
                                (pad_nulls o (KAry NNil []) 0
                                   (Z.to_nat (if ((match atoi nextp with Some i => i | None => 0%Z end) <? 0)%Z then 0%Z
                                              else (match atoi nextp with Some i => i | None => 0%Z end)))) in
              (e, ignore_err c1 (con_add o c1 key (node_of_con ch')))
        end))).
    { assert (Arr : forall ai,
         call (snd (if (ai <? 0)%Z && negb (o_neg o) then (Some EInvalidIndex, c1)
                    else if (ai <? -1)%Z then (Some EInvalidIndex, c1)
                    else let (e, ch') := ensure o (nextp :: rest)
                                           (pad_nulls o (KAry NNil []) 0 (Z.to_nat (if (ai <? 0)%Z then 0%Z else ai))) in
                         (e, ignore_err c1 (con_add o c1 key (node_of_con ch')))))).
      { intro ai. destruct ((ai <? 0)%Z && negb (o_neg o)); [exact C1|]. destruct (ai <? -1)%Z; [exact C1|].
        pose proof (IH _ (pad_nulls_all o (Z.to_nat (if (ai <? 0)%Z then 0%Z else ai)) _ 0%nat call_empty_ary)) as E.
        destruct (ensure o (nextp :: rest) _) as [e ch']. cbn [snd] in *.
        apply ignore_err_add_all; auto. now apply call_node. }
      destruct (atoi nextp) as [i|]; [apply Arr|]. destruct (bseq nextp [x2d]); [apply Arr|].
      pose proof (IH _ call_empty_doc) as E. destruct (ensure o (nextp :: rest) (KDoc NNil [] [])) as [e ch']. cbn [snd] in *.
      apply ignore_err_add_all; auto. now apply call_node. }
    destruct (con_get o c key) as [n| |] eqn:G; try exact NoneCase.
    assert (Hn : nall n) by exact (con_get_all o c key n C G).
    assert (Put : forall ch, into_con n = Some ch ->
                    call (snd (let (e, ch') := ensure o (nextp :: rest) ch in (e, con_put o c key (node_of_con ch'))))).
    { intros ch IC. pose proof (IH ch (into_con_all n ch Hn IC)) as E.
      destruct (ensure o (nextp :: rest) ch) as [e ch']. cbn [snd] in *.
      apply con_put_all; auto. now apply call_node. }
    destruct n as [|t|keys obj|ns]; try exact NoneCase.
    - destruct t; try (destruct (into_con _) as [[| |]|] eqn:IC; try exact C; apply Put; reflexivity).
    - destruct (into_con _) as [[| |]|] eqn:IC; try exact C; apply Put; reflexivity.
    - destruct (into_con _) as [ch|] eqn:IC; try exact C; apply Put; reflexivity.
  Qed.

  Lemma ensure_path_all o c path : call c -> call (snd (ensure_path o c path)).
  Proof.
    intro C. unfold ensure_path. destruct (split_slash path) as [|x [|p ps]]; auto. now apply ensure_all.
  Qed.

  (* ---- what a passing test leaves behind ---- *)
  Lemma nall_deep_t t : P t -> nall (deep_t t).
  Proof.
    induction t as [| | |l|s|l IH|ms IH] using tjson_rect'; intro H; try exact I; try exact H.
    - cbn [deep_t]. apply nall_ary. rewrite Forall_map. apply P_arr in H. rewrite Forall_forall in *.
      intros x Hx. apply (IH x Hx). apply (H x Hx).
    - rewrite deep_t_obj. apply nall_doc. apply build_with_Forall; [constructor|].
      apply P_obj in H. rewrite Forall_forall in *. intros kv Hk. apply (IH kv Hk). apply (H kv Hk).
  Qed.

  Lemma nall_deep n : nall n -> nall (deep n).
  Proof.
    induction n as [|t|keys obj IH|ns IH] using node_rect'; intro N.
    - exact I.
    - destruct t; try exact N; apply nall_deep_t; exact N.
    - cbn [deep]. apply nall_doc in N. apply nall_doc. rewrite Forall_map. cbn [snd]. rewrite Forall_forall in *.
      intros kv Hin. apply IH; auto.
    - cbn [deep]. apply nall_ary in N. apply nall_ary. rewrite Forall_map. rewrite Forall_forall in *.
      intros x Hin. apply IH; auto.
  Qed.

  Lemma nall_deep_copy o v : nall v -> nall (fst (deep_copy o v)).
  Proof. intro N. destruct v; cbn [deep_copy fst]; try exact I; apply nall_raw; apply P_copy; exact N. Qed.

  (* ---- values carried by operations ---- *)
  Definition op_all (op : operation) : Prop := forall t, aget (B "value") op = Some (Some t) -> P t.

  Lemma op_value_raw_all op t : op_all op -> op_value op = Some (NRaw t) -> P t.
  Proof.
    intros A. unfold op_value. destruct (aget (B "value") op) as [[t0|]|] eqn:E; intro H; inversion H; subst.
    - apply A. exact E.
    - exact P_null.
  Qed.

  Lemma opv_all op : op_all op -> nall (match op_value op with Some v => v | None => NNil end).
  Proof.
    intro A. destruct (op_value_shape op) as [E|[t E]]; rewrite E; [exact I|]. apply nall_raw. eapply op_value_raw_all; eauto.
  Qed.

  Lemma root_of_value_all o t r : P t -> root_of_value o t = Ok r -> rall r.
  Proof.
    intros H. destruct t; cbn [root_of_value]; intro E; inversion E; subst; cbn [rall].
    - split; [exact H | exact I].
    - split; [exact H|]. cbn [node_of_con]. apply nall_ary. apply Forall_nall_children. exact H.
    - pose proof (nall_doc_of ms H) as D. destruct (doc_of ms) as [k ob]. inversion E; subst. split; [exact H | exact D].
  Qed.

  (* ---- the leaf actions ---- *)
  Lemma find_add_all o c path v : call c -> nall v -> call (snd (find o c path (add_leaf o v))).
  Proof.
    intros C Hv.
    destruct (find_all (fun _ : res con => True) o c path (add_leaf o v)) as [H1 _]; auto.
    intros c0 key C0. unfold add_leaf. cbn [fst snd]. split; [exact I|].
    destruct (con_add o c0 key v) as [c''| |] eqn:E; auto. eapply con_add_all; eauto.
  Qed.

  Lemma op_add_all o st op st' : sall st -> op_all op -> op_add o st op = Ok st' -> sall st'.
  Proof.
    intros S A. unfold op_add.
    destruct (op_str op (B "path")) as [path| |]; try discriminate.
    destruct path as [|b path].
    - destruct (op_value op) as [[|t|keys obj|ns]|] eqn:E; try discriminate.
      pose proof (root_of_value_all o t) as RI.
      destruct (root_of_value o t) as [r| |]; try discriminate. intro H; inversion H; subst.
      unfold sall. cbn [s_root]. apply RI; [eapply op_value_raw_all; eauto | reflexivity].
    - unfold sall in S. destruct (s_root st) as [c|]; [|discriminate]. cbn [rall] in S.
      assert (C1 : call (snd (if o_ensure o then ensure_path o c (b :: path) else (None, c)))).
      { destruct (o_ensure o); [now apply ensure_path_all | exact S]. }
      destruct (if o_ensure o then ensure_path o c (b :: path) else (None, c)) as [e c1]. cbn [snd] in C1.
      destruct e; [discriminate|].
      pose proof (find_add_all o c1 (b :: path) _ C1 (opv_all op A)) as H1. unfold add_leaf in H1.
      destruct (find o c1 (b :: path) _) as [[| |[c''|e|]] c2]; cbn [fst snd] in *; try discriminate.
      intro H; inversion H; subst. exact H1.
  Qed.

  Lemma op_remove_all o st op st' : sall st -> op_remove o st op = Ok st' -> sall st'.
  Proof.
    intros S. unfold op_remove.
    destruct (op_str op (B "path")) as [path| |]; try discriminate.
    unfold sall in S. destruct (s_root st) as [c|] eqn:R.
    2:{ destruct (o_allow o); [|discriminate]. intro H; inversion H; subst. unfold sall. now rewrite R. }
    cbn [rall] in S.
    destruct (find_all (fun _ : res con => True) o c path
                (fun c' key => (con_remove o c' key, match con_remove o c' key with Ok c'' => c'' | _ => c' end))) as [H1 _]; auto.
    { intros c0 key C0. cbn [fst snd]. split; [exact I|].
      destruct (con_remove o c0 key) as [c''| |] eqn:E; auto. eapply con_remove_all; eauto. }
    destruct (find o c path _) as [[| |[c''|e|]] c2]; cbn [fst snd] in *; try discriminate;
      try (destruct (o_allow o); [|discriminate]); intro H; inversion H; subst; exact H1.
  Qed.

  Lemma op_replace_all o st op st' : sall st -> op_all op -> op_replace o st op = Ok st' -> sall st'.
  Proof.
    intros S A. unfold op_replace.
    destruct (op_str op (B "path")) as [path| |]; try discriminate.
    destruct path as [|b path].
    - destruct (op_value op) as [[|t|keys obj|ns]|] eqn:E; try discriminate.
      pose proof (op_value_raw_all op t A E) as Pt.
      destruct t; try discriminate.
      + intro H; inversion H; subst. exact I.
      + intro H; inversion H; subst. unfold sall. cbn [s_root rall]. split; [exact I|]. cbn [node_of_con].
        apply nall_ary. apply Forall_nall_children. exact Pt.
      + pose proof (nall_doc_of ms Pt) as D. destruct (doc_of ms) as [k ob]. intro H; inversion H; subst.
        unfold sall. cbn [s_root rall]. split; [exact I | exact D].
    - unfold sall in S. destruct (s_root st) as [c|]; [|discriminate]. cbn [rall] in S.
      set (v := match op_value op with Some v => v | None => NNil end).
      assert (Hv : nall v) by (apply opv_all; exact A).
      destruct (find_all (fun _ : res con => True) o c (b :: path)
                  (fun c' key => match con_get o c' key with
                                 | Ok _ => (con_set o c' key v, match con_set o c' key v with Ok c'' => c'' | _ => c' end)
                                 | Err _ => (Err EMissing, c')
                                 | Panic => (Panic, c')
                                 end)) as [H1 _]; auto.
      { intros c0 key C0. split; [exact I|].
        destruct (con_get o c0 key) as [x|e|] eqn:G; cbn [fst snd]; try exact C0.
        destruct (con_set o c0 key v) as [c''| |] eqn:E; auto. eapply con_set_all; eauto. }
      destruct (find o c (b :: path) _) as [[| |[c''|e|]] c2]; cbn [fst snd] in *; try discriminate.
      intro H; inversion H; subst. exact H1.
  Qed.

  Lemma op_move_all o st op st' : sall st -> op_move o st op = Ok st' -> sall st'.
  Proof.
    intros S. unfold op_move.
    destruct (op_str op (B "from")) as [from| |]; try discriminate.
    destruct from as [|b from]; [discriminate|].
    unfold sall in S. destruct (s_root st) as [c|]; [|discriminate]. cbn [rall] in S.
    destruct (find_all (fun r : res node => forall v, r = Ok v -> nall v) o c (b :: from)
                (fun c' key =>
                   match con_get o c' key with
                   | Ok v => match con_remove o c' key with
                             | Ok c'' => (Ok v, c'')
                             | Err e => (Err e, c')
                             | Panic => (Panic, c')
                             end
                   | Err e => (Err e, c')
                   | Panic => (Panic, c')
                   end)) as [H1 H2]; auto.
    { intros c0 key C0.
      destruct (con_get o c0 key) as [x|e|] eqn:G; cbn [fst snd]; try (split; [discriminate | exact C0]).
      destruct (con_remove o c0 key) as [c''|e|] eqn:E; cbn [fst snd]; try (split; [discriminate | exact C0]).
      split; [|eapply con_remove_all; eauto].
      intros v Ev. inversion Ev; subst. eapply con_get_all; eauto. }
    destruct (find o c (b :: from) _) as [[| |[v|e|]] c1]; cbn [fst snd] in *; try discriminate.
    pose proof (H2 (Ok v) eq_refl v eq_refl) as Hv.
    destruct (op_str op (B "path")) as [path| |]; try discriminate.
    pose proof (find_add_all o c1 path v H1 Hv) as A1. unfold add_leaf in A1.
    destruct (find o c1 path _) as [[| |[c''|e|]] c2]; cbn [fst snd] in *; try discriminate.
    intro H; inversion H; subst. exact A1.
  Qed.

  Lemma op_test_all o st op st' : sall st -> op_test o st op = Ok st' -> sall st'.
  Proof.
    intros S. unfold op_test.
    destruct (op_str op (B "path")) as [path| |]; try discriminate.
    set (ov := match op_value op with Some v => v | None => NNil end).
    destruct path as [|b path].
    - unfold sall in S. cbv zeta.
      match goal with |- (if ?b then _ else Err ETestFailed) = _ -> _ => destruct b end; [|discriminate].
      destruct (s_root st) as [[s k ob|s stl|s ns]|] eqn:R;
        try (intro H; inversion H; subst; unfold sall; rewrite R; exact S).
      + destruct S as [Ss Sn]. cbn [con_self node_of_con] in *.
        pose proof (nall_deep _ Sn) as D. cbn [deep] in D |- *.
        intro H; inversion H; subst. unfold sall. cbn [s_root rall]. split; [exact Ss | exact D].
      + destruct S as [Ss Sn]. cbn [con_self node_of_con] in *.
        pose proof (nall_deep _ Sn) as D. cbn [deep] in D.
        intro H; inversion H; subst. unfold sall. cbn [s_root rall]. split; [exact Ss | exact D].
    - unfold sall in S. destruct (s_root st) as [c|]; [|discriminate]. cbn [rall] in S.
      destruct (find_all (fun _ : res unit => True) o c (b :: path)
                  (fun c' key =>
                     match con_get o c' key with
                     | Ok v =>
                         if is_null v then ((if is_null ov then Ok tt else Err ETestFailed), c')
                         else if is_null ov then (Err ETestFailed, c')
                         else if node_equal v ov then (Ok tt, con_put o c' key (deep v))
                         else (Err ETestFailed, c')
                     | Err EMissing => ((if is_null ov then Ok tt else Err ETestFailed), c')
                     | Err e => (Err e, c')
                     | Panic => (Panic, c')
                     end)) as [H1 _]; auto.
      { intros c0 key C0. split; [exact I|].
        destruct (con_get o c0 key) as [x|e|] eqn:G; [| |exact C0].
        - destruct (is_null x); [exact C0|]. destruct (is_null ov); [exact C0|].
          destruct (node_equal x ov); [|exact C0]. cbn [snd]. apply con_put_all; auto.
          apply nall_deep. eapply con_get_all; eauto.
        - destruct e; exact C0. }
      destruct (find o c (b :: path) _) as [[| |[u|e|]] c2]; cbn [fst snd] in *; try discriminate.
      intro H; inversion H; subst. exact H1.
  Qed.

  Lemma find_get_all o c path :
    call c ->
    call (snd (find o c path (fun c' key => (con_get o c' key, c')))) /\
    (forall v, fst (find o c path (fun c' key => (con_get o c' key, c'))) = FoundAt (Ok v) -> nall v).
  Proof.
    intro C.
    destruct (find_all (fun r : res node => forall v, r = Ok v -> nall v) o c path (fun c' key => (con_get o c' key, c'))) as [H1 H2]; auto.
    - intros c0 key C0. cbn [fst snd]. split; [|exact C0]. intros v E. eapply con_get_all; eauto.
    - split; auto. intros v E. apply (H2 _ E v eq_refl).
  Qed.

  Lemma op_copy_all o st op st' : sall st -> op_copy o st op = Ok st' -> sall st'.
  Proof.
    intros S. unfold op_copy.
    destruct (op_str op (B "from")) as [from| |]; try discriminate.
    unfold sall in S. destruct (s_root st) as [c|]; [|discriminate]. cbn [rall] in S.
    destruct (find_get_all o c from S) as [C1 _].
    destruct (find o c from _) as [[| |[x|e|]] c1]; cbn [fst snd] in *; try discriminate.
    destruct (op_str op (B "path")) as [path| |]; try discriminate.
    destruct (find_all (fun _ : unit => True) o c1 path (fun c' key => (tt, c'))) as [C2 _]; auto.
    destruct (find o c1 path _) as [[| |u] c2]; cbn [fst snd] in *; try discriminate.
    assert (SRC : forall v, (match from with
                   | [] => Ok (node_of_con c2)
                   | _ => match find o c2 from (fun c' key => (con_get o c' key, c')) with
                          | (FoundAt r, _) => r
                          | _ => Err EMissing
                          end
                   end) = Ok v -> nall v).
    { intro v. destruct from as [|b from].
      - intro E; inversion E; subst. now apply call_node.
      - destruct (find_get_all o c2 (b :: from) C2) as [_ N3].
        destruct (find o c2 (b :: from) _) as [[| |r] c3]; cbn [fst] in *; try discriminate.
        intro E; subst r. apply N3. reflexivity. }
    destruct (match from with [] => Ok (node_of_con c2) | _ => _ end) as [v|e|]; try discriminate.
    specialize (SRC v eq_refl).
    destruct (copy_too_deep o v); [discriminate|].
    pose proof (nall_deep_copy o v SRC) as Hcp. destruct (deep_copy o v) as [cp sz]. cbn [fst] in Hcp.
    destruct ((0 <? o_limit o)%Z && (o_limit o <? s_acc st + sz)%Z); [discriminate|].
    pose proof (find_add_all o c2 path cp C2 Hcp) as A1. unfold add_leaf in A1.
    destruct (find o c2 path _) as [[| |[c''|e|]] c3]; cbn [fst snd] in *; try discriminate.
    intro H; inversion H; subst. exact A1.
  Qed.

  (* ---- one operation, the whole patch: arbitrary operations, paths, options ---- *)
  Theorem step_all o st op st' : sall st -> op_all op -> step o st op = Ok st' -> sall st'.
  Proof.
    intros S A. unfold step. destruct (op_kind op).
    - now apply op_add_all.
    - now apply op_remove_all.
    - now apply op_replace_all.
    - now apply op_move_all.
    - now apply op_copy_all.
    - now apply op_test_all.
    - discriminate.
  Qed.

  Theorem apply_from_all o : forall p i st st',
    sall st -> Forall op_all p -> apply_from o i st p = AOk st' -> sall st'.
  Proof.
    induction p as [|op p IH]; intros i st st' Hs A; cbn [apply_from].
    - intro H; inversion H; subst; exact Hs.
    - inversion A as [|? ? A1 A2]; subst.
      destruct (step o st op) as [st1|e|] eqn:E; try discriminate.
      apply (IH (S i) st1 st' (step_all o st op st1 Hs A1 E) A2).
  Qed.

  Lemma load_doc_all o t r : P t -> load_doc o t = Ok r -> rall r.
  Proof. exact (root_of_value_all o t r). Qed.

  Lemma rall_root_node r : rall r -> nall (root_node r).
  Proof. destruct r as [c|]; [apply call_node | intros _; exact I]. Qed.
End RawInv.

(* ================================================================================================ *)
(* 5. ntok: the raw messages of a node are made of tokens the reader accepts                         *)
(* ================================================================================================ *)
Definition ntok : node -> Prop := nall tok.

Lemma ntok_nil : ntok NNil. Proof. exact I. Qed.
Lemma ntok_raw t : ntok (NRaw t) <-> tok t. Proof. reflexivity. Qed.
Lemma ntok_doc keys obj : ntok (NDoc keys obj) <-> Forall (fun kv => ntok (snd kv)) obj.
Proof. apply nall_doc. Qed.
Lemma ntok_ary ns : ntok (NAry ns) <-> Forall ntok ns.
Proof. apply nall_ary. Qed.

Lemma tok_arr_parts l : tok (TArr l) -> Forall tok l.
Proof. apply tok_arr. Qed.

Lemma tok_obj_parts ms : tok (TObj ms) -> Forall (fun kv => tok (snd kv)) ms.
Proof. intro H. apply tok_obj in H. rewrite Forall_forall in *. intros kv Hk. apply (H kv Hk). Qed.

Lemma ntok_child t : tok t -> ntok (child t).
Proof. destruct t; intro H; try exact I; exact H. Qed.

(* the encoding of a node: member names are written by the encoder, everything else is stored text *)
Theorem tok_render esc v : ntok v -> tok (render esc v).
Proof.
  induction v as [|t|keys obj IH|ns IH] using node_rect'; intro N.
  - exact I.
  - exact N.
  - apply ntok_doc in N. rewrite render_doc. apply tok_obj. rewrite Forall_map. apply Forall_forall.
    intros k _. cbn [fst snd]. split; [apply body_ok_quote|].
    destruct (aget k obj) as [x|] eqn:E; cbn [option_map]; [|exact I].
    apply aget_In in E. rewrite Forall_forall in IH, N. apply (IH _ E). apply (N _ E).
  - apply ntok_ary in N. cbn [render]. apply tok_arr. rewrite Forall_map. rewrite Forall_forall in *.
    intros x Hx. apply (IH x Hx). apply (N x Hx).
Qed.

(* what deepCopy stores *)
Corollary tok_enc esc v : ntok v -> tok (enc esc v).
Proof. intro N. unfold enc. apply tok_escape_any. apply tok_render. exact N. Qed.

Lemma ntok_deep_copy o v : ntok v -> ntok (fst (deep_copy o v)).
Proof. apply (nall_deep_copy tok). intros esc w. apply tok_enc. Qed.

(* the values of an operation are made of such tokens: true of every decoded patch *)
Definition op_tok : operation -> Prop := op_all tok.

Definition op_toks (op : operation) : Prop :=
  Forall (fun kv : bytes * option tjson => match snd kv with Some t => tok t | None => True end) op.

Lemma op_toks_tok op : op_toks op -> op_tok op.
Proof.
  unfold op_toks, op_tok, op_all. intros F t E. apply aget_In in E. rewrite Forall_forall in F. exact (F _ E).
Qed.

Lemma operation_of_toks ms : tok (TObj ms) -> op_toks (operation_of ms).
Proof.
  unfold operation_of, op_toks. intro H. apply tok_obj_parts in H.
  assert (G : Forall (fun kv : bytes * option tjson => match snd kv with Some t => tok t | None => True end) []) by constructor.
  revert G. generalize (@nil (bytes * option tjson)).
  induction ms as [|[k v] ms IH]; intros acc G; [exact G|].
  inversion H as [|? ? H1 H2]; subst. cbn [snd] in H1.
  apply (IH H2). apply Forall_aset; [exact G|]. intro k'. cbn [snd]. destruct v; auto.
Qed.

Theorem api_decode_toks bs p : api_decode bs = Some p -> Forall op_toks p.
Proof.
  unfold api_decode. destruct (parse bs) as [t|] eqn:Pb; [|discriminate].
  apply parse_twf in Pb. destruct Pb as [Pb _]. destruct t as [| | |lit|body|els|ms]; cbn [decode_patch_t]; try discriminate.
  - intro H. inversion H. constructor.
  - destruct (forallb _ els); [|discriminate].
    destruct (forallb validate_operation _); [|discriminate]. intro H. inversion H; subst. clear H.
    apply tok_arr in Pb. rewrite Forall_map. rewrite Forall_forall in *. intros e He. specialize (Pb e He).
    destruct e; try (unfold op_toks; constructor). apply operation_of_toks. exact Pb.
Qed.

Corollary api_decode_tok bs p : api_decode bs = Some p -> Forall op_tok p.
Proof. intro H. apply api_decode_toks in H. revert H. apply Forall_impl. exact op_toks_tok. Qed.

(* ---- the invariant through a whole patch: arbitrary operations, paths and options ---- *)
Definition stok (st : state) : Prop := sall tok st.

Theorem step_ntok o st op st' : stok st -> op_tok op -> step o st op = Ok st' -> stok st'.
Proof.
  apply (step_all tok); [exact I | exact tok_arr_parts | exact tok_obj_parts | intros esc v; apply tok_enc].
Qed.

Theorem apply_from_ntok o p i st st' :
  stok st -> Forall op_tok p -> apply_from o i st p = AOk st' -> ntok (root_node (s_root st')).
Proof.
  intros Hs A E. apply (rall_root_node tok).
  apply (apply_from_all tok I tok_arr_parts tok_obj_parts (fun esc v => tok_enc esc v) o p i st st' Hs A E).
Qed.

Lemma load_doc_stok o t r : tok t -> load_doc o t = Ok r -> stok (mkState r 0).
Proof. intros T L. unfold stok, sall. cbn [s_root]. exact (load_doc_all tok tok_arr_parts tok_obj_parts o t r T L). Qed.

(* ================================================================================================ *)
(* 6. Apply / ApplyIndent (v5): the output bytes                                                     *)
(* ================================================================================================ *)
From JP Require Import Scan ScannerParse ScanFacts.

(* the tree Apply encodes: api_apply is output applied to it *)
Definition result_tree (o : opts) (p : list operation) (t : tjson) : option tjson :=
  match load_doc o t with
  | Ok r =>
      match apply_from o 0 (mkState r 0) p with
      | AOk st => match marshal_root o (s_root st) with Ok tr => Some tr | _ => None end
      | _ => None
      end
  | _ => None
  end.

Lemma api_apply_out o indent p doc t out : parse doc = Some t ->
  (api_apply o indent p doc = ROut out <-> exists tr, result_tree o p t = Some tr /\ out = output o indent tr).
Proof.
  intro Pd. unfold api_apply, result_tree. destruct doc as [|b doc]; [rewrite parse_nil in Pd; discriminate|].
  rewrite Pd. unfold apply_tree.
  destruct (load_doc o t) as [r| |]; try (split; [discriminate | intros [tr [H _]]; discriminate]).
  destruct (apply_from o 0 (mkState r 0) p) as [st| |]; try (split; [discriminate | intros [tr [H _]]; discriminate]).
  destruct (marshal_root o (s_root st)) as [tr| |]; try (split; [discriminate | intros [tr [H _]]; discriminate]).
  split.
  - intro H; inversion H; subst. exists tr. split; reflexivity.
  - intros [tr' [H1 H2]]. inversion H1; subst. reflexivity.
Qed.

(* the empty document is the one input for which Apply's result is not a JSON text *)
Example api_apply_empty_doc o indent p : api_apply o indent p [] = ROut [] /\ parse [] = None.
Proof. split; reflexivity. Qed.

Lemma marshal_root_render o r tr : marshal_root o r = Ok tr -> tr = render (o_esc o) (root_node r).
Proof.
  destruct r as [[s k ob|s stl|s ns]|]; cbn [marshal_root root_node node_of_con]; intro H; inversion H; reflexivity.
Qed.

Definition root_shape (t : tjson) : Prop := match t with TObj _ | TArr _ | TNull => True | _ => False end.

Lemma marshal_root_shape o r tr : marshal_root o r = Ok tr -> root_shape tr.
Proof.
  destruct r as [[s k ob|s stl|s ns]|]; cbn [marshal_root root_node node_of_con render]; intro H; inversion H; exact I.
Qed.

(* the result is made of tokens the reader accepts: every parsed document, every patch whose values
   are (every decoded patch), every options record *)
Theorem result_tree_tok o p t tr : tok t -> Forall op_tok p -> result_tree o p t = Some tr -> tok tr /\ root_shape tr.
Proof.
  intros T A. unfold result_tree.
  destruct (load_doc o t) as [r| |] eqn:L; try discriminate.
  destruct (apply_from o 0 (mkState r 0) p) as [st| |] eqn:E; try discriminate.
  destruct (marshal_root o (s_root st)) as [tr0| |] eqn:M; try discriminate.
  intro H; inversion H; subst tr0. split; [|eapply marshal_root_shape; eauto].
  rewrite (marshal_root_render _ _ _ M). apply tok_render.
  apply (apply_from_ntok o p 0%nat (mkState r 0) st); [eapply load_doc_stok; eauto | exact A | exact E].
Qed.

(* ---- the text of a tree made of such tokens, within the nesting limit ---- *)
Theorem output_parses o indent tr : tok tr -> (Text.tdepth tr <= max_depth)%N -> wsb indent = true ->
  parse (output o indent tr) = Some (escape_tree (o_esc o) tr).
Proof.
  intros T D W. assert (TW : twf tr) by (apply twf_text; split; assumption).
  unfold output. destruct indent as [|c ind]; [apply parse_print_any | apply parse_pp_any]; assumption.
Qed.

Corollary output_valid o indent tr : tok tr -> (Text.tdepth tr <= max_depth)%N -> wsb indent = true ->
  valid_gen (output o indent tr) = true.
Proof. intros T D W. apply valid_gen_iff_parse. eexists. apply output_parses; assumption. Qed.

Corollary output_den o indent tr : tok tr -> (Text.tdepth tr <= max_depth)%N -> wsb indent = true ->
  exists t', parse (output o indent tr) = Some t' /\ den t' = den tr.
Proof.
  intros T D W. eexists. split; [apply output_parses; assumption|]. apply escape_den. apply tok_tsb. exact T.
Qed.

(* ---- ApplyIndent returns Apply's output re-indented ---- *)
Lemma ends_ws_snoc s c : ends_ws (s ++ [c]) = is_ws c.
Proof. unfold ends_ws. rewrite rev_unit. reflexivity. Qed.

Lemma ends_ws_print esc t : root_shape t -> ends_ws (print esc t) = false.
Proof.
  destruct t; cbn [root_shape]; intro H; try contradiction.
  - reflexivity.
  - cbn [print]. rewrite app_comm_cons. apply ends_ws_snoc.
  - cbn [print]. rewrite app_comm_cons. apply ends_ws_snoc.
Qed.

Theorem output_indent o indent tr : tok tr -> root_shape tr -> (Text.tdepth tr <= max_depth)%N -> indent <> [] ->
  indent_go indent (output o [] tr) = Some (output o indent tr).
Proof.
  intros T R D NE. assert (TW : twf tr) by (apply twf_text; split; assumption).
  unfold output. destruct indent as [|c ind]; [congruence|].
  rewrite (indent_go_pp_exact (c :: ind) (print (o_esc o) tr) (escape_tree (o_esc o) tr)).
  - now rewrite <- pp_any.
  - apply parse_print_any. exact TW.
  - apply ends_ws_print. exact R.
Qed.

(* ---- nothing added: the result is not deeper than the document ---- *)
Lemma render_child esc v : render esc (child v) = v.
Proof. destruct v; reflexivity. Qed.

Lemma render_doc_of_depth esc ms :
  (Text.tdepth (render esc (NDoc (fst (doc_of ms)) (snd (doc_of ms)))) <= Text.tdepth (TObj ms))%N.
Proof.
  rewrite render_doc, !tdepth_obj, maxd_map. cbn [snd].
  assert (maxd (fun k => Text.tdepth match option_map (render esc) (aget k (snd (doc_of ms))) with Some t => t | None => TNull end)
               (fst (doc_of ms)) <= maxd (fun kv => Text.tdepth (snd kv)) ms)%N; [|lia].
  apply maxd_bound. intros k _.
  assert (F : Forall (fun kv : bytes * node => (Text.tdepth (render esc (snd kv)) <= maxd (fun kv => Text.tdepth (snd kv)) ms)%N)
                     (snd (doc_of ms))).
  { unfold doc_of. cbn [snd]. rewrite build_obj_with.
    apply (build_with_Forall (fun n => (Text.tdepth (render esc n) <= maxd (fun kv => Text.tdepth (snd kv)) ms)%N));
      [constructor|]. apply Forall_forall. intros kv Hk. rewrite render_child.
    apply (maxd_le (fun kv => Text.tdepth (snd kv)) ms kv Hk). }
  destruct (aget k (snd (doc_of ms))) as [x|] eqn:E; cbn [option_map]; [|cbn; lia].
  apply aget_In in E. rewrite Forall_forall in F. apply (F _ E).
Qed.

Lemma apply_from_nil o i st : apply_from o i st [] = AOk st.
Proof. reflexivity. Qed.

Lemma result_tree_nil_depth o t tr : result_tree o [] t = Some tr -> (Text.tdepth tr <= Text.tdepth t)%N.
Proof.
  unfold result_tree. destruct t; cbn [load_doc]; try discriminate.
  - rewrite apply_from_nil. cbn [s_root marshal_root node_of_con render]. intro H; inversion H; subst.
    rewrite map_map. rewrite (map_ext _ (fun x => x)) by (intro; apply render_child). rewrite map_id. lia.
  - pose proof (render_doc_of_depth (o_esc o) ms) as D. destruct (doc_of ms) as [k ob].
    rewrite apply_from_nil. cbn [s_root marshal_root node_of_con fst snd] in *. intro H; inversion H; subst. exact D.
Qed.

(* ---- the general theorem: EVERY parsed document, EVERY patch whose values are made of tokens
   (every decoded patch), every options record and indent.  The nesting of the result is the one
   hypothesis (an add can nest the result deeper than the reader accepts). ---- *)
Theorem api_apply_output_general o indent p doc t out :
  parse doc = Some t -> Forall op_tok p -> api_apply o indent p doc = ROut out ->
  exists tr, result_tree o p t = Some tr /\ out = output o indent tr /\ tok tr /\ root_shape tr /\
    ((Text.tdepth tr <= max_depth)%N ->
       (wsb indent = true ->
          parse out = Some (escape_tree (o_esc o) tr) /\ valid_gen out = true /\
          exists t', parse out = Some t' /\ den t' = den tr) /\
       (indent <> [] -> exists out0, api_apply o [] p doc = ROut out0 /\ indent_go indent out0 = Some out)).
Proof.
  intros Pd A H. apply (api_apply_out o indent p doc t out Pd) in H as [tr [R ->]].
  destruct (result_tree_tok o p t tr (proj1 (parse_twf _ _ Pd)) A R) as [T Sh].
  exists tr. split; [exact R|]. split; [reflexivity|]. split; [exact T|]. split; [exact Sh|].
  intro D. split.
  - intro W. split; [apply output_parses; assumption|]. split; [apply output_valid; assumption | apply output_den; assumption].
  - intro NE. exists (output o [] tr). split; [|apply output_indent; assumption].
    apply (api_apply_out o [] p doc t _ Pd). exists tr. split; [exact R | reflexivity].
Qed.

(* decoded patches; the empty patch needs no hypothesis on the nesting *)
Corollary api_apply_output_decoded o indent patch p doc t out :
  api_decode patch = Some p -> parse doc = Some t -> wsb indent = true ->
  api_apply o indent p doc = ROut out ->
  exists tr, result_tree o p t = Some tr /\ out = output o indent tr /\
    ((Text.tdepth tr <= max_depth)%N -> valid_gen out = true /\ exists t', parse out = Some t' /\ den t' = den tr).
Proof.
  intros Dc Pd W H.
  destruct (api_apply_output_general o indent p doc t out Pd (api_decode_tok _ _ Dc) H) as [tr [R [E [T [Sh G]]]]].
  exists tr. split; [exact R|]. split; [exact E|]. intro D. destruct (G D) as [G1 _]. destruct (G1 W) as [_ [V X]]. split; assumption.
Qed.

Corollary api_apply_output_nil o indent doc t out :
  parse doc = Some t -> wsb indent = true -> api_apply o indent [] doc = ROut out ->
  valid_gen out = true /\ exists t', parse out = Some t'.
Proof.
  intros Pd W H.
  destruct (api_apply_output_general o indent [] doc t out Pd (Forall_nil _) H) as [tr [R [E [T [Sh G]]]]].
  assert (D : (Text.tdepth tr <= max_depth)%N).
  { pose proof (result_tree_nil_depth o t tr R). pose proof (proj2 (proj1 (twf_text t) (parse_twf _ _ Pd))). lia. }
  destruct (G D) as [G1 _]. destruct (G1 W) as [P1 [V _]]. split; [exact V | eauto].
Qed.

(* ================================================================================================ *)
(* 7. Apply in the domain of the simulation: the output bytes denote the RFC 6902 result            *)
(* ================================================================================================ *)
(* the bytes written for a good node whose raw messages are made of tokens: read back, they denote
   the node's value *)
Theorem node_output_den o indent n :
  ngood n -> ntok n -> (odepth (aval n) <= max_depth)%N -> wsb indent = true ->
  parse (output o indent (render (o_esc o) n)) = Some (enc (o_esc o) n) /\
  den (enc (o_esc o) n) = aval n /\
  valid_gen (output o indent (render (o_esc o) n)) = true.
Proof.
  intros [W [L Sn]] T D Ws.
  assert (Tr : tok (render (o_esc o) n)) by (apply tok_render; exact T).
  assert (Dr : (Text.tdepth (render (o_esc o) n) <= max_depth)%N) by (rewrite render_depth by exact W; exact D).
  split; [apply output_parses; assumption|]. split; [apply codec_thm; assumption | apply output_valid; assumption].
Qed.

Theorem api_apply_output_sim o indent p doc t :
  plain_opts o -> parse doc = Some t -> root_container t = true -> tnodup t = true ->
  Forall op_dom p -> Forall op_tok p ->
  copies_fit (dia o) (den t) (map den_op p) = true ->
  wsb indent = true ->
  match rfc_apply (dia o) (den t) (map den_op p) with
  | Done j =>
      (odepth j <= max_depth)%N ->
      exists out t', api_apply o indent p doc = ROut out /\ parse out = Some t' /\ den t' = j /\ valid_gen out = true /\
        (indent <> [] -> exists out0, api_apply o [] p doc = ROut out0 /\ indent_go indent out0 = Some out)
  | Failed i cz => exists e, api_apply o indent p doc = RErr (Some i) e /\ cause_rel cz e
  end.
Proof.
  intros PO Pd RC T D A F W.
  pose proof (api_apply_sim o indent p doc t PO Pd RC T D F) as Sim.
  destruct (load_doc_good o _ t Pd RC T) as [c [S1 [S2 S3]]].
  assert (F' : copies_fit (dia o) (sval (mkState (RCon c) 0)) (map den_op p) = true).
  { unfold sval. cbn [s_root]. rewrite S3. exact F. }
  pose proof (apply_sim o PO p 0%nat (mkState (RCon c) 0) (ex_intro _ c (conj eq_refl S2)) D F') as AS.
  unfold sval in AS at 1. cbn [s_root] in AS. rewrite S3 in AS. unfold rfc_apply in *.
  destruct (rfc_apply_from (dia o) 0 (den t) (map den_op p)) as [j|i cz]; [|exact Sim]. clear Sim.
  intro Dj. destruct AS as [st' [A1 [A2 [c' [A3 A4]]]]].
  assert (NT : ntok (node_of_con c')).
  { pose proof (apply_from_ntok o p 0%nat (mkState (RCon c) 0) st'
                  (load_doc_stok o t _ (proj1 (parse_twf _ _ Pd)) S1) A A1) as X. rewrite A3 in X. exact X. }
  unfold sval in A2. rewrite A3 in A2. fold (cval c') in A2.
  assert (R : result_tree o p t = Some (render (o_esc o) (node_of_con c'))).
  { unfold result_tree. rewrite S1, A1. unfold marshal_root. rewrite A3.
    destruct c' as [s k ob| |s ns]; [reflexivity | exfalso; exact (proj2 A4) | reflexivity]. }
  assert (Dn : (odepth (aval (node_of_con c')) <= max_depth)%N) by (unfold cval in A2; rewrite A2; exact Dj).
  destruct (node_output_den o indent (node_of_con c') (proj1 A4) NT Dn W) as [O1 [O2 O3]].
  exists (output o indent (render (o_esc o) (node_of_con c'))), (enc (o_esc o) (node_of_con c')).
  split; [apply (api_apply_out o indent p doc t _ Pd); eexists; split; [exact R | reflexivity]|].
  split; [exact O1|]. split; [rewrite O2; exact A2|]. split; [exact O3|].
  intro NE. exists (output o [] (render (o_esc o) (node_of_con c'))). split.
  - apply (api_apply_out o [] p doc t _ Pd). eexists. split; [exact R | reflexivity].
  - destruct (result_tree_tok o p t _ (proj1 (parse_twf _ _ Pd)) A R) as [Tr Sh].
    apply output_indent; auto. rewrite render_depth by exact (proj1 (proj1 A4)). exact Dn.
Qed.

Print Assumptions tdepth_eq.
Print Assumptions sbody_quote_any.
Print Assumptions tok_render.
Print Assumptions apply_from_ntok.
Print Assumptions api_decode_tok.
Print Assumptions api_apply_output_general.
Print Assumptions api_apply_output_nil.
Print Assumptions api_apply_output_sim.

(* ================================================================================================ *)
(* 8. MergePatch / MergeMergePatches (v5): an invariant of nodes indexed by the nesting still        *)
(*    allowed, kept by pruneNulls and merge (generic; instantiated with tokens + UTF-8 names, and    *)
(*    with the nesting depth)                                                                        *)
(* ================================================================================================ *)
From JP Require Import ImplMerge Rfc7396 MergeFacts ImplMergeFacts CreateFacts.

Section MergeInv.
  Variable P : N -> tjson -> Prop.
  Variable Pk : bytes -> Prop.
  Variable okl : N -> Prop.

  Fixpoint nlv (d : N) (n : node) : Prop :=
    match n with
    | NNil => True
    | NRaw t => P d t
    | NDoc keys obj =>
        okl d /\ Forall Pk keys /\
        (fix all (m : list (bytes * node)) : Prop :=
           match m with [] => True | kv :: r => (Pk (fst kv) /\ nlv (d - 1) (snd kv)) /\ all r end) obj
    | NAry ns =>
        okl d /\ (fix all (l : list node) : Prop := match l with [] => True | x :: r => nlv (d - 1) x /\ all r end) ns
    end.

  Definition mlv (d : N) (obj : list (bytes * node)) : Prop := Forall (fun kv => Pk (fst kv) /\ nlv d (snd kv)) obj.

  Lemma nlv_doc d keys obj : nlv d (NDoc keys obj) <-> okl d /\ Forall Pk keys /\ mlv (d - 1) obj.
  Proof.
    cbn [nlv]. unfold mlv. split; intros [H0 [H1 H2]]; (split; [exact H0|]; split; [exact H1|]); clear H0 H1.
    - induction obj as [|kv obj IH]; constructor; destruct H2; auto.
    - induction obj as [|kv obj IH]; [exact I|]. inversion H2 as [|? ? Ha Hb]; subst. split; [exact Ha | apply IH; exact Hb].
  Qed.

  Lemma nlv_ary d ns : nlv d (NAry ns) <-> okl d /\ Forall (nlv (d - 1)) ns.
  Proof.
    cbn [nlv]. split; intros [H0 H]; (split; [exact H0|]); clear H0.
    - induction ns as [|x ns IH]; constructor; destruct H; auto.
    - induction ns as [|x ns IH]; [exact I|]. inversion H as [|? ? Ha Hb]; subst. split; [exact Ha | apply IH; exact Hb].
  Qed.

  Hypothesis P_obj : forall d ms, P d (TObj ms) ->
    okl d /\ Forall (fun kv => Pk (unquote (fst kv)) /\ P (d - 1) (snd kv)) ms.

  Lemma nlv_child d t : P d t -> nlv d (child t).
  Proof. destruct t; intro H; try exact I; exact H. Qed.

  Lemma build_with_mlv (f : tjson -> node) d ms : forall acc,
    mlv d acc -> Forall (fun kv => Pk (unquote (fst kv)) /\ nlv d (f (snd kv))) ms -> mlv d (build_with f ms acc).
  Proof.
    induction ms as [|[k v] ms IH]; intros acc Ha Hf; cbn [build_with]; [exact Ha|].
    inversion Hf as [|? ? Hv Hr]; subst. apply IH; [|exact Hr]. apply Forall_aset_kv; [exact Ha | exact Hv].
  Qed.

  Lemma doc_of_lv d ms : P d (TObj ms) -> nlv d (NDoc (fst (doc_of ms)) (snd (doc_of ms))).
  Proof.
    intro H. apply P_obj in H as [O F]. unfold doc_of. cbn [fst snd]. rewrite build_obj_with. apply nlv_doc.
    split; [exact O|]. split.
    - rewrite Forall_map. revert F. apply Forall_impl. intros kv [H1 _]. exact H1.
    - apply build_with_mlv; [constructor|]. revert F. apply Forall_impl. intros kv [H1 H2]. split; [exact H1 | apply nlv_child; exact H2].
  Qed.

  (* ---- pruneNulls ---- *)
  Lemma prune_entries_lv d entries : forall keys obj,
    Forall Pk keys -> mlv d entries -> mlv d obj ->
    Forall Pk (fst (prune_entries (fun n => n) entries keys obj)) /\ mlv d (snd (prune_entries (fun n => n) entries keys obj)).
  Proof.
    induction entries as [|[k v] entries IH]; intros keys obj Hk He Ho; cbn [prune_entries]; [split; assumption|].
    inversion He as [|? ? [Hk1 Hv] Hr]; subst. cbn [fst snd] in *.
    assert (Del : Forall Pk (fst (prune_entries (fun n => n) entries (if kmem k keys then kdel1 k keys else keys) (adel k obj))) /\
                  mlv d (snd (prune_entries (fun n => n) entries (if kmem k keys then kdel1 k keys else keys) (adel k obj)))).
    { apply IH; [destruct (kmem k keys); [apply Forall_kdel1|]; exact Hk | exact Hr | apply Forall_adel; exact Ho]. }
    assert (Upd : Forall Pk (fst (prune_entries (fun n => n) entries keys (aset k v obj))) /\
                  mlv d (snd (prune_entries (fun n => n) entries keys (aset k v obj)))).
    { apply IH; [exact Hk | exact Hr | apply Forall_aset_kv; [exact Ho | split; assumption]]. }
    destruct v; [exact Del | exact Upd | exact Upd | exact Upd].
  Qed.

  Lemma prune_t_lv t : forall d, P d t -> nlv d (prune_t t).
  Proof.
    induction t as [| | |lit|b|l IH|ms IH] using tjson_rect'; intros d H; try exact H.
    rewrite prune_t_obj. cbv zeta. destruct (P_obj d ms H) as [O F].
    set (keys := map (fun kv => unquote (fst kv)) ms). set (obj := build_with pchild ms []).
    assert (Hk : Forall Pk keys).
    { unfold keys. rewrite Forall_map. revert F. apply Forall_impl. intros kv [H1 _]. exact H1. }
    assert (Ho : mlv (d - 1) obj).
    { unfold obj. apply build_with_mlv; [constructor|]. rewrite Forall_forall in IH, F. apply Forall_forall. intros kv Hin.
      destruct (F kv Hin) as [F1 F2]. split; [exact F1|]. unfold pchild.
      pose proof (IH kv Hin _ F2) as Q. destruct (snd kv); try exact I; exact Q. }
    destruct (prune_entries_lv (d - 1) obj keys obj Hk Ho Ho) as [R1 R2].
    destruct (prune_entries (fun n => n) obj keys obj) as [keys' obj']. cbn [fst snd] in *.
    apply nlv_doc. split; [exact O|]. split; assumption.
  Qed.

  Lemma prune_node_lv n : forall d, nlv d n -> nlv d (prune_node n).
  Proof.
    induction n as [|t|keys obj IH|ns IH] using node_rect'; intros d H; cbn [prune_node]; try exact H.
    - apply prune_t_lv. exact H.
    - apply nlv_doc in H as [O [Hk Ho]].
      set (obj1 := map (fun kv => (fst kv, prune_node (snd kv))) obj).
      assert (Ho1 : mlv (d - 1) obj1).
      { unfold obj1, mlv. rewrite Forall_map. cbn [fst snd]. unfold mlv in Ho. rewrite Forall_forall in *.
        intros kv Hin. destruct (Ho kv Hin) as [H1 H2]. split; [exact H1 | apply (IH kv Hin); exact H2]. }
      destruct (prune_entries_lv (d - 1) obj1 keys obj1 Hk Ho1 Ho1) as [R1 R2].
      destruct (prune_entries (fun n => n) obj1 keys obj1) as [keys' obj']. cbn [fst snd] in *.
      apply nlv_doc. split; [exact O|]. split; assumption.
  Qed.

  (* ---- merge ---- *)
  Lemma patch_entries_lv d pms : P d (TObj pms) -> Forall (fun kv => Pk (fst kv) /\ P (d - 1) (snd kv)) (patch_entries pms).
  Proof.
    intro H. apply P_obj in H as [_ F]. unfold patch_entries.
    assert (G : Forall (fun kv : bytes * tjson => Pk (fst kv) /\ P (d - 1) (snd kv)) []) by constructor.
    revert G. generalize (@nil (bytes * tjson)).
    induction pms as [|[k v] pms IH]; intros acc G; [exact G|].
    inversion F as [|? ? H1 H2]; subst. apply (IH H2). apply Forall_aset_kv; [exact G | exact H1].
  Qed.

  Lemma into_doc_lv d cur keys obj : nlv d cur -> into_doc cur = Some (keys, obj) -> okl d /\ Forall Pk keys /\ mlv (d - 1) obj.
  Proof.
    intros H E. destruct cur as [|t|k0 o0|ns]; cbn [into_doc] in E; try discriminate.
    - destruct t; try discriminate. pose proof (doc_of_lv d ms H) as D. assert (E' : doc_of ms = (keys, obj)) by congruence. rewrite E' in D. cbn [fst snd] in D.
      apply nlv_doc in D. exact D.
    - inversion E; subst. apply nlv_doc in H. exact H.
  Qed.

  Lemma Forall_Pk_doc_set keys (obj : list (bytes * node)) k v : Forall Pk keys -> Pk k -> Forall Pk (fst (doc_set keys obj k v)).
  Proof.
    intros U Uk. unfold doc_set. cbn [fst]. destruct (kmem k keys); [exact U|].
    apply Forall_app. split; [exact U | constructor; [exact Uk | constructor]].
  Qed.

  Lemma merge_loop_lv rec mm d es :
    (forall c v, nlv d c -> P d v -> nlv d (rec c v)) ->
    forall keys obj, Forall Pk keys -> Forall (fun kv => Pk (fst kv) /\ P d (snd kv)) es -> mlv d obj ->
    Forall Pk (fst (merge_loop rec mm es keys obj)) /\ mlv d (snd (merge_loop rec mm es keys obj)).
  Proof.
    intro Hrec. induction es as [|[k v] es IH]; intros keys obj Hk He Ho; cbn [merge_loop]; [split; assumption|].
    inversion He as [|? ? [Hk1 Hv] Hr]; subst. cbn [fst snd] in *.
    assert (SetC : forall x, nlv d x ->
              Forall Pk (fst (let (k', o') := doc_set keys obj k x in merge_loop rec mm es k' o')) /\
              mlv d (snd (let (k', o') := doc_set keys obj k x in merge_loop rec mm es k' o'))).
    { intros x Hx. pose proof (Forall_Pk_doc_set keys obj k x Hk Hk1) as K1.
      assert (O1 : mlv d (snd (doc_set keys obj k x))).
      { unfold doc_set. cbn [snd]. apply Forall_aset_kv; [exact Ho | split; assumption]. }
      destruct (doc_set keys obj k x) as [k' o']. cbn [fst snd] in *. apply IH; assumption. }
    assert (New : nlv d (if mm then NRaw v else prune_node (NRaw v))).
    { destruct mm; [exact Hv | rewrite prune_node_raw; apply prune_t_lv; exact Hv]. }
    assert (NonNull :
      Forall Pk (fst (match aget k obj with
                      | None | Some NNil =>
                          let v' := if mm then NRaw v else prune_node (NRaw v) in
                          let (k', o') := doc_set keys obj k v' in merge_loop rec mm es k' o'
                      | Some c => let (k', o') := doc_set keys obj k (rec c v) in merge_loop rec mm es k' o'
                      end)) /\
      mlv d (snd (match aget k obj with
                  | None | Some NNil =>
                      let v' := if mm then NRaw v else prune_node (NRaw v) in
                      let (k', o') := doc_set keys obj k v' in merge_loop rec mm es k' o'
                  | Some c => let (k', o') := doc_set keys obj k (rec c v) in merge_loop rec mm es k' o'
                  end))).
    { destruct (aget k obj) as [c|] eqn:E; [|cbv zeta; apply SetC; exact New].
      assert (Hc : nlv d c).
      { apply aget_In in E. unfold mlv in Ho. rewrite Forall_forall in Ho. apply (Ho _ E). }
      destruct c; try (apply SetC; apply Hrec; assumption). cbv zeta. apply SetC. exact New. }
    destruct v; try exact NonNull.
    destruct mm.
    - apply IH; [destruct (kmem k keys); [exact Hk | apply Forall_app; split; [exact Hk | constructor; [exact Hk1 | constructor]]]
                | exact Hr | apply Forall_aset_kv; [exact Ho | split; [exact Hk1 | exact I]]].
    - destruct (amem k obj).
      + apply IH; [destruct (kmem k keys); [apply Forall_kdel1|]; exact Hk | exact Hr | apply Forall_adel; exact Ho].
      + apply IH; assumption.
  Qed.

  Theorem merge_n_lv : forall fuel mm d cur p, nlv d cur -> P d p -> nlv d (merge_n fuel mm cur p).
  Proof.
    induction fuel as [|f IH]; intros mm d cur p Hc Hp; [exact Hp|].
    rewrite merge_n_unfold. destruct (into_doc cur) as [[keys obj]|] eqn:E.
    - destruct (into_doc_lv d cur keys obj Hc E) as [O [Hk Ho]].
      destruct p; try exact Hp.
      pose proof (patch_entries_lv d ms Hp) as He.
      destruct (merge_loop_lv (merge_n f mm) mm (d - 1) (patch_entries ms) (fun c v => IH mm (d - 1) c v) keys obj Hk He Ho) as [R1 R2].
      destruct (merge_loop (merge_n f mm) mm (patch_entries ms) keys obj) as [keys' obj']. cbn [fst snd] in *.
      apply nlv_doc. split; [exact O|]. split; assumption.
    - rewrite prune_node_raw. apply prune_t_lv. exact Hp.
  Qed.
End MergeInv.

(* ---- instance 1: tokens the reader accepts, member names valid UTF-8 ---- *)
Definition Ptok (_ : N) (t : tjson) : Prop := tok t.
Definition okT (_ : N) : Prop := True.

Lemma Ptok_obj d ms : Ptok d (TObj ms) -> okT d /\ Forall (fun kv => utf8 (unquote (fst kv)) /\ Ptok (d - 1) (snd kv)) ms.
Proof.
  unfold Ptok, okT. intro H. split; [exact I|]. apply tok_obj in H. rewrite Forall_forall in *. intros kv Hk.
  destruct (H kv Hk) as [H1 H2]. split; [apply sbody_unquote_utf8; apply body_ok_sbody; exact H1 | exact H2].
Qed.

Lemma tok_tlit t : tok t -> tlit t = true.
Proof.
  induction t as [| | |lit|b|l IH|ms IH] using tjson_rect'; intro T; try reflexivity.
  - cbn [tlit]. apply num_ok_lit_ok. exact T.
  - cbn [tlit]. apply tok_arr in T. apply forallb_forall. rewrite Forall_forall in *. intros x Hx. apply (IH x Hx), T, Hx.
  - cbn [tlit]. apply tok_obj_parts in T. apply forallb_forall. rewrite Forall_forall in *. intros x Hx. apply (IH x Hx), T, Hx.
Qed.

Lemma ntok_nlit n : ntok n -> nlit n.
Proof.
  induction n as [|t|keys obj IH|ns IH] using node_rect'; intro N.
  - exact I.
  - apply tok_tlit. exact N.
  - apply ntok_doc in N. apply nlit_doc. rewrite Forall_forall in *. intros kv Hk. apply (IH kv Hk), N, Hk.
  - apply ntok_ary in N. apply nlit_ary. rewrite Forall_forall in *. intros x Hx. apply (IH x Hx), N, Hx.
Qed.

Lemma nlv_tok_facts n : forall d, nlv Ptok utf8 okT d n -> ntok n /\ nstr n.
Proof.
  induction n as [|t|keys obj IH|ns IH] using node_rect'; intros d H.
  - split; exact I.
  - split; [exact H | apply nstr_raw; apply tok_tsb; exact H].
  - apply nlv_doc in H as [_ [Hk Ho]]. unfold mlv in Ho. split.
    + apply ntok_doc. rewrite Forall_forall in *. intros kv Hin. apply (IH kv Hin (d - 1)%N). apply (Ho kv Hin).
    + apply nstr_doc. split; [exact Hk|]. rewrite Forall_forall in *. intros kv Hin. destruct (Ho kv Hin) as [H1 H2].
      split; [exact H1 | apply (IH kv Hin (d - 1)%N); exact H2].
  - apply nlv_ary in H as [_ H]. split.
    + apply ntok_ary. rewrite Forall_forall in *. intros x Hx. apply (IH x Hx (d - 1)%N). apply (H x Hx).
    + apply nstr_ary. rewrite Forall_forall in *. intros x Hx. apply (IH x Hx (d - 1)%N). apply (H x Hx).
Qed.

(* ---- instance 2: the nesting still allowed ---- *)
Definition Pdep (d : N) (t : tjson) : Prop := (Text.tdepth t <= d)%N.
Definition okD (d : N) : Prop := d <> 0%N.
Definition anykey (_ : bytes) : Prop := True.

Lemma Pdep_obj d ms : Pdep d (TObj ms) -> okD d /\ Forall (fun kv => anykey (unquote (fst kv)) /\ Pdep (d - 1) (snd kv)) ms.
Proof.
  unfold Pdep, okD. rewrite tdepth_obj. intro H. split; [lia|]. apply Forall_forall. intros kv Hk. split; [exact I|].
  pose proof (maxd_le (fun kv => Text.tdepth (snd kv)) ms kv Hk). cbn beta in *. lia.
Qed.

Lemma nlv_render_depth esc n : forall d, nlv Pdep anykey okD d n -> (Text.tdepth (render esc n) <= d)%N.
Proof.
  induction n as [|t|keys obj IH|ns IH] using node_rect'; intros d H.
  - cbn. lia.
  - exact H.
  - apply nlv_doc in H as [O [_ Ho]]. unfold okD in O. unfold mlv in Ho. rewrite render_doc, tdepth_obj, maxd_map. cbn [snd].
    assert (maxd (fun k => Text.tdepth match option_map (render esc) (aget k obj) with Some t => t | None => TNull end) keys <= d - 1)%N; [|lia].
    apply maxd_bound. intros k _. destruct (aget k obj) as [x|] eqn:E; cbn [option_map]; [|cbn; lia].
    apply aget_In in E. rewrite Forall_forall in IH, Ho. apply (IH _ E). apply (Ho _ E).
  - apply nlv_ary in H as [O H]. unfold okD in O. cbn [render]. rewrite tdepth_arr, maxd_map.
    assert (maxd (fun x => Text.tdepth (render esc x)) ns <= d - 1)%N; [|lia].
    apply maxd_bound. intros x Hx. rewrite Forall_forall in IH, H. apply (IH x Hx). apply (H x Hx).
Qed.

(* ---- the node MergePatch / MergeMergePatches encode ---- *)
Definition merge_node (mm : bool) (td tp : tjson) : node :=
  match tp with
  | TObj pms =>
      match td with
      | TObj _ => merge_n (S (tsize tp)) mm (NRaw td) tp
      | _ => if mm then (let (k, o) := doc_of pms in NDoc k o) else prune_node (NRaw tp)
      end
  | _ => NRaw tp
  end.

Lemma api_merge_node mm doc patch td tp :
  parse doc = Some td -> parse patch = Some tp -> td <> TNull -> scalar_text tp = false ->
  api_merge mm doc patch = MOut (marshal_node (merge_node mm td tp)).
Proof.
  intros Pd Pp NN Sc. unfold api_merge. rewrite Pd, Pp.
  destruct tp; try discriminate Sc; destruct td; try congruence; try reflexivity; destruct mm; reflexivity.
Qed.

Lemma api_merge_scalar mm doc patch td tp :
  parse doc = Some td -> parse patch = Some tp -> td <> TNull -> scalar_text tp = true ->
  api_merge mm doc patch = MOut patch.
Proof.
  intros Pd Pp NN Sc. unfold api_merge. rewrite Pd, Pp.
  destruct tp; try discriminate Sc; destruct td; try congruence; reflexivity.
Qed.

Lemma merge_node_lv (P : N -> tjson -> Prop) (Pk : bytes -> Prop) (okl : N -> Prop) :
  (forall d ms, P d (TObj ms) -> okl d /\ Forall (fun kv => Pk (unquote (fst kv)) /\ P (d - 1) (snd kv)) ms) ->
  forall mm d td tp, P d td -> P d tp -> nlv P Pk okl d (merge_node mm td tp).
Proof.
  intros PO mm d td tp Hd Hp. unfold merge_node. destruct tp; try exact Hp.
  destruct td; try (destruct mm; [|rewrite prune_node_raw; apply (prune_t_lv P Pk okl PO); exact Hp];
                    pose proof (doc_of_lv P Pk okl PO d ms Hp) as D; destruct (doc_of ms) as [k o0]; exact D).
  apply (merge_n_lv P Pk okl PO); [exact Hd | exact Hp].
Qed.

(* what is written for it is read back as its re-encoding: no hypothesis beyond the two texts
   having been read (duplicate names included) *)
Theorem merge_node_output mm td tp : twf td -> twf tp ->
  parse (marshal_node (merge_node mm td tp)) = Some (enc true (merge_node mm td tp)) /\
  ntok (merge_node mm td tp) /\ nstr (merge_node mm td tp).
Proof.
  intros Wd Wp. apply twf_text in Wd as [Td Dd]. apply twf_text in Wp as [Tp Dp].
  destruct (nlv_tok_facts _ 0%N (merge_node_lv Ptok utf8 okT Ptok_obj mm 0%N td tp Td Tp)) as [NT NS].
  pose proof (nlv_render_depth true _ max_depth (merge_node_lv Pdep anykey okD Pdep_obj mm max_depth td tp Dd Dp)) as ND.
  split; [|split; assumption]. unfold marshal_node, enc. apply parse_print_any. apply twf_text.
  split; [apply tok_render; exact NT | exact ND].
Qed.

(* every successful MergePatch / MergeMergePatches call returns a JSON text *)
Theorem api_merge_output_general mm doc patch out :
  api_merge mm doc patch = MOut out -> exists t', parse out = Some t'.
Proof.
  unfold api_merge. destruct (parse doc) as [td|] eqn:Pd; [|discriminate].
  destruct (parse patch) as [tp|] eqn:Pp; [|discriminate]. intro H.
  assert (NN : td <> TNull) by (intro E; subst td; discriminate H).
  destruct (scalar_text tp) eqn:Sc.
  - pose proof (api_merge_scalar mm doc patch td tp Pd Pp NN Sc) as E. unfold api_merge in E. rewrite Pd, Pp in E.
    rewrite E in H. inversion H; subst. eauto.
  - pose proof (api_merge_node mm doc patch td tp Pd Pp NN Sc) as E. unfold api_merge in E. rewrite Pd, Pp in E.
    rewrite E in H. inversion H; subst. eexists.
    apply (merge_node_output mm td tp (parse_twf _ _ Pd) (parse_twf _ _ Pp)).
Qed.

Corollary api_merge_output_valid mm doc patch out : api_merge mm doc patch = MOut out -> valid_gen out = true.
Proof. intro H. apply valid_gen_iff_parse. eapply api_merge_output_general; eauto. Qed.

(* ---- in the domain of the refinement theorems: the bytes denote the RFC 7396 result ---- *)
Lemma merge_node_spec td tp :
  td <> TNull -> tnodup td = true -> tnodup tp = true -> scalar_text tp = false ->
  nwf (merge_node false td tp) /\ aval (merge_node false td tp) = merge_patch (den td) (den tp).
Proof.
  intros NN Td Tp Sc. unfold merge_node. destruct tp; try discriminate Sc.
  - split; [exact Tp | reflexivity].
  - destruct td; try congruence;
      try (rewrite prune_node_raw; destruct (prune_t_spec (TObj ms) Tp) as [S1 S2]; split; [exact S2|]; rewrite S1;
           apply merge_patch_target_irrelevant; reflexivity).
    destruct (merge_n_spec (S (tsize (TObj ms))) (TObj ms) (NRaw (TObj ms0))) as [S1 S2]; [lia | exact Tp | exact Td|].
    split; [exact S2 | exact S1].
Qed.

Lemma merge_node_mm_spec ms1 t2 :
  tnodup (TObj ms1) = true -> tnodup t2 = true -> compatible (den (TObj ms1)) (den t2) = true -> scalar_text t2 = false ->
  nwf (merge_node true (TObj ms1) t2) /\ aval (merge_node true (TObj ms1) t2) = mm (den (TObj ms1)) (den t2).
Proof.
  intros T1 T2 C Sc. unfold merge_node. destruct t2; try discriminate Sc.
  - split; [exact T2 | reflexivity].
  - assert (G : aval (merge_n (S (tsize (TObj ms))) true (NRaw (TObj ms1)) (TObj ms)) = mm (aval (NRaw (TObj ms1))) (den (TObj ms)) /\
                nwf (merge_n (S (tsize (TObj ms))) true (NRaw (TObj ms1)) (TObj ms)) /\
                nclean (merge_n (S (tsize (TObj ms))) true (NRaw (TObj ms1)) (TObj ms)) = true)
      by (apply merge_n_mm_spec; auto; try lia; try discriminate).
    destruct G as [G1 [G2 _]]. split; [exact G2 | exact G1].
Qed.

Lemma scalar_den_nonobj tp : scalar_text tp = true -> forall ms, den tp <> OObj ms.
Proof. destruct tp; try discriminate; intros _ ms; discriminate. Qed.

(* MergePatch: the bytes returned are a JSON text whose value is RFC 7396's MergePatch(document, patch) *)
Theorem api_merge_output doc patch td tp :
  parse doc = Some td -> parse patch = Some tp -> td <> TNull -> tnodup td = true -> tnodup tp = true ->
  exists out t', api_merge false doc patch = MOut out /\ parse out = Some t' /\
                 den t' = merge_patch (den td) (den tp) /\ valid_gen out = true.
Proof.
  intros Pd Pp NN Td Tp. destruct (scalar_text tp) eqn:Sc.
  - exists patch, tp. split; [eapply api_merge_scalar; eauto|]. split; [exact Pp|].
    split; [symmetry; apply merge_patch_nonobj; apply scalar_den_nonobj; exact Sc|].
    apply valid_gen_iff_parse. eauto.
  - destruct (merge_node_spec td tp NN Td Tp Sc) as [W V].
    destruct (merge_node_output false td tp (parse_twf _ _ Pd) (parse_twf _ _ Pp)) as [O [NT NS]].
    exists (marshal_node (merge_node false td tp)), (enc true (merge_node false td tp)).
    split; [eapply api_merge_node; eauto|]. split; [exact O|]. split.
    + rewrite <- V. apply codec_thm; [exact W | apply ntok_nlit; exact NT | exact NS].
    + apply valid_gen_iff_parse. eauto.
Qed.

(* MergeMergePatches: the bytes returned are a JSON text whose value is the combined patch mm P1 P2 *)
Theorem api_mergemerge_output p1 p2 ms1 t2 :
  parse p1 = Some (TObj ms1) -> parse p2 = Some t2 -> tnodup (TObj ms1) = true -> tnodup t2 = true ->
  compatible (den (TObj ms1)) (den t2) = true ->
  exists out t', api_merge true p1 p2 = MOut out /\ parse out = Some t' /\
                 den t' = mm (den (TObj ms1)) (den t2) /\ valid_gen out = true.
Proof.
  intros P1 P2 T1 T2 C. destruct (scalar_text t2) eqn:Sc.
  - exists p2, t2. split; [eapply api_merge_scalar; eauto; discriminate|]. split; [exact P2|].
    split; [symmetry; apply mm_nonobj2; apply scalar_den_nonobj; exact Sc|].
    apply valid_gen_iff_parse. eauto.
  - destruct (merge_node_mm_spec ms1 t2 T1 T2 C Sc) as [W V].
    destruct (merge_node_output true (TObj ms1) t2 (parse_twf _ _ P1) (parse_twf _ _ P2)) as [O [NT NS]].
    exists (marshal_node (merge_node true (TObj ms1) t2)), (enc true (merge_node true (TObj ms1) t2)).
    split; [eapply api_merge_node; eauto; discriminate|]. split; [exact O|]. split.
    + rewrite <- V. apply codec_thm; [exact W | apply ntok_nlit; exact NT | exact NS].
    + apply valid_gen_iff_parse. eauto.
Qed.

Print Assumptions merge_n_lv.
Print Assumptions api_merge_output_general.
Print Assumptions api_merge_output.
Print Assumptions api_mergemerge_output.

(* ================================================================================================ *)
(* 9. CreateMergePatch (v5): the output bytes                                                        *)
(* ================================================================================================ *)
(* every number literal of a decoded value is a complete number *)
Definition onum_ok (j : ojson) : Prop := forall lit, In lit (onums j) -> num_ok lit.

Lemma onum_ok_arr l x : onum_ok (OArr l) -> In x l -> onum_ok x.
Proof. intros H Hx lit Hl. apply H. cbn [onums]. apply in_flat_map. exists x. split; assumption. Qed.

Lemma onum_ok_obj ms kv : onum_ok (OObj ms) -> In kv ms -> onum_ok (snd kv).
Proof. intros H Hx lit Hl. apply H. cbn [onums]. apply in_flat_map. exists kv. split; assumption. Qed.

Theorem tok_encode_sorted j : onum_ok j -> tok (encode_sorted j).
Proof.
  induction j as [|b|lit|s|l IH|ms IH] using ojson_rect'; intro U; try exact I.
  - destruct b; exact I.
  - rewrite encode_sorted_num. apply U. left. reflexivity.
  - rewrite encode_sorted_str. apply body_ok_quote.
  - rewrite encode_sorted_arr. apply tok_arr. rewrite Forall_map. rewrite Forall_forall in *.
    intros x Hin. apply (IH x Hin). apply (onum_ok_arr l x U Hin).
  - rewrite encode_sorted_obj. apply tok_obj. rewrite Forall_map. cbn [fst snd].
    rewrite Forall_forall in IH. apply Forall_forall. intros kv Hin. apply In_sort4 in Hin.
    apply in_map_iff in Hin as [kv0 [<- Hin0]]. cbn [fst snd].
    split; [apply body_ok_quote | apply (IH _ Hin0); apply (onum_ok_obj ms kv0 U Hin0)].
Qed.

Lemma tok_tnums t : tok t -> forall lit, In lit (tnums t) -> num_ok lit.
Proof.
  induction t as [| | |l0|b|l IH|ms IH] using tjson_rect'; intros T lit Hin; cbn [tnums] in Hin; try contradiction.
  - destruct Hin as [<-|[]]. exact T.
  - apply in_flat_map in Hin as [x [Hx Hl]]. apply tok_arr in T. rewrite Forall_forall in *. apply (IH x Hx (T x Hx) lit Hl).
  - apply in_flat_map in Hin as [kv [Hx Hl]]. apply tok_obj_parts in T. rewrite Forall_forall in *. apply (IH kv Hx (T kv Hx) lit Hl).
Qed.

Lemma onums_den t : forall lit, In lit (onums (den t)) -> In lit (tnums t).
Proof.
  induction t as [| | |l0|b|l IH|ms IH] using tjson_rect'; intros lit Hin; cbn [den onums tnums] in *; try contradiction.
  - exact Hin.
  - apply in_flat_map in Hin as [j [Hj Hl]]. apply in_map_iff in Hj as [x [<- Hx]]. apply in_flat_map. exists x.
    split; [exact Hx|]. rewrite Forall_forall in IH. apply (IH x Hx lit Hl).
  - apply in_flat_map in Hin as [kv [Hk Hl]]. unfold resolve_dups in Hk. apply in_map_iff in Hk as [kv0 [<- Hk0]].
    cbn [snd] in Hl.
    set (m := map (fun kv => (unquote (fst kv), den (snd kv))) ms) in *.
    assert (G : exists kv1, In kv1 m /\ In lit (onums (snd kv1))).
    { destruct (alast_in (fst kv0) m (snd kv0)) as [E|[kv1 [I1 E]]]; rewrite E in Hl; eauto. }
    destruct G as [kv1 [I1 Hl1]]. unfold m in I1. apply in_map_iff in I1 as [kv2 [<- I2]]. cbn [snd] in Hl1.
    apply in_flat_map. exists kv2. split; [exact I2|]. rewrite Forall_forall in IH. apply (IH kv2 I2 lit Hl1).
Qed.

Corollary onum_ok_den t : tok t -> onum_ok (den t).
Proof. intros T lit Hin. apply (tok_tnums t T). apply onums_den. exact Hin. Qed.

Lemma onum_ok_diff a b : onum_ok b -> onum_ok (diff a b).
Proof. intros H lit Hin. apply H. apply (onums_diff b a lit Hin). Qed.

(* ---- nesting ---- *)
Lemma encode_sorted_depth j : (Text.tdepth (encode_sorted j) <= odepth j)%N.
Proof.
  induction j as [|b|lit|s|l IH|ms IH] using ojson_rect'; try (cbn; lia).
  - destruct b; cbn; lia.
  - rewrite encode_sorted_arr, tdepth_arr, odepth_arr, maxd_map.
    assert (maxd (fun x => Text.tdepth (encode_sorted x)) l <= maxd odepth l)%N; [|lia].
    apply maxd_bound. intros x Hx. rewrite Forall_forall in IH. pose proof (IH x Hx). pose proof (maxd_le odepth l x Hx). lia.
  - rewrite encode_sorted_obj, tdepth_obj, odepth_obj, maxd_map. cbn [snd].
    assert (maxd (fun kv : bytes * tjson => Text.tdepth (snd kv)) (V4MergeFacts.sort4 (map (fun kv => (fst kv, encode_sorted (snd kv))) ms))
            <= maxd (fun kv => odepth (snd kv)) ms)%N; [|lia].
    apply maxd_bound. intros kv Hin. apply In_sort4 in Hin. apply in_map_iff in Hin as [kv0 [<- Hin0]]. cbn [snd].
    rewrite Forall_forall in IH. pose proof (IH kv0 Hin0). pose proof (maxd_le (fun kv => odepth (snd kv)) ms kv0 Hin0).
    cbn beta in *. lia.
Qed.

Lemma diff_depth b : forall a, (odepth (diff a b) <= odepth b)%N.
Proof.
  induction b as [|b0|lit|s|l IH|bms IH] using ojson_rect'; intro a;
    try (rewrite diff_nonobj by (destruct a; reflexivity); lia).
  destruct (is_obj a) eqn:Oa; [|rewrite diff_nonobj by (rewrite Oa; reflexivity); lia].
  apply is_obj_true in Oa as [ams ->]. rewrite diff_obj, !odepth_obj.
  assert (maxd (fun kv => odepth (snd kv)) (diff_members ams bms ++ diff_dels ams bms) <= maxd (fun kv => odepth (snd kv)) bms)%N; [|lia].
  apply maxd_bound. intros kv Hin.
  assert (F : Forall (fun kv : bytes * ojson => (odepth (snd kv) <= maxd (fun kv => odepth (snd kv)) bms)%N)
                     (diff_members ams bms ++ diff_dels ams bms)).
  { apply Forall_app. split.
    - apply diff_members_P.
      + intros k bv Hb. apply (maxd_le (fun kv => odepth (snd kv)) bms (k, bv) Hb).
      + intros k av bv Hb _ _ _. cbn [snd]. rewrite Forall_forall in IH. pose proof (IH _ Hb av) as Q. cbn [snd] in Q.
        pose proof (maxd_le (fun kv => odepth (snd kv)) bms (k, bv) Hb) as R. cbn [snd] in R. lia.
    - apply diff_dels_P. intros k av _. cbn. lia. }
  rewrite Forall_forall in F. apply (F kv Hin).
Qed.

(* ---- the patch CreateMergePatch builds for one pair ---- *)
Lemma one_le_max_depth : (1 <= max_depth)%N. Proof. unfold max_depth. lia. Qed.

Lemma as_obj_facts d t oa : tok t -> (1 <= d)%N -> (Text.tdepth t <= d)%N -> as_obj t = Some oa -> onum_ok oa /\ (odepth oa <= d)%N.
Proof.
  intros T D1 D. destruct t; cbn [as_obj]; try discriminate; intro E.
  - inversion E; subst. split; [intros lit []|]. cbn. lia.
  - assert (Eo : oa = den (TObj ms)) by congruence. rewrite Eo. split; [exact (onum_ok_den _ T)|].
    pose proof (den_depth_le (TObj ms)). lia.
Qed.

Lemma create_object_wf d x y p : tok y -> (1 <= d)%N -> (Text.tdepth y <= d)%N ->
  create_object x y = Some p -> tok p /\ (Text.tdepth p <= d)%N.
Proof.
  intros T D1 D. rewrite create_object_spec. destruct (as_obj x) as [oa|]; [|discriminate].
  destruct (as_obj y) as [ob|] eqn:Eb; [|discriminate]. intro E; inversion E; subst.
  destruct (as_obj_facts d y ob T D1 D Eb) as [N Dp]. split.
  - apply tok_encode_sorted. apply onum_ok_diff. exact N.
  - pose proof (encode_sorted_depth (diff oa ob)). pose proof (diff_depth ob oa). lia.
Qed.

Lemma create_elems_wf d la : forall lb ps, Forall tok lb -> (1 <= d)%N -> Forall (fun y => (Text.tdepth y <= d)%N) lb ->
  create_elems la lb = Some ps -> Forall (fun p => tok p /\ (Text.tdepth p <= d)%N) ps.
Proof.
  induction la as [|x la IH]; intros lb ps T D1 D; cbn [create_elems].
  - intro E; inversion E; constructor.
  - destruct lb as [|y lb]; [intro E; inversion E; constructor|].
    inversion T as [|? ? T1 T2]; subst. inversion D as [|? ? Dy Dl]; subst.
    destruct (create_object x y) as [p|] eqn:Ec; [|discriminate].
    destruct (create_elems la lb) as [ps'|] eqn:Ee; [|discriminate]. intro E; inversion E; subst.
    constructor; [eapply create_object_wf; eauto | eapply IH; eauto].
Qed.

(* every successful CreateMergePatch call returns a JSON text *)
Theorem api_create_output_general a b out :
  api_create a b = MOut out -> exists t', parse out = Some t' /\ valid_gen out = true.
Proof.
  rewrite api_create_unfold. destruct (parse a) as [ta|] eqn:Pa; [|discriminate].
  destruct (parse b) as [tb|] eqn:Pb; [|discriminate].
  pose proof (parse_twf _ _ Pb) as Wb. apply twf_text in Wb as [Tb Db].
  assert (Obj : match create_object ta tb with Some p => MOut (print true p) | None => MErr MBadDoc end = MOut out ->
                exists t', parse out = Some t' /\ valid_gen out = true).
  { destruct (create_object ta tb) as [p|] eqn:Ec; [|discriminate]. intro H; inversion H; subst.
    destruct (create_object_wf max_depth ta tb p Tb one_le_max_depth Db Ec) as [Tp Dp].
    assert (Pp : parse (print true p) = Some (escape_tree true p)) by (apply parse_print_any; apply twf_text; split; assumption).
    eexists. split; [exact Pp | apply valid_gen_iff_parse; eauto]. }
  destruct ta; try (destruct tb; try exact Obj; discriminate).
  destruct tb; try discriminate.
  destruct (length l =? length l0)%nat; [|discriminate].
  rewrite create_go_spec. destruct (create_elems l l0) as [ps|] eqn:Ee; [|discriminate].
  cbn [app]. intro H; inversion H; subst.
  assert (D0 : (1 <= max_depth - 1)%N) by (unfold max_depth; lia).
  assert (F : Forall (fun p => tok p /\ (Text.tdepth p <= max_depth - 1)%N) ps).
  { apply (create_elems_wf (max_depth - 1) l l0 ps); [apply tok_arr; exact Tb | exact D0 | | exact Ee].
    rewrite tdepth_arr in Db. apply Forall_forall. intros y Hy. pose proof (maxd_le Text.tdepth l0 y Hy). lia. }
  assert (Pp : parse (print true (TArr ps)) = Some (escape_tree true (TArr ps))).
  { apply parse_print_any. apply twf_text. split.
    - apply tok_arr. revert F. apply Forall_impl. intros p [H1 _]. exact H1.
    - rewrite tdepth_arr. assert (maxd Text.tdepth ps <= max_depth - 1)%N; [|unfold max_depth in *; lia].
      apply maxd_bound. intros p Hp. rewrite Forall_forall in F. apply (F p Hp). }
  eexists. split; [exact Pp | apply valid_gen_iff_parse; eauto].
Qed.

(* two objects without duplicate names: the bytes denote the reference difference *)
Theorem api_create_output a b ams bms :
  parse a = Some (TObj ams) -> parse b = Some (TObj bms) -> tnodup (TObj ams) = true -> tnodup (TObj bms) = true ->
  exists out t', api_create a b = MOut out /\ parse out = Some t' /\
                 jeq (den t') (diff (den (TObj ams)) (den (TObj bms))) = true /\ valid_gen out = true.
Proof.
  intros Pa Pb Na Nb.
  destruct (api_create_correct a b ams bms Pa Pb Na Nb (parse_tsb _ _ Pa) (parse_tsb _ _ Pb)) as [p [E [Ep [Sp [_ [J _]]]]]].
  pose proof (parse_twf _ _ Pb) as Wb. apply twf_text in Wb as [Tb Db].
  assert (Ec : create_object (TObj ams) (TObj bms) = Some p) by (rewrite create_object_spec; cbn [as_obj]; rewrite Ep; reflexivity).
  destruct (create_object_wf max_depth _ _ p Tb one_le_max_depth Db Ec) as [Tp Dp].
  assert (Pp : parse (print true p) = Some (escape_tree true p)) by (apply parse_print_any; apply twf_text; split; assumption).
  exists (print true p), (escape_tree true p). split; [exact E|]. split; [exact Pp|]. split.
  - rewrite escape_tree_den by exact Sp. exact J.
  - apply valid_gen_iff_parse. eauto.
Qed.

Print Assumptions api_create_output_general.
Print Assumptions api_create_output.

(* ================================================================================================ *)
(* 10. checks on concrete inputs                                                                     *)
(* ================================================================================================ *)
Definition ex_opts (esc : bool) : opts := mkOpts false 0 false false esc [] None.
Definition ex_patch : bytes :=
  B "[{""op"":""add"",""path"":""/k<"",""value"":{""n"":[1,-2.5e+3,{}],""s"":""a&b""}},{""op"":""copy"",""from"":""/k<"",""path"":""/c""},{""op"":""test"",""path"":""/c/n/0"",""value"":1},{""op"":""move"",""from"":""/x>"",""path"":""/c/n/-""},{""op"":""remove"",""path"":""/c/s""}]".
Definition ex_doc : bytes := B " {""x>"":""<"", ""z"": [ ] } ".

(* add, copy, test, move, remove; EscapeHTML on and off; no indent, tab, two spaces: every output is
   accepted by the scanner, ApplyIndent's output is Indent of Apply's, all read back as one value *)
Example ex_apply_outputs :
  match api_decode ex_patch with
  | Some p =>
      match api_apply (ex_opts true) [] p ex_doc, api_apply (ex_opts true) [x09] p ex_doc,
            api_apply (ex_opts false) (B "  ") p ex_doc with
      | ROut a, ROut b, ROut c =>
          indent_go [x09] a = Some b /\ valid_gen a = true /\ valid_gen b = true /\ valid_gen c = true /\
          parse a <> None /\ option_map den (parse a) = option_map den (parse b) /\
          option_map den (parse a) = option_map den (parse c) /\ a <> c
      | _, _, _ => False
      end
  | None => False
  end.
Proof. vm_compute. repeat split; try reflexivity; discriminate. Qed.

Example ex_merge_output :
  match api_merge false (B "{""a"":{""x"":1,""y"":[1,{""q"":null}]},""k"":""s<"",""n"":1e400}")
                        (B " {""a"":{""x"":null,""z"":{""u"":null,""w"":[null]}},""n"":null,""m"":{""d"":null}} ") with
  | MOut out => valid_gen out = true /\
                option_map den (parse out) =
                option_map den (parse (B "{""a"":{""y"":[1,{""q"":null}],""z"":{""w"":[null]}},""k"":""s<"",""m"":{}}"))
  | _ => False
  end.
Proof. vm_compute. split; reflexivity. Qed.

Example ex_create_output :
  match api_create (B "{""a"":1,""b"":{""c"":[1,2],""d"":""<""}}") (B "{""a"":1.0,""b"":{""c"":[1,2],""d"":"">""},""e"":null}") with
  | MOut out => valid_gen out = true /\
                option_map den (parse out) = option_map den (parse (B "{""a"":1.0,""b"":{""d"":"">""},""e"":null}"))
  | _ => False
  end.
Proof. vm_compute. split; reflexivity. Qed.

(* member names that are not valid UTF-8 are still written as bodies the reader accepts *)
Example ex_quote_invalid_utf8 : body_okb (quote false [xff; x41; xe2; x80]) = true /\ body_okb (quote true [xc0; x3c]) = true.
Proof. vm_compute. split; reflexivity. Qed.

(* the hypothesis on the nesting of the result is needed: a document nested 10000 deep (accepted),
   a decoded copy that puts its deepest part one level further down: Apply succeeds and writes a text
   nested 10001 deep, which neither the reader nor the scanner accepts *)
Definition ex_deep_doc : bytes := B "{""a"":" ++ repeat x5b 9999 ++ repeat x5d 9999 ++ B ",""b"":[]}".

Example ex_result_too_deep :
  match api_decode (B "[{""op"":""copy"",""from"":""/a"",""path"":""/b/-""}]") with
  | Some p =>
      match api_apply (ex_opts true) [] p ex_deep_doc with
      | ROut out => parse out = None /\ parse ex_deep_doc <> None
      | _ => False
      end
  | None => False
  end.
Proof. vm_compute. split; [reflexivity | discriminate]. Qed.

(* ================================================================================================ *)
(* 11. the legacy root package: MergePatch / MergeMergePatches (render4: names sorted, escaped)       *)
(* ================================================================================================ *)
From JP Require Import ImplV4 V4MergeFacts.

Section MergeInv4.
  Variable P : N -> tjson -> Prop.
  Variable Pk : bytes -> Prop.
  Variable okl : N -> Prop.
  Hypothesis P_obj : forall d ms, P d (TObj ms) ->
    okl d /\ Forall (fun kv => Pk (unquote (fst kv)) /\ P (d - 1) (snd kv)) ms.

  Local Notation nlv' := (nlv P Pk okl).
  Local Notation mlv' := (mlv P Pk okl).

  Lemma obj_of_lv d ms : P d (TObj ms) -> okl d /\ mlv' (d - 1) (obj_of ms).
  Proof.
    intro H. pose proof (doc_of_lv P Pk okl P_obj d ms H) as D. apply nlv_doc in D as [O [_ M]]. split; [exact O | exact M].
  Qed.

  Lemma prune4_go_lv d ms : forall acc,
    mlv' d acc -> Forall (fun kv => Pk (unquote (fst kv)) /\ nlv' d (prune4_t (snd kv))) ms -> mlv' d (prune4_go ms acc).
  Proof.
    induction ms as [|[k v] ms IH]; intros acc Ha Hf; [exact Ha|].
    inversion Hf as [|? ? [H1 H2] Hr]; subst. cbn [fst snd] in *.
    assert (Upd : mlv' d (prune4_go ms (aset (unquote k) (prune4_t v) acc))).
    { apply IH; [|exact Hr]. apply Forall_aset_kv; [exact Ha | split; assumption]. }
    destruct v; try exact Upd. cbn [prune4_go]. apply IH; [|exact Hr]. apply Forall_adel. exact Ha.
  Qed.

  Lemma prune4_t_lv t : forall d, P d t -> nlv' d (prune4_t t).
  Proof.
    induction t as [| | |lit|b|l IH|ms IH] using tjson_rect'; intros d H; try exact H.
    rewrite prune4_t_obj. destruct (P_obj d ms H) as [O F]. apply nlv_doc. split; [exact O|]. split; [constructor|].
    apply prune4_go_lv; [constructor|]. rewrite Forall_forall in IH, F. apply Forall_forall. intros kv Hin.
    destruct (F kv Hin) as [F1 F2]. split; [exact F1 | apply (IH kv Hin); exact F2].
  Qed.

  Lemma prune4_node_lv n : forall d, nlv' d n -> nlv' d (prune4_node n).
  Proof.
    induction n as [|t|keys obj IH|ns IH] using node_rect'; intros d H; cbn [prune4_node]; try exact H.
    - apply prune4_t_lv. exact H.
    - apply nlv_doc in H as [O [Hk Ho]]. apply nlv_doc. split; [exact O|]. split; [exact Hk|].
      unfold mlv in *. apply Forall_forall. intros kv Hin. apply filter_In in Hin as [Hin _].
      apply in_map_iff in Hin as [kv0 [<- Hin0]]. cbn [fst snd]. rewrite Forall_forall in IH, Ho.
      destruct (Ho kv0 Hin0) as [H1 H2]. split; [exact H1 | apply (IH kv0 Hin0); exact H2].
  Qed.

  Lemma into_doc4_lv d cur obj : nlv' d cur -> into_doc4 cur = Some obj -> okl d /\ mlv' (d - 1) obj.
  Proof.
    intros H E. destruct cur as [|t|k0 o0|ns]; cbn [into_doc4] in E; try discriminate.
    - destruct t; try discriminate. assert (E' : obj = obj_of ms) by congruence. rewrite E'. apply obj_of_lv. exact H.
    - inversion E; subst. apply nlv_doc in H as [O [_ M]]. split; assumption.
  Qed.

  Lemma merge4_loop_lv rec mm d es :
    (forall c v, nlv' d c -> P d v -> nlv' d (rec c v)) ->
    forall obj, Forall (fun kv => Pk (fst kv) /\ P d (snd kv)) es -> mlv' d obj -> mlv' d (merge4_loop rec mm es obj).
  Proof.
    intro Hrec. induction es as [|[k v] es IH]; intros obj He Ho; cbn [merge4_loop]; [exact Ho|].
    inversion He as [|? ? [Hk1 Hv] Hr]; subst. cbn [fst snd] in *.
    assert (SetC : forall x, nlv' d x -> mlv' d (merge4_loop rec mm es (aset k x obj))).
    { intros x Hx. apply IH; [exact Hr|]. apply Forall_aset_kv; [exact Ho | split; assumption]. }
    assert (New : nlv' d (if mm then NRaw v else prune4_node (NRaw v))).
    { destruct mm; [exact Hv | rewrite prune4_node_raw; apply prune4_t_lv; exact Hv]. }
    assert (NonNull : mlv' d (match aget k obj with
                              | None | Some NNil => merge4_loop rec mm es (aset k (if mm then NRaw v else prune4_node (NRaw v)) obj)
                              | Some c => merge4_loop rec mm es (aset k (rec c v) obj)
                              end)).
    { destruct (aget k obj) as [c|] eqn:E; [|apply SetC; exact New].
      assert (Hc : nlv' d c).
      { apply aget_In in E. unfold mlv in Ho. rewrite Forall_forall in Ho. apply (Ho _ E). }
      destruct c; try (apply SetC; apply Hrec; assumption). apply SetC. exact New. }
    destruct v; try exact NonNull.
    destruct mm; [apply SetC; exact I | apply IH; [exact Hr | apply Forall_adel; exact Ho]].
  Qed.

  Theorem merge4_n_lv : forall fuel mm d cur p, nlv' d cur -> P d p -> nlv' d (merge4_n fuel mm cur p).
  Proof.
    induction fuel as [|f IH]; intros mm d cur p Hc Hp; [exact Hp|].
    rewrite merge4_n_unfold. destruct (into_doc4 cur) as [obj|] eqn:E.
    - destruct (into_doc4_lv d cur obj Hc E) as [O Ho].
      destruct p; try exact Hp.
      pose proof (patch_entries_lv P Pk okl P_obj d ms Hp) as He.
      apply nlv_doc. split; [exact O|]. split; [constructor|].
      apply (merge4_loop_lv (merge4_n f mm) mm (d - 1) (patch_entries ms) (fun c v => IH mm (d - 1)%N c v) obj He Ho).
    - rewrite prune4_node_raw. apply prune4_t_lv. exact Hp.
  Qed.
End MergeInv4.

(* the node the legacy MergePatch / MergeMergePatches encode *)
Definition merge4_node (mm : bool) (td tp : tjson) : node :=
  match tp with
  | TObj pms =>
      match td with
      | TObj _ => merge4_n (S (tsize tp)) mm (NRaw td) tp
      | _ => if mm then NDoc [] (obj_of pms) else prune4_node (NRaw tp)
      end
  | _ => NRaw tp
  end.

Lemma api_merge4_node mm doc patch td tp :
  parse doc = Some td -> parse patch = Some tp -> td <> TNull -> scalar_text tp = false ->
  api_merge4 mm doc patch = MOut (marshal4 (merge4_node mm td tp)).
Proof.
  intros Pd Pp NN Sc. unfold api_merge4. rewrite Pd, Pp.
  destruct tp; try discriminate Sc; destruct td; try congruence; try reflexivity; destruct mm; reflexivity.
Qed.

Lemma api_merge4_out_shape mm doc patch out :
  api_merge4 mm doc patch = MOut out ->
  exists td tp, parse doc = Some td /\ parse patch = Some tp /\ td <> TNull /\ scalar_text tp = false.
Proof.
  unfold api_merge4. destruct (parse doc) as [td|]; [|discriminate]. destruct (parse patch) as [tp|]; [|discriminate].
  intro H. exists td, tp. split; [reflexivity|]. split; [reflexivity|].
  destruct td; try discriminate H; (split; [discriminate|]); destruct tp; try discriminate H; reflexivity.
Qed.

Lemma merge4_node_lv (P : N -> tjson -> Prop) (Pk : bytes -> Prop) (okl : N -> Prop) :
  (forall d ms, P d (TObj ms) -> okl d /\ Forall (fun kv => Pk (unquote (fst kv)) /\ P (d - 1) (snd kv)) ms) ->
  forall mm d td tp, P d td -> P d tp -> nlv P Pk okl d (merge4_node mm td tp).
Proof.
  intros PO mm d td tp Hd Hp. unfold merge4_node. destruct tp; try exact Hp.
  assert (NonObj : nlv P Pk okl d (if mm then NDoc [] (obj_of ms) else prune4_node (NRaw (TObj ms)))).
  { destruct mm; [|rewrite prune4_node_raw; apply (prune4_t_lv P Pk okl PO); exact Hp].
    destruct (obj_of_lv P Pk okl PO d ms Hp) as [O M]. apply nlv_doc. split; [exact O|]. split; [constructor | exact M]. }
  destruct td; try exact NonObj.
  apply (merge4_n_lv P Pk okl PO); [exact Hd | exact Hp].
Qed.

(* render4: tokens and nesting *)
Lemma tok_render4 n : ntok n -> tok (render4 n).
Proof.
  induction n as [|t|keys obj IH|ns IH] using node_rect'; intro N.
  - exact I.
  - exact N.
  - destruct keys as [|k0 keys]; [|exact I].
    apply ntok_doc in N. rewrite render4_doc. apply tok_obj. rewrite Forall_map. cbn [fst snd].
    apply Forall_forall. intros kv Hin. apply In_sort4 in Hin. apply in_map_iff in Hin as [kv0 [<- Hin0]]. cbn [fst snd].
    rewrite Forall_forall in IH, N. split; [apply body_ok_quote | apply (IH _ Hin0); apply (N _ Hin0)].
  - apply ntok_ary in N. cbn [render4]. apply tok_arr. rewrite Forall_map. rewrite Forall_forall in *.
    intros x Hx. apply (IH x Hx). apply (N x Hx).
Qed.

Lemma nlv_render4_depth n : forall d, nlv Pdep anykey okD d n -> (Text.tdepth (render4 n) <= d)%N.
Proof.
  induction n as [|t|keys obj IH|ns IH] using node_rect'; intros d H.
  - cbn. lia.
  - exact H.
  - destruct keys as [|k0 keys]; [|cbn; lia].
    apply nlv_doc in H as [O [_ Ho]]. unfold okD in O. unfold mlv in Ho. rewrite render4_doc, tdepth_obj, maxd_map. cbn [snd].
    assert (maxd (fun kv : bytes * tjson => Text.tdepth (snd kv)) (sort4 (map (fun kv => (fst kv, render4 (snd kv))) obj)) <= d - 1)%N; [|lia].
    apply maxd_bound. intros kv Hin. apply In_sort4 in Hin. apply in_map_iff in Hin as [kv0 [<- Hin0]]. cbn [snd].
    rewrite Forall_forall in IH, Ho. apply (IH _ Hin0). apply (Ho _ Hin0).
  - apply nlv_ary in H as [O H]. unfold okD in O. cbn [render4]. rewrite tdepth_arr, maxd_map.
    assert (maxd (fun x => Text.tdepth (render4 x)) ns <= d - 1)%N; [|lia].
    apply maxd_bound. intros x Hx. rewrite Forall_forall in IH, H. apply (IH x Hx). apply (H x Hx).
Qed.

Theorem merge4_node_output mm td tp : twf td -> twf tp ->
  parse (marshal4 (merge4_node mm td tp)) = Some (escape_tree true (render4 (merge4_node mm td tp))) /\
  tok (render4 (merge4_node mm td tp)) /\ nstr (merge4_node mm td tp).
Proof.
  intros Wd Wp. apply twf_text in Wd as [Td Dd]. apply twf_text in Wp as [Tp Dp].
  destruct (nlv_tok_facts _ 0%N (merge4_node_lv Ptok utf8 okT Ptok_obj mm 0%N td tp Td Tp)) as [NT NS].
  pose proof (nlv_render4_depth _ max_depth (merge4_node_lv Pdep anykey okD Pdep_obj mm max_depth td tp Dd Dp)) as ND.
  pose proof (tok_render4 _ NT) as TR.
  split; [|split; assumption]. unfold marshal4. apply parse_print_any. apply twf_text. split; assumption.
Qed.

(* every successful legacy MergePatch / MergeMergePatches call returns a JSON text *)
Theorem api_merge4_output_general mm doc patch out :
  api_merge4 mm doc patch = MOut out -> exists t', parse out = Some t' /\ valid_gen out = true.
Proof.
  intro H. destruct (api_merge4_out_shape mm doc patch out H) as [td [tp [Pd [Pp [NN Sc]]]]].
  rewrite (api_merge4_node mm doc patch td tp Pd Pp NN Sc) in H. inversion H; subst.
  destruct (merge4_node_output mm td tp (parse_twf _ _ Pd) (parse_twf _ _ Pp)) as [O _].
  eexists. split; [exact O | apply valid_gen_iff_parse; eauto].
Qed.

Print Assumptions api_merge4_output_general.

Lemma nstr_nku n : nstr n -> nku n.
Proof.
  induction n as [|t|keys obj IH|ns IH] using node_rect'; intro H.
  - exact I.
  - exact H.
  - apply nstr_doc in H as [_ H]. apply nku_doc. unfold nodes_ku. rewrite Forall_forall in *. intros kv Hin.
    destruct (H kv Hin) as [H1 H2]. split; [exact H1 | apply (IH kv Hin); exact H2].
  - apply nstr_ary in H. apply nku_ary. rewrite Forall_forall in *. intros x Hx. apply (IH x Hx), H, Hx.
Qed.

Lemma merge4_node_spec td tp :
  td <> TNull -> tnodup td = true -> tnodup tp = true -> scalar_text tp = false ->
  nwf4 (merge4_node false td tp) /\ aval4 (merge4_node false td tp) = merge_patch (den td) (den tp).
Proof.
  intros NN Td Tp Sc. unfold merge4_node. destruct tp; try discriminate Sc.
  - split; [exact Tp | reflexivity].
  - destruct td; try congruence;
      try (rewrite prune4_node_raw; destruct (prune4_t_spec (TObj ms) Tp) as [S1 S2]; split; [exact S2|]; rewrite S1;
           apply merge_patch_target_irrelevant; reflexivity).
    destruct (merge4_n_spec (S (tsize (TObj ms))) (TObj ms) (NRaw (TObj ms0))) as [S1 S2]; [lia | exact Tp | exact Td|].
    split; [exact S2 | exact S1].
Qed.

Lemma merge4_node_mm_spec ms1 t2 :
  tnodup (TObj ms1) = true -> tnodup t2 = true -> compatible (den (TObj ms1)) (den t2) = true -> scalar_text t2 = false ->
  nwf4 (merge4_node true (TObj ms1) t2) /\ aval4 (merge4_node true (TObj ms1) t2) = mm (den (TObj ms1)) (den t2).
Proof.
  intros T1 T2 C Sc. unfold merge4_node. destruct t2; try discriminate Sc.
  - split; [exact T2 | reflexivity].
  - assert (G : aval4 (merge4_n (S (tsize (TObj ms))) true (NRaw (TObj ms1)) (TObj ms)) = mm (aval4 (NRaw (TObj ms1))) (den (TObj ms)) /\
                nwf4 (merge4_n (S (tsize (TObj ms))) true (NRaw (TObj ms1)) (TObj ms)) /\
                nclean (merge4_n (S (tsize (TObj ms))) true (NRaw (TObj ms1)) (TObj ms)) = true)
      by (apply merge4_n_mm_spec; auto; try lia; try discriminate).
    destruct G as [G1 [G2 _]]. split; [exact G2 | exact G1].
Qed.

(* legacy MergePatch (object or array patch): the bytes returned are a JSON text whose value is RFC
   7396's MergePatch(document, patch), up to the order of members (the legacy encoder sorts them) *)
Theorem api_merge4_output_bytes doc patch td tp :
  parse doc = Some td -> parse patch = Some tp -> td <> TNull -> tnodup td = true -> tnodup tp = true ->
  scalar_text tp = false ->
  exists out t', api_merge4 false doc patch = MOut out /\ parse out = Some t' /\
                 jeq (den t') (merge_patch (den td) (den tp)) = true /\ valid_gen out = true.
Proof.
  intros Pd Pp NN Td Tp Sc.
  destruct (merge4_node_spec td tp NN Td Tp Sc) as [W V].
  destruct (merge4_node_output false td tp (parse_twf _ _ Pd) (parse_twf _ _ Pp)) as [O [TR NS]].
  destruct (render4_den _ W (nstr_nku _ NS)) as [_ J].
  exists (marshal4 (merge4_node false td tp)), (escape_tree true (render4 (merge4_node false td tp))).
  split; [eapply api_merge4_node; eauto|]. split; [exact O|]. split.
  - rewrite escape_tree_den by (apply tok_tsb; exact TR). rewrite <- V. exact J.
  - apply valid_gen_iff_parse. eauto.
Qed.

Theorem api_mergemerge4_output_bytes p1 p2 ms1 t2 :
  parse p1 = Some (TObj ms1) -> parse p2 = Some t2 -> tnodup (TObj ms1) = true -> tnodup t2 = true ->
  compatible (den (TObj ms1)) (den t2) = true -> scalar_text t2 = false ->
  exists out t', api_merge4 true p1 p2 = MOut out /\ parse out = Some t' /\
                 jeq (den t') (mm (den (TObj ms1)) (den t2)) = true /\ valid_gen out = true.
Proof.
  intros P1 P2 T1 T2 C Sc.
  destruct (merge4_node_mm_spec ms1 t2 T1 T2 C Sc) as [W V].
  destruct (merge4_node_output true (TObj ms1) t2 (parse_twf _ _ P1) (parse_twf _ _ P2)) as [O [TR NS]].
  destruct (render4_den _ W (nstr_nku _ NS)) as [_ J].
  exists (marshal4 (merge4_node true (TObj ms1) t2)), (escape_tree true (render4 (merge4_node true (TObj ms1) t2))).
  split; [eapply api_merge4_node; eauto; discriminate|]. split; [exact O|]. split.
  - rewrite escape_tree_den by (apply tok_tsb; exact TR). rewrite <- V. exact J.
  - apply valid_gen_iff_parse. eauto.
Qed.

Print Assumptions api_merge4_output_bytes.
Print Assumptions api_mergemerge4_output_bytes.

(* ================================================================================================ *)
(* 12. the codec's Compact / Indent (C17): the output is a JSON text with the same value             *)
(* ================================================================================================ *)
Lemma skip_ws_nil_wsb r : skip_ws r = [] -> wsb r = true.
Proof.
  induction r as [|c r IH]; [reflexivity|]. cbn [skip_ws wsb forallb]. destruct (is_ws c) eqn:E; [|discriminate].
  intro H. cbn [andb]. apply IH. exact H.
Qed.

(* Compact, with or without escaping: accepted exactly on well-formed texts; the result is read back
   as the (escaped) tree of the input, which denotes the same value *)
Theorem compact_output_value esc bs out : compact_go esc bs = Some out ->
  exists t, parse bs = Some t /\ parse out = Some (escape_tree esc t) /\ den (escape_tree esc t) = den t /\
            valid_gen out = true.
Proof.
  rewrite compact_go_spec. destruct (parse bs) as [t|] eqn:Pb; [|discriminate]. intro H; inversion H; subst.
  pose proof (parse_twf _ _ Pb) as W. exists t. split; [reflexivity|].
  assert (Pp : parse (print esc t) = Some (escape_tree esc t)) by (apply parse_print_any; exact W).
  split; [exact Pp|]. split; [apply escape_den; apply tok_tsb; apply W | apply valid_gen_iff_parse; eauto].
Qed.

(* Indent with an indentation made of white space: the result is read back as the tree of the input *)
Theorem indent_output_value ind bs out : wsb ind = true -> indent_go ind bs = Some out ->
  exists t, parse bs = Some t /\ parse out = Some t /\ valid_gen out = true.
Proof.
  intros W H. destruct (proj1 (indent_accepts_iff_parse ind bs) (ex_intro _ out H)) as [t Pb].
  destruct (indent_go_parse ind bs t Pb) as [rest [_ [Wr G]]]. rewrite G in H. inversion H; subst.
  destruct (parse_twf _ _ Pb) as [T D]. exists t. split; [exact Pb|].
  assert (Pp : parse (pp false ind 0 t ++ rest) = Some t).
  { apply (parse_of_reads (pp false ind 0 t) t [] rest); [apply pp_reads; assumption | exact D | reflexivity | apply skip_ws_nil_wsb; exact Wr]. }
  split; [exact Pp | apply valid_gen_iff_parse; eauto].
Qed.

Print Assumptions compact_output_value.
Print Assumptions indent_output_value.
