(* SizeFacts.v — C12: the number a copy adds to the running total IS the length of the spelling the
   copied value has in the output.

   1  escaping is idempotent: print esc (escape_tree esc t) = print esc t, hence the raw node a copy
      stores (NRaw (escape_tree esc (render esc v))) is printed, under the same escape setting, exactly
      as the source value: deep_copy_spelling, deep_copy_counts_spelling.
   2  the compact text of a tree contains the compact text of every member / element value, and so of
      every descendant, as a contiguous substring (infix): print_child, print_desc; on nodes:
      subnode cp root -> infix (print esc (render esc cp)) (print esc (render esc root))
      (subnode_output).  One copy: the node deepCopy made is in the tree the operation leaves behind
      (copy_step_in_tree), so its spelling is a contiguous part of the compact output of that tree and
      its length is what was added to the total (copy_step_spelling, copy_last_output).
      Hypothesis: no reference token of the destination path before the last one is empty; it cannot
      be dropped (copy_empty_token_counts_but_is_lost: the node for the empty token is handed out
      fresh on every get, what is added to it is not kept, yet the copy was counted).
   3  what a copied null counts: deep_copy_null_* . *)
From Coq Require Import Lia.
From JP Require Import Bytes Json Text Strings Den Pointer ImplV5 DecodeFacts JsonFacts Abs ImplFacts ApplyFacts
                       StrInv PrintParse Totality OutputFacts Scan ScanFacts.
From JP Require V4ApplySim CauseFacts.

(* ================================================================================================ *)
(* 1. escaping twice is escaping once                                                                *)
(* ================================================================================================ *)
Lemma esc_body_idem esc b : esc_body esc (esc_body esc b) = esc_body esc b.
Proof. destruct esc; [apply V4ApplySim.he_idem | reflexivity]. Qed.

Lemma escape_tree_idem esc t : escape_tree esc (escape_tree esc t) = escape_tree esc t.
Proof.
  induction t as [| | |l|s|l IH|ms IH] using tjson_rect'; try (destruct esc; reflexivity).
  - rewrite (escape_tree_eq esc (TStr s)). rewrite escape_tree_eq. now rewrite esc_body_idem.
  - rewrite (escape_tree_eq esc (TArr l)). rewrite escape_tree_eq. f_equal. rewrite map_map.
    apply map_ext_in. intros x Hx. rewrite Forall_forall in IH. apply (IH x Hx).
  - rewrite (escape_tree_eq esc (TObj ms)). rewrite escape_tree_eq. f_equal. rewrite map_map.
    apply map_ext_in. intros kv Hk. cbn [fst snd]. rewrite esc_body_idem. f_equal.
    rewrite Forall_forall in IH. apply (IH kv Hk).
Qed.

(* printing an already escaped tree with the same setting changes nothing *)
Theorem print_escape_tree esc t : print esc (escape_tree esc t) = print esc t.
Proof. rewrite (print_any esc (escape_tree esc t)), escape_tree_idem. symmetry. apply print_any. Qed.

Theorem pp_escape_tree esc ind k t : pp esc ind k (escape_tree esc t) = pp esc ind k t.
Proof. rewrite (pp_any esc ind k (escape_tree esc t)), escape_tree_idem. symmetry. apply pp_any. Qed.

(* the node deepCopy makes is spelled, under the same escape setting, exactly as its source *)
Theorem deep_copy_spelling o v :
  print (o_esc o) (render (o_esc o) (fst (deep_copy o v))) = print (o_esc o) (render (o_esc o) v).
Proof.
  destruct v as [|t|keys obj|ns]; [reflexivity| | |]; cbn [deep_copy fst]; cbn [render]; apply print_escape_tree.
Qed.

(* ... also when the output is indented *)
Theorem deep_copy_spelling_pp o ind k v :
  pp (o_esc o) ind k (render (o_esc o) (fst (deep_copy o v))) = pp (o_esc o) ind k (render (o_esc o) v).
Proof.
  destruct v as [|t|keys obj|ns]; [reflexivity| | |]; cbn [deep_copy fst]; cbn [render]; apply pp_escape_tree.
Qed.

(* the size counted for a value that is not a null is the length of that spelling *)
Lemma deep_copy_size_nonnull o v :
  is_null v = false -> snd (deep_copy o v) = zlen (print (o_esc o) (render (o_esc o) v)).
Proof.
  destruct v as [|t|keys obj|ns]; cbn [is_null deep_copy snd]; try discriminate; try reflexivity.
  destruct t; try discriminate; reflexivity.
Qed.

Theorem deep_copy_counts_spelling o v :
  is_null v = false ->
  snd (deep_copy o v) = zlen (print (o_esc o) (render (o_esc o) (fst (deep_copy o v)))).
Proof. intro N. rewrite deep_copy_spelling. apply deep_copy_size_nonnull. exact N. Qed.

(* ================================================================================================ *)
(* 3. the null cases                                                                                 *)
(* ================================================================================================ *)
Lemma deep_copy_nil o :
  deep_copy o NNil = (NNil, match o_nullsz o with Some z => z | None => 0%Z end).
Proof. reflexivity. Qed.

Lemma deep_copy_raw_null o :
  deep_copy o (NRaw TNull) = (NRaw TNull, match o_nullsz o with Some z => z | None => 4%Z end).
Proof. unfold deep_copy. cbn [render]. destruct (o_esc o), (o_nullsz o); reflexivity. Qed.

(* as the code counts (o_nullsz = None): a nil node (a null the decoder read) counts 0, a stored raw
   null (the value null of an operation) counts the 4 bytes of its text *)
Theorem deep_copy_null_code o v :
  o_nullsz o = None -> is_null v = true ->
  snd (deep_copy o v) = match v with NNil => 0%Z | _ => 4%Z end.
Proof.
  intros E N. destruct v as [|t|keys obj|ns]; try discriminate.
  - rewrite deep_copy_nil, E. reflexivity.
  - destruct t; try discriminate. rewrite deep_copy_raw_null, E. reflexivity.
Qed.

(* with a fixed null size z every copied null counts z *)
Theorem deep_copy_null_fixed o v z :
  o_nullsz o = Some z -> is_null v = true -> snd (deep_copy o v) = z.
Proof.
  intros E N. destruct v as [|t|keys obj|ns]; try discriminate.
  - rewrite deep_copy_nil, E. reflexivity.
  - destruct t; try discriminate. rewrite deep_copy_raw_null, E. reflexivity.
Qed.

(* in every setting the judges accept (None, Some 0, Some 4) a copied null counts 0 or 4, and it is
   spelled with the 4 bytes null *)
Theorem deep_copy_null_0_or_4 o v :
  (o_nullsz o = None \/ o_nullsz o = Some 0%Z \/ o_nullsz o = Some 4%Z) -> is_null v = true ->
  (snd (deep_copy o v) = 0%Z \/ snd (deep_copy o v) = 4%Z) /\
  print (o_esc o) (render (o_esc o) (fst (deep_copy o v))) = B "null" /\ is_null (fst (deep_copy o v)) = true.
Proof.
  intros H N. split.
  - destruct H as [E|[E|E]].
    + rewrite (deep_copy_null_code o v E N). destruct v; auto.
    + rewrite (deep_copy_null_fixed o v _ E N). auto.
    + rewrite (deep_copy_null_fixed o v _ E N). auto.
  - destruct v as [|t|keys obj|ns]; try discriminate.
    + split; reflexivity.
    + destruct t; try discriminate. rewrite deep_copy_raw_null. split; reflexivity.
Qed.

(* the size of a non-null value does not depend on the null setting *)
Lemma deep_copy_nullsz_irrelevant o o' v :
  o_esc o' = o_esc o -> is_null v = false -> deep_copy o' v = deep_copy o v.
Proof.
  intros E N. destruct v as [|t|keys obj|ns]; try discriminate; unfold deep_copy; rewrite E; try reflexivity.
  destruct t; try discriminate; reflexivity.
Qed.

(* ================================================================================================ *)
(* 2a. contiguous substrings                                                                         *)
(* ================================================================================================ *)
Definition infix (s t : bytes) : Prop := exists pre post, t = pre ++ s ++ post.

Lemma infix_refl s : infix s s.
Proof. exists [], []. now rewrite app_nil_r. Qed.

Lemma infix_trans a b c : infix a b -> infix b c -> infix a c.
Proof.
  intros [p1 [q1 E1]] [p2 [q2 E2]]. subst. exists (p2 ++ p1), (q1 ++ q2). now rewrite !app_assoc.
Qed.

Lemma infix_app_l s t x : infix s t -> infix s (x ++ t).
Proof. intros [p [q E]]. subst. exists (x ++ p), q. now rewrite app_assoc. Qed.

Lemma infix_app_r s t x : infix s t -> infix s (t ++ x).
Proof. intros [p [q E]]. subst. exists p, (q ++ x). now rewrite !app_assoc. Qed.

Lemma infix_cons s t c : infix s t -> infix s (c :: t).
Proof. apply (infix_app_l s t [c]). Qed.

Lemma infix_length s t : infix s t -> (length s <= length t)%nat.
Proof. intros [p [q E]]. subst. rewrite !app_length. lia. Qed.

Lemma sep_concat_cons sep x y r : sep_concat sep (x :: y :: r) = x ++ sep ++ sep_concat sep (y :: r).
Proof. reflexivity. Qed.

Lemma sep_concat_In sep x l : In x l -> infix x (sep_concat sep l).
Proof.
  induction l as [|y l IH]; [intros []|]. intro H. destruct l as [|z l].
  - destruct H as [->|[]]. apply infix_refl.
  - rewrite sep_concat_cons. destruct H as [->|H].
    + apply infix_app_r. apply infix_refl.
    + apply infix_app_l. apply infix_app_l. apply IH. exact H.
Qed.

(* ================================================================================================ *)
(* 2b. the text of a tree contains the text of every descendant                                      *)
(* ================================================================================================ *)
Definition tchild (sub t : tjson) : Prop :=
  match t with
  | TArr l => In sub l
  | TObj ms => exists k, In (k, sub) ms
  | _ => False
  end.

Inductive tdesc (sub : tjson) : tjson -> Prop :=
| tdesc_refl : tdesc sub sub
| tdesc_step m t : tchild m t -> tdesc sub m -> tdesc sub t.

Lemma tdesc_trans a b c : tdesc a b -> tdesc b c -> tdesc a c.
Proof. intros H1 H2. induction H2 as [|m t Hc Hd IH]; [exact H1|]. eapply tdesc_step; eauto. Qed.

Theorem print_child esc sub t : tchild sub t -> infix (print esc sub) (print esc t).
Proof.
  destruct t as [| | |lit|s|l|ms]; cbn [tchild]; try contradiction.
  - intro H. cbn [print]. apply infix_cons. apply infix_app_r. apply sep_concat_In.
    apply in_map. exact H.
  - intros [k H]. cbn [print]. apply infix_cons. apply infix_app_r.
    apply (infix_trans _ (spell esc k ++ x3a :: print esc sub)).
    + apply infix_app_l. apply infix_cons. apply infix_refl.
    + apply sep_concat_In. apply (in_map (fun kv => spell esc (fst kv) ++ x3a :: print esc (snd kv)) ms (k, sub)). exact H.
Qed.

Theorem print_desc esc sub t : tdesc sub t -> infix (print esc sub) (print esc t).
Proof.
  induction 1 as [|m t Hc Hd IH]; [apply infix_refl|].
  eapply infix_trans; [exact IH | apply print_child; exact Hc].
Qed.

(* ================================================================================================ *)
(* 2c. nodes: what render shows of a node                                                            *)
(* ================================================================================================ *)
(* the members render prints: those of the key list, looked up in the map; the elements *)
Definition nchild (sub n : node) : Prop :=
  match n with
  | NDoc keys obj => exists k, In k keys /\ aget k obj = Some sub
  | NAry ns => In sub ns
  | _ => False
  end.

Inductive subnode (sub : node) : node -> Prop :=
| subnode_refl : subnode sub sub
| subnode_step m n : nchild m n -> subnode sub m -> subnode sub n.

Lemma subnode_trans a b c : subnode a b -> subnode b c -> subnode a c.
Proof. intros H1 H2. induction H2 as [|m t Hc Hd IH]; [exact H1|]. eapply subnode_step; eauto. Qed.

Lemma subnode_child sub n : nchild sub n -> subnode sub n.
Proof. intro H. eapply subnode_step; [exact H | apply subnode_refl]. Qed.

Lemma render_child esc sub n : nchild sub n -> tchild (render esc sub) (render esc n).
Proof.
  destruct n as [|t|keys obj|ns]; cbn [nchild]; try contradiction.
  - intros [k [Hk G]]. rewrite render_doc. cbn [tchild]. exists (quote esc k).
    apply (in_map (fun k => (quote esc k, match option_map (render esc) (aget k obj) with Some t => t | None => TNull end)))
      in Hk. rewrite G in Hk. exact Hk.
  - intro H. cbn [render tchild]. apply in_map. exact H.
Qed.

Theorem render_desc esc sub n : subnode sub n -> tdesc (render esc sub) (render esc n).
Proof.
  induction 1 as [|m n Hc Hd IH]; [apply tdesc_refl|].
  eapply tdesc_step; [apply render_child; exact Hc | exact IH].
Qed.

(* descendant => substring: the compact text of a tree contains the compact text of every node in it *)
Theorem subnode_output esc cp root :
  subnode cp root -> infix (print esc (render esc cp)) (print esc (render esc root)).
Proof. intro H. apply print_desc. apply render_desc. exact H. Qed.

(* ================================================================================================ *)
(* 2d. one copy: the node deepCopy made is in the tree the operation leaves behind                   *)
(* ================================================================================================ *)
Lemma In_insert {A} (v : A) i l : In v (firstn i l ++ v :: skipn i l).
Proof. apply in_or_app. right. left. reflexivity. Qed.

Lemma ary_add_In o ns key v ns' : ary_add o ns key v = Ok ns' -> In v ns'.
Proof.
  unfold ary_add. destruct (bseq key [x2d]).
  - intro H; inversion H; subst. apply in_or_app. right. left. reflexivity.
  - destruct (atoi key) as [idx|]; [|discriminate].
    destruct (zlen ns + 1 <=? idx)%Z; [discriminate|].
    destruct (idx <? 0)%Z.
    + destruct (negb (o_neg o)); [discriminate|]. destruct (idx <? - (zlen ns + 1))%Z; [discriminate|].
      destruct (zlen ns <? idx + (zlen ns + 1))%Z; [discriminate|].
      intro H; inversion H; subst. apply In_insert.
    + intro H; inversion H; subst. apply In_insert.
Qed.

Lemma doc_set_child keys obj key (v : node) :
  In key (fst (doc_set keys obj key v)) /\ aget key (snd (doc_set keys obj key v)) = Some v.
Proof.
  unfold doc_set. cbn [fst snd]. split; [|apply aget_aset_same].
  destruct (kmem key keys) eqn:E; [apply kmem_In; exact E|]. apply in_or_app. right. left. reflexivity.
Qed.

Lemma con_add_child o c key v c' : con_add o c key v = Ok c' -> nchild v (node_of_con c').
Proof.
  destruct c as [s keys obj|s st|s ns]; cbn [con_add]; try discriminate.
  - pose proof (doc_set_child keys obj key v) as D. destruct (doc_set keys obj key v) as [k' o'].
    intro H; inversion H; subst. cbn [node_of_con nchild]. exists key. exact D.
  - destruct (ary_add o ns key v) as [ns'| |] eqn:E; try discriminate.
    intro H; inversion H; subst. cbn [node_of_con nchild]. eapply ary_add_In; eauto.
Qed.

(* putting a container back where a get with a non-empty token found it makes it a visible member *)
Lemma con_put_child o c key x ch :
  cinv c -> key <> [] -> con_get o c key = Ok x -> nchild ch (node_of_con (con_put o c key ch)).
Proof.
  intros [_ C] NE G. destruct c as [s keys obj|s st|s ns]; cbn [con_get con_put node_of_con] in *.
  - destruct key as [|b key]; [congruence|].
    destruct (aget (b :: key) obj) as [y|] eqn:E; [|discriminate].
    cbn [node_of_con nchild]. exists (b :: key). split; [|apply aget_aset_same].
    apply ninv_doc in C as [K _]. apply K. apply aget_In in E. apply (in_map fst) in E. exact E.
  - destruct key; [congruence | discriminate].
  - destruct key as [|b key]; [congruence|].
    destruct (resolve_idx_get o (zlen ns) (b :: key)) as [i| |]; try discriminate.
    cbn [node_of_con nchild]. apply in_or_app. right. left. reflexivity.
Qed.

Lemma walk_add_subnode o v key parts : forall c r c3,
  cinv c -> Forall (fun p => decode_token p <> []) parts ->
  walk o parts c (fun c' => add_leaf o v c' key) = (Some (Ok r), c3) ->
  subnode v (node_of_con c3).
Proof.
  induction parts as [|p rest IH]; intros c r c3 C NE; cbn [walk].
  - unfold add_leaf. destruct (con_add o c key v) as [c''| |] eqn:E; intro H; inversion H; subst.
    apply subnode_child. eapply con_add_child; eauto.
  - inversion NE as [|? ? Np Nr]; subst.
    destruct (con_get o c (decode_token p)) as [next| |] eqn:G; try discriminate.
    destruct (into_con next) as [ch|] eqn:IC; [|discriminate].
    assert (Cch : cinv ch) by (eapply into_con_inv; eauto; eapply con_get_inv; eauto).
    destruct (walk o rest ch (fun c' => add_leaf o v c' key)) as [r' ch'] eqn:W.
    intro H; inversion H; subst.
    eapply subnode_step; [eapply con_put_child; eauto|].
    eapply IH; eauto.
Qed.

(* the reference tokens of a path before the last one *)
Definition inner_tokens (path : bytes) : list bytes :=
  match split_path path with Some (parts, _) => parts | None => [] end.

Definition inner_nonempty (path : bytes) : Prop := Forall (fun p => decode_token p <> []) (inner_tokens path).

Lemma find_add_subnode o c path v r c3 :
  cinv c -> inner_nonempty path ->
  find o c path (add_leaf o v) = (FoundAt (Ok r), c3) -> subnode v (node_of_con c3).
Proof.
  intros C NE. unfold find, inner_nonempty, inner_tokens in *. destruct (split_path path) as [[parts key]|].
  - destruct (walk o parts c (fun c' => add_leaf o v c' key)) as [[a|] c'] eqn:W; intro H; inversion H; subst.
    eapply walk_add_subnode; eauto.
  - destruct path; [|discriminate]. unfold add_leaf.
    destruct (con_add o c [] v) as [c''| |] eqn:E; intro H; inversion H; subst.
    apply subnode_child. eapply con_add_child; eauto.
Qed.

(* a successful copy: the source value v it read, the node cp deepCopy made of it and its size sz;
   sz is what the running total grew by, cp is in the tree of the new state *)
Theorem copy_step_in_tree o st op st' path :
  stinv st -> op_str op (B "path") = Ok path -> inner_nonempty path ->
  op_copy o st op = Ok st' ->
  exists v cp sz, deep_copy o v = (cp, sz) /\ CauseFacts.copy_probe o st op = Some sz /\
                  s_acc st' = (s_acc st + sz)%Z /\ subnode cp (root_node (s_root st')).
Proof.
  intros S P NE. unfold op_copy, CauseFacts.copy_probe. rewrite P.
  destruct (op_str op (B "from")) as [from| |]; try discriminate.
  unfold stinv in S. destruct (s_root st) as [c|]; [|discriminate]. cbn [rinv] in S.
  destruct (find_get_inv o c from S) as [C1 _].
  destruct (find o c from (fun c' key => (con_get o c' key, c'))) as [[| |[x|e|]] c1]; cbn [fst snd] in *; try discriminate.
  destruct (find_inv (fun _ : unit => True) o c1 path (fun c' key => (tt, c'))) as [C2 _]; auto.
  destruct (find o c1 path (fun c' key => (tt, c'))) as [[| |u] c2]; cbn [fst snd] in *; try discriminate.
  match goal with |- match ?a with _ => _ end = _ -> _ => destruct a as [v|e|]; try discriminate end.
  destruct (copy_too_deep o v); [discriminate|].
  destruct (deep_copy o v) as [cp sz] eqn:D. cbn [snd].
  destruct ((0 <? o_limit o)%Z && (o_limit o <? s_acc st + sz)%Z)%bool; [discriminate|].
  pose proof (find_add_subnode o c2 path cp) as F. unfold add_leaf in F.
  destruct (find o c2 path _) as [[| |[c''|e|]] c3]; try discriminate.
  intro H; inversion H; subst. cbn [s_acc s_root root_node].
  exists v, cp, sz. split; [exact D|]. split; [reflexivity|]. split; [reflexivity|].
  eapply F; eauto.
Qed.

Lemma marshal_root_render o r t : marshal_root o r = Ok t -> t = render (o_esc o) (root_node r).
Proof.
  destruct r as [[s k ob|s stl|s ns]|]; cbn [marshal_root]; intro H; inversion H; reflexivity.
Qed.

(* one copy, stated on spellings: the spelling of the copy under the escape setting of the call is
   the spelling of the source value, it is a contiguous part of the compact text of the tree the
   operation leaves behind, and (unless the value is a null) its length is what was added *)
Theorem copy_step_spelling o st op st' path :
  stinv st -> op_str op (B "path") = Ok path -> inner_nonempty path ->
  op_copy o st op = Ok st' ->
  exists v cp sz,
    deep_copy o v = (cp, sz) /\ s_acc st' = (s_acc st + sz)%Z /\
    print (o_esc o) (render (o_esc o) cp) = print (o_esc o) (render (o_esc o) v) /\
    subnode cp (root_node (s_root st')) /\
    infix (print (o_esc o) (render (o_esc o) cp)) (print (o_esc o) (render (o_esc o) (root_node (s_root st')))) /\
    (is_null v = false -> sz = zlen (print (o_esc o) (render (o_esc o) cp))).
Proof.
  intros S P NE H. destruct (copy_step_in_tree o st op st' path S P NE H) as [v [cp [sz [D [_ [A Sub]]]]]].
  exists v, cp, sz. split; [exact D|]. split; [exact A|].
  pose proof (deep_copy_spelling o v) as Sp. rewrite D in Sp. cbn [fst] in Sp.
  split; [exact Sp|]. split; [exact Sub|]. split; [apply subnode_output; exact Sub|].
  intro N. pose proof (deep_copy_counts_spelling o v N) as Cn. rewrite D in Cn. exact Cn.
Qed.

(* when the copy is the last operation: the bytes Apply returns (no indent) contain the copy's
   spelling, and its length is the amount this copy added to the total *)
Theorem copy_last_output o st op st' path t :
  stinv st -> op_kind op = KCopy -> op_str op (B "path") = Ok path -> inner_nonempty path ->
  step o st op = Ok st' -> marshal_root o (s_root st') = Ok t ->
  exists v cp sz,
    deep_copy o v = (cp, sz) /\ s_acc st' = (s_acc st + sz)%Z /\
    infix (print (o_esc o) (render (o_esc o) cp)) (output o [] t) /\
    print (o_esc o) (render (o_esc o) cp) = print (o_esc o) (render (o_esc o) v) /\
    (is_null v = false -> sz = zlen (print (o_esc o) (render (o_esc o) cp))).
Proof.
  intros S K P NE H M. unfold step in H. rewrite K in H.
  destruct (copy_step_spelling o st op st' path S P NE H) as [v [cp [sz [D [A [Sp [_ [I Z]]]]]]]].
  exists v, cp, sz. apply marshal_root_render in M. subst t. cbn [output]. auto.
Qed.

(* a later state: as long as the node is still in the tree its spelling is in the compact output *)
Corollary copied_node_in_final_output o cp r t :
  subnode cp (root_node r) -> marshal_root o r = Ok t ->
  infix (print (o_esc o) (render (o_esc o) cp)) (output o [] t).
Proof. intros Sub M. apply marshal_root_render in M. subst t. cbn [output]. apply subnode_output. exact Sub. Qed.

(* ---- inside a patch ---- *)
Lemma apply_from_stinv o : forall p i st st',
  stinv st -> forallb op_ok p = true -> apply_from o i st p = AOk st' -> stinv st'.
Proof.
  induction p as [|op p IH]; intros i st st' S OK; cbn [apply_from].
  - intro H; inversion H; subst; exact S.
  - cbn [forallb] in OK. apply andb_true_iff in OK as [OK1 OK2].
    destruct (step_safe_all o st op S OK1) as [_ PR].
    destruct (step o st op) as [st1|e|]; try discriminate. apply IH; auto.
Qed.

(* the copy at position length p1 of a patch that runs to the end: the state before it, the state
   after it; what it adds to the total is the length of the spelling of the node it stores; if that
   node is still in the tree at the end, the bytes Apply returns (no indent) contain that spelling *)
Theorem copy_in_patch_output o p1 op p2 st0 stf path :
  stinv st0 -> forallb op_ok p1 = true -> op_kind op = KCopy ->
  op_str op (B "path") = Ok path -> inner_nonempty path ->
  apply_from o 0 st0 (p1 ++ op :: p2) = AOk stf ->
  exists st1 st2 v cp sz,
    apply_from o 0 st0 p1 = AOk st1 /\ step o st1 op = Ok st2 /\
    apply_from o (S (length p1)) st2 p2 = AOk stf /\
    deep_copy o v = (cp, sz) /\ s_acc st2 = (s_acc st1 + sz)%Z /\
    print (o_esc o) (render (o_esc o) cp) = print (o_esc o) (render (o_esc o) v) /\
    (is_null v = false -> sz = zlen (print (o_esc o) (render (o_esc o) cp))) /\
    subnode cp (root_node (s_root st2)) /\
    (forall t, subnode cp (root_node (s_root stf)) -> marshal_root o (s_root stf) = Ok t ->
               infix (print (o_esc o) (render (o_esc o) cp)) (output o [] t)).
Proof.
  intros S OK K P NE H. rewrite apply_from_app in H.
  destruct (apply_from o 0 st0 p1) as [st1|j e|j] eqn:A1; try discriminate.
  cbn [apply_from] in H. destruct (step o st1 op) as [st2|e|] eqn:St; try discriminate.
  pose proof (apply_from_stinv o p1 0 st0 st1 S OK A1) as S1.
  pose proof St as St'. unfold step in St'. rewrite K in St'.
  destruct (copy_step_spelling o st1 op st2 path S1 P NE St') as [v [cp [sz [D [A [Sp [Sub [_ Z]]]]]]]].
  exists st1, st2, v, cp, sz. split; [reflexivity|]. split; [exact St|]. split; [exact H|].
  split; [exact D|]. split; [exact A|]. split; [exact Sp|]. split; [exact Z|]. split; [exact Sub|].
  intros t Sf M. eapply copied_node_in_final_output; eauto.
Qed.

(* indented output: compacting it (the codec's Compact with the same escape setting) gives the compact
   text, in which the copy's spelling is found *)
Theorem compact_of_indented esc ind t :
  wsb ind = true -> twf t -> compact_go esc (pp esc ind 0 t) = Some (print esc t).
Proof.
  intros W T. rewrite compact_go_spec. rewrite (parse_pp_any esc ind 0 t W T). now rewrite print_escape_tree.
Qed.

(* the hypothesis on the inner tokens cannot be dropped: a copy to //b of a document whose root is an
   object is counted (5 bytes, the limit 4 stops it) but, without a limit, leaves the document as
   it was: the container for the empty token is handed out fresh and what is added to it is lost *)
Example copy_empty_token_counts_but_is_lost :
  match api_decode (B "[{""op"":""copy"",""from"":""/a"",""path"":""//b""}]") with
  | Some p =>
      api_apply (mkOpts true 4 false false false [] None) [] p (B "{""a"":""<x>""}") = RErr (Some 0%nat) (ECopyLimit 4 5) /\
      api_apply (mkOpts true 0 false false false [] None) [] p (B "{""a"":""<x>""}") = ROut (B "{""a"":""<x>""}")
  | None => False
  end.
Proof. vm_compute. split; reflexivity. Qed.

Print Assumptions print_escape_tree.
Print Assumptions deep_copy_spelling.
Print Assumptions deep_copy_counts_spelling.
Print Assumptions deep_copy_null_code.
Print Assumptions deep_copy_null_fixed.
Print Assumptions deep_copy_null_0_or_4.
Print Assumptions print_desc.
Print Assumptions subnode_output.
Print Assumptions copy_step_in_tree.
Print Assumptions copy_step_spelling.
Print Assumptions copy_last_output.
Print Assumptions copied_node_in_final_output.
Print Assumptions compact_of_indented.
Print Assumptions copy_in_patch_output.
