(* V4EqualFacts.v — the legacy Equal (ImplV4.equal4 / node_equal4 / api_equal4) against structural
   equality (Json.jeq) of the denoted values.  The legacy lazyNode.equal compares scalars by their
   compacted bytes, so two strings are equal only if they are SPELLED alike: the naive statement
   (equal4 = jeq on decoded values) is false (counterexamples below); it is true for texts whose
   string values are spelled exactly as they decode (no escapes, valid UTF-8).  Without that
   hypothesis one direction still holds: legacy-equal nodes denote jeq-equal values. *)
From Coq Require Import Lia.
From JP Require Import Bytes Json Text Strings Den ImplV5 ImplMerge ImplV4 DecodeFacts JsonFacts MergeFacts
  Abs ImplMergeFacts EqualFacts ParseFacts Codec V4MergeFacts.

(* ---- counterexamples to the naive statement ---- *)
(* an escaped and an unescaped spelling of the same string *)
Example equal4_naive_false_strings :
  node_equal4 (NRaw (TStr (B "\/"))) (NRaw (TStr (B "/"))) = false /\
  jeq (aval4 (NRaw (TStr (B "\/")))) (aval4 (NRaw (TStr (B "/")))) = true /\
  api_equal4 (B "{""a"":""\/""}") (B "{""a"":""/""}") = Some false.
Proof. vm_compute. repeat split; reflexivity. Qed.

(* a nil node against a node with a nil raw message, or against the raw text null: isNull holds of all
   three (the former model said false here; the package says true, see V4NullWalk.v) *)
Example equal4_null_kinds :
  node_equal4 NNil (NRaw TNull) = true /\ node_equal4 raw_null4 (NRaw TNull) = true /\
  node_equal4 nil_doc4 (NRaw TNull) = false /\ node_equal4 nil_doc4 (NRaw (TObj [])) = true /\
  jeq (aval4 NNil) (aval4 (NRaw TNull)) = true.
Proof. vm_compute. repeat split; reflexivity. Qed.

(* member NAMES are compared decoded: escapes in names are harmless *)
Example equal4_names_decoded : api_equal4 (B "{""\/"":1}") (B "{""/"":1}") = Some true.
Proof. vm_compute. reflexivity. Qed.

(* ---- strings spelled exactly as they decode ---- *)
Fixpoint tplain (t : tjson) : bool :=
  match t with
  | TStr b => bseq (unquote b) b
  | TArr l => forallb tplain l
  | TObj ms => forallb (fun kv => tplain (snd kv)) ms
  | _ => true
  end.

Fixpoint nplain (n : node) : Prop :=
  match n with
  | NNil => True
  | NRaw t => tplain t = true
  | NDoc _ obj => (fix all (m : list (bytes * node)) : Prop := match m with [] => True | kv :: r => nplain (snd kv) /\ all r end) obj
  | NAry ns => (fix all (l : list node) : Prop := match l with [] => True | x :: r => nplain x /\ all r end) ns
  end.

Lemma nplain_doc keys obj : nplain (NDoc keys obj) <-> Forall (fun kv => nplain (snd kv)) obj.
Proof.
  cbn [nplain]. split; intro H.
  - induction obj as [|kv obj IH]; constructor; destruct H; auto.
  - induction obj as [|kv obj IH]; [exact I|]. inversion H as [|? ? Ha Hb]; subst. split; [exact Ha | apply IH; exact Hb].
Qed.

Lemma nplain_ary ns : nplain (NAry ns) <-> Forall nplain ns.
Proof.
  cbn [nplain]. split; intro H.
  - induction ns as [|x ns IH]; constructor; destruct H; auto.
  - induction ns as [|x ns IH]; [exact I|]. inversion H as [|? ? Ha Hb]; subst. split; [exact Ha | apply IH; exact Hb].
Qed.
Arguments nplain : simpl never.

Lemma nplain_child t : tplain t = true -> nplain (child t).
Proof. destruct t; intro H; try exact I; exact H. Qed.

(* a sufficient syntactic condition: ASCII bytes other than the backslash *)
Definition plain_byte (c : byte) : bool := negb (Byte.eqb c x5c) && (bn c <? 128).

Lemma unquote_nil : unquote [] = [].
Proof. reflexivity. Qed.

Lemma unquote_ascii_plain b : forallb plain_byte b = true -> unquote b = b.
Proof.
  induction b as [|c r IH]; intro H; [reflexivity|].
  simpl in H. apply andb_prop in H as [Hc Hr]. unfold plain_byte in Hc. apply andb_prop in Hc as [H1 H2].
  rewrite unquote_plain; [f_equal; auto | | exact H2].
  destruct (Byte.eqb c x5c); [discriminate | reflexivity].
Qed.

(* ---- everything the comparison needs of a node ---- *)
(* pl = true: string values are moreover spelled as they decode (needed for completeness only) *)
Definition goodp (pl : bool) (n : node) : Prop :=
  nwf4 n /\ nlit n /\ (pl = true -> nplain n) /\ nclean n = true.
Notation good4 := (goodp true).
Notation good4w := (goodp false).

Lemma goodp_weaken pl n : goodp pl n -> good4w n.
Proof. intros [W [L [_ C]]]. split; [exact W|]. split; [exact L|]. split; [discriminate | exact C]. Qed.

Inductive shape_ok4 (pl : bool) : node -> shape -> Prop :=
| Sh4Leaf n t : aval4 n = den t -> leaf_ok t -> (pl = true -> tplain t = true) -> shape_ok4 pl n (SLeaf t)
| Sh4Doc n m : aval4 n = OObj (mem4 m) -> NoDup (map fst m) ->
               (forall k v, In (k, v) m -> goodp pl v /\ (nsize v < nsize n)%nat) ->
               shape_ok4 pl n (SDoc m)
| Sh4Ary n l : aval4 n = OArr (map aval4 l) ->
               (forall v, In v l -> goodp pl v /\ (nsize v < nsize n)%nat) ->
               shape_ok4 pl n (SAry l).

Lemma goodp_child pl t : tnodup t = true -> tlit t = true -> (pl = true -> tplain t = true) -> goodp pl (child t).
Proof.
  intros T L P. split; [apply nwf4_child; auto|]. split; [apply nlit_child; auto|].
  split; [intro Hp; apply nplain_child; auto | apply nclean_child].
Qed.

Lemma shape4_ok pl n : goodp pl n -> null4 n = false -> shape_ok4 pl n (shape4 n).
Proof.
  intros [W [L [P C]]] NN. destruct n as [|t|keys obj|ns]; try discriminate.
  - apply nwf4_raw in W. unfold nlit in L. unfold nplain in P.
    destruct t; try discriminate; cbn [shape4].
    + apply Sh4Leaf; auto. split; auto.
    + apply Sh4Leaf; auto. split; auto.
    + apply Sh4Leaf; auto. split; auto.
    + apply Sh4Leaf; auto. split; auto.
    + (* raw array *)
      apply Sh4Ary.
      * cbn [aval4 den]. f_equal. rewrite map_map. apply map_ext. intro t. symmetry. apply aval4_child.
      * intros v Hin. apply in_map_iff in Hin as [t [<- Hin]].
        apply tnodup_arr in W. rewrite Forall_forall in W.
        simpl in L. rewrite forallb_forall in L. split.
        -- apply goodp_child; auto. intro Hp. specialize (P Hp). simpl in P. rewrite forallb_forall in P. auto.
        -- rewrite nsize_child. simpl. pose proof (fold_tsize_in_l l t Hin). lia.
    + (* raw object *)
      destruct (parsed_obj4 ms W) as [P1 [P2 P3]].
      apply Sh4Doc; auto.
      intros k v Hin. apply tnodup_obj in W as [N F]. rewrite obj_of_nodup in Hin by exact N.
      apply in_map_iff in Hin as [[k0 t0] [E Hin]]. inversion E; subst.
      rewrite Forall_forall in F. simpl in L. rewrite forallb_forall in L. split.
      * apply goodp_child; [apply (F _ Hin) | apply (L _ Hin) |].
        intro Hp. specialize (P Hp). simpl in P. rewrite forallb_forall in P. apply (P _ Hin).
      * rewrite nsize_child. simpl. pose proof (fold_tsize_in ms (k0, t0) Hin). simpl in *. lia.
  - apply nwf4_doc in W as [_ [No W]]. apply nlit_doc in L. apply nclean_doc in C.
    cbn [shape4]. apply Sh4Doc; auto.
    intros k v Hin. unfold nodes_wf4, nodes_clean in *. rewrite Forall_forall in W, L, C.
    split; [split; [apply (W _ Hin) | split; [apply (L _ Hin) | split; [|apply (C _ Hin)]]]|].
    + intro Hp. specialize (P Hp). apply nplain_doc in P. rewrite Forall_forall in P. apply (P _ Hin).
    + simpl. pose proof (fold_nsize_in obj (k, v) Hin). simpl in *. lia.
  - apply nwf4_ary in W. apply nlit_ary in L.
    simpl in C. rewrite forallb_forall in C.
    cbn [shape4]. apply Sh4Ary; [reflexivity|].
    intros v Hin. rewrite Forall_forall in W, L.
    split; [split; [apply (W _ Hin) | split; [apply (L _ Hin) | split; [|apply (C _ Hin)]]]|].
    + intro Hp. specialize (P Hp). apply nplain_ary in P. rewrite Forall_forall in P. apply (P _ Hin).
    + simpl. pose proof (fold_nsize_in_l ns v Hin). lia.
Qed.

(* ---- scalars: comparison of the compacted bytes ---- *)
Lemma bseq_app_tail a b s : bseq (a ++ s) (b ++ s) = bseq a b.
Proof.
  apply Bool.eq_true_iff_eq. rewrite !bseq_iff. split; intro H; [eapply app_inv_tail; eauto | now subst].
Qed.

Lemma leaf4_spec a b :
  leaf_ok a -> leaf_ok b -> tplain a = true -> tplain b = true ->
  bseq (print false a) (print false b) = jeq (den a) (den b).
Proof.
  intros Ha Hb Pa Pb.
  assert (Str : forall x y, a = TStr x -> b = TStr y -> bseq (print false a) (print false b) = jeq (den a) (den b)).
  { intros x y -> ->. cbn [print spell den jeq tplain] in *. apply bseq_eq in Pa, Pb. rewrite Pa, Pb.
    cbn [bseq]. change (Byte.eqb x22 x22) with true. cbn [andb]. apply bseq_app_tail. }
  destruct a, b; try (eapply Str; reflexivity);
    (rewrite <- (leaf_equal_spec _ _ Ha Hb); reflexivity).
Qed.

Lemma null4_onull n : nwf4 n -> null4 n = onull (aval4 n).
Proof.
  destruct n as [|t|keys obj|ns]; intro W; try reflexivity.
  - destruct t; reflexivity.
  - apply nwf4_doc in W as [-> _]. reflexivity.
Qed.

(* ---- the theorem ---- *)
Lemma equal4_unfold f n o :
  equal4 (S f) n o =
  if null4 n || null4 o then null4 n && null4 o else
  match shape4 n, shape4 o with
  | SLeaf a, SLeaf b => bseq (print false a) (print false b)
  | SLeaf _, _ => false
  | SDoc m, SDoc m' =>
      (length m =? length m')%nat &&
      forallb (fun kv => match aget (fst kv) m' with Some ov => equal4 f (snd kv) ov | None => false end) m
  | SDoc _, _ => false
  | SAry l, SAry l' => (length l =? length l')%nat && ary_go (equal4 f) l l'
  | SAry _, _ => false
  end.
Proof.
  cbn [equal4]. destruct (null4 n || null4 o); auto.
  destruct (shape4 n), (shape4 o); auto. f_equal.
  revert ns0. induction ns as [|x l IH]; intros [|y l']; simpl; auto. now rewrite IH.
Qed.

Theorem equal4_spec : forall fuel n o,
  (nsize n + nsize o <= fuel)%nat -> good4 n -> good4 o ->
  equal4 fuel n o = jeq (aval4 n) (aval4 o).
Proof.
  induction fuel as [|f IH]; intros n o Hf Gn Go.
  { destruct n; simpl in Hf; try lia; pose proof (tsize_pos t); lia. }
  rewrite equal4_unfold.
  rewrite (null4_onull n) by apply Gn. rewrite (null4_onull o) by apply Go.
  destruct (onull (aval4 n)) eqn:Nn.
  { destruct (aval4 n); try discriminate. cbn [orb andb]. symmetry. apply jeq_null_l. }
  destruct (onull (aval4 o)) eqn:No.
  { destruct (aval4 o); try discriminate. cbn [orb andb]. rewrite jeq_null_r. symmetry. exact Nn. }
  cbn [orb].
  assert (NNn : null4 n = false) by (rewrite null4_onull by apply Gn; exact Nn).
  assert (NNo : null4 o = false) by (rewrite null4_onull by apply Go; exact No).
  pose proof (shape4_ok true n Gn NNn) as Sn. pose proof (shape4_ok true o Go NNo) as So.
  inversion Sn as [n1 a Ea La Pa Eq1|n1 m Ea Nm Cm Eq1|n1 l Ea Cl Eq1]; subst n1;
    inversion So as [o1 b Eb Lb Pb Eq2|o1 m' Eb Nm' Cm' Eq2|o1 l' Eb Cl' Eq2]; subst o1;
    rewrite Ea, Eb.
  - apply leaf4_spec; auto.
  - destruct La as [La _]. destruct a; try contradiction; reflexivity.
  - destruct La as [La _]. destruct a; try contradiction; reflexivity.
  - destruct Lb as [Lb _]. destruct b; try contradiction; reflexivity.
  - (* two objects *)
    assert (Nms : NoDup (map fst (mem4 m))) by (rewrite mem4_keys; exact Nm).
    assert (Nms' : NoDup (map fst (mem4 m'))) by (rewrite mem4_keys; exact Nm').
    apply Bool.eq_true_iff_eq. rewrite andb_true_iff, Nat.eqb_eq, forallb_members_iff.
    rewrite (jeq_obj_char _ _ Nms Nms').
    assert (IHc : forall k v ov, In (k, v) m -> In (k, ov) m' -> equal4 f v ov = jeq (aval4 v) (aval4 ov)).
    { intros k v ov H1 H2. destruct (Cm _ _ H1) as [G1 S1]. destruct (Cm' _ _ H2) as [G2 S2].
      apply IH; auto. lia. }
    split.
    + intros [Hlen Hall] k. rewrite !aget_mem4. unfold lookup_rel.
      destruct (aget k m) as [v|] eqn:G1; cbn [option_map].
      * apply aget_In in G1. specialize (Hall (k, v) G1). cbn [fst snd] in Hall.
        destruct (aget k m') as [ov|] eqn:G2; try discriminate. cbn [option_map].
        rewrite <- (IHc k v ov); auto. apply aget_In; auto.
      * destruct (aget k m') as [ov|] eqn:G2; cbn [option_map]; auto.
        assert (Incl : incl (map fst m) (map fst m')).
        { intros k' Hk. apply in_map_iff in Hk as [[k2 v2] [E Hin]]. simpl in E; subst.
          specialize (Hall _ Hin). cbn [fst snd] in Hall. destruct (aget k' m') eqn:G; try discriminate.
          eapply aget_In_fst; eauto. }
        assert (Incl' : incl (map fst m') (map fst m)).
        { apply NoDup_length_incl; auto. rewrite !map_length. lia. }
        apply aget_In_fst in G2. apply Incl' in G2. apply aget_None_notin in G1. contradiction.
    + intro HR.
      assert (HR' : forall k, lookup_rel (fun x y => jeq x y = true) (option_map aval4 (aget k m)) (option_map aval4 (aget k m')))
        by (intro k; specialize (HR k); rewrite !aget_mem4 in HR; exact HR).
      assert (Incl : incl (map fst m) (map fst m')).
      { intros k Hk. apply aget_Some_in in Hk as [v Hv]. specialize (HR' k). rewrite Hv in HR'.
        unfold lookup_rel in HR'. destruct (aget k m') eqn:G; try contradiction. eapply aget_In_fst; eauto. }
      assert (Incl' : incl (map fst m') (map fst m)).
      { intros k Hk. apply aget_Some_in in Hk as [v Hv]. specialize (HR' k). rewrite Hv in HR'.
        unfold lookup_rel in HR'. destruct (aget k m) eqn:G; try contradiction. eapply aget_In_fst; eauto. }
      split.
      * apply Nat.le_antisymm; rewrite <- (map_length fst m), <- (map_length fst m'); apply NoDup_incl_length; auto.
      * intros [k v] Hin. cbn [fst snd]. pose proof (In_aget_nodup k v m Nm Hin) as G1.
        specialize (HR' k). rewrite G1 in HR'. unfold lookup_rel in HR'.
        destruct (aget k m') as [ov|] eqn:G2; try contradiction. cbn [option_map] in HR'.
        rewrite (IHc k v ov); auto. apply aget_In; auto.
  - reflexivity.
  - destruct Lb as [Lb _]. destruct b; try contradiction; reflexivity.
  - reflexivity.
  - (* two arrays *)
    rewrite jeq_arr.
    assert (IHc : forall v ov, In v l -> In ov l' -> equal4 f v ov = jeq (aval4 v) (aval4 ov)).
    { intros v ov H1 H2. destruct (Cl _ H1) as [G1 S1]. destruct (Cl' _ H2) as [G2 S2].
      apply IH; auto. lia. }
    clear - IHc. revert l' IHc. induction l as [|x l IHl]; intros [|y l'] IHc; simpl; auto.
    rewrite (IHc x y) by (now left).
    destruct (jeq (aval4 x) (aval4 y)); simpl.
    + rewrite <- IHl by (intros; apply IHc; now right). reflexivity.
    + now rewrite andb_false_r.
Qed.

Theorem node_equal4_spec n o : good4 n -> good4 o -> node_equal4 n o = jeq (aval4 n) (aval4 o).
Proof. intros. unfold node_equal4. apply equal4_spec; auto. Qed.

(* soundness needs no hypothesis on the spelling of strings: equal spellings decode alike *)
Lemma leaf4_sound a b :
  leaf_ok a -> leaf_ok b -> bseq (print false a) (print false b) = true -> jeq (den a) (den b) = true.
Proof.
  intros Ha Hb.
  assert (Str : forall x y, a = TStr x -> b = TStr y ->
                bseq (print false a) (print false b) = true -> jeq (den a) (den b) = true).
  { intros x y -> ->. cbn [print den jeq]. unfold spell. cbn [bseq]. change (Byte.eqb x22 x22) with true. cbn [andb].
    rewrite bseq_app_tail. intro E. apply bseq_eq in E. subst. apply bseq_refl. }
  destruct a, b; try (eapply Str; reflexivity);
    (rewrite <- (leaf_equal_spec _ _ Ha Hb); intro E; exact E).
Qed.

Theorem equal4_sound : forall fuel n o,
  good4w n -> good4w o -> equal4 fuel n o = true -> jeq (aval4 n) (aval4 o) = true.
Proof.
  induction fuel as [|f IH]; intros n o Gn Go; [intro Hx; discriminate Hx|].
  rewrite equal4_unfold.
  rewrite (null4_onull n) by apply Gn. rewrite (null4_onull o) by apply Go.
  destruct (onull (aval4 n)) eqn:Nn.
  { destruct (aval4 n); try discriminate. cbn [orb andb]. destruct (aval4 o); auto. }
  destruct (onull (aval4 o)) eqn:No.
  { cbn [orb andb]. intro Hx; discriminate Hx. }
  cbn [orb].
  assert (NNn : null4 n = false) by (rewrite null4_onull by apply Gn; exact Nn).
  assert (NNo : null4 o = false) by (rewrite null4_onull by apply Go; exact No).
  pose proof (shape4_ok false n Gn NNn) as Sn. pose proof (shape4_ok false o Go NNo) as So.
  inversion Sn as [n1 a Ea La Pa Eq1|n1 m Ea Nm Cm Eq1|n1 l Ea Cl Eq1]; subst n1;
    inversion So as [o1 b Eb Lb Pb Eq2|o1 m' Eb Nm' Cm' Eq2|o1 l' Eb Cl' Eq2]; subst o1;
    rewrite Ea, Eb; try (intro Hx; discriminate Hx).
  - apply leaf4_sound; auto.
  - (* two objects *)
    intro Hx. apply andb_prop in Hx as [Hlen Hall]. apply Nat.eqb_eq in Hlen.
    rewrite forallb_members_iff in Hall.
    assert (Nms : NoDup (map fst (mem4 m))) by (rewrite mem4_keys; exact Nm).
    assert (Nms' : NoDup (map fst (mem4 m'))) by (rewrite mem4_keys; exact Nm').
    apply (jeq_obj_char _ _ Nms Nms').
    assert (IHc : forall k v ov, In (k, v) m -> In (k, ov) m' -> equal4 f v ov = true -> jeq (aval4 v) (aval4 ov) = true).
    { intros k v ov H1 H2. destruct (Cm _ _ H1) as [G1 _]. destruct (Cm' _ _ H2) as [G2 _]. apply IH; auto. }
    intro k. rewrite !aget_mem4. unfold lookup_rel.
    destruct (aget k m) as [v|] eqn:G1; cbn [option_map].
    + apply aget_In in G1. specialize (Hall (k, v) G1). cbn [fst snd] in Hall.
      destruct (aget k m') as [ov|] eqn:G2; try discriminate. cbn [option_map].
      apply (IHc k v ov); auto. apply aget_In; auto.
    + destruct (aget k m') as [ov|] eqn:G2; cbn [option_map]; auto.
      assert (Incl : incl (map fst m) (map fst m')).
      { intros k' Hk. apply in_map_iff in Hk as [[k2 v2] [E Hin]]. simpl in E; subst.
        specialize (Hall _ Hin). cbn [fst snd] in Hall. destruct (aget k' m') eqn:G; try discriminate.
        eapply aget_In_fst; eauto. }
      assert (Incl' : incl (map fst m') (map fst m)).
      { apply NoDup_length_incl; auto. rewrite !map_length. lia. }
      apply aget_In_fst in G2. apply Incl' in G2. apply aget_None_notin in G1. contradiction.
  - (* two arrays *)
    intro Hx. apply andb_prop in Hx as [Hlen Hgo]. apply Nat.eqb_eq in Hlen.
    rewrite jeq_arr.
    assert (IHc : forall v ov, In v l -> In ov l' -> equal4 f v ov = true -> jeq (aval4 v) (aval4 ov) = true).
    { intros v ov H1 H2. destruct (Cl _ H1) as [G1 _]. destruct (Cl' _ H2) as [G2 _]. apply IH; auto. }
    clear - IHc Hlen Hgo. revert l' IHc Hlen Hgo.
    induction l as [|x l IHl]; intros [|y l'] IHc Hlen Hgo; simpl in *; try discriminate; auto.
    apply andb_prop in Hgo as [H1 H2]. rewrite (IHc x y) by auto. simpl.
    apply IHl; auto.
Qed.

Theorem node_equal4_sound n o : good4w n -> good4w o -> node_equal4 n o = true -> jeq (aval4 n) (aval4 o) = true.
Proof. intros Gn Go. unfold node_equal4. apply equal4_sound; auto. Qed.

(* ---- Equal on texts ---- *)
(* the raw text null at the root (below the root a null member is a nil node) *)
Lemma node_equal4_null_l tb : tlit tb = true -> node_equal4 (NRaw TNull) (NRaw tb) = jeq ONull (den tb).
Proof.
  intros _. unfold node_equal4. cbn [nsize tsize]. rewrite Nat.add_1_l. rewrite equal4_unfold.
  destruct tb; reflexivity.
Qed.

Lemma node_equal4_null_r ta : tlit ta = true -> node_equal4 (NRaw ta) (NRaw TNull) = jeq (den ta) ONull.
Proof.
  intros _. unfold node_equal4. cbn [nsize tsize]. rewrite Nat.add_1_r. rewrite equal4_unfold.
  destruct ta; reflexivity.
Qed.

Lemma good4_raw t : t <> TNull -> tnodup t = true -> tlit t = true -> tplain t = true -> good4 (NRaw t).
Proof.
  intros NN T L P. split; [exact T|]. split; [exact L|]. split; [intros _; exact P|]. destruct t; try reflexivity. congruence.
Qed.

(* C19 (Equal): on texts without duplicate names whose string values are spelled as they decode,
   the legacy Equal decides structural equality of the decoded values *)
Theorem api_equal4_spec a b ta tb :
  parse a = Some ta -> parse b = Some tb -> tnodup ta = true -> tnodup tb = true ->
  tplain ta = true -> tplain tb = true ->
  api_equal4 a b = Some (jeq (den ta) (den tb)).
Proof.
  intros Pa Pb Ta Tb Sa Sb. unfold api_equal4. rewrite Pa, Pb. f_equal.
  pose proof (parse_tlit _ _ Pa) as La. pose proof (parse_tlit _ _ Pb) as Lb.
  destruct (tnull_dec ta) as [->|Na]; [apply node_equal4_null_l; auto|].
  destruct (tnull_dec tb) as [->|Nb]; [apply node_equal4_null_r; auto|].
  apply (node_equal4_spec (NRaw ta) (NRaw tb)); apply good4_raw; auto.
Qed.

(* consequently the legacy Equal is reflexive, symmetric and transitive on that domain *)
Corollary api_equal4_refl a ta : parse a = Some ta -> tnodup ta = true -> tplain ta = true -> api_equal4 a a = Some true.
Proof.
  intros Pa Ta Sa. rewrite (api_equal4_spec a a ta ta) by auto. f_equal. apply jeq_refl. exact Ta.
Qed.

Corollary api_equal4_sym a b ta tb :
  parse a = Some ta -> parse b = Some tb -> tnodup ta = true -> tnodup tb = true ->
  tplain ta = true -> tplain tb = true ->
  api_equal4 a b = Some true -> api_equal4 b a = Some true.
Proof.
  intros Pa Pb Ta Tb Sa Sb. rewrite (api_equal4_spec a b ta tb), (api_equal4_spec b a tb ta) by auto.
  intro H. inversion H as [H']. rewrite H'. f_equal. apply jeq_sym; auto.
Qed.

(* soundness on texts, with no hypothesis on how strings are spelled: texts the legacy Equal
   accepts denote structurally equal values *)
Theorem api_equal4_sound a b ta tb :
  parse a = Some ta -> parse b = Some tb -> tnodup ta = true -> tnodup tb = true ->
  api_equal4 a b = Some true -> jeq (den ta) (den tb) = true.
Proof.
  intros Pa Pb Ta Tb. unfold api_equal4. rewrite Pa, Pb. intro H.
  assert (H' : node_equal4 (NRaw ta) (NRaw tb) = true) by congruence. clear H.
  pose proof (parse_tlit _ _ Pa) as La. pose proof (parse_tlit _ _ Pb) as Lb.
  destruct (tnull_dec ta) as [->|Na]; [rewrite node_equal4_null_l in H' by auto; exact H'|].
  destruct (tnull_dec tb) as [->|Nb]; [rewrite node_equal4_null_r in H' by auto; exact H'|].
  assert (G : forall t, t <> TNull -> tnodup t = true -> tlit t = true -> good4w (NRaw t)).
  { intros t NN T L. split; [exact T|]. split; [exact L|]. split; [discriminate|]. destruct t; try reflexivity. congruence. }
  apply (node_equal4_sound (NRaw ta) (NRaw tb)); auto.
Qed.

(* non-vacuity of the domain of api_equal4_spec: ASCII strings without a backslash *)
Example tplain_example :
  tplain (TObj [(B "k", TArr [TStr (B "plain text"); TNum (B "1")])]) = true.
Proof. vm_compute. reflexivity. Qed.
