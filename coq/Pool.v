(* Pool.v — the residue of recycled decoder state is never observable.
   A pooled decodeState keeps its lastKeys across calls; json.UnmarshalValidWithKeys returns that
   stale list when the text is not an object, and partialDoc.UnmarshalJSON stores it as the key
   list of a document whose map is nil (the document null).  In the model that list is the
   `stale` payload of KDocNil, taken from o_stale (an arbitrary residue).  This file proves that
   no function of the model ever reads it: every result is the same whatever the residue was.
   It also defines the decidable discipline on the facts gofacts extracts from the source. *)
From Coq Require Import Lia String.
From JP Require Import Bytes Json Text Strings Den Pointer ImplV5 ApplyFacts.
From JP.gen Require Import FactsGen.

Definition set_stale (o : opts) (s : list bytes) : opts :=
  mkOpts (o_neg o) (o_limit o) (o_allow o) (o_ensure o) (o_esc o) s (o_nullsz o).

(* deepCopy's depth check does not read the pooled residue *)
Lemma copy_too_deep_stale o s v : copy_too_deep (set_stale o s) v = copy_too_deep o v.
Proof. reflexivity. Qed.

Definition erase_con (c : con) : con := match c with KDocNil s _ => KDocNil s [] | _ => c end.
Definition erase_root (r : root) : root := match r with RCon c => RCon (erase_con c) | RNull => RNull end.
Definition erase_st (st : state) : state := mkState (erase_root (s_root st)) (s_acc st).

Definition map_res {A B} (f : A -> B) (r : res A) : res B :=
  match r with Ok a => Ok (f a) | Err e => Err e | Panic => Panic end.

Section Erase.
  Variable o : opts.
  Let o' := set_stale o [].

  Lemma con_get_erase c k : con_get o' (erase_con c) k = con_get o c k.
  Proof. destruct c; reflexivity. Qed.

  Lemma con_add_erase c k v : con_add o' (erase_con c) k v = map_res erase_con (con_add o c k v).
  Proof.
    destruct c as [s ks ob|s st|s ns]; cbn [erase_con con_add]; try reflexivity;
      try (destruct (doc_set ks ob k v); reflexivity).
    change (ary_add o' ns k v) with (ary_add o ns k v). destruct (ary_add o ns k v); reflexivity.
  Qed.

  Lemma con_set_erase c k v : con_set o' (erase_con c) k v = map_res erase_con (con_set o c k v).
  Proof.
    destruct c as [s ks ob|s st|s ns]; cbn [erase_con con_set]; try reflexivity;
      try (destruct (doc_set ks ob k v); reflexivity).
    change (ary_set o' ns k v) with (ary_set o ns k v). destruct (ary_set o ns k v); reflexivity.
  Qed.

  Lemma con_remove_erase c k : con_remove o' (erase_con c) k = map_res erase_con (con_remove o c k).
  Proof.
    destruct c as [s ks ob|s st|s ns]; cbn [erase_con con_remove]; try reflexivity.
    - change (o_allow o') with (o_allow o). destruct (amem k ob); [destruct (kmem k ks)|destruct (o_allow o)]; reflexivity.
    - change (ary_remove o' ns k) with (ary_remove o ns k). destruct (ary_remove o ns k); reflexivity.
  Qed.

  Lemma con_put_erase c k ch : con_put o' (erase_con c) k ch = erase_con (con_put o c k ch).
  Proof.
    destruct c as [s ks ob|s st|s ns]; cbn [erase_con con_put]; try reflexivity; try (destruct k; reflexivity).
    destruct k as [|b k]; try reflexivity.
      change (resolve_idx_get o' (zlen ns) (b :: k)) with (resolve_idx_get o (zlen ns) (b :: k)).
      destruct (resolve_idx_get o (zlen ns) (b :: k)); reflexivity.
  Qed.

  Lemma node_of_con_erase c : node_of_con (erase_con c) = node_of_con c.
  Proof. destruct c; reflexivity. Qed.

  Lemma into_con_not_nil n ch : into_con n = Some ch -> erase_con ch = ch.
  Proof.
    destruct n as [|t|ks ob|ns]; simpl; try discriminate.
    - destruct t; try discriminate; [|destruct (doc_of ms)]; intro H; inversion H; reflexivity.
    - intro H; inversion H; reflexivity.
    - intro H; inversion H; reflexivity.
  Qed.

  Lemma erase_idem c : erase_con (erase_con c) = erase_con c.
  Proof. destruct c; reflexivity. Qed.

  (* the walk *)
  Definition map_found {A B} (g : A -> B) (x : found A) : found B :=
    match x with FoundRoot => FoundRoot | FoundNil => FoundNil | FoundAt a => FoundAt (g a) end.

  Lemma walk_erase {A B} (g : A -> B) parts : forall c (f : con -> A * con) (f' : con -> B * con),
    (forall cp, f' (erase_con cp) = (g (fst (f cp)), erase_con (snd (f cp)))) ->
    walk o' parts (erase_con c) f' = (option_map g (fst (walk o parts c f)), erase_con (snd (walk o parts c f))).
  Proof.
    induction parts as [|p parts IH]; intros c f f' F; cbn [walk].
    - rewrite F. destruct (f c); reflexivity.
    - rewrite con_get_erase. destruct (con_get o c (decode_token p)) as [next| |]; try reflexivity.
      destruct (into_con next) as [ch|] eqn:E; try reflexivity.
      pose proof (IH ch f f' F) as W. rewrite (into_con_not_nil _ _ E) in W. rewrite W.
      destruct (walk o parts ch f) as [r ch']. cbn [fst snd].
      rewrite node_of_con_erase, con_put_erase. reflexivity.
  Qed.

  Lemma find_erase {A B} (g : A -> B) c path (f : con -> bytes -> A * con) (f' : con -> bytes -> B * con) :
    (forall cp k, f' (erase_con cp) k = (g (fst (f cp k)), erase_con (snd (f cp k)))) ->
    find o' (erase_con c) path f' = (map_found g (fst (find o c path f)), erase_con (snd (find o c path f))).
  Proof.
    intro F. unfold find. destruct (split_path path) as [[parts key]|].
    - rewrite (walk_erase g parts c (fun c' => f c' key) (fun c' => f' c' key)) by (intro; apply F).
      destruct (walk o parts c (fun c' => f c' key)) as [[a|] c1]; reflexivity.
    - destruct path; try reflexivity. rewrite F. destruct (f c []); reflexivity.
  Qed.
End Erase.

Section EraseOps.
  Variable o : opts.
  Let o' := set_stale o [].

  Lemma ignore_err_erase c r :
    ignore_err (erase_con c) (map_res erase_con r) = erase_con (ignore_err c r).
  Proof. destruct r; reflexivity. Qed.

  Lemma pad_nulls_erase : forall count c from,
    pad_nulls o' (erase_con c) from count = erase_con (pad_nulls o c from count).
  Proof.
    induction count as [|k IH]; intros c from; cbn [pad_nulls]; auto.
    rewrite (con_add_erase o). destruct (con_add o c (itoa (N.of_nat from)) (NRaw TNull)); cbn [map_res]; apply IH.
  Qed.

  Lemma ensure_erase parts : forall c,
    ensure o' parts (erase_con c) = (fst (ensure o parts c), erase_con (snd (ensure o parts c))).
  Proof.
    induction parts as [|p parts IH]; intro c; [reflexivity|].
    destruct parts as [|nextp rest]; [reflexivity|].
    rewrite !ensure_unfold. cbv zeta.
    rewrite (con_get_erase o).
    change (o_neg o') with (o_neg o).
    assert (C1 : forall cc, match atoi p, erase_con cc with
                 | Some idx, KAry _ ns => if (zlen ns + 1 <=? idx)%Z then pad_nulls o' (erase_con cc) (length ns) (Z.to_nat (idx - zlen ns)) else erase_con cc
                 | _, _ => erase_con cc
                 end = erase_con (match atoi p, cc with
                 | Some idx, KAry _ ns => if (zlen ns + 1 <=? idx)%Z then pad_nulls o cc (length ns) (Z.to_nat (idx - zlen ns)) else cc
                 | _, _ => cc
                 end)).
    { intro cc. destruct (atoi p); [|reflexivity]. destruct cc; try reflexivity.
      cbn [erase_con]. destruct (zlen nodes + 1 <=? z)%Z; [|reflexivity].
      change (KAry self nodes) with (erase_con (KAry self nodes)) at 1. apply pad_nulls_erase. }
    (* the recursive calls run on containers that are not the null document *)
    assert (Rec : forall x, erase_con x = x ->
              ensure o' (nextp :: rest) x = (fst (ensure o (nextp :: rest) x), erase_con (snd (ensure o (nextp :: rest) x)))).
    { intros x Ex. rewrite <- Ex at 1. apply IH. }
    assert (Fin : forall c1 key x, erase_con x = x ->
              (let (e, ch') := ensure o' (nextp :: rest) x in (e, ignore_err (erase_con c1) (con_add o' (erase_con c1) key (node_of_con ch')))) =
              (fst (let (e, ch') := ensure o (nextp :: rest) x in (e, ignore_err c1 (con_add o c1 key (node_of_con ch')))),
               erase_con (snd (let (e, ch') := ensure o (nextp :: rest) x in (e, ignore_err c1 (con_add o c1 key (node_of_con ch'))))))).
    { intros c1 key x Ex. rewrite (Rec x Ex). destruct (ensure o (nextp :: rest) x) as [e ch']. cbn [fst snd].
      rewrite (node_of_con_erase ch'), (con_add_erase o), ignore_err_erase. reflexivity. }
    assert (Put : forall key x, erase_con x = x ->
              (let (e, ch') := ensure o' (nextp :: rest) x in (e, con_put o' (erase_con c) key (node_of_con ch'))) =
              (fst (let (e, ch') := ensure o (nextp :: rest) x in (e, con_put o c key (node_of_con ch'))),
               erase_con (snd (let (e, ch') := ensure o (nextp :: rest) x in (e, con_put o c key (node_of_con ch')))))).
    { intros key x Ex. rewrite (Rec x Ex). destruct (ensure o (nextp :: rest) x) as [e ch']. cbn [fst snd].
      rewrite (node_of_con_erase ch'), (con_put_erase o). reflexivity. }
    assert (PadFresh : forall n, erase_con (pad_nulls o (KAry NNil []) 0 n) = pad_nulls o (KAry NNil []) 0 n /\
                                 pad_nulls o' (KAry NNil []) 0 n = pad_nulls o (KAry NNil []) 0 n).
    { intro n. pose proof (pad_nulls_erase n (KAry NNil []) 0) as P. cbn [erase_con] in P.
      assert (K : forall m cc from, (exists s ns, cc = KAry s ns) -> exists s ns, pad_nulls o cc from m = KAry s ns).
      { induction m as [|m IHm]; intros cc from [s [ns ->]]; cbn [pad_nulls]; eauto.
        cbn [con_add]. destruct (ary_add o ns (itoa (N.of_nat from)) (NRaw TNull)); apply IHm; eauto. }
      destruct (K n (KAry NNil []) 0%nat (ex_intro _ NNil (ex_intro _ [] eq_refl))) as [s [ns E]].
      rewrite E in *. split; [reflexivity | exact P]. }
    destruct (con_get o c (decode_token p)) as [[|t|ks ob|ns]| |].
    - (* NNil: missing *) rewrite C1.
      destruct (atoi nextp); [|destruct (bseq nextp [x2d])].
      + destruct ((_ <? 0)%Z && negb (o_neg o)); [reflexivity|]. destruct (_ <? -1)%Z; [reflexivity|].
        destruct (PadFresh (Z.to_nat (if (z <? 0)%Z then 0%Z else z))) as [P1 P2]. rewrite P2. apply Fin. exact P1.
      + destruct ((0 <? 0)%Z && negb (o_neg o)); [reflexivity|]. destruct (0 <? -1)%Z; [reflexivity|].
        destruct (PadFresh (Z.to_nat (if (0 <? 0)%Z then 0%Z else 0%Z))) as [P1 P2]. rewrite P2. apply Fin. exact P1.
      + apply Fin. reflexivity.
    - destruct t; try reflexivity; cbn [into_con].
      + apply Put. reflexivity.
      + destruct (doc_of ms). apply Put. reflexivity.
    - cbn [into_con]. apply Put. reflexivity.
    - cbn [into_con]. apply Put. reflexivity.
    - (* get failed: missing *) rewrite C1.
      destruct (atoi nextp); [|destruct (bseq nextp [x2d])].
      + destruct ((_ <? 0)%Z && negb (o_neg o)); [reflexivity|]. destruct (_ <? -1)%Z; [reflexivity|].
        destruct (PadFresh (Z.to_nat (if (z <? 0)%Z then 0%Z else z))) as [P1 P2]. rewrite P2. apply Fin. exact P1.
      + destruct ((0 <? 0)%Z && negb (o_neg o)); [reflexivity|]. destruct (0 <? -1)%Z; [reflexivity|].
        destruct (PadFresh (Z.to_nat (if (0 <? 0)%Z then 0%Z else 0%Z))) as [P1 P2]. rewrite P2. apply Fin. exact P1.
      + apply Fin. reflexivity.
    - rewrite C1.
      destruct (atoi nextp); [|destruct (bseq nextp [x2d])].
      + destruct ((_ <? 0)%Z && negb (o_neg o)); [reflexivity|]. destruct (_ <? -1)%Z; [reflexivity|].
        destruct (PadFresh (Z.to_nat (if (z <? 0)%Z then 0%Z else z))) as [P1 P2]. rewrite P2. apply Fin. exact P1.
      + destruct ((0 <? 0)%Z && negb (o_neg o)); [reflexivity|]. destruct (0 <? -1)%Z; [reflexivity|].
        destruct (PadFresh (Z.to_nat (if (0 <? 0)%Z then 0%Z else 0%Z))) as [P1 P2]. rewrite P2. apply Fin. exact P1.
      + apply Fin. reflexivity.
  Qed.
End EraseOps.

Section EraseStep.
  Variable o : opts.
  Let o' := set_stale o [].

  Lemma ensure_path_erase c path :
    ensure_path o' (erase_con c) path = (fst (ensure_path o c path), erase_con (snd (ensure_path o c path))).
  Proof. unfold ensure_path. destruct (split_slash path) as [|? [|? ?]]; try reflexivity. apply ensure_erase. Qed.

  Ltac root_cases st :=
    destruct st as [rt acc]; unfold erase_st; cbn [s_root s_acc]; destruct rt as [c|]; cbn [erase_root].

  Lemma op_add_erase st op : op_add o' (erase_st st) op = map_res erase_st (op_add o st op).
  Proof.
    unfold op_add. change (o_ensure o') with (o_ensure o).
    destruct (op_str op (B "path")) as [[|x path]| |]; try reflexivity.
    - destruct (op_value op) as [[|t| |]|]; try reflexivity. unfold root_of_value.
      destruct t; try reflexivity; try (destruct (doc_of ms); reflexivity).
    - root_cases st; [|reflexivity].
      assert (E : (if o_ensure o then ensure_path o' (erase_con c) (x :: path) else (None, erase_con c)) =
                  (fst (if o_ensure o then ensure_path o c (x :: path) else (None, c)),
                   erase_con (snd (if o_ensure o then ensure_path o c (x :: path) else (None, c))))).
      { destruct (o_ensure o); [apply ensure_path_erase | reflexivity]. }
      rewrite E. destruct (if o_ensure o then ensure_path o c (x :: path) else (None, c)) as [[e|] c1]; cbn [fst snd]; try reflexivity.
      set (v := match op_value op with Some v => v | None => NNil end).
      rewrite (find_erase o (map_res erase_con) c1 (x :: path)
                 (fun c' key => (con_add o c' key v, match con_add o c' key v with Ok c'' => c'' | _ => c' end))).
      + destruct (find o c1 (x :: path) _) as [[| |[a| |]] c2]; reflexivity.
      + intros cp k. rewrite (con_add_erase o). destruct (con_add o cp k v); reflexivity.
  Qed.

  Lemma op_remove_erase st op : op_remove o' (erase_st st) op = map_res erase_st (op_remove o st op).
  Proof.
    unfold op_remove. change (o_allow o') with (o_allow o).
    destruct (op_str op (B "path")) as [path| |]; try reflexivity.
    root_cases st; [|destruct (o_allow o); reflexivity].
    rewrite (find_erase o (map_res erase_con) c path
               (fun c' key => (con_remove o c' key, match con_remove o c' key with Ok c'' => c'' | _ => c' end))).
    - destruct (find o c path _) as [[| |[a| |]] c2]; try reflexivity; destruct (o_allow o); reflexivity.
    - intros cp k. rewrite (con_remove_erase o). destruct (con_remove o cp k); reflexivity.
  Qed.

  Lemma op_replace_erase st op : op_replace o' (erase_st st) op = map_res erase_st (op_replace o st op).
  Proof.
    unfold op_replace. destruct (op_str op (B "path")) as [[|x path]| |]; try reflexivity.
    - destruct (op_value op) as [[|t| |]|]; try reflexivity. destruct t; try reflexivity; try (destruct (doc_of ms); reflexivity).
    - root_cases st; [|reflexivity].
      set (v := match op_value op with Some v => v | None => NNil end).
      rewrite (find_erase o (map_res erase_con) c (x :: path)
                 (fun c' key => match con_get o c' key with
                                | Ok _ => (con_set o c' key v, match con_set o c' key v with Ok c'' => c'' | _ => c' end)
                                | Err _ => (Err EMissing, c')
                                | Panic => (Panic, c')
                                end)).
      + destruct (find o c (x :: path) _) as [[| |[a| |]] c2]; reflexivity.
      + intros cp k. rewrite (con_get_erase o). destruct (con_get o cp k); try reflexivity.
        rewrite (con_set_erase o). destruct (con_set o cp k v); reflexivity.
  Qed.

  Lemma op_move_erase st op : op_move o' (erase_st st) op = map_res erase_st (op_move o st op).
  Proof.
    unfold op_move. destruct (op_str op (B "from")) as [[|x from]| |]; try reflexivity.
    root_cases st; [|reflexivity].
    rewrite (find_erase o (fun r : res node => r) c (x :: from)
               (fun c' key => match con_get o c' key with
                              | Ok v => match con_remove o c' key with
                                        | Ok c'' => (Ok v, c'') | Err e => (Err e, c') | Panic => (Panic, c') end
                              | Err e => (Err e, c')
                              | Panic => (Panic, c')
                              end)).
    - destruct (find o c (x :: from) _) as [[| |[v| |]] c1]; try reflexivity. cbn [map_found fst snd].
      destruct (op_str op (B "path")) as [path| |]; try reflexivity.
      rewrite (find_erase o (map_res erase_con) c1 path
                 (fun c' key => (con_add o c' key v, match con_add o c' key v with Ok c'' => c'' | _ => c' end))).
      + destruct (find o c1 path _) as [[| |[a| |]] c2]; reflexivity.
      + intros cp k. rewrite (con_add_erase o). destruct (con_add o cp k v); reflexivity.
    - intros cp k. rewrite (con_get_erase o). destruct (con_get o cp k); try reflexivity.
      rewrite (con_remove_erase o). destruct (con_remove o cp k); reflexivity.
  Qed.

  Lemma op_test_erase st op : op_test o' (erase_st st) op = map_res erase_st (op_test o st op).
  Proof.
    unfold op_test. destruct (op_str op (B "path")) as [[|x path]| |]; try reflexivity.
    - root_cases st; [|destruct (node_equal _ _); reflexivity].
      destruct c as [s ks ob|s sk|s ns]; cbn [erase_con root_node node_of_con].
      + destruct (node_equal _ _); [|reflexivity]. destruct (deep (NDoc ks ob)); reflexivity.
      + destruct (is_null _); [reflexivity|]. destruct (shape_of _) as [|[|]|]; reflexivity.
      + destruct (node_equal _ _); reflexivity.
    - root_cases st; [|reflexivity].
      set (ov := match op_value op with Some v => v | None => NNil end).
      rewrite (find_erase o (fun r : res unit => r) c (x :: path)
                 (fun c' key =>
                    match con_get o c' key with
                    | Ok v =>
                        if is_null v then ((if is_null ov then Ok tt else Err ETestFailed), c')
                        else if is_null ov then (Err ETestFailed, c')
                        else if node_equal v ov then (Ok tt, con_put o c' key (deep v))
                        else (Err ETestFailed, c')
                    | Err EMissing => ((if is_null ov then Ok tt else Err ETestFailed), c')
                    | Err e => (Err e, c')
                    | Panic => (Panic, c')
                    end)).
      + destruct (find o c (x :: path) _) as [[| |[a| |]] c2]; reflexivity.
      + intros cp k. rewrite (con_get_erase o). destruct (con_get o cp k) as [v|e|]; try reflexivity.
        * destruct (is_null v); [reflexivity|]. destruct (is_null ov); [reflexivity|].
          destruct (node_equal v ov); [|reflexivity]. cbn [fst snd]. rewrite (con_put_erase o). reflexivity.
        * destruct e; reflexivity.
  Qed.

  Lemma op_copy_erase st op : op_copy o' (erase_st st) op = map_res erase_st (op_copy o st op).
  Proof.
    unfold op_copy. destruct (op_str op (B "from")) as [from| |]; try reflexivity.
    root_cases st; [|reflexivity].
    rewrite (find_erase o (fun r : res node => r) c from (fun c' key => (con_get o c' key, c')))
      by (intros cp k; rewrite (con_get_erase o); reflexivity).
    destruct (find o c from _) as [[| |[v0| |]] c1]; try reflexivity. cbn [map_found fst snd].
    destruct (op_str op (B "path")) as [path| |]; try reflexivity.
    rewrite (find_erase o (fun u : unit => u) c1 path (fun c' key => (tt, c'))) by reflexivity.
    destruct (find o c1 path _) as [[| |u] c2]; try reflexivity. cbn [map_found fst snd].
    assert (Src : match from with
                  | [] => Ok (node_of_con (erase_con c2))
                  | _ :: _ => match find o' (erase_con c2) from (fun c' key => (con_get o' c' key, c')) with
                              | (FoundAt r, _) => r | _ => Err EMissing end
                  end =
                  match from with
                  | [] => Ok (node_of_con c2)
                  | _ :: _ => match find o c2 from (fun c' key => (con_get o c' key, c')) with
                              | (FoundAt r, _) => r | _ => Err EMissing end
                  end).
    { destruct from; [now rewrite node_of_con_erase|].
      rewrite (find_erase o (fun r : res node => r) c2 (b :: from) (fun c' key => (con_get o c' key, c')))
        by (intros cp k; rewrite (con_get_erase o); reflexivity).
      destruct (find o c2 (b :: from) _) as [[| |r] c3]; reflexivity. }
    rewrite Src. clear Src.
    match goal with |- match ?x with _ => _ end = _ => destruct x as [v| |] end; try reflexivity.
    change (copy_too_deep o' v) with (copy_too_deep (set_stale o []) v). rewrite (copy_too_deep_stale o [] v).
    destruct (copy_too_deep o v); [reflexivity|].
    change (deep_copy o' v) with (deep_copy o v). destruct (deep_copy o v) as [cp sz].
    change (o_limit o') with (o_limit o).
    destruct ((0 <? o_limit o)%Z && (o_limit o <? acc + sz)%Z); [reflexivity|].
    rewrite (find_erase o (map_res erase_con) c2 path
               (fun c' key => (con_add o c' key cp, match con_add o c' key cp with Ok c'' => c'' | _ => c' end))).
    - destruct (find o c2 path _) as [[| |[a| |]] c3]; reflexivity.
    - intros cq k. rewrite (con_add_erase o). destruct (con_add o cq k cp); reflexivity.
  Qed.

  Theorem step_erase st op : step o' (erase_st st) op = map_res erase_st (step o st op).
  Proof.
    unfold step. destruct (op_kind op);
      auto using op_add_erase, op_remove_erase, op_replace_erase, op_move_erase, op_test_erase, op_copy_erase.
  Qed.
End EraseStep.

(* ---- whole calls ---- *)
Definition map_applied (f : state -> state) (a : applied) : applied :=
  match a with AOk st => AOk (f st) | AErr i e => AErr i e | APanic i => APanic i end.

Lemma apply_from_erase o : forall p i st,
  apply_from (set_stale o []) i (erase_st st) p = map_applied erase_st (apply_from o i st p).
Proof.
  induction p as [|op p IH]; intros i st; cbn [apply_from]; [reflexivity|].
  rewrite step_erase. destruct (step o st op); cbn [map_res]; [apply IH | reflexivity | reflexivity].
Qed.

Lemma marshal_root_erase o r : marshal_root (set_stale o []) (erase_root r) = marshal_root o r.
Proof. destruct r as [[| |]|]; reflexivity. Qed.

Lemma load_doc_erase o t : load_doc (set_stale o []) t = map_res erase_root (load_doc o t).
Proof. destruct t; try reflexivity; try (cbn [load_doc]; destruct (doc_of ms); reflexivity). Qed.

Theorem apply_tree_erase o indent p doc : apply_tree (set_stale o []) indent p doc = apply_tree o indent p doc.
Proof.
  unfold apply_tree. rewrite load_doc_erase. destruct (load_doc o doc) as [r| |]; cbn [map_res]; try reflexivity.
  change (mkState (erase_root r) 0) with (erase_st (mkState r 0)). rewrite apply_from_erase.
  destruct (apply_from o 0 (mkState r 0) p) as [st| |]; cbn [map_applied]; try reflexivity.
  unfold erase_st. cbn [s_root]. rewrite marshal_root_erase. reflexivity.
Qed.

(* the result of Apply does not depend on what the recycled decoder state held *)
Theorem apply_residue_independent o s1 s2 indent p doc :
  api_apply (set_stale o s1) indent p doc = api_apply (set_stale o s2) indent p doc.
Proof.
  unfold api_apply. destruct doc; [reflexivity|]. destruct (parse (b :: doc)); [|reflexivity].
  rewrite <- (apply_tree_erase (set_stale o s1)), <- (apply_tree_erase (set_stale o s2)). reflexivity.
Qed.

Local Open Scope list_scope.
(* ---- calls, histories, schedules ---- *)
(* every exported function as a call; the scratch state a call finds in the pool is the residue *)
Inductive call :=
| CApply (o : opts) (indent patch doc : bytes)
| CEqual (a b : bytes)
| CDecode (a : bytes).

Inductive outcome :=
| OApply (r : option apply_result)   (* None: DecodePatch rejected the patch *)
| OBool (b : bool)
| ODecoded (ok : bool) (n : nat).

Definition run_call (residue : list bytes) (c : call) : outcome :=
  match c with
  | CApply o indent patch doc =>
      OApply (match api_decode patch with
              | Some p => Some (api_apply (set_stale o residue) indent p doc)
              | None => None
              end)
  | CEqual a b => OBool (api_equal a b)
  | CDecode a => match api_decode a with Some p => ODecoded true (length p) | None => ODecoded false 0 end
  end.

Definition solo (c : call) : outcome := run_call [] c.

Theorem call_residue_independent r c : run_call r c = solo c.
Proof.
  destruct c; try reflexivity. unfold solo, run_call. destruct (api_decode patch); [|reflexivity].
  f_equal. f_equal. apply apply_residue_independent.
Qed.

(* what a call leaves in the scratch object it used: anything at all (here: some function of the
   residue it found and of its arguments) *)
Section Histories.
  Variable leaves : list bytes -> call -> list bytes.

  (* a history: calls run one after another on one recycled scratch object *)
  Fixpoint run_history (residue : list bytes) (h : list call) : list outcome :=
    match h with
    | [] => []
    | c :: r => run_call residue c :: run_history (leaves residue c) r
    end.

  Theorem history_independent : forall h residue, run_history residue h = map solo h.
  Proof.
    induction h as [|c h IH]; intro residue; cbn [run_history map]; [reflexivity|].
    rewrite call_residue_independent, IH. reflexivity.
  Qed.

  (* schedules: N threads, each with its own program; a step lets any thread with work left take
     ANY scratch object from the pool (or a fresh one), run its next call on it and put it back.
     The pool is a multiset of residues; a thread's results accumulate in order. *)
  Record thread := mkThread { todo : list call; done : list outcome }.
  Record sched := mkSched { pool : list (list bytes); threads : list thread }.

  Inductive sstep : sched -> sched -> Prop :=
  | SStep pl ths i th c rest residue (fresh : bool) j :
      nth_error ths i = Some th -> todo th = c :: rest ->
      (if fresh then residue = [] else nth_error pl j = Some residue) ->
      sstep (mkSched pl ths)
            (mkSched ((if fresh then pl else firstn j pl ++ skipn (S j) pl) ++ [leaves residue c])
                     (firstn i ths ++ mkThread rest (done th ++ [run_call residue c]) :: skipn (S i) ths)).

  Inductive reachable (s0 : sched) : sched -> Prop :=
  | RRefl : reachable s0 s0
  | RStep s s' : reachable s0 s -> sstep s s' -> reachable s0 s'.

  (* invariant: every thread has produced exactly the solo results of the calls it has run *)
  Definition thread_ok (prog : list call) (th : thread) : Prop :=
    exists ran, prog = ran ++ todo th /\ done th = map solo ran.

  Theorem schedule_independent progs s :
    reachable (mkSched [] (map (fun p => mkThread p []) progs)) s ->
    Forall2 thread_ok progs (threads s).
  Proof.
    induction 1 as [|s s' R IH St].
    - cbn [threads]. induction progs as [|p ps IHp]; constructor; auto. exists []. split; reflexivity.
    - inversion St as [pl ths i th c rest residue fresh j Hi Ht Hr]; subst. cbn [threads] in *.
      clear St R. revert i Hi. induction IH as [|p th0 ps ths0 H0 Hrest IHf]; intros i Hi.
      + destruct i; discriminate.
      + destruct i as [|i]; cbn [nth_error firstn skipn app] in *.
        * inversion Hi; subst th0. constructor; [|exact Hrest].
          destruct H0 as [ran [E1 E2]]. exists (ran ++ [c]). cbn [todo done]. split.
          -- rewrite E1, Ht, <- app_assoc. reflexivity.
          -- rewrite map_app, E2, call_residue_independent. reflexivity.
        * constructor; [exact H0|]. apply IHf. exact Hi.
  Qed.

  (* when every program has run to the end, each thread holds exactly its solo results *)
  Lemma finished_results progs ths :
    Forall2 thread_ok progs ths -> Forall (fun th => todo th = []) ths -> map done ths = map (map solo) progs.
  Proof.
    induction 1 as [|p th ps ths' H0 Hrest IH]; intro F; [reflexivity|].
    inversion F as [|? ? Ht Fr]; subst. cbn [map]. f_equal; [|apply IH; exact Fr].
    destruct H0 as [ran [E1 E2]]. rewrite Ht, app_nil_r in E1. subst. exact E2.
  Qed.

  Corollary schedule_results progs s :
    reachable (mkSched [] (map (fun p => mkThread p []) progs)) s ->
    Forall (fun th => todo th = []) (threads s) ->
    map done (threads s) = map (map solo) progs.
  Proof. intros R F. apply finished_results; auto. apply schedule_independent; exact R. Qed.
End Histories.

(* ---- the discipline on the facts extracted from the Go source ---- *)
Open Scope string_scope.
Definition known_pools : list string := ["ds"; "encodeStatePool"; "scannerPool"].
Definition known_caches : list string := ["encoderCache"; "fieldCache"].   (* per-type encoder caches *)
Definition str_in (s : string) (l : list string) : bool := existsb (String.eqb s) l.

Definition gvar_ok (g : gvar) : bool :=
  negb (gv_written g) &&
  match gv_kind g with
  | VPool => str_in (gv_name g) known_pools
  | VSyncMap => str_in (gv_name g) known_caches
  | VMap => false
  | VOther => true
  end.

Definition poolfact_ok (p : poolfact) : bool :=
  negb (pf_use_after_put p) && negb (pf_escapes p) && negb (pf_no_put p).

(* the state that outlives a call is exactly the state this file accounts for: the recycled
   structs have these fields and no others (a new field in a pooled object is new residue that the
   erasure argument above knows nothing about) *)
Definition expected_poolfields : list (string * string) :=
  [("decodeState", "data"); ("decodeState", "disallowUnknownFields"); ("decodeState", "errorContext");
   ("decodeState", "lastKeys"); ("decodeState", "off"); ("decodeState", "opcode"); ("decodeState", "savedError");
   ("decodeState", "scan"); ("decodeState", "useNumber");
   ("encodeState", "bytes.Buffer"); ("encodeState", "ptrLevel"); ("encodeState", "ptrSeen"); ("encodeState", "scratch");
   ("scanner", "bytes"); ("scanner", "endTop"); ("scanner", "err"); ("scanner", "parseState"); ("scanner", "step")].

Fixpoint fields_eqb (a b : list (string * string)) : bool :=
  match a, b with
  | [], [] => true
  | (x1, y1) :: a', (x2, y2) :: b' => String.eqb x1 x2 && String.eqb y1 y2 && fields_eqb a' b'
  | _, _ => false
  end.

(* the synchronisation skeleton: which functions mention which synchronisation vocabulary, how often.
   The only places are the two lazily filled caches of the codec (the per-type encoder cache with its
   wait group, the per-type field cache); a change here changes what concurrent first uses may observe
   (C10) and has to be looked at before the discipline is accepted again *)
Definition expected_syncfacts : list (string * string * nat) :=
  [("json:cachedTypeFields", ".Load", 1); ("json:cachedTypeFields", ".LoadOrStore", 1);
   ("json:typeEncoder", ".Add", 1); ("json:typeEncoder", ".Done", 1); ("json:typeEncoder", ".Load", 1);
   ("json:typeEncoder", ".LoadOrStore", 1); ("json:typeEncoder", ".Store", 1); ("json:typeEncoder", ".Wait", 1);
   ("json:typeEncoder", "sync.WaitGroup", 1)]%nat.

Fixpoint sync_eqb (a b : list (string * string * nat)) : bool :=
  match a, b with
  | [], [] => true
  | (x1, y1, n1) :: a', (x2, y2, n2) :: b' => String.eqb x1 x2 && String.eqb y1 y2 && Nat.eqb n1 n2 && sync_eqb a' b'
  | _, _ => false
  end.

Definition discipline_ok : bool :=
  forallb gvar_ok gvars && forallb poolfact_ok poolfacts &&
  match pwrites with [] => true | _ => false end && match gostmts with [] => true | _ => false end &&
  fields_eqb poolfields expected_poolfields && sync_eqb syncfacts expected_syncfacts.
