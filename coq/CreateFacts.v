(* CreateFacts.v — the model of CreateMergePatch (ImplMerge.v: encode_sorted, create_object,
   api_create) against the reference difference function diff (Rfc7396.v).
   1. encode_sorted (Go's encoding of a map[string]interface{}: members sorted by name, strings
      quoted with HTML escaping, numbers by their literal) decodes back to the value it encodes,
      up to member order, whenever strings and member names are valid UTF-8.
   2. api_create is print (encode_sorted (diff ..)) on objects; element-wise on arrays of equal
      length; the error cases.
   3. the laws of diff (MergeFacts.v) transported to the model's output tree. *)
From Coq Require Import Lia.
From JP Require Import Bytes Json Text Strings Den ImplV5 ImplMerge Rfc7396 DecodeFacts JsonFacts MergeFacts
  Abs Codec V4MergeFacts.

(* ---- strings and member names are valid UTF-8, hereditarily ---- *)
Fixpoint outf8 (j : ojson) : Prop :=
  match j with
  | OStr s => utf8 s
  | OArr l => (fix all (l : list ojson) : Prop := match l with [] => True | x :: r => outf8 x /\ all r end) l
  | OObj ms => (fix all (m : list (bytes * ojson)) : Prop :=
                  match m with [] => True | kv :: r => (utf8 (fst kv) /\ outf8 (snd kv)) /\ all r end) ms
  | _ => True
  end.

Lemma outf8_arr l : outf8 (OArr l) <-> Forall outf8 l.
Proof.
  cbn [outf8]. split; intro H.
  - induction l as [|x l IH]; constructor; destruct H; auto.
  - induction l as [|x l IH]; [exact I|]. inversion H as [|? ? Ha Hb]; subst. split; [exact Ha | apply IH; exact Hb].
Qed.

Lemma outf8_obj ms : outf8 (OObj ms) <-> Forall (fun kv => utf8 (fst kv) /\ outf8 (snd kv)) ms.
Proof.
  cbn [outf8]. split; intro H.
  - induction ms as [|x l IH]; constructor; destruct H; auto.
  - induction ms as [|x l IH]; [exact I|]. inversion H as [|? ? Ha Hb]; subst. split; [exact Ha | apply IH; exact Hb].
Qed.
Arguments outf8 : simpl never.

Lemma outf8_null : outf8 ONull. Proof. exact I. Qed.

Lemma outf8_members j : outf8 j -> Forall (fun kv => utf8 (fst kv) /\ outf8 (snd kv)) (members_of j).
Proof. destruct j; intro H; try constructor. apply outf8_obj. exact H. Qed.

(* decoding a text whose string bodies are well formed gives valid UTF-8 everywhere *)
Lemma resolve_dups_P {A} (P : bytes * A -> Prop) (m : list (bytes * A)) :
  (forall k v w, P (k, v) -> In w (map snd m) -> P (k, w)) ->
  Forall P m -> Forall P (resolve_dups m).
Proof.
  intros Hk F. unfold resolve_dups. apply Forall_forall. intros kv Hin.
  apply in_map_iff in Hin as [[k v] [<- Hin]]. cbn [fst snd].
  rewrite Forall_forall in F.
  assert (G : forall l d, (forall x, In x l -> In x m) -> P (k, d) -> P (k, alast k l d)).
  { induction l as [|[k' v'] l IH]; intros d Hl Hd; cbn [alast]; [exact Hd|].
    apply IH; [intros x Hx; apply Hl; now right|].
    destruct (bseq k k'); [|exact Hd].
    apply (Hk k d v' Hd). apply in_map_iff. exists (k', v'). split; [reflexivity | apply Hl; now left]. }
  apply G; [auto | apply (F _ Hin)].
Qed.

Theorem tsb_outf8 t : tsb t -> outf8 (den t).
Proof.
  induction t using tjson_rect'; intro S; try exact I.
  - cbn [den]. apply (unquote_utf8 (length s)); [lia | exact S].
  - cbn [den]. apply outf8_arr. rewrite Forall_map. apply tsb_arr in S.
    rewrite Forall_forall in *. intros x Hx. apply (H x Hx). apply (S x Hx).
  - cbn [den]. apply outf8_obj. apply tsb_obj in S. apply resolve_dups_P.
    + intros k v w [H1 _] Hin. cbn [fst snd] in *. split; [exact H1|].
      rewrite map_map in Hin. cbn [snd] in Hin. apply in_map_iff in Hin as [kv [<- Hin]].
      rewrite Forall_forall in H, S. apply (H kv Hin). apply (S kv Hin).
    + rewrite Forall_map. cbn [fst snd]. rewrite Forall_forall in *. intros kv Hin.
      destruct (S kv Hin) as [S1 S2]. split; [apply (unquote_utf8 (length (fst kv))); [lia | exact S1] | apply (H kv Hin); exact S2].
Qed.

(* ---- diff and merge_patch keep the invariants ---- *)
Lemma diff_members_P (P : bytes * ojson -> Prop) ams bms :
  (forall k bv, In (k, bv) bms -> P (k, bv)) ->
  (forall k av bv, In (k, bv) bms -> aget k ams = Some av -> is_obj av = true -> is_obj bv = true -> P (k, diff av bv)) ->
  Forall P (diff_members ams bms).
Proof.
  induction bms as [|[k bv] bms IH]; intros H1 H2; cbn [diff_members]; [constructor|].
  assert (R : Forall P (diff_members ams bms)).
  { apply IH; [intros; apply H1; now right | intros; eapply H2; eauto; now right]. }
  assert (B : P (k, bv)) by (apply H1; now left).
  destruct (aget k ams) as [av|] eqn:Ea; [|constructor; auto].
  destruct av, bv; try (destruct (jeq _ _); [exact R | constructor; auto]).
  pose proof (H2 k (OObj ms) (OObj ms0) (or_introl eq_refl) Ea eq_refl eq_refl) as D.
  destruct (diff (OObj ms) (OObj ms0)) as [| | | | |[|e dm]]; try (constructor; auto). exact R.
Qed.

Lemma diff_dels_P (P : bytes * ojson -> Prop) ams bms :
  (forall k av, In (k, av) ams -> P (k, ONull)) -> Forall P (diff_dels ams bms).
Proof.
  intro H. unfold diff_dels. rewrite Forall_map. apply Forall_forall. intros [k av] Hin.
  apply filter_In in Hin as [Hin _]. cbn [fst]. eapply H; eauto.
Qed.

Theorem diff_nodup b : forall a, onodup a = true -> onodup b = true -> onodup (diff a b) = true.
Proof.
  induction b using ojson_rect'; intros a Na Nb;
    try (rewrite diff_nonobj by (destruct a; reflexivity); exact Nb).
  destruct (is_obj a) eqn:Oa; [|rewrite diff_nonobj by (rewrite Oa; reflexivity); exact Nb].
  apply is_obj_true in Oa as [ams ->]. rename ms into bms. rewrite diff_obj.
  apply onodup_obj in Na as [Na1 Na2]. apply onodup_obj in Nb as [Nb1 Nb2]. apply onodup_obj.
  split; [apply diff_patch_nodup; auto|].
  rewrite Forall_forall in H, Na2, Nb2. apply Forall_app. split.
  - apply diff_members_P.
    + intros k bv Hin. apply (Nb2 _ Hin).
    + intros k av bv Hin Ea _ _. cbn [snd]. apply (H _ Hin).
      * apply aget_In in Ea. apply (Na2 _ Ea).
      * apply (Nb2 _ Hin).
  - apply diff_dels_P. intros; reflexivity.
Qed.

Theorem diff_outf8 b : forall a, outf8 a -> outf8 b -> outf8 (diff a b).
Proof.
  induction b using ojson_rect'; intros a Ua Ub;
    try (rewrite diff_nonobj by (destruct a; reflexivity); exact Ub).
  destruct (is_obj a) eqn:Oa; [|rewrite diff_nonobj by (rewrite Oa; reflexivity); exact Ub].
  apply is_obj_true in Oa as [ams ->]. rename ms into bms. rewrite diff_obj.
  apply outf8_obj in Ua. apply outf8_obj in Ub. apply outf8_obj.
  rewrite Forall_forall in H, Ua, Ub. apply Forall_app. split.
  - apply diff_members_P.
    + intros k bv Hin. apply (Ub _ Hin).
    + intros k av bv Hin Ea _ _. cbn [fst snd]. split; [apply (Ub _ Hin)|]. apply (H _ Hin).
      * apply aget_In in Ea. apply (Ua _ Ea).
      * apply (Ub _ Hin).
  - apply diff_dels_P. intros k av Hin. split; [apply (Ua _ Hin) | exact I].
Qed.

Lemma merge_members_P (P : bytes * ojson -> Prop) pms : forall tms,
  Forall P tms ->
  (forall k v t, In (k, v) pms -> v <> ONull -> (t = ONull \/ P (k, t)) -> P (k, merge_patch t v)) ->
  Forall P (merge_members pms tms).
Proof.
  induction pms as [|[k v] pms IH]; intros tms F H; cbn [merge_members]; [exact F|].
  assert (IH' : forall tms', Forall P tms' -> Forall P (merge_members pms tms')).
  { intros tms' F'. apply IH; [exact F' | intros; eapply H; eauto; now right]. }
  assert (S1 : v <> ONull -> Forall P (aset k (merge_patch (MergeFacts.or_null (aget k tms)) v) tms)).
  { intro NN. apply Forall_aset_key; [exact F|]. apply H; [now left | exact NN |].
    destruct (aget k tms) as [c|] eqn:E; [right | left; reflexivity].
    apply aget_In in E. rewrite Forall_forall in F. apply (F _ E). }
  destruct v; try (apply IH'; apply S1; discriminate).
  apply IH'. apply Forall_adel. exact F.
Qed.

Theorem merge_patch_outf8 p : forall t, outf8 t -> outf8 p -> outf8 (merge_patch t p).
Proof.
  induction p using ojson_rect'; intros t Ut Up; try exact Up.
  rewrite merge_patch_obj. apply outf8_obj. apply outf8_obj in Up.
  rewrite Forall_forall in H, Up. apply merge_members_P.
  - apply outf8_members. exact Ut.
  - intros k v t' Hin _ Ht. destruct (Up _ Hin) as [U1 U2]. cbn [fst snd] in *. split; [exact U1|].
    apply (H _ Hin); [|exact U2]. destruct Ht as [->|[_ Ht]]; [exact I | exact Ht].
Qed.

(* ---- 1. encode_sorted decodes back to the value, members reordered ---- *)
Lemma encode_sorted_obj ms :
  encode_sorted (OObj ms) =
  TObj (map (fun kv => (quote true (fst kv), snd kv)) (sort4 (map (fun kv => (fst kv, encode_sorted (snd kv))) ms))).
Proof. reflexivity. Qed.

Lemma encode_sorted_arr l : encode_sorted (OArr l) = TArr (map encode_sorted l).
Proof. reflexivity. Qed.

Lemma encode_sorted_num lit : encode_sorted (ONum lit) = TNum lit.
Proof. reflexivity. Qed.

Lemma encode_sorted_str s : encode_sorted (OStr s) = TStr (quote true s).
Proof. reflexivity. Qed.

Lemma jeq_list_map_refl (f : ojson -> ojson) l :
  Forall (fun x => jeq (f x) x = true) l -> jeq_list (map f l) l = true.
Proof. induction 1 as [|x l Hx _ IH]; simpl; auto. rewrite Hx. exact IH. Qed.

(* the decoded members of the encoding of an object: the sorted list, names decoded back *)
Lemma encode_sorted_obj_den ms :
  NoDup (map fst ms) -> Forall (fun kv => utf8 (fst kv)) ms ->
  exists D, den (encode_sorted (OObj ms)) = OObj D /\ NoDup (map fst D) /\
            forall k, aget k D = option_map (fun v => den (encode_sorted v)) (aget k ms).
Proof.
  intros N K. rewrite encode_sorted_obj.
  set (R := map (fun kv => (fst kv, encode_sorted (snd kv))) ms).
  assert (NR : NoDup (map fst R)) by (unfold R; rewrite map_map; exact N).
  destruct (sort4_spec R NR) as [S1 S2].
  assert (Kin : forall kv, In kv (sort4 R) -> In (fst kv) (map fst ms)).
  { intros [k v] Hin. cbn [fst]. apply (In_aget_nodup k v _ S1) in Hin. rewrite S2 in Hin.
    apply aget_In_fst in Hin. unfold R in Hin. rewrite map_map in Hin. exact Hin. }
  assert (Ku : forall k, In k (map fst ms) -> utf8 k).
  { intros k Hin. apply in_map_iff in Hin as [kv [<- Hin]]. rewrite Forall_forall in K. apply (K _ Hin). }
  exists (map (fun kv => (fst kv, den (snd kv))) (sort4 R)).
  set (D := map (fun kv => (fst kv, den (snd kv))) (sort4 R)).
  assert (ND : NoDup (map fst D)) by (unfold D; rewrite map_map; exact S1).
  split; [|split; [exact ND|]].
  - cbn [den]. rewrite map_map. cbn [fst snd].
    assert (E : map (fun x => (unquote (quote true (fst x)), den (snd x))) (sort4 R) = D).
    { unfold D. apply map_ext_in. intros kv Hin. f_equal. apply unquote_quote. apply Ku. apply Kin. exact Hin. }
    rewrite E. rewrite resolve_dups_nodup; [reflexivity | exact ND].
  - intro k. unfold D. rewrite aget_map_snd, S2. unfold R. rewrite aget_map_snd.
    destruct (aget k ms); reflexivity.
Qed.

Theorem encode_sorted_den j : onodup j = true -> outf8 j ->
  onodup (den (encode_sorted j)) = true /\ jeq (den (encode_sorted j)) j = true.
Proof.
  induction j using ojson_rect'; intros N U.
  - split; reflexivity.
  - destruct b; split; reflexivity.
  - split; [reflexivity|]. cbn [encode_sorted den]. unfold jeq. apply bseq_refl.
  - cbn [encode_sorted den]. rewrite unquote_quote by exact U. split; [reflexivity|]. unfold jeq. apply bseq_refl.
  - apply onodup_arr in N. apply outf8_arr in U. rewrite Forall_forall in H, N, U.
    rewrite encode_sorted_arr. cbn [den]. rewrite map_map. split.
    + apply onodup_arr. rewrite Forall_map. apply Forall_forall. intros x Hin. apply (H x Hin); auto.
    + rewrite jeq_arr. apply (jeq_list_map_refl (fun x => den (encode_sorted x))).
      apply Forall_forall. intros x Hin. apply (H x Hin); auto.
  - apply onodup_obj in N as [N1 N2]. apply outf8_obj in U. rewrite Forall_forall in H, N2, U.
    destruct (encode_sorted_obj_den ms N1) as [D [ED [ND GD]]].
    { apply Forall_forall. intros kv Hin. apply (U _ Hin). }
    rewrite ED. split.
    + apply onodup_obj. split; [exact ND|]. apply Forall_forall. intros [k x] Hin. cbn [snd].
      apply (In_aget_nodup k x D ND) in Hin. rewrite GD in Hin.
      destruct (aget k ms) as [v|] eqn:G; [|discriminate]. inversion Hin; subst.
      apply aget_In in G. apply (H _ G); [apply (N2 _ G) | apply (U _ G)].
    + apply jeq_obj_char; [exact ND | exact N1|].
      intro k. rewrite GD. unfold lookup_rel.
      destruct (aget k ms) as [v|] eqn:G; cbn [option_map]; [|exact I].
      apply aget_In in G. apply (H _ G); [apply (N2 _ G) | apply (U _ G)].
Qed.

(* the encoding is the empty object only for the empty object *)
Lemma insert_sorted_nonempty {A} (kv : bytes * A) l : insert_sorted kv l <> [].
Proof.
  destruct l as [|kv' r]; cbn [insert_sorted]; [discriminate|].
  destruct (bytes_ltb (fst kv) (fst kv')); [discriminate|]. destruct (bseq (fst kv) (fst kv')); discriminate.
Qed.

Lemma sort4_go_nonempty {A} (l : list (bytes * A)) : forall acc,
  acc <> [] -> fold_left (fun a kv => insert_sorted kv a) l acc <> [].
Proof.
  induction l as [|kv l IH]; intros acc H; cbn [fold_left]; [exact H|]. apply IH. apply insert_sorted_nonempty.
Qed.

Lemma sort4_nil_iff {A} (l : list (bytes * A)) : sort4 l = [] <-> l = [].
Proof.
  split; [|intros ->; reflexivity]. destruct l as [|kv l]; [reflexivity|].
  unfold sort4. cbn [fold_left]. intro E. exfalso. revert E. apply sort4_go_nonempty. apply insert_sorted_nonempty.
Qed.

Lemma encode_sorted_empty_iff j : encode_sorted j = TObj [] <-> j = OObj [].
Proof.
  split; [|intros ->; reflexivity].
  destruct j as [| [|] | | | |ms]; try discriminate. rewrite encode_sorted_obj. intro E.
  inversion E as [E']. apply map_eq_nil in E'. apply (proj1 (sort4_nil_iff _)) in E'. apply map_eq_nil in E'. now subst.
Qed.

(* ---- 2. api_create ---- *)
(* the value CreateMergePatch works on: an object's decoded map; null is read as the empty map *)
Definition as_obj (t : tjson) : option ojson :=
  match t with
  | TObj _ => Some (den t)
  | TNull => Some (OObj [])
  | _ => None
  end.

Lemma create_object_spec x y :
  create_object x y =
  match as_obj x, as_obj y with
  | Some oa, Some ob => Some (encode_sorted (diff oa ob))
  | _, _ => None
  end.
Proof. reflexivity. Qed.

(* element-wise patches of two arrays (as far as both have elements) *)
Fixpoint create_elems (la lb : list tjson) : option (list tjson) :=
  match la, lb with
  | x :: ra, y :: rb =>
      match create_object x y with
      | Some p => match create_elems ra rb with Some ps => Some (p :: ps) | None => None end
      | None => None
      end
  | _, _ => Some []
  end.

Fixpoint create_go (la lb : list tjson) (acc : list tjson) : mres :=
  match la, lb with
  | x :: ra, y :: rb =>
      match create_object x y with
      | Some p => create_go ra rb (acc ++ [p])
      | None => MErr MBadDoc
      end
  | _, _ => MOut (print true (TArr acc))
  end.

Lemma create_go_spec la : forall lb acc,
  create_go la lb acc =
  match create_elems la lb with
  | Some ps => MOut (print true (TArr (acc ++ ps)))
  | None => MErr MBadDoc
  end.
Proof.
  induction la as [|x la IH]; intros lb acc; cbn [create_go create_elems].
  - rewrite app_nil_r. reflexivity.
  - destruct lb as [|y lb]; [rewrite app_nil_r; reflexivity|].
    destruct (create_object x y) as [p|]; [|reflexivity].
    rewrite IH. destruct (create_elems la lb) as [ps|]; [|reflexivity].
    rewrite <- app_assoc. reflexivity.
Qed.

Lemma api_create_unfold a b :
  api_create a b =
  match parse a, parse b with
  | Some ta, Some tb =>
      match ta, tb with
      | TArr la, TArr lb => if (length la =? length lb)%nat then create_go la lb [] else MErr MBadDoc
      | TArr _, _ | _, TArr _ => MErr MBadTypes
      | _, _ =>
          match create_object ta tb with
          | Some p => MOut (print true p)
          | None => MErr MBadDoc
          end
      end
  | _, _ => MErr MBadDoc
  end.
Proof.
  unfold api_create. destruct (parse a) as [ta|]; [|reflexivity]. destruct (parse b) as [tb|]; [|reflexivity].
  destruct ta; try reflexivity; destruct tb; reflexivity.
Qed.

(* two objects: the printed, sorted encoding of the reference difference of the decoded maps *)
Theorem api_create_obj a b ams bms :
  parse a = Some (TObj ams) -> parse b = Some (TObj bms) ->
  api_create a b = MOut (print true (encode_sorted (diff (den (TObj ams)) (den (TObj bms))))).
Proof. intros Ha Hb. rewrite api_create_unfold, Ha, Hb. reflexivity. Qed.

(* null is read as the empty object (Go: unmarshalling null leaves the map nil) *)
Theorem api_create_null_left a b bms :
  parse a = Some TNull -> parse b = Some (TObj bms) ->
  api_create a b = MOut (print true (encode_sorted (diff (OObj []) (den (TObj bms))))).
Proof. intros Ha Hb. rewrite api_create_unfold, Ha, Hb. reflexivity. Qed.

Theorem api_create_null_right a b ams :
  parse a = Some (TObj ams) -> parse b = Some TNull ->
  api_create a b = MOut (print true (encode_sorted (diff (den (TObj ams)) (OObj [])))).
Proof. intros Ha Hb. rewrite api_create_unfold, Ha, Hb. reflexivity. Qed.

Theorem api_create_null_null a b :
  parse a = Some TNull -> parse b = Some TNull -> api_create a b = MOut (B "{}").
Proof. intros Ha Hb. rewrite api_create_unfold, Ha, Hb. reflexivity. Qed.

(* roots that are objects or null on both sides, in general *)
Theorem api_create_objlike a b ta tb oa ob :
  parse a = Some ta -> parse b = Some tb -> as_obj ta = Some oa -> as_obj tb = Some ob ->
  api_create a b = MOut (print true (encode_sorted (diff oa ob))).
Proof.
  intros Ha Hb Oa Ob. rewrite api_create_unfold, Ha, Hb.
  destruct ta; try discriminate; destruct tb; try discriminate;
    cbn [as_obj] in Oa, Ob; inversion Oa; inversion Ob; subst; reflexivity.
Qed.

(* two arrays: equal lengths are required; then element by element, every element an object (or
   null); the first element pair that is not makes the call fail *)
Theorem api_create_arr a b la lb :
  parse a = Some (TArr la) -> parse b = Some (TArr lb) ->
  api_create a b =
  if (length la =? length lb)%nat then
    match create_elems la lb with
    | Some ps => MOut (print true (TArr ps))
    | None => MErr MBadDoc
    end
  else MErr MBadDoc.
Proof.
  intros Ha Hb. rewrite api_create_unfold, Ha, Hb. rewrite create_go_spec. reflexivity.
Qed.

Lemma create_elems_objs la : forall lb oas obs,
  map as_obj la = map Some oas -> map as_obj lb = map Some obs -> length la = length lb ->
  create_elems la lb = Some (map (fun ab => encode_sorted (diff (fst ab) (snd ab))) (combine oas obs)).
Proof.
  induction la as [|x la IH]; intros lb oas obs Ea Eb L.
  - destruct oas; [reflexivity | discriminate].
  - destruct lb as [|y lb]; [discriminate|]. destruct oas as [|oa oas]; [discriminate|].
    destruct obs as [|ob obs]; [discriminate|]. cbn [map] in Ea, Eb. inversion Ea as [[E1 E2]]. inversion Eb as [[E3 E4]].
    cbn [create_elems]. rewrite create_object_spec, E1, E3. rewrite (IH lb oas obs E2 E4) by (simpl in L; lia).
    reflexivity.
Qed.

Theorem api_create_arr_objs a b la lb oas obs :
  parse a = Some (TArr la) -> parse b = Some (TArr lb) ->
  map as_obj la = map Some oas -> map as_obj lb = map Some obs -> length la = length lb ->
  api_create a b =
  MOut (print true (TArr (map (fun ab => encode_sorted (diff (fst ab) (snd ab))) (combine oas obs)))).
Proof.
  intros Ha Hb Ea Eb L. rewrite (api_create_arr a b la lb Ha Hb).
  rewrite (proj2 (Nat.eqb_eq _ _) L). rewrite (create_elems_objs la lb oas obs Ea Eb L). reflexivity.
Qed.

Theorem api_create_arr_length a b la lb :
  parse a = Some (TArr la) -> parse b = Some (TArr lb) -> length la <> length lb ->
  api_create a b = MErr MBadDoc.
Proof.
  intros Ha Hb L. rewrite (api_create_arr a b la lb Ha Hb).
  rewrite (proj2 (Nat.eqb_neq _ _) L). reflexivity.
Qed.

Lemma create_elems_bad la : forall lb,
  length la = length lb ->
  (exists i x y, nth_error la i = Some x /\ nth_error lb i = Some y /\ (as_obj x = None \/ as_obj y = None)) ->
  create_elems la lb = None.
Proof.
  induction la as [|x la IH]; intros lb L [i [x' [y' [Hx [Hy Hbad]]]]].
  - destruct i; discriminate.
  - destruct lb as [|y lb]; [discriminate|]. cbn [create_elems]. rewrite create_object_spec.
    destruct i as [|i].
    + cbn [nth_error] in Hx, Hy. inversion Hx; inversion Hy; subst.
      destruct Hbad as [-> | E]; [reflexivity|]. rewrite E. destruct (as_obj x'); reflexivity.
    + destruct (as_obj x); [|reflexivity]. destruct (as_obj y); [|reflexivity].
      rewrite IH; [reflexivity | simpl in L; lia | exists i, x', y'; auto].
Qed.

Theorem api_create_arr_bad_elem a b la lb i x y :
  parse a = Some (TArr la) -> parse b = Some (TArr lb) ->
  nth_error la i = Some x -> nth_error lb i = Some y -> as_obj x = None \/ as_obj y = None ->
  api_create a b = MErr MBadDoc.
Proof.
  intros Ha Hb Hx Hy Hbad. rewrite (api_create_arr a b la lb Ha Hb).
  destruct (length la =? length lb)%nat eqn:L; [|reflexivity]. apply Nat.eqb_eq in L.
  rewrite create_elems_bad; [reflexivity | exact L | exists i, x, y; auto].
Qed.

(* the error cases *)
Definition is_tarr (t : tjson) : bool := match t with TArr _ => true | _ => false end.

Theorem api_create_unparsable a b : parse a = None \/ parse b = None -> api_create a b = MErr MBadDoc.
Proof.
  intros [H|H]; rewrite api_create_unfold, H; [reflexivity|]. destruct (parse a); reflexivity.
Qed.

Theorem api_create_mixed a b ta tb :
  parse a = Some ta -> parse b = Some tb -> is_tarr ta <> is_tarr tb -> api_create a b = MErr MBadTypes.
Proof.
  intros Ha Hb D. rewrite api_create_unfold, Ha, Hb.
  destruct ta, tb; try reflexivity; exfalso; apply D; reflexivity.
Qed.

Theorem api_create_nonobject a b ta tb :
  parse a = Some ta -> parse b = Some tb -> is_tarr ta = false -> is_tarr tb = false ->
  as_obj ta = None \/ as_obj tb = None -> api_create a b = MErr MBadDoc.
Proof.
  intros Ha Hb A1 A2 D. rewrite api_create_unfold, Ha, Hb.
  destruct ta; try discriminate; destruct tb; try discriminate; try reflexivity;
    destruct D as [D|D]; discriminate.
Qed.

(* ---- 3. merge_patch respects structural equality of patches ---- *)
Lemma jeq_null_l y : jeq ONull y = true -> y = ONull.
Proof. destruct y; try discriminate. reflexivity. Qed.
Lemma jeq_null_r x : jeq x ONull = true -> x = ONull.
Proof. destruct x; try discriminate. reflexivity. Qed.

Theorem merge_patch_jeq_patch p : forall p' d,
  onodup d = true -> onodup p = true -> onodup p' = true -> jeq p p' = true ->
  jeq (merge_patch d p) (merge_patch d p') = true.
Proof.
  induction p using ojson_rect'; intros p' d Nd Np Np' E; destruct p'; try discriminate E;
    try (rewrite !merge_patch_nonobj by (intros; discriminate); exact E).
  rename ms0 into ms'. rewrite !merge_patch_obj.
  pose proof (onodup_members d Nd) as [Nd1 Nd2]. set (dms := members_of d) in *.
  apply onodup_obj in Np as [N1 N2]. apply onodup_obj in Np' as [N1' N2'].
  rewrite jeq_obj_char in E by auto.
  apply jeq_obj_char; try (apply merge_members_nodup; exact Nd1).
  intro k. rewrite !merge_members_lookup by auto. specialize (E k). unfold lookup_rel in E.
  assert (Ndk : onodup (MergeFacts.or_null (aget k dms)) = true) by (apply (onodup_or_null None); auto).
  destruct (aget k ms) as [x|] eqn:Gx, (aget k ms') as [y|] eqn:Gy; try contradiction.
  - apply aget_In in Gx, Gy. rewrite Forall_forall in H, N2, N2'.
    pose proof (N2 _ Gx) as Nx. pose proof (N2' _ Gy) as Ny. cbn [snd] in Nx, Ny.
    destruct (null_dec x) as [->|NNx].
    + apply jeq_null_l in E. subst y. exact I.
    + assert (NNy : y <> ONull) by (intro; subst y; apply jeq_null_r in E; contradiction).
      rewrite !merge_lookup_nonnull by assumption. cbn [lookup_rel]. apply (H _ Gx); auto.
  - cbn [merge_lookup lookup_rel]. destruct (aget k dms) as [c|] eqn:Gc; [|exact I].
    apply jeq_refl. apply aget_In in Gc. rewrite Forall_forall in Nd2. apply (Nd2 _ Gc).
Qed.

(* ---- the model's output tree ---- *)
Section Output.
  Variables ta tb : tjson.
  Hypothesis Oa : is_obj (den ta) = true.
  Hypothesis Ob : is_obj (den tb) = true.
  Hypothesis Na : tnodup ta = true.
  Hypothesis Nb : tnodup tb = true.
  Hypothesis Sa : tsb ta.
  Hypothesis Sb : tsb tb.

  Let p := encode_sorted (diff (den ta) (den tb)).

  (* the tree that is printed decodes to the reference difference, members reordered *)
  Theorem create_output_den :
    onodup (den p) = true /\ jeq (den p) (diff (den ta) (den tb)) = true.
  Proof.
    apply encode_sorted_den.
    - apply diff_nodup; assumption.
    - apply diff_outf8; apply tsb_outf8; assumption.
  Qed.

  (* (a) applying the output to A per RFC 7396 gives B *)
  Theorem create_output_roundtrip :
    no_null_member (den tb) = true -> jeq (merge_patch (den ta) (den p)) (den tb) = true.
  Proof.
    intro NN. destruct create_output_den as [P1 P2].
    assert (ND : onodup (diff (den ta) (den tb)) = true) by (apply diff_nodup; assumption).
    apply (jeq_trans _ (merge_patch (den ta) (diff (den ta) (den tb)))).
    - apply merge_patch_nodup; assumption.
    - apply merge_patch_nodup; assumption.
    - exact Nb.
    - apply merge_patch_jeq_patch; assumption.
    - apply diff_roundtrip; assumption.
  Qed.

  (* (b) the output is {} exactly when A and B are equal *)
  Theorem create_output_empty_iff : p = TObj [] <-> jeq (den ta) (den tb) = true.
  Proof.
    unfold p. rewrite encode_sorted_empty_iff. apply diff_empty_iff; assumption.
  Qed.
End Output.

(* ---- (c) what the output tree holds under each (decoded) member name ---- *)
Definition tget (k : bytes) (pms : list (bytes * tjson)) : option tjson :=
  aget k (map (fun kv => (unquote (fst kv), snd kv)) pms).

Lemma encode_sorted_members ms :
  NoDup (map fst ms) -> Forall (fun kv => utf8 (fst kv)) ms ->
  exists pms, encode_sorted (OObj ms) = TObj pms /\
              forall k, tget k pms = option_map encode_sorted (aget k ms).
Proof.
  intros N K. rewrite encode_sorted_obj.
  set (R := map (fun kv => (fst kv, encode_sorted (snd kv))) ms).
  assert (NR : NoDup (map fst R)) by (unfold R; rewrite map_map; exact N).
  destruct (sort4_spec R NR) as [S1 S2].
  eexists. split; [reflexivity|]. intro k. unfold tget. rewrite map_map. cbn [fst snd].
  assert (E : map (fun x => (unquote (quote true (fst x)), snd x)) (sort4 R) = sort4 R).
  { rewrite <- (map_id (sort4 R)) at 2. apply map_ext_in. intros [k' v] Hin. cbn [fst snd]. f_equal.
    apply unquote_quote. apply (In_aget_nodup k' v _ S1) in Hin. rewrite S2 in Hin.
    apply aget_In_fst in Hin. unfold R in Hin. rewrite map_map in Hin. cbn [fst] in Hin.
    apply in_map_iff in Hin as [kv [<- Hin]]. rewrite Forall_forall in K. apply (K _ Hin). }
  rewrite E, S2. unfold R. apply aget_map_snd.
Qed.

Section OutputMembers.
  Variables (ams bms : list (bytes * tjson)).
  Hypothesis Na : tnodup (TObj ams) = true.
  Hypothesis Nb : tnodup (TObj bms) = true.
  Hypothesis Sa : tsb (TObj ams).
  Hypothesis Sb : tsb (TObj bms).

  Let A := members_of (den (TObj ams)).
  Let Bm := members_of (den (TObj bms)).

  Lemma den_obj_members ms : den (TObj ms) = OObj (members_of (den (TObj ms))).
  Proof. reflexivity. Qed.

  (* the output is an object; under the name k it holds the encoding of what diff holds under k *)
  Theorem create_output_members :
    exists pms, encode_sorted (diff (den (TObj ams)) (den (TObj bms))) = TObj pms /\
      forall k, tget k pms = option_map encode_sorted (aget k (members_of (diff (den (TObj ams)) (den (TObj bms))))).
  Proof.
    assert (ND : onodup (diff (den (TObj ams)) (den (TObj bms))) = true) by (apply diff_nodup; assumption).
    assert (UD : outf8 (diff (den (TObj ams)) (den (TObj bms)))) by (apply diff_outf8; apply tsb_outf8; assumption).
    rewrite (den_obj_members ams), (den_obj_members bms) in *.
    destruct (diff_is_obj (members_of (den (TObj ams))) (members_of (den (TObj bms)))) as [dm Ed].
    rewrite Ed in *. apply onodup_obj in ND as [ND _]. apply outf8_obj in UD.
    apply encode_sorted_members; [exact ND|]. eapply Forall_impl; [|exact UD]. intros kv [Hk _]. exact Hk.
  Qed.

  (* every member of the output: a null for a member of A that B lacks, or the encoding of B's
     own value (a number is B's literal, verbatim), or the output for two nested objects; and the
     member differs between A and B *)
  Theorem create_output_mentions pms k v :
    encode_sorted (diff (den (TObj ams)) (den (TObj bms))) = TObj pms -> tget k pms = Some v ->
    ~ lookup_rel (fun x y => jeq x y = true) (aget k A) (aget k Bm) /\
    (   (aget k Bm = None /\ v = TNull /\ aget k A <> None)
     \/ (exists bv, aget k Bm = Some bv /\ v = encode_sorted bv)
     \/ (exists av bv, aget k A = Some av /\ aget k Bm = Some bv /\ is_obj av = true /\ is_obj bv = true /\
                       v = encode_sorted (diff av bv))).
  Proof.
    intros Ep G. destruct create_output_members as [pms' [Ep' L]]. rewrite Ep in Ep'. inversion Ep'; subst pms'.
    rewrite L in G. clear L Ep Ep'.
    destruct (aget k (members_of (diff (den (TObj ams)) (den (TObj bms))))) as [w|] eqn:Gw; [|discriminate].
    cbn [option_map] in G. inversion G; subst v. clear G.
    rewrite (den_obj_members ams), (den_obj_members bms) in Gw. fold A Bm in Gw.
    pose proof Na as Na'. pose proof Nb as Nb'. unfold tnodup in Na', Nb'.
    rewrite (den_obj_members ams) in Na'. rewrite (den_obj_members bms) in Nb'. fold A in Na'. fold Bm in Nb'.
    apply onodup_obj in Na' as [Na1 Na2]. apply onodup_obj in Nb' as [Nb1 Nb2].
    destruct (diff_mentions A Bm k w Na1 Nb1 Na2 Nb2 Gw) as [D1 D2]. split; [exact D1|].
    destruct D2 as [[E1 [E2 E3]]|[E|[av [bv [E1 [E2 [E3 [E4 E5]]]]]]]].
    - left. subst w. auto.
    - right; left. eauto.
    - right; right. exists av, bv. subst w. auto.
  Qed.

  (* number literals are carried over unchanged: a number of B that A does not already hold
     (structurally equal) under the same name is in the output, verbatim *)
  Theorem create_output_number_verbatim pms k lit :
    encode_sorted (diff (den (TObj ams)) (den (TObj bms))) = TObj pms ->
    aget k Bm = Some (ONum lit) -> aget k A <> Some (ONum lit) ->
    tget k pms = Some (TNum lit).
  Proof.
    intros Ep Gb Ga. destruct create_output_members as [pms' [Ep' L]]. rewrite Ep in Ep'. inversion Ep'; subst pms'.
    rewrite L. clear L Ep Ep'.
    rewrite (den_obj_members ams), (den_obj_members bms). fold A Bm.
    pose proof Nb as Nb'. unfold tnodup in Nb'. rewrite (den_obj_members bms) in Nb'. fold Bm in Nb'.
    apply onodup_obj in Nb' as [Nb1 _].
    rewrite diff_obj. cbn [members_of]. rewrite diff_patch_lookup by exact Nb1. rewrite Gb.
    unfold diff_entry. destruct (aget k A) as [av|] eqn:Ea; [|reflexivity].
    replace (is_obj av && is_obj (ONum lit)) with false by (cbn [is_obj]; rewrite andb_false_r; reflexivity).
    destruct (jeq av (ONum lit)) eqn:J; [|reflexivity].
    exfalso. apply Ga. destruct av; try discriminate J. unfold jeq in J. apply bseq_eq in J. now subst.
  Qed.

  (* a member of A that B lacks is removed by a null *)
  Theorem create_output_removed pms k :
    encode_sorted (diff (den (TObj ams)) (den (TObj bms))) = TObj pms ->
    aget k A <> None -> aget k Bm = None -> tget k pms = Some TNull.
  Proof.
    intros Ep Ga Gb. destruct create_output_members as [pms' [Ep' L]]. rewrite Ep in Ep'. inversion Ep'; subst pms'.
    rewrite L. clear L Ep Ep'.
    rewrite (den_obj_members ams), (den_obj_members bms). fold A Bm.
    pose proof Nb as Nb'. unfold tnodup in Nb'. rewrite (den_obj_members bms) in Nb'. fold Bm in Nb'.
    apply onodup_obj in Nb' as [Nb1 _].
    rewrite diff_obj. cbn [members_of]. rewrite diff_patch_lookup by exact Nb1. rewrite Gb.
    destruct (aget k A); [reflexivity | contradiction].
  Qed.
End OutputMembers.

(* ---- the encoding is well formed: every string body it writes is one the scanner accepts ---- *)
Definition qshape (q : bytes) : bool :=
  match q with
  | [d] => (bn d <? 128) && negb (bn d <? 32) && negb (Byte.eqb d x22) && negb (Byte.eqb d x5c)
  | [d; e] => Byte.eqb d x5c && simple_esc e
  | [d; e; a; b; c; d'] => Byte.eqb d x5c && Byte.eqb e x75 && (is_hex a && is_hex b && is_hex c && is_hex d')
  | _ => false
  end.

Lemma qshape_qchar esc c : (bn c <? 128) = true -> qshape (qchar esc c) = true.
Proof. destruct esc; destruct c; intro H; try (vm_compute in H; discriminate H); vm_compute; reflexivity. Qed.

Lemma sbody_qshape q Q : qshape q = true -> sbody Q -> sbody (q ++ Q).
Proof.
  intros H S. destruct q as [|d [|e [|a [|b [|c [|d' [|x q]]]]]]]; try discriminate H; cbn [qshape] in H.
  - apply andb_prop in H as [H H4]. apply andb_prop in H as [H H3]. apply andb_prop in H as [H1 H2].
    apply negb_true_iff in H2, H3, H4. cbn [app]. apply SB_ascii; assumption.
  - apply andb_prop in H as [H1 H2]. apply Byte.byte_dec_bl in H1. subst d.
    cbn [app]. apply SB_esc; [exact H2 | exact S].
  - apply andb_prop in H as [H1 H3]. apply andb_prop in H1 as [H1 H2].
    apply Byte.byte_dec_bl in H1, H2. subst d e. cbn [app]. apply SB_u; [exact H3 | exact S].
Qed.

Lemma sbody_high_app l Q : Forall (fun x => (bn x <? 128) = false) l -> sbody Q -> sbody (l ++ Q).
Proof. induction 1 as [|x l Hx _ IH]; intro S; cbn [app]; [exact S|]. apply SB_high; [exact Hx | apply IH; exact S]. Qed.

Lemma utf8_seq_high c r k : (bn c <? 128) = false -> utf8_len (c :: r) = S k ->
  Forall (fun x => (bn x <? 128) = false) (firstn (S k) (c :: r)).
Proof.
  intros H E. unfold utf8_len in E. rewrite H in E.
  destruct (bn c <? 194) eqn:H1; [discriminate|].
  destruct (bn c <? 224) eqn:H2.
  { destruct r as [|c1 r]; [discriminate|]. destruct (cont c1) eqn:C; [|discriminate].
    inversion E; subst. cbn [firstn]. repeat constructor; [exact H | apply cont_high; exact C]. }
  destruct (bn c <? 240) eqn:H3.
  { destruct r as [|c1 [|c2 r]]; try discriminate. destruct (_ && _) eqn:C; [|discriminate].
    inversion E; subst. apply andb_prop in C as [C1 C2]. cbn [firstn].
    assert (K1 : cont c1 = true).
    { apply (in_range_cont (if bn c =? 224 then 160 else 128) (if bn c =? 237 then 159 else 191));
        [destruct (bn c =? 224); lia | destruct (bn c =? 237); lia | exact C1]. }
    repeat constructor; [exact H | apply cont_high; exact K1 | apply cont_high; exact C2]. }
  destruct (bn c <? 245) eqn:H4; [|discriminate].
  destruct r as [|c1 [|c2 [|c3 r]]]; try discriminate. destruct (_ && _) eqn:C; [|discriminate].
  inversion E; subst. apply andb_prop in C as [C12 C3]. apply andb_prop in C12 as [C1 C2]. cbn [firstn].
  assert (K1 : cont c1 = true).
  { apply (in_range_cont (if bn c =? 240 then 144 else 128) (if bn c =? 244 then 143 else 191));
      [destruct (bn c =? 240); lia | destruct (bn c =? 244); lia | exact C1]. }
  repeat constructor; [exact H | apply cont_high; exact K1 | apply cont_high; exact C2 | apply cont_high; exact C3].
Qed.

Theorem sbody_quote esc s : utf8 s -> sbody (quote esc s).
Proof.
  induction 1 as [|c r H U IH|c r n H E U IH].
  - constructor.
  - rewrite quote_ascii by exact H. apply sbody_qshape; [apply qshape_qchar; exact H | exact IH].
  - rewrite (quote_multi esc c r n H E).
    destruct (is_ls (c :: r)) as [[d r']|] eqn:L.
    + unfold is_ls in L. destruct c; try discriminate. destruct r as [|c1 r1]; try discriminate.
      destruct c1; try discriminate. destruct r1 as [|c2 r2]; try discriminate.
      destruct c2; try discriminate; inversion L; subst d r';
        (assert (n = 2%nat) by (vm_compute in E; congruence); subst n; cbn [skipn] in IH;
         cbn [app]; apply SB_u; [reflexivity | exact IH]).
    + apply sbody_high_app; [apply utf8_seq_high; assumption | exact IH].
Qed.

Lemma In_insert_sorted {A} (kv : bytes * A) l x : In x (insert_sorted kv l) -> x = kv \/ In x l.
Proof.
  induction l as [|kv' l IHl]; intro Hin; cbn [insert_sorted] in Hin.
  - destruct Hin as [<-|[]]. now left.
  - destruct (bytes_ltb (fst kv) (fst kv')).
    + destruct Hin as [<-|Hin]; [now left | now right].
    + destruct (bseq (fst kv) (fst kv')).
      * destruct Hin as [<-|Hin]; [now left | right; now right].
      * destruct Hin as [<-|Hin]; [right; now left|]. destruct (IHl Hin) as [->|Hl]; [now left | right; now right].
Qed.

Lemma In_sort4_go {A} (l : list (bytes * A)) : forall acc x,
  In x (fold_left (fun a kv => insert_sorted kv a) l acc) -> In x l \/ In x acc.
Proof.
  induction l as [|kv l IHl]; intros acc x Hin; cbn [fold_left] in Hin; [now right|].
  destruct (IHl _ _ Hin) as [Hl|Ha]; [left; now right|].
  destruct (In_insert_sorted _ _ _ Ha) as [->|Ha']; [left; now left | now right].
Qed.

(* every entry of the sorted list is an entry of the list *)
Lemma In_sort4 {A} (l : list (bytes * A)) x : In x (sort4 l) -> In x l.
Proof. intro H. destruct (In_sort4_go l [] x H) as [H'|[]]. exact H'. Qed.

Theorem encode_sorted_tsb j : outf8 j -> tsb (encode_sorted j).
Proof.
  induction j using ojson_rect'; intro U; try exact I.
  - destruct b; exact I.
  - cbn [encode_sorted tsb]. apply sbody_quote. exact U.
  - rewrite encode_sorted_arr. apply tsb_arr. rewrite Forall_map. apply outf8_arr in U.
    rewrite Forall_forall in *. intros x Hin. apply (H x Hin). apply (U x Hin).
  - rewrite encode_sorted_obj. apply tsb_obj. rewrite Forall_map. cbn [fst snd].
    apply outf8_obj in U. rewrite Forall_forall in H, U.
    apply Forall_forall. intros kv Hin. apply In_sort4 in Hin.
    apply in_map_iff in Hin as [kv0 [<- Hin0]]. cbn [fst snd].
    destruct (U _ Hin0) as [U1 U2]. split; [apply sbody_quote; exact U1 | apply (H _ Hin0); exact U2].
Qed.

(* ---- number literals: every number literal in the output is a number literal of B ---- *)
Fixpoint onums (j : ojson) : list bytes :=
  match j with
  | ONum lit => [lit]
  | OArr l => flat_map onums l
  | OObj ms => flat_map (fun kv => onums (snd kv)) ms
  | _ => []
  end.

Fixpoint tnums (t : tjson) : list bytes :=
  match t with
  | TNum lit => [lit]
  | TArr l => flat_map tnums l
  | TObj ms => flat_map (fun kv => tnums (snd kv)) ms
  | _ => []
  end.

Lemma tnums_encode_sorted j lit : In lit (tnums (encode_sorted j)) -> In lit (onums j).
Proof.
  induction j using ojson_rect'.
  - intros [].
  - destruct b; intros [].
  - intro Hin. exact Hin.
  - intros [].
  - rewrite encode_sorted_arr. cbn [tnums onums]. rewrite !in_flat_map. intros [t [H1 H2]].
    apply in_map_iff in H1 as [x [<- Hx]]. exists x. split; [exact Hx|].
    rewrite Forall_forall in H. apply (H x Hx). exact H2.
  - rewrite encode_sorted_obj. cbn [tnums onums]. rewrite !in_flat_map. intros [kv [H1 H2]].
    apply in_map_iff in H1 as [kv1 [<- H1]]. cbn [snd] in H2. apply In_sort4 in H1.
    apply in_map_iff in H1 as [kv0 [<- H0]]. cbn [snd] in H2. exists kv0. split; [exact H0|].
    rewrite Forall_forall in H. apply (H kv0 H0). exact H2.
Qed.

Lemma onums_diff b : forall a lit, In lit (onums (diff a b)) -> In lit (onums b).
Proof.
  induction b using ojson_rect'; intros a lit;
    try (rewrite diff_nonobj by (destruct a; reflexivity); intro Hin; exact Hin).
  destruct (is_obj a) eqn:Oa; [|rewrite diff_nonobj by (rewrite Oa; reflexivity); intro Hin; exact Hin].
  apply is_obj_true in Oa as [ams ->]. rename ms into bms. rewrite diff_obj.
  cbn [onums]. rewrite flat_map_app, in_app_iff. intros [Hin|Hin].
  - assert (F : Forall (fun kv => forall l, In l (onums (snd kv)) -> In l (flat_map (fun kv => onums (snd kv)) bms))
                       (diff_members ams bms)).
    { rewrite Forall_forall in H. apply diff_members_P.
      - intros k bv Hb l Hl. apply in_flat_map. exists (k, bv). auto.
      - intros k av bv Hb _ _ _ l Hl. cbn [snd] in Hl. apply in_flat_map. exists (k, bv). split; [exact Hb|].
        apply (H _ Hb av l Hl). }
    apply in_flat_map in Hin as [kv [H1 H2]]. rewrite Forall_forall in F. apply (F kv H1 lit H2).
  - exfalso. apply in_flat_map in Hin as [kv [H1 H2]]. unfold diff_dels in H1.
    apply in_map_iff in H1 as [kv0 [<- _]]. exact H2.
Qed.

Theorem create_output_numbers a b lit :
  In lit (tnums (encode_sorted (diff a b))) -> In lit (onums b).
Proof. intro H. apply (onums_diff b a). apply tnums_encode_sorted. exact H. Qed.

(* ---- CreateMergePatch on two objects, end to end ---- *)
Theorem api_create_correct a b ams bms :
  parse a = Some (TObj ams) -> parse b = Some (TObj bms) ->
  tnodup (TObj ams) = true -> tnodup (TObj bms) = true -> tsb (TObj ams) -> tsb (TObj bms) ->
  exists p,
    api_create a b = MOut (print true p) /\
    p = encode_sorted (diff (den (TObj ams)) (den (TObj bms))) /\
    tsb p /\ tnodup p = true /\
    jeq (den p) (diff (den (TObj ams)) (den (TObj bms))) = true /\
    (no_null_member (den (TObj bms)) = true -> jeq (merge_patch (den (TObj ams)) (den p)) (den (TObj bms)) = true) /\
    (p = TObj [] <-> jeq (den (TObj ams)) (den (TObj bms)) = true).
Proof.
  intros Ha Hb Na Nb Sa Sb. eexists. split; [apply (api_create_obj a b ams bms Ha Hb)|].
  split; [reflexivity|].
  destruct (create_output_den (TObj ams) (TObj bms) Na Nb Sa Sb) as [P1 P2].
  split; [apply encode_sorted_tsb; apply diff_outf8; apply tsb_outf8; assumption|].
  split; [exact P1|]. split; [exact P2|]. split.
  - intro NN. apply create_output_roundtrip; auto.
  - apply create_output_empty_iff; auto.
Qed.

(* the same for two arrays of objects of equal length, element by element *)
Theorem api_create_arr_correct a b la lb :
  parse a = Some (TArr la) -> parse b = Some (TArr lb) -> length la = length lb ->
  Forall (fun x => is_obj (den x) = true /\ tnodup x = true /\ tsb x) la ->
  Forall (fun x => is_obj (den x) = true /\ tnodup x = true /\ tsb x) lb ->
  exists ps,
    api_create a b = MOut (print true (TArr ps)) /\
    Forall2 (fun p xy =>
               p = encode_sorted (diff (den (fst xy)) (den (snd xy))) /\
               tsb p /\ tnodup p = true /\
               (no_null_member (den (snd xy)) = true ->
                jeq (merge_patch (den (fst xy)) (den p)) (den (snd xy)) = true) /\
               (p = TObj [] <-> jeq (den (fst xy)) (den (snd xy)) = true))
            ps (combine la lb).
Proof.
  intros Ha Hb L Fa Fb.
  assert (AO : forall l, Forall (fun x => is_obj (den x) = true /\ tnodup x = true /\ tsb x) l ->
                         map as_obj l = map Some (map den l)).
  { induction 1 as [|x l [Hx _] _ IH]; [reflexivity|]. cbn [map]. rewrite IH. f_equal.
    destruct x; try discriminate Hx. reflexivity. }
  eexists. split.
  - apply (api_create_arr_objs a b la lb (map den la) (map den lb) Ha Hb (AO _ Fa) (AO _ Fb) L).
  - clear Ha Hb AO. revert lb L Fb. induction Fa as [|x la [X1 [X2 X3]] Fa IH]; intros lb L Fb.
    + destruct lb; [constructor | discriminate].
    + destruct lb as [|y lb]; [discriminate|]. inversion Fb as [|? ? [Y1 [Y2 Y3]] Fb']; subst.
      cbn [map combine fst snd]. constructor; [|apply IH; [simpl in L; lia | exact Fb']].
      cbn [fst snd]. split; [reflexivity|].
      split; [apply encode_sorted_tsb; apply diff_outf8; apply tsb_outf8; assumption|].
      split; [apply (create_output_den x y); assumption|].
      split; [intro NN; apply create_output_roundtrip; assumption | apply create_output_empty_iff; assumption].
Qed.
