(* EnsureSim.v — whole patches with EnsurePathExistsOnAdd ON (v5 model).

   AllowEnsureFacts.v relates ONE add with the option on to the reference: ensurePathExists builds
   ens (value level), the add that follows is the reference's add on that document.  This file
   builds the whole-patch statement:

     rfc_ens_step / rfc_ens_apply_from   the reference with the option: an add with a non-empty
                                         path first creates the missing parents (ens), then adds;
                                         every other operation is rfc_step
     ens_step_sim                        one operation of the model against rfc_ens_step
     ens_apply_sim / api_apply_ens_sim   patches: same document value, or failure at the same
                                         operation with an error of the corresponding class
     ens_agrees_when_parents_exist       where the plain reference runs to the end, so does the one
                                         with the option, with the same document
     ens_cause                           error classes with the option on (mirror of C08_cause)
     opt_step_sim / opt_apply_sim /      the option on together with ANY setting of
     api_apply_opt_sim / opt_cause       AllowMissingPathOnRemove and of the copy-size limit

   One side condition follows the reference run, next to the copy depth condition of ApplySim.v:
   no add walks into a null that sits where a parent container is needed (add_path_clear).  It
   cannot be dropped: whether the model then creates a container in place of the null or reports the
   missing path depends on how the null is REPRESENTED (a nil node, as decoded from the document,
   or a stored raw null, as left by an earlier add), which the document value does not show
   (null_parent_depends_on_representation).  The property C14 excludes nulls on the path. *)
From Coq Require Import Lia.
From JP Require Import Bytes Json Text Strings Den Pointer Rfc6902 ImplV5 DecodeFacts JsonFacts Abs EqualFacts
                       ImplFacts RefFacts ApplyFacts Depth ApplySim Domain ParseFacts AllowEnsureFacts CauseFacts.

(* ================================================================================================ *)
(* 1. the options, the reference with the option on                                                  *)
(* ================================================================================================ *)
Definition ensure_opts (o : opts) : Prop := o_ensure o = true /\ o_allow o = false /\ o_limit o = 0%Z.

Definition set_ensure (o : opts) (b : bool) : opts :=
  mkOpts (o_neg o) (o_limit o) (o_allow o) b (o_esc o) (o_stale o) (o_nullsz o).

Lemma set_ensure_self o : set_ensure o (o_ensure o) = o.
Proof. destruct o; reflexivity. Qed.

Lemma ensure_opts_off o : ensure_opts o -> plain_opts (set_ensure o false).
Proof. intros [_ [A L]]. split; [exact A|]. split; [reflexivity | exact L]. Qed.

(* add with the option: the whole document (path "") as without it; otherwise the missing parents
   are created first (ens, AllowEnsureFacts.v), then the RFC add runs on that document.  Where ens
   is undefined (a value that is no container, or a member name addressed in an array, stands where
   a parent is needed) nothing can be created and the location is unreachable *)
Definition rfc_ens_add (d : dialect) (doc : ojson) (toks : list bytes) (v : ojson) : Rfc6902.res ojson :=
  match toks with
  | [] => rfc_add d doc [] v
  | _ => match ens d toks doc with
         | Some doc1 => rfc_add d doc1 toks v
         | None => RFail FUnreachable
         end
  end.

Definition rfc_ens_step (d : dialect) (doc : ojson) (o : rop) : Rfc6902.res ojson :=
  match rkind o, ptr_tokens (rpath o) with
  | OpAdd, Some toks => rfc_ens_add d doc toks (value_or_null (rvalue o))
  | _, _ => rfc_step d doc o
  end.

Fixpoint rfc_ens_apply_from (d : dialect) (i : nat) (doc : ojson) (p : list rop) : outcome :=
  match p with
  | [] => Done doc
  | o :: rest =>
      match rfc_ens_step d doc o with
      | ROk doc' => rfc_ens_apply_from d (S i) doc' rest
      | RFail c => Failed i c
      end
  end.

Definition rfc_ens_apply (d : dialect) (doc : ojson) (p : list rop) : outcome := rfc_ens_apply_from d 0 doc p.

Lemma rfc_ens_step_not_add d doc o : rkind o <> OpAdd -> rfc_ens_step d doc o = rfc_step d doc o.
Proof. unfold rfc_ens_step. destruct (rkind o); try congruence; reflexivity. Qed.

(* ---- the side condition: no null where a parent container is needed ---- *)
(* the walk along the existing parents of toks meets a null (the last token is the add's own) *)
Fixpoint null_on_path (d : dialect) (toks : list bytes) (j : ojson) {struct toks} : bool :=
  match toks with
  | [] => false
  | [_] => false
  | t :: ((_ :: _) as rest) =>
      match child_at d j t with
      | Some c => if is_container c then null_on_path d rest c else onull c
      | None => false
      end
  end.

Lemma null_on_path_unfold d t next rest0 j :
  null_on_path d (t :: next :: rest0) j =
  match child_at d j t with
  | Some c => if is_container c then null_on_path d (next :: rest0) c else onull c
  | None => false
  end.
Proof. reflexivity. Qed.

Definition add_path_clear (d : dialect) (doc : ojson) (o : rop) : bool :=
  match rkind o, ptr_tokens (rpath o) with
  | OpAdd, Some toks => negb (null_on_path d toks doc)
  | _, _ => true
  end.

(* both conditions on one operation: the copy depth condition of ApplySim.v and the one above *)
Definition ens_fits (d : dialect) (doc : ojson) (o : rop) : bool := copy_fits d doc o && add_path_clear d doc o.

(* ... at every operation the reference run (with the option) reaches *)
Fixpoint ens_run_fits (d : dialect) (doc : ojson) (p : list rop) : bool :=
  match p with
  | [] => true
  | o :: rest =>
      ens_fits d doc o &&
      match rfc_ens_step d doc o with
      | ROk doc' => ens_run_fits d doc' rest
      | RFail _ => true
      end
  end.

(* ---- the domain of one operation: that of ApplySim.v, and the tokens of an add path are member
   names or canonical non-negative indices (ctok: what ensure_add_sim asks) ---- *)
Definition ens_op_dom (op : operation) : Prop :=
  op_dom op /\
  (op_kind op = KAdd -> forall r, op_str op (B "path") = Ok (x2f :: r) ->
     Forall ctok (map decode_token (split_slash r))).

(* ================================================================================================ *)
(* 2. the option is consulted by add only                                                            *)
(* ================================================================================================ *)
Lemma walk_ensure {A} o b parts : forall c (f : con -> A * con),
  walk (set_ensure o b) parts c f = walk o parts c f.
Proof.
  induction parts as [|p parts IH]; intros c f; simpl; auto.
  change (con_get (set_ensure o b) c (decode_token p)) with (con_get o c (decode_token p)).
  destruct (con_get o c (decode_token p)); auto. destruct (into_con a); auto. rewrite IH. reflexivity.
Qed.

Lemma find_ensure {A} o b c path (f : con -> bytes -> A * con) :
  find (set_ensure o b) c path f = find o c path f.
Proof. unfold find. destruct (split_path path) as [[parts key]|]; auto. now rewrite walk_ensure. Qed.

Lemma op_remove_ensure o b st op : op_remove (set_ensure o b) st op = op_remove o st op.
Proof.
  unfold op_remove. destruct (op_str op (B "path")) as [path| |]; auto.
  destruct (s_root st); auto. rewrite find_ensure. reflexivity.
Qed.

Lemma op_replace_ensure o b st op : op_replace (set_ensure o b) st op = op_replace o st op.
Proof.
  unfold op_replace. destruct (op_str op (B "path")) as [[|x path]| |]; auto.
  destruct (s_root st); auto. rewrite find_ensure. reflexivity.
Qed.

Lemma op_test_ensure o b st op : op_test (set_ensure o b) st op = op_test o st op.
Proof.
  unfold op_test. destruct (op_str op (B "path")) as [[|x path]| |]; auto.
  destruct (s_root st); auto. rewrite find_ensure. reflexivity.
Qed.

Lemma op_move_ensure o b st op : op_move (set_ensure o b) st op = op_move o st op.
Proof.
  unfold op_move. destruct (op_str op (B "from")) as [[|x from]| |]; auto.
  destruct (s_root st); auto. rewrite find_ensure.
  match goal with |- match ?a with _ => _ end = match ?b with _ => _ end =>
    change a with b; destruct b as [[| |[v| |]] c1]; auto end.
  destruct (op_str op (B "path")) as [path| |]; auto. rewrite find_ensure. reflexivity.
Qed.

Lemma op_copy_ensure o b st op : op_copy (set_ensure o b) st op = op_copy o st op.
Proof.
  unfold op_copy. destruct (op_str op (B "from")) as [from| |]; auto.
  destruct (s_root st); auto. rewrite find_ensure.
  change (fun (c' : con) (key : bytes) => (con_get (set_ensure o b) c' key, c')) with (fun (c' : con) (key : bytes) => (con_get o c' key, c')).
  destruct_find; auto. destruct r as [v| |]; auto.
  destruct (op_str op (B "path")) as [path| |]; auto. rewrite find_ensure.
  destruct_find; auto.
  rewrite find_ensure.
  match goal with |- match ?a with _ => _ end = match ?b with _ => _ end => destruct b as [v'| |]; auto end.
  change (copy_too_deep (set_ensure o b) v') with (copy_too_deep o v').
  destruct (copy_too_deep o v'); auto.
  change (deep_copy (set_ensure o b) v') with (deep_copy o v'). destruct (deep_copy o v') as [cp sz].
  change (o_limit (set_ensure o b)) with (o_limit o).
  destruct ((0 <? o_limit o)%Z && (o_limit o <? s_acc st + sz)%Z); auto.
  rewrite find_ensure. reflexivity.
Qed.

(* every operation other than add is the same function of the state, whatever the option says *)
Theorem step_ensure_irrelevant o b st op :
  op_kind op <> KAdd -> step (set_ensure o b) st op = step o st op.
Proof.
  unfold step. intro K. destruct (op_kind op); try congruence;
    auto using op_remove_ensure, op_replace_ensure, op_move_ensure, op_test_ensure, op_copy_ensure.
Qed.

(* ================================================================================================ *)
(* 3. where ens is undefined                                                                         *)
(* ================================================================================================ *)
Lemma at_parent_noncontainer d f next rest0 c :
  (forall p t, is_container p = false -> f p t = RFail FUnreachable) ->
  is_container c = false -> at_parent d (next :: rest0) c f = RFail FUnreachable.
Proof.
  intros NC Cc. destruct rest0 as [|t2 rest1].
  - cbn [at_parent]. apply NC. exact Cc.
  - destruct c; try discriminate Cc; reflexivity.
Qed.

(* reference level: where nothing can be created the plain add cannot reach the location either *)
Lemma ens_none_unreachable d f :
  (forall p t, is_container p = false -> f p t = RFail FUnreachable) ->
  forall toks j, ens d toks j = None -> at_parent d toks j f = RFail FUnreachable.
Proof.
  intro NC. induction toks as [|t toks IH]; intros j H; [discriminate|].
  destruct toks as [|next rest0]; [discriminate|].
  rewrite ens_unfold in H. rewrite at_parent_cons.
  destruct (child_at d j t) as [c|] eqn:Ec; [|reflexivity].
  destruct (is_container c) eqn:Cc.
  - destruct (ens d (next :: rest0) c) as [x|] eqn:Ex; [discriminate|].
    rewrite (IH c Ex). reflexivity.
  - rewrite (at_parent_noncontainer d f next rest0 c NC Cc). reflexivity.
Qed.

(* inside a container created for the path everything is missing and can be created *)
Lemma ens_fresh_some d : forall rest, exists x, ens d rest (fresh_for (hd [] rest)) = Some x.
Proof.
  induction rest as [|t rest IH]; [eexists; reflexivity|].
  destruct rest as [|next rest0]; [eexists; reflexivity|].
  cbn [hd] in *. destruct IH as [c' E]. rewrite ens_unfold.
  rewrite (proj1 (fresh_growable d t)), E, (attach_grow d (fresh_for t) t c' (fresh_growable d t)).
  eexists; reflexivity.
Qed.

(* the model: ens undefined and no null on the way — ensurePathExists reports no error and leaves
   the document value as it is (the add that follows reports the missing path) *)
Lemma ensure_none_sim o : forall parts c,
  cgood c -> Forall ctok (map decode_token parts) ->
  ens (dia o) (map decode_token parts) (cval c) = None ->
  null_on_path (dia o) (map decode_token parts) (cval c) = false ->
  exists c1, ensure o parts c = (None, c1) /\ cval c1 = cval c /\ cgood c1.
Proof.
  induction parts as [|part parts IH]; intros c G D H NP; [discriminate|].
  destruct parts as [|nextp rest]; [discriminate|].
  inversion D as [|? ? Dk Dr]; subst. pose proof Dr as Dr'. inversion Dr' as [|? ? Dn _]; subst.
  cbn [map] in H, NP. rewrite ens_unfold in H. rewrite null_on_path_unfold in NP.
  change (decode_token nextp :: map decode_token rest) with (map decode_token (nextp :: rest)) in H, NP.
  pose proof (con_get_sim o c (decode_token part) G (proj1 Dk)) as CG.
  destruct (child_at (dia o) (cval c) (decode_token part)) as [j|] eqn:Ech.
  - destruct CG as [n [Hg [Ev Gn]]].
    pose proof (into_con_sim n Gn) as IC. rewrite Ev in IC.
    destruct (is_container j) eqn:Cj.
    + (* an existing container: further down *)
      destruct (ens (dia o) (map decode_token (nextp :: rest)) j) as [x|] eqn:Ex; [discriminate|].
      destruct IC as [ch [Hic [Evc Gch]]]. rewrite <- Evc in Ex, NP.
      destruct (IH ch Gch Dr Ex NP) as [ch' [E1 [E2 E3]]].
      rewrite (ensure_unfold_existing o part nextp rest c n ch Hg) by (rewrite ?Ev; auto).
      rewrite E1. eexists. split; [reflexivity|].
      destruct (con_put_sim o c (decode_token part) (node_of_con ch') n G (proj1 Dk) Hg (proj1 E3)) as [Q1 Q2].
      split; [|exact Q2]. rewrite Q1. fold (cval ch'). rewrite E2, Evc. apply put_child_same. exact Ech.
    + (* an existing value that is no container and not null: nothing is done *)
      exists c. split; [|split; [reflexivity | exact G]].
      rewrite ensure_unfold. cbv zeta. rewrite Hg.
      destruct n as [|t|ks ob|ns].
      * cbn [aval] in Ev. subst j. discriminate NP.
      * destruct t; cbn [into_con] in IC |- *; try reflexivity; try discriminate IC.
      * discriminate IC.
      * discriminate IC.
  - (* missing: the member name of an array cannot be created *)
    destruct CG as [e [Hg _]]. rewrite (ensure_unfold_missing o part nextp rest c e Hg). cbv zeta.
    destruct (pad_model_sim o part c G Dk) as [P1 P2].
    match goal with |- context [fresh_then o nextp ?K ?Bad] =>
      destruct (fresh_then_sim o nextp K Bad Dn) as [ch [F1 [F2 F3]]]; rewrite F3 end.
    destruct (ens_fresh_some (dia o) (map decode_token (nextp :: rest))) as [x Ex].
    cbn [map hd] in Ex. change (decode_token nextp :: map decode_token rest) with (map decode_token (nextp :: rest)) in Ex.
    rewrite Ex in H. rewrite <- F2 in Ex.
    destruct (ensure_sim o (nextp :: rest) ch x F1 Dr Ex) as [ch' [E1 [E2 E3]]]. rewrite E1.
    pose proof (con_add_sim o (pad_model o part c) (decode_token part) (node_of_con ch') P2 (proj1 Dk) (proj1 E3)) as CA.
    fold (cval ch') in CA. rewrite E2, P1 in CA.
    destruct (add_leaf (dia o) x (pad_to (cval c) (decode_token part)) (decode_token part)) as [j'|cz] eqn:AL; [discriminate|].
    destruct CA as [_ [e' [C1 _]]]. rewrite C1. cbn [ignore_err].
    exists (pad_model o part c). split; [reflexivity|]. split; [|exact P2]. rewrite P1.
    (* the padding did nothing: otherwise the token were an index and the attachment had succeeded *)
    destruct (canonical_nat (decode_token part)) as [n|] eqn:Cn.
    + destruct (cval c) as [| | | |l|ms] eqn:Ec; try reflexivity.
      exfalso. assert (Gr : growable (dia o) (OArr l) (decode_token part)) by (split; [exact Ech | right; eauto]).
      rewrite (attach_grow (dia o) (OArr l) (decode_token part) x Gr) in AL. discriminate AL.
    + unfold pad_to. rewrite Cn. destruct (cval c); reflexivity.
Qed.

(* one add, option on, ens undefined, no null where a parent is needed: ErrMissing *)
Theorem ensure_add_none o st op r c :
  s_root st = RCon c -> cgood c -> o_ensure o = true ->
  op_str op (B "path") = Ok (x2f :: r) -> Forall ctok (map decode_token (split_slash r)) -> val_good op ->
  ens (dia o) (ptoks r) (cval c) = None -> null_on_path (dia o) (ptoks r) (cval c) = false ->
  op_add o st op = Err EMissing.
Proof.
  intros Hr G En Hp D Vg H NP.
  assert (NC : forall p t, is_container p = false -> add_leaf (dia o) (ref_value op) p t = RFail FUnreachable).
  { intros p t Cp. apply (proj1 (leaf_noncontainer (dia o) p t Cp)). }
  pose proof (ens_none_unreachable (dia o) (add_leaf (dia o) (ref_value op)) NC (ptoks r) (cval c) H) as AP.
  rewrite ptoks_eq in H, NP.
  destruct (ensure_none_sim o (split_slash r) c G D H NP) as [c1 [E1 [E2 E3]]].
  pose proof (opv_good op Vg) as Gv.
  pose proof (add_find_sim o c1 r (opv op) E3 (ctok_dom _ D) Gv) as AF. rewrite opv_aval, E2, AP in AF.
  unfold op_add. rewrite Hp, Hr, En, ensure_path_slash, E1. fold (opv op).
  change (find o c1 (x2f :: r) _) with (find o c1 (x2f :: r) (add_fn o (opv op))).
  destruct AF as [e [c2 [[A1|[A1 ->]] A2]]]; rewrite A1; [|reflexivity].
  cbn [cause_rel] in A2. now subst e.
Qed.

(* ================================================================================================ *)
(* 4. one operation                                                                                  *)
(* ================================================================================================ *)
Lemma ref_kind_add k : ref_kind k = OpAdd -> k = KAdd.
Proof. destruct k; simpl; congruence. Qed.

Theorem ens_step_sim o st op :
  sgood st -> ensure_opts o -> ens_op_dom op ->
  ens_fits (dia o) (sval st) (den_op op) = true ->
  match rfc_ens_step (dia o) (sval st) (den_op op) with
  | ROk j' => exists st', step o st op = Ok st' /\ sval st' = j' /\ sgood st'
  | RFail cz => exists e, step o st op = Err e /\ cause_rel cz e
  end.
Proof.
  intros G EO [Dop Dadd] Fit. unfold ens_fits in Fit. apply andb_prop in Fit as [Fit Clr].
  assert (Dec : op_kind op = KAdd \/ op_kind op <> KAdd) by (destruct (op_kind op); auto; right; discriminate).
  destruct Dec as [Ek|NA].
  2: { (* not an add: the plain simulation *)
       pose proof (step_sim (set_ensure o false) st op G (ensure_opts_off o EO) Dop Fit) as S.
       rewrite (step_ensure_irrelevant o false st op NA) in S. change (dia (set_ensure o false)) with (dia o) in S.
       rewrite rfc_ens_step_not_add; [exact S|]. unfold den_op. cbn [rkind]. intro E. apply NA. apply ref_kind_add. exact E. }
  destruct G as [c [Hr G]]. destruct EO as [En _]. pose proof Dop as [Vg [path [Hp K]]]. rewrite Ek in K.
  assert (SV : sval st = cval c) by (unfold sval; rewrite Hr; reflexivity).
  assert (RP : rpath (den_op op) = path) by (unfold den_op; simpl; rewrite Hp; reflexivity).
  assert (RK : rkind (den_op op) = OpAdd) by (unfold den_op; simpl; rewrite Ek; reflexivity).
  unfold rfc_ens_step, add_path_clear in *. rewrite RK, RP in *. rewrite ref_value_den_op. rewrite SV in *.
  unfold step. rewrite Ek.
  destruct K as [[r [-> D0]]|[-> [t [Hv NN]]]].
  - (* a location below the root *)
    pose proof (Dadd Ek r Hp) as D. rewrite ptr_tokens_slash in *. fold (ptoks r) in *.
    unfold rfc_ens_add. rewrite (match_nonempty _ _ _ (ptoks_nonempty r)).
    destruct (ens (dia o) (ptoks r) (cval c)) as [j1|] eqn:E1.
    + unfold rfc_add. rewrite (match_nonempty _ _ _ (ptoks_nonempty r)).
      pose proof (ensure_add_sim o st op r c j1 Hr G En Hp D Vg E1) as S.
      destruct (at_parent _ _ _ _); [destruct S as [st' [S1 [S2 [S3 _]]]]; eauto | exact S].
    + apply Bool.negb_true_iff in Clr.
      exists EMissing. split; [|reflexivity].
      exact (ensure_add_none o st op r c Hr G En Hp D Vg E1 Clr).
  - (* the whole document *)
    cbn [ptr_tokens rfc_ens_add rfc_add]. unfold ref_value. rewrite Hv.
    unfold val_good in Vg. rewrite Hv in Vg. destruct Vg as [T [L B]].
    pose proof (op_add_root_sim o st op t Hp Hv NN T L B) as S.
    destruct (is_container (den t)); [destruct S as [st' [S1 [S2 [S3 _]]]]; eauto | exact S].
Qed.

(* ================================================================================================ *)
(* 5. whole patches                                                                                  *)
(* ================================================================================================ *)
Theorem ens_apply_sim o : ensure_opts o -> forall p i st,
  sgood st -> Forall ens_op_dom p ->
  ens_run_fits (dia o) (sval st) (map den_op p) = true ->
  match rfc_ens_apply_from (dia o) i (sval st) (map den_op p) with
  | Done doc => exists st', apply_from o i st p = AOk st' /\ sval st' = doc /\ sgood st'
  | Failed j cz => exists e, apply_from o i st p = AErr j e /\ cause_rel cz e
  end.
Proof.
  intros EO. induction p as [|op p IH]; intros i st G D F; cbn [map rfc_ens_apply_from apply_from ens_run_fits] in *.
  - exists st. auto.
  - inversion D as [|? ? Dop Dp]; subst. apply andb_prop in F as [F1 F2].
    pose proof (ens_step_sim o st op G EO Dop F1) as S.
    destruct (rfc_ens_step (dia o) (sval st) (den_op op)) as [j'|cz].
    + destruct S as [st' [S1 [S2 S3]]]. rewrite S1. rewrite <- S2 in F2.
      specialize (IH (S i) st' S3 Dp F2). rewrite S2 in IH. exact IH.
    + destruct S as [e [S1 S2]]. rewrite S1. eauto.
Qed.

(* Apply on bytes with EnsurePathExistsOnAdd on *)
Theorem api_apply_ens_sim o indent p doc t :
  ensure_opts o -> parse doc = Some t -> root_container t = true -> tnodup t = true ->
  Forall ens_op_dom p ->
  ens_run_fits (dia o) (den t) (map den_op p) = true ->
  match rfc_ens_apply (dia o) (den t) (map den_op p) with
  | Done j => exists n, api_apply o indent p doc = ROut (output o indent (render (o_esc o) n)) /\ aval n = j /\ ngood n
  | Failed i cz => exists e, api_apply o indent p doc = RErr (Some i) e /\ cause_rel cz e
  end.
Proof.
  intros EO P RC T D F. unfold api_apply. destruct doc as [|b doc]; [rewrite parse_nil in P; discriminate|].
  rewrite P. unfold apply_tree.
  destruct (load_doc_good o _ t P RC T) as [c [S1 [S2 S3]]]. rewrite S1.
  assert (F' : ens_run_fits (dia o) (sval (mkState (RCon c) 0)) (map den_op p) = true).
  { unfold sval. cbn [s_root]. rewrite S3. exact F. }
  pose proof (ens_apply_sim o EO p 0%nat (mkState (RCon c) 0) (ex_intro _ c (conj eq_refl S2)) D F') as AS.
  unfold sval in AS at 1. cbn [s_root] in AS. rewrite S3 in AS. unfold rfc_ens_apply.
  destruct (rfc_ens_apply_from (dia o) 0 (den t) (map den_op p)) as [j|i cz].
  - destruct AS as [st' [A1 [A2 [c' [A3 A4]]]]]. rewrite A1. unfold marshal_root. rewrite A3.
    exists (node_of_con c'). unfold sval in A2. rewrite A3 in A2.
    destruct c' as [s k ob| |s ns]; [| exfalso; exact (proj2 A4) |]; (split; [reflexivity | split; [exact A2 | exact (proj1 A4)]]).
  - destruct AS as [e [A1 A2]]. rewrite A1. eauto.
Qed.

(* ================================================================================================ *)
(* 6. an add that succeeds without the option gives the same result with it                          *)
(* ================================================================================================ *)
(* the reference reached the parent: the parents exist and are containers *)
Lemma at_parent_snoc_ok_parents d f ps t j j' :
  (forall p t, is_container p = false -> f p t = RFail FUnreachable) ->
  at_parent d (ps ++ [t]) j f = ROk j' ->
  exists p, descend d ps j = Some p /\ is_container p = true.
Proof.
  intros NC H. rewrite at_parent_snoc in H.
  destruct (descend d ps j) as [p|]; [|discriminate H].
  exists p. split; [reflexivity|]. destruct (is_container p) eqn:Cp; [reflexivity|].
  rewrite (NC p t Cp) in H. discriminate H.
Qed.

Lemma at_parent_ok_parents d f toks j j' :
  (forall p t, is_container p = false -> f p t = RFail FUnreachable) ->
  toks <> [] -> at_parent d toks j f = ROk j' ->
  exists p, descend d (removelast toks) j = Some p /\ is_container p = true.
Proof.
  intros NC NE H. rewrite (app_removelast_last [] NE) in H.
  exact (at_parent_snoc_ok_parents d f (removelast toks) (last toks []) j j' NC H).
Qed.

Lemma descend_container_no_null d : forall toks j p,
  descend d (removelast toks) j = Some p -> is_container p = true -> null_on_path d toks j = false.
Proof.
  induction toks as [|t toks IH]; intros j p H Cp; [reflexivity|].
  destruct toks as [|next rest0]; [reflexivity|].
  change (removelast (t :: next :: rest0)) with (t :: removelast (next :: rest0)) in H.
  cbn [descend] in H. rewrite null_on_path_unfold.
  destruct (child_at d j t) as [c|] eqn:E; [|reflexivity].
  assert (Cc : is_container c = true).
  { destruct (removelast (next :: rest0)) as [|t1 ps']; cbn [descend] in H.
    - inversion H; subst. exact Cp.
    - destruct (child_at d c t1) eqn:E1; [|discriminate]. eapply child_at_container; eauto. }
  rewrite Cc. eapply IH; eauto.
Qed.

Lemma add_leaf_nc d v : forall p t, is_container p = false -> add_leaf d v p t = RFail FUnreachable.
Proof. intros p t Cp. apply (proj1 (leaf_noncontainer d p t Cp)). Qed.

(* per step: ens is the identity when the parents exist *)
Lemma ens_step_agrees d doc o doc' :
  rfc_step d doc o = ROk doc' -> rfc_ens_step d doc o = ROk doc' /\ add_path_clear d doc o = true.
Proof.
  unfold rfc_ens_step, add_path_clear, rfc_step. intro H.
  destruct (ptr_tokens (rpath o)) as [toks|] eqn:Et; [|discriminate].
  destruct (rkind o); try (split; [exact H | reflexivity]).
  unfold rfc_ens_add. destruct toks as [|t toks]; [split; [exact H | reflexivity]|].
  unfold rfc_add in H.
  destruct (at_parent_ok_parents d (add_leaf d (value_or_null (rvalue o))) (t :: toks) doc doc'
              (add_leaf_nc d _) ltac:(discriminate) H) as [p [Hd Cp]].
  rewrite (ens_all_exist d (t :: toks) doc p Hd Cp), (descend_container_no_null d (t :: toks) doc p Hd Cp).
  split; [exact H | reflexivity].
Qed.

(* patches: where the plain reference runs to the end, the reference with the option does, with the
   same document; and the side condition of this file reduces to that of ApplySim.v *)
Theorem ens_agrees_from d : forall p i doc doc',
  rfc_apply_from d i doc p = Done doc' ->
  rfc_ens_apply_from d i doc p = Done doc' /\
  (copies_fit d doc p = true -> ens_run_fits d doc p = true).
Proof.
  induction p as [|o p IH]; intros i doc doc' H; cbn [rfc_apply_from rfc_ens_apply_from copies_fit ens_run_fits] in *.
  - split; [exact H | reflexivity].
  - destruct (rfc_step d doc o) as [doc1|cz] eqn:E; [|discriminate].
    destruct (ens_step_agrees d doc o doc1 E) as [E1 E2]. rewrite E1. unfold ens_fits. rewrite E2.
    destruct (IH (S i) doc1 doc' H) as [I1 I2]. split; [exact I1|].
    intro F. apply andb_prop in F as [F1 F2]. rewrite F1, (I2 F2). reflexivity.
Qed.

Theorem ens_agrees_when_parents_exist d doc p doc' :
  rfc_apply d doc p = Done doc' -> rfc_ens_apply d doc p = Done doc'.
Proof. intro H. exact (proj1 (ens_agrees_from d p 0%nat doc doc' H)). Qed.

(* the same on the model: a patch that the plain reference applies is applied by Apply with the
   option on, with the same document value (no condition on nulls: none is met) *)
Theorem api_apply_ens_agrees o indent p doc t j :
  ensure_opts o -> parse doc = Some t -> root_container t = true -> tnodup t = true ->
  Forall ens_op_dom p ->
  copies_fit (dia o) (den t) (map den_op p) = true ->
  rfc_apply (dia o) (den t) (map den_op p) = Done j ->
  exists n, api_apply o indent p doc = ROut (output o indent (render (o_esc o) n)) /\ aval n = j /\ ngood n.
Proof.
  intros EO P RC T D F R. destruct (ens_agrees_from (dia o) (map den_op p) 0%nat (den t) j R) as [A1 A2].
  pose proof (api_apply_ens_sim o indent p doc t EO P RC T D (A2 F)) as S.
  unfold rfc_ens_apply in S. rewrite A1 in S. exact S.
Qed.

(* ================================================================================================ *)
(* 7. error classes with the option on (mirror of C08_cause)                                         *)
(* ================================================================================================ *)
(* the reference with the option fails with FTest only at a test operation *)
Lemma rfc_ens_step_ftest d doc rop : rfc_ens_step d doc rop = RFail FTest -> rkind rop = OpTest.
Proof.
  unfold rfc_ens_step. intro H.
  destruct (rkind rop) eqn:K; try reflexivity; try (rewrite <- K; apply (rfc_step_ftest d doc rop H)).
  destruct (ptr_tokens (rpath rop)) as [toks|]; [|rewrite <- K; apply (rfc_step_ftest d doc rop H)].
  exfalso. unfold rfc_ens_add in H. destruct toks as [|t toks].
  - cbn [rfc_add] in H. destruct (is_container (value_or_null (rvalue rop))); discriminate H.
  - destruct (ens d (t :: toks) doc) as [doc1|]; [|discriminate H]. unfold rfc_add in H.
    apply at_parent_ftest in H as [p [t' H]]. exact (proj1 (leaf_not_ftest d _ p t') H).
Qed.

Lemma rfc_ens_apply_ftest d : forall p i doc k,
  rfc_ens_apply_from d i doc p = Failed k FTest ->
  (i <= k)%nat /\ exists o, nth_error p (k - i) = Some o /\ rkind o = OpTest.
Proof.
  induction p as [|o p IH]; intros i doc k H; cbn [rfc_ens_apply_from] in H; [discriminate|].
  destruct (rfc_ens_step d doc o) as [doc'|cz] eqn:E.
  - destruct (IH (S i) doc' k H) as [L [o' [N K]]]. split; [lia|]. exists o'. split; [|exact K].
    replace (k - i)%nat with (S (k - S i))%nat by lia. exact N.
  - inversion H; subst. split; [lia|]. exists o. rewrite Nat.sub_diag. split; [reflexivity|].
    apply (rfc_ens_step_ftest d doc o E).
Qed.

Lemma op_dom_kind_test op : op_dom op -> rkind (den_op op) = OpTest -> op_kind op = KTest.
Proof.
  intros [_ [path [_ K]]]. unfold den_op. cbn [rkind]. destruct (op_kind op); cbn [ref_kind]; try discriminate; auto.
  contradiction.
Qed.

(* Apply fails at the reference's first failing operation; the class of the error corresponds to
   the reference's cause: ErrTestFailed exactly when that cause is a failed comparison, and then the
   operation is a test; an absent member or an unreachable location is ErrMissing; never the
   copy-size error *)
Theorem ens_cause o indent p doc t i cz :
  ensure_opts o -> parse doc = Some t -> root_container t = true -> tnodup t = true ->
  Forall ens_op_dom p -> ens_run_fits (dia o) (den t) (map den_op p) = true ->
  rfc_ens_apply (dia o) (den t) (map den_op p) = Failed i cz ->
  exists e, api_apply o indent p doc = RErr (Some i) e /\
    (e = ETestFailed <-> cz = FTest) /\
    (cz = FTest -> exists op, nth_error p i = Some op /\ op_kind op = KTest) /\
    (cz = FMissingMember \/ cz = FUnreachable -> e = EMissing) /\
    is_copy_limit e = false.
Proof.
  intros EO P RC T D F R.
  pose proof (api_apply_ens_sim o indent p doc t EO P RC T D F) as S. rewrite R in S.
  destruct S as [e [S1 S2]]. exists e. split; [exact S1|].
  split; [apply cause_rel_test_iff; exact S2|].
  split; [|split; [apply cause_rel_missing; exact S2 | eapply cause_rel_not_limit; eauto]].
  intros ->. unfold rfc_ens_apply in R. destruct (rfc_ens_apply_ftest _ _ _ _ _ R) as [_ [ro [N K]]].
  rewrite Nat.sub_0_r, nth_error_map in N. destruct (nth_error p i) as [op|] eqn:Eo; [|discriminate N].
  cbn [option_map] in N. inversion N; subst ro. exists op. split; [reflexivity|].
  apply op_dom_kind_test; [|exact K]. rewrite Forall_forall in D. exact (proj1 (D op (nth_error_In _ _ Eo))).
Qed.

(* ================================================================================================ *)
(* 8. the side condition cannot be dropped                                                           *)
(* ================================================================================================ *)
(* Two runs that reach the same document value {"a":null} and then add at /a/b with the option on.
   In the first the null was decoded from the document (a nil node): ensurePathExists takes it for a
   missing parent and puts an object in its place.  In the second the null was stored by an add (a
   raw node holding null): ensurePathExists takes it for an existing value that is no container,
   and the add reports the missing path.  No function of the document VALUE describes both; the
   reference of this file says unreachable, the first run is where add_path_clear fails. *)
Example null_parent_depends_on_representation :
  match api_decode (B "[{""op"":""add"",""path"":""/a/b"",""value"":1}]"),
        api_decode (B "[{""op"":""add"",""path"":""/a"",""value"":null},{""op"":""add"",""path"":""/a/b"",""value"":1}]") with
  | Some p1, Some p2 =>
      let o := mkOpts false 0 false true false [] None in
      api_apply o [] p1 (B "{""a"":null}") = ROut (B "{""a"":{""b"":1}}") /\
      rfc_ens_apply (dia o) (OObj [(B "a", ONull)]) (map den_op p1) = Failed 0 FUnreachable /\
      ens_run_fits (dia o) (OObj [(B "a", ONull)]) (map den_op p1) = false /\
      api_apply o [] p2 (B "{}") = RErr (Some 1%nat) EMissing /\
      rfc_ens_apply (dia o) (OObj []) (map den_op p2) = Failed 1 FUnreachable
  | _, _ => False
  end.
Proof. vm_compute. repeat split; reflexivity. Qed.

(* ================================================================================================ *)
(* 9. the option together with AllowMissingPathOnRemove and a copy-size limit                        *)
(* ================================================================================================ *)
(* the reference for every setting of the two other options, on decoded operations: a remove that
   the plain reference cannot perform for a forgiven reason (AllowEnsureFacts.absent_remove) is
   skipped when allow is on; everything else is rfc_ens_step.  The copy-size limit is no part of the
   reference: it shows as the third alternative of the theorems (the limit error, at a copy) *)
Definition rfc_opt_step (allow : bool) (d : dialect) (doc : ojson) (op : operation) : Rfc6902.res ojson :=
  if allow && absent_remove d doc op then ROk doc else rfc_ens_step d doc (den_op op).

Fixpoint rfc_opt_apply_from (allow : bool) (d : dialect) (i : nat) (doc : ojson) (p : list operation) : outcome :=
  match p with
  | [] => Done doc
  | op :: rest =>
      match rfc_opt_step allow d doc op with
      | ROk doc' => rfc_opt_apply_from allow d (S i) doc' rest
      | RFail c => Failed i c
      end
  end.

Fixpoint opt_run_fits (allow : bool) (d : dialect) (doc : ojson) (p : list operation) : bool :=
  match p with
  | [] => true
  | op :: rest =>
      ens_fits d doc (den_op op) &&
      match rfc_opt_step allow d doc op with
      | ROk doc' => opt_run_fits allow d doc' rest
      | RFail _ => true
      end
  end.

(* with allow off this is the reference of section 1 *)
Lemma rfc_opt_apply_allow_off d : forall p i doc,
  rfc_opt_apply_from false d i doc p = rfc_ens_apply_from d i doc (map den_op p).
Proof.
  induction p as [|op p IH]; intros i doc; cbn [rfc_opt_apply_from rfc_ens_apply_from map]; [reflexivity|].
  unfold rfc_opt_step. cbn [andb]. destruct (rfc_ens_step d doc (den_op op)); [apply IH | reflexivity].
Qed.

Lemma opt_run_fits_allow_off d : forall p doc,
  opt_run_fits false d doc p = ens_run_fits d doc (map den_op p).
Proof.
  induction p as [|op p IH]; intro doc; cbn [opt_run_fits ens_run_fits map]; [reflexivity|].
  unfold rfc_opt_step. cbn [andb]. destruct (rfc_ens_step d doc (den_op op)); [now rewrite IH | reflexivity].
Qed.

Lemma absent_remove_not_remove d doc op : op_kind op <> KRemove -> absent_remove d doc op = false.
Proof. unfold absent_remove. destruct (op_kind op); congruence. Qed.

(* one operation, the option on, any setting of allow, no limit *)
Theorem opt_step_sim o st op :
  sgood st -> o_ensure o = true -> o_limit o = 0%Z -> ens_op_dom op ->
  ens_fits (dia o) (sval st) (den_op op) = true ->
  match rfc_opt_step (o_allow o) (dia o) (sval st) op with
  | ROk j' => exists st', step o st op = Ok st' /\ sval st' = j' /\ sgood st'
  | RFail cz => exists e, step o st op = Err e /\ cause_rel cz e
  end.
Proof.
  intros G En Lim D Fit. unfold rfc_opt_step. destruct (o_allow o) eqn:Al; cbn [andb].
  - assert (Dec : op_kind op = KRemove \/ op_kind op <> KRemove) by (destruct (op_kind op); auto; right; discriminate).
    destruct Dec as [Ek|NR].
    + (* remove: the option of this file is not consulted *)
      assert (AO : allow_opts (set_ensure o false)) by (split; [exact Al | split; [reflexivity | exact Lim]]).
      assert (NA : op_kind op <> KAdd) by congruence.
      unfold ens_fits in Fit. apply andb_prop in Fit as [Fit _].
      pose proof (step_allow_sim (set_ensure o false) st op G AO (proj1 D) Fit) as S.
      rewrite (step_ensure_irrelevant o false st op NA) in S. change (dia (set_ensure o false)) with (dia o) in S.
      rewrite rfc_ens_step_not_add by (unfold den_op; cbn [rkind]; rewrite Ek; discriminate).
      destruct (absent_remove (dia o) (sval st) op); [|exact S].
      destruct S as [st' [S1 [S2 [S3 _]]]]. eauto.
    + (* not a remove: allow is not consulted *)
      rewrite (absent_remove_not_remove _ _ _ NR).
      assert (EO : ensure_opts (set_allow o false)) by (split; [exact En | split; [reflexivity | exact Lim]]).
      pose proof (ens_step_sim (set_allow o false) st op G EO D Fit) as S.
      rewrite (step_allow_off_dom o st op (proj1 D) NR) in S. exact S.
  - exact (ens_step_sim o st op G (conj En (conj Al Lim)) D Fit).
Qed.

(* ... and under any copy-size limit: the limit error at a copy that reaches deepCopy with a size
   that pushes the total over the limit (CauseFacts.copy_over), otherwise as above *)
Theorem opt_step_sim_limit o st op :
  sgood st -> o_ensure o = true -> ens_op_dom op ->
  ens_fits (dia o) (sval st) (den_op op) = true ->
  match copy_over o st op with
  | Some total =>
      step o st op = Err (ECopyLimit (o_limit o) total) /\ op_kind op = KCopy /\
      (0 < o_limit o)%Z /\ (o_limit o < total)%Z
  | None =>
      match rfc_opt_step (o_allow o) (dia o) (sval st) op with
      | ROk j' => exists st', step o st op = Ok st' /\ sval st' = j' /\ sgood st'
      | RFail cz => exists e, step o st op = Err e /\ cause_rel cz e
      end
  end.
Proof.
  intros G En D Fit. rewrite step_split. destruct (copy_over o st op) as [total|] eqn:E.
  - split; [reflexivity|]. destruct (copy_over_inv o st op total E) as [K [sz [_ [_ [L1 L2]]]]]. auto.
  - exact (opt_step_sim (set_limit o 0) st op G En eq_refl D Fit).
Qed.

(* the patch is stopped by the limit error at operation k, a copy *)
Definition limit_stopped_at (o : opts) (i : nat) (st : state) (p : list operation) (k : nat) : Prop :=
  exists total, apply_from o i st p = AErr k (ECopyLimit (o_limit o) total) /\ (i <= k)%nat /\
                (0 < o_limit o)%Z /\ (o_limit o < total)%Z /\
                exists op, nth_error p (k - i) = Some op /\ op_kind op = KCopy.

Lemma rfc_opt_failed_ge allow d : forall p i doc k cz, rfc_opt_apply_from allow d i doc p = Failed k cz -> (i <= k)%nat.
Proof.
  induction p as [|op p IH]; intros i doc k cz; cbn [rfc_opt_apply_from]; [discriminate|].
  destruct (rfc_opt_step allow d doc op).
  - intro H. apply IH in H. lia.
  - intro H. inversion H. lia.
Qed.

(* whole patches, the option on, every setting of the two others: the document value of the
   reference, or failure at the same operation with an error of the corresponding class, or the
   limit error at a copy (not later than the reference's failure) *)
Theorem opt_apply_sim o : o_ensure o = true -> forall p i st,
  sgood st -> Forall ens_op_dom p ->
  opt_run_fits (o_allow o) (dia o) (sval st) p = true ->
  match rfc_opt_apply_from (o_allow o) (dia o) i (sval st) p with
  | Done doc => (exists st', apply_from o i st p = AOk st' /\ sval st' = doc /\ sgood st') \/
                (exists k, limit_stopped_at o i st p k)
  | Failed j cz => (exists e, apply_from o i st p = AErr j e /\ cause_rel cz e) \/
                   (exists k, limit_stopped_at o i st p k /\ (k <= j)%nat)
  end.
Proof.
  intros En. induction p as [|op p IH]; intros i st G D F.
  - cbn [rfc_opt_apply_from apply_from]. left. exists st. auto.
  - inversion D as [|? ? Dop Dp]; subst. cbn [opt_run_fits] in F. apply andb_prop in F as [F1 F2].
    pose proof (opt_step_sim_limit o st op G En Dop F1) as S.
    destruct (copy_over o st op) as [total|] eqn:CO.
    + destruct S as [S1 [S2 [S3 S4]]].
      assert (LS : limit_stopped_at o i st (op :: p) i).
      { exists total. cbn [apply_from]. rewrite S1. split; [reflexivity|]. split; [lia|]. split; [exact S3|]. split; [exact S4|].
        exists op. rewrite Nat.sub_diag. split; [reflexivity | exact S2]. }
      destruct (rfc_opt_apply_from (o_allow o) (dia o) i (sval st) (op :: p)) as [doc|j cz] eqn:R; right; exists i; [exact LS|].
      split; [exact LS|]. eapply rfc_opt_failed_ge; eauto.
    + cbn [rfc_opt_apply_from apply_from].
      destruct (rfc_opt_step (o_allow o) (dia o) (sval st) op) as [j'|cz] eqn:RS.
      * destruct S as [st' [S1 [S2 S3]]]. rewrite S1. rewrite <- S2 in F2.
        specialize (IH (S i) st' S3 Dp F2). rewrite S2 in IH.
        assert (Lift : forall k, limit_stopped_at o (S i) st' p k -> limit_stopped_at o i st (op :: p) k).
        { intros k [tot [L1 [L2 [L3 [L4 [op1 [L5 L6]]]]]]]. exists tot. cbn [apply_from]. rewrite S1.
          split; [exact L1|]. split; [lia|]. split; [exact L3|]. split; [exact L4|]. exists op1. split; [|exact L6].
          replace (k - i)%nat with (S (k - S i))%nat by lia. exact L5. }
        destruct (rfc_opt_apply_from (o_allow o) (dia o) (S i) j' p) as [doc|j cz].
        -- destruct IH as [IH|[k IH]]; [left; exact IH | right; exists k; exact (Lift k IH)].
        -- destruct IH as [IH|[k [IH Lk]]]; [left; exact IH | right; exists k; split; [exact (Lift k IH) | exact Lk]].
      * destruct S as [e [S1 S2]]. rewrite S1. left. eauto.
Qed.

(* Apply on bytes, the option on, every setting of the two others *)
Theorem api_apply_opt_sim o indent p doc t :
  o_ensure o = true -> parse doc = Some t -> root_container t = true -> tnodup t = true ->
  Forall ens_op_dom p ->
  opt_run_fits (o_allow o) (dia o) (den t) p = true ->
  match rfc_opt_apply_from (o_allow o) (dia o) 0 (den t) p with
  | Done j => (exists n, api_apply o indent p doc = ROut (output o indent (render (o_esc o) n)) /\ aval n = j /\ ngood n) \/
              (exists k total, api_apply o indent p doc = RErr (Some k) (ECopyLimit (o_limit o) total) /\
                               (0 < o_limit o)%Z /\ (o_limit o < total)%Z)
  | Failed i cz => (exists e, api_apply o indent p doc = RErr (Some i) e /\ cause_rel cz e) \/
                   (exists k total, api_apply o indent p doc = RErr (Some k) (ECopyLimit (o_limit o) total) /\
                                    (k <= i)%nat /\ (0 < o_limit o)%Z /\ (o_limit o < total)%Z)
  end.
Proof.
  intros En P RC T D F. unfold api_apply. destruct doc as [|b doc]; [rewrite parse_nil in P; discriminate|].
  rewrite P. unfold apply_tree.
  destruct (load_doc_good o _ t P RC T) as [c [S1 [S2 S3]]]. rewrite S1.
  assert (F' : opt_run_fits (o_allow o) (dia o) (sval (mkState (RCon c) 0)) p = true).
  { unfold sval. cbn [s_root]. rewrite S3. exact F. }
  pose proof (opt_apply_sim o En p 0%nat (mkState (RCon c) 0) (ex_intro _ c (conj eq_refl S2)) D F') as AS.
  unfold sval in AS at 1. cbn [s_root] in AS. rewrite S3 in AS.
  destruct (rfc_opt_apply_from (o_allow o) (dia o) 0 (den t) p) as [j|i cz].
  - destruct AS as [[st' [A1 [A2 [c' [A3 A4]]]]]|[k [total [A1 [_ [A3 [A4 _]]]]]]].
    + left. rewrite A1. unfold marshal_root. rewrite A3.
      exists (node_of_con c'). unfold sval in A2. rewrite A3 in A2.
      destruct c' as [s k ob| |s ns]; [| exfalso; exact (proj2 A4) |]; (split; [reflexivity | split; [exact A2 | exact (proj1 A4)]]).
    + right. rewrite A1. eauto.
  - destruct AS as [[e [A1 A2]]|[k [[total [A1 [_ [A3 [A4 _]]]]] Lk]]].
    + left. rewrite A1. eauto.
    + right. rewrite A1. exists k, total. auto.
Qed.

(* the error classes, the option on, every setting of the two others: Apply fails not later than
   the reference; unless the error is the copy-size error (possible only under a positive limit) it
   fails AT the reference's first failing operation, with the class of the reference's cause *)
Theorem opt_cause o indent p doc t i cz :
  o_ensure o = true -> parse doc = Some t -> root_container t = true -> tnodup t = true ->
  Forall ens_op_dom p -> opt_run_fits (o_allow o) (dia o) (den t) p = true ->
  rfc_opt_apply_from (o_allow o) (dia o) 0 (den t) p = Failed i cz ->
  exists k e, api_apply o indent p doc = RErr (Some k) e /\ (k <= i)%nat /\
    (is_copy_limit e = false ->
       k = i /\ (e = ETestFailed <-> cz = FTest) /\ (cz = FMissingMember \/ cz = FUnreachable -> e = EMissing)) /\
    (is_copy_limit e = true -> (0 < o_limit o)%Z).
Proof.
  intros En P RC T D F R.
  pose proof (api_apply_opt_sim o indent p doc t En P RC T D F) as S. rewrite R in S.
  destruct S as [[e [S1 S2]]|[k [total [S1 [S2 [S3 S4]]]]]].
  - exists i, e. split; [exact S1|]. split; [lia|]. split.
    + intros _. split; [reflexivity|]. split; [apply cause_rel_test_iff; exact S2 | apply cause_rel_missing; exact S2].
    + intro CL. rewrite (cause_rel_not_limit cz e S2) in CL. discriminate CL.
  - exists k, (ECopyLimit (o_limit o) total). split; [exact S1|]. split; [exact S2|]. split.
    + intro CL. discriminate CL.
    + intros _. exact S3.
Qed.

(* ================================================================================================ *)
(* 10. the theorems applied                                                                           *)
(* ================================================================================================ *)
From JP Require PointerDomain StrInv.

(* a boolean form of the add-path domain (tokens of ASCII bytes), to discharge ens_op_dom by computation *)
Definition ctok_ascii_ok (t : bytes) : bool :=
  PointerDomain.token_dom t && forallb (fun c => bn c <? 128) (decode_token t) &&
  match canonical_neg (decode_token t) with None => true | Some _ => false end.

Lemma ctok_ascii_ok_ctok t : ctok_ascii_ok t = true -> ctok (decode_token t).
Proof.
  unfold ctok_ascii_ok. intro H. apply andb_prop in H as [H C]. apply andb_prop in H as [A B0]. split.
  - apply PointerDomain.token_dom_iff. split; [exact A | apply StrInv.utf8_ascii; exact B0].
  - destruct (canonical_neg (decode_token t)); [discriminate C | reflexivity].
Qed.

Definition add_path_ok (op : operation) : bool :=
  match op_kind op, op_str op (B "path") with
  | KAdd, Ok (c :: r) => Byte.eqb c x2f && forallb ctok_ascii_ok (split_slash r)
  | _, _ => true
  end.

Lemma add_paths_ok_dom p : Forall op_dom p -> forallb add_path_ok p = true -> Forall ens_op_dom p.
Proof.
  rewrite forallb_forall, !Forall_forall. intros D A op Hin. split; [exact (D op Hin)|].
  intros Ek r Hp. specialize (A op Hin). unfold add_path_ok in A. rewrite Ek, Hp in A.
  apply andb_prop in A as [_ A]. rewrite forallb_forall in A.
  rewrite Forall_map. apply Forall_forall. intros t Ht. apply ctok_ascii_ok_ctok. exact (A t Ht).
Qed.

(* The document {"k":[9],"x":{"z":0}} and four operations with EnsurePathExistsOnAdd on:
     add    /a/2/b {"v":1}   neither /a nor /a/2 exists: "a" becomes an array (the next token is an
                             index) padded with two nulls, its element 2 an object (the next token is
                             a name) that receives the member b
     test   /a/2/b {"v":1}   the created value is there
     copy   /a/2 -> /x/c     ... and can be copied out of the created array
     remove /k/0
   Every hypothesis of api_apply_ens_sim is discharged; the theorem yields the output as the
   encoding of a node denoting the reference's document; the bytes are shown. *)
Definition ens_ex_doc := B "{""k"":[9],""x"":{""z"":0}}".
Definition ens_ex_patch :=
  B "[{""op"":""add"",""path"":""/a/2/b"",""value"":{""v"":1}},{""op"":""test"",""path"":""/a/2/b"",""value"":{""v"":1}},{""op"":""copy"",""from"":""/a/2"",""path"":""/x/c""},{""op"":""remove"",""path"":""/k/0""}]".
Definition ens_ex_out := B "{""k"":[],""x"":{""z"":0,""c"":{""b"":{""v"":1}}},""a"":[null,null,{""b"":{""v"":1}}]}".
Definition ens_ex_o := mkOpts false 0 false true false [] None.
Definition ens_ex_t : tjson := Eval vm_compute in match parse ens_ex_doc with Some t => t | None => TNull end.
Definition ens_ex_p : list operation := Eval vm_compute in match api_decode ens_ex_patch with Some p => p | None => [] end.
Definition ens_ex_result : ojson :=
  Eval vm_compute in match parse ens_ex_out with Some t => den t | None => ONull end.

Example ens_main_theorem_applies :
  length ens_ex_p = 4%nat /\
  rfc_ens_apply (dia ens_ex_o) (den ens_ex_t) (map den_op ens_ex_p) = Done ens_ex_result /\
  (exists n, api_apply ens_ex_o [] ens_ex_p ens_ex_doc = ROut (output ens_ex_o [] (render (o_esc ens_ex_o) n)) /\
             aval n = ens_ex_result /\ ngood n) /\
  api_apply ens_ex_o [] ens_ex_p ens_ex_doc = ROut ens_ex_out /\
  (* without the option the first operation fails: the parent /a does not exist *)
  rfc_apply (dia ens_ex_o) (den ens_ex_t) (map den_op ens_ex_p) = Failed 0 FUnreachable.
Proof.
  assert (EO : ensure_opts ens_ex_o) by (split; [reflexivity | split; reflexivity]).
  assert (P : parse ens_ex_doc = Some ens_ex_t) by (vm_compute; reflexivity).
  assert (RC : root_container ens_ex_t = true) by reflexivity.
  assert (T : tnodup ens_ex_t = true) by (vm_compute; reflexivity).
  assert (Dc : api_decode ens_ex_patch = Some ens_ex_p) by (vm_compute; reflexivity).
  assert (D0 : Forall op_dom ens_ex_p)
    by (apply (PointerDomain.decoded_in_domain_op_dom ens_ex_patch ens_ex_p Dc); vm_compute; reflexivity).
  assert (D : Forall ens_op_dom ens_ex_p) by (apply add_paths_ok_dom; [exact D0 | vm_compute; reflexivity]).
  assert (F : ens_run_fits (dia ens_ex_o) (den ens_ex_t) (map den_op ens_ex_p) = true) by (vm_compute; reflexivity).
  assert (R : rfc_ens_apply (dia ens_ex_o) (den ens_ex_t) (map den_op ens_ex_p) = Done ens_ex_result) by (vm_compute; reflexivity).
  pose proof (api_apply_ens_sim ens_ex_o [] ens_ex_p ens_ex_doc ens_ex_t EO P RC T D F) as S. rewrite R in S.
  split; [reflexivity|]. split; [exact R|]. split; [exact S|]. split; vm_compute; reflexivity.
Qed.

(* the failure side: the same document, the created array addressed by a member name (nothing can be
   created there: ens undefined, no null on the way): ErrMissing at operation 1, as ens_cause says *)
Definition ens_ex_patch2 :=
  B "[{""op"":""add"",""path"":""/a/2/b"",""value"":1},{""op"":""add"",""path"":""/a/q/r"",""value"":2}]".
Definition ens_ex_p2 : list operation := Eval vm_compute in match api_decode ens_ex_patch2 with Some p => p | None => [] end.

Example ens_cause_applies :
  rfc_ens_apply (dia ens_ex_o) (den ens_ex_t) (map den_op ens_ex_p2) = Failed 1 FUnreachable /\
  api_apply ens_ex_o [] ens_ex_p2 ens_ex_doc = RErr (Some 1%nat) EMissing.
Proof.
  assert (EO : ensure_opts ens_ex_o) by (split; [reflexivity | split; reflexivity]).
  assert (P : parse ens_ex_doc = Some ens_ex_t) by (vm_compute; reflexivity).
  assert (RC : root_container ens_ex_t = true) by reflexivity.
  assert (T : tnodup ens_ex_t = true) by (vm_compute; reflexivity).
  assert (Dc : api_decode ens_ex_patch2 = Some ens_ex_p2) by (vm_compute; reflexivity).
  assert (D0 : Forall op_dom ens_ex_p2)
    by (apply (PointerDomain.decoded_in_domain_op_dom ens_ex_patch2 ens_ex_p2 Dc); vm_compute; reflexivity).
  assert (D : Forall ens_op_dom ens_ex_p2) by (apply add_paths_ok_dom; [exact D0 | vm_compute; reflexivity]).
  assert (F : ens_run_fits (dia ens_ex_o) (den ens_ex_t) (map den_op ens_ex_p2) = true) by (vm_compute; reflexivity).
  assert (R : rfc_ens_apply (dia ens_ex_o) (den ens_ex_t) (map den_op ens_ex_p2) = Failed 1 FUnreachable) by (vm_compute; reflexivity).
  destruct (ens_cause ens_ex_o [] ens_ex_p2 ens_ex_doc ens_ex_t 1%nat FUnreachable EO P RC T D F R) as [e [E1 [_ [_ [E3 _]]]]].
  split; [exact R|]. rewrite E1, (E3 (or_intror eq_refl)). reflexivity.
Qed.

(* all three options at once: EnsurePathExistsOnAdd and AllowMissingPathOnRemove on, a copy-size limit.
   The add creates /a (an array, one null of padding) and /a/1 (an object); the remove of the absent
   /zz/y is skipped; the copy out of the created array succeeds under the limit 1000; the test of the
   copied value fails: ErrTestFailed at operation 3, as opt_cause says.  Under the limit 5 the copy
   (9 bytes) trips the limit at operation 2, before the reference's failure *)
Definition ens_ex_doc3 := B "{""k"":[9]}".
Definition ens_ex_patch3 :=
  B "[{""op"":""add"",""path"":""/a/1/b"",""value"":[7]},{""op"":""remove"",""path"":""/zz/y""},{""op"":""copy"",""from"":""/a/1"",""path"":""/c""},{""op"":""test"",""path"":""/c/b/0"",""value"":8}]".
Definition ens_ex_o3 (limit : Z) := mkOpts false limit true true false [] None.
Definition ens_ex_t3 : tjson := Eval vm_compute in match parse ens_ex_doc3 with Some t => t | None => TNull end.
Definition ens_ex_p3 : list operation := Eval vm_compute in match api_decode ens_ex_patch3 with Some p => p | None => [] end.

Example opt_cause_applies :
  rfc_opt_apply_from true (mkDialect false) 0 (den ens_ex_t3) ens_ex_p3 = Failed 3 FTest /\
  api_apply (ens_ex_o3 1000) [] ens_ex_p3 ens_ex_doc3 = RErr (Some 3%nat) ETestFailed /\
  api_apply (ens_ex_o3 5) [] ens_ex_p3 ens_ex_doc3 = RErr (Some 2%nat) (ECopyLimit 5 9).
Proof.
  assert (P : parse ens_ex_doc3 = Some ens_ex_t3) by (vm_compute; reflexivity).
  assert (RC : root_container ens_ex_t3 = true) by reflexivity.
  assert (T : tnodup ens_ex_t3 = true) by (vm_compute; reflexivity).
  assert (Dc : api_decode ens_ex_patch3 = Some ens_ex_p3) by (vm_compute; reflexivity).
  assert (D0 : Forall op_dom ens_ex_p3)
    by (apply (PointerDomain.decoded_in_domain_op_dom ens_ex_patch3 ens_ex_p3 Dc); vm_compute; reflexivity).
  assert (D : Forall ens_op_dom ens_ex_p3) by (apply add_paths_ok_dom; [exact D0 | vm_compute; reflexivity]).
  assert (F : opt_run_fits true (mkDialect false) (den ens_ex_t3) ens_ex_p3 = true) by (vm_compute; reflexivity).
  assert (R : rfc_opt_apply_from true (mkDialect false) 0 (den ens_ex_t3) ens_ex_p3 = Failed 3 FTest) by (vm_compute; reflexivity).
  split; [exact R|]. split.
  - destruct (opt_cause (ens_ex_o3 1000) [] ens_ex_p3 ens_ex_doc3 ens_ex_t3 3%nat FTest eq_refl P RC T D F R)
      as [k [e [E1 [E2 [E3 E4]]]]].
    assert (V : api_apply (ens_ex_o3 1000) [] ens_ex_p3 ens_ex_doc3 = RErr (Some 3%nat) ETestFailed) by (vm_compute; reflexivity).
    rewrite V in E1. inversion E1; subst k e.
    destruct (E3 eq_refl) as [_ [Q _]]. pose proof (proj2 Q eq_refl) as Q'. exact V.
  - destruct (opt_cause (ens_ex_o3 5) [] ens_ex_p3 ens_ex_doc3 ens_ex_t3 3%nat FTest eq_refl P RC T D F R)
      as [k [e [E1 [E2 _]]]].
    vm_compute. reflexivity.
Qed.

Print Assumptions step_ensure_irrelevant.
Print Assumptions ensure_none_sim.
Print Assumptions ensure_add_none.
Print Assumptions ens_step_sim.
Print Assumptions ens_apply_sim.
Print Assumptions api_apply_ens_sim.
Print Assumptions ens_agrees_when_parents_exist.
Print Assumptions ens_agrees_from.
Print Assumptions api_apply_ens_agrees.
Print Assumptions ens_cause.
Print Assumptions opt_step_sim.
Print Assumptions opt_step_sim_limit.
Print Assumptions opt_apply_sim.
Print Assumptions api_apply_opt_sim.
Print Assumptions opt_cause.
Print Assumptions null_parent_depends_on_representation.
Print Assumptions ens_main_theorem_applies.
Print Assumptions ens_cause_applies.
Print Assumptions opt_cause_applies.
