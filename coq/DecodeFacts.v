(* DecodeFacts.v — lemmas about DecodePatch's model (for C11). *)
From JP Require Import Bytes Json Text Strings Den ImplV5.

Lemma bseq_refl a : bseq a a = true.
Proof. induction a as [|x a IH]; simpl; auto. rewrite IH. destruct x; reflexivity. Qed.

Lemma bseq_eq a b : bseq a b = true -> a = b.
Proof.
  revert b; induction a as [|x a IH]; intros [|y b]; simpl; try discriminate; auto.
  intro H. apply andb_prop in H as [H1 H2]. apply Byte.byte_dec_bl in H1. subst. f_equal; auto.
Qed.

Lemma bseq_iff a b : bseq a b = true <-> a = b.
Proof. split; [apply bseq_eq | intros ->; apply bseq_refl]. Qed.

Lemma bseq_sym a b : bseq a b = bseq b a.
Proof.
  destruct (bseq a b) eqn:E.
  - apply bseq_eq in E; subst; symmetry; apply bseq_refl.
  - destruct (bseq b a) eqn:E'; auto. apply bseq_eq in E'; subst. rewrite bseq_refl in E; discriminate.
Qed.

(* the last member with the given decoded name *)
Fixpoint lookup_last (name : bytes) (ms : list (bytes * tjson)) (acc : option tjson) : option tjson :=
  match ms with
  | [] => acc
  | (k, v) :: r => lookup_last name r (if bseq name (unquote k) then Some v else acc)
  end.

Definition nullify (v : tjson) : option tjson := match v with TNull => None | _ => Some v end.

Lemma aget_aset_same {A} k (v : A) m : aget k (aset k v m) = Some v.
Proof.
  induction m as [|[k' v'] m IH]; simpl.
  - now rewrite bseq_refl.
  - destruct (bseq k k') eqn:E; simpl; rewrite E; auto.
Qed.

Lemma aget_aset_other {A} k k' (v : A) m : bseq k k' = false -> aget k (aset k' v m) = aget k m.
Proof.
  intro H. induction m as [|[k2 v2] m IH]; simpl.
  - now rewrite H.
  - destruct (bseq k' k2) eqn:E; simpl.
    + apply bseq_eq in E; subst. now rewrite H.
    + destruct (bseq k k2); auto.
Qed.

Lemma operation_of_go_spec name ms acc :
  aget name
    ((fix go (ms : list (bytes * tjson)) (acc : operation) : operation :=
        match ms with
        | [] => acc
        | (k, v) :: r => go r (aset (unquote k) (match v with TNull => None | _ => Some v end) acc)
        end) ms acc)
  = match lookup_last name ms None with
    | Some v => Some (nullify v)
    | None => aget name acc
    end.
Proof.
  revert acc. induction ms as [|[k v] ms IH]; intro acc; simpl; auto.
  rewrite IH. clear IH.
  assert (G : forall a, lookup_last name ms a = match lookup_last name ms None with Some x => Some x | None => a end).
  { clear. induction ms as [|[k v] ms IH]; intro a; simpl; auto.
    rewrite IH. rewrite (IH (if bseq name (unquote k) then Some v else None)).
    destruct (lookup_last name ms None); auto. destruct (bseq name (unquote k)); auto. }
  rewrite (G (if bseq name (unquote k) then Some v else None)).
  destruct (lookup_last name ms None); auto.
  destruct (bseq name (unquote k)) eqn:E.
  - apply bseq_eq in E; subst. now rewrite aget_aset_same.
  - now rewrite aget_aset_other.
Qed.

Lemma operation_of_spec name ms :
  aget name (operation_of ms) = option_map nullify (lookup_last name ms None).
Proof.
  unfold operation_of. rewrite operation_of_go_spec. destruct (lookup_last name ms None); auto.
Qed.
