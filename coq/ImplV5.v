(* ImplV5.v — executable model of v5/patch.go (JSON Patch application, Equal, DecodePatch).
   No proofs here.  One Gallina function per Go function, same control flow and order of checks;
   in-place mutation becomes functional update (see DESIGN.md section 3.3 for the two rules).

   node      = *lazyNode:  NNil is the nil pointer (a decoded JSON null); NRaw is which=eRaw with
               its raw message (as a spelled tree: whitespace is never observable, compact() and
               the encoder drop it); NDoc/NAry are which=eDoc/eAry with the parsed container.
   con       = a container the walk is standing in: *partialDoc (keys AND map, separately, as in
               the code) or *partialArray; self is the node get("") returns (only the root has one).
   root      = the interface value held in the doc pointer. *)
From JP Require Import Bytes Json Text Strings Den Pointer.

Inductive node :=
| NNil
| NRaw (t : tjson)
| NDoc (keys : list bytes) (obj : list (bytes * node))
| NAry (nodes : list node).

Inductive con :=
| KDoc (self : node) (keys : list bytes) (obj : list (bytes * node))
| KDocNil (self : node) (stale : list bytes)
    (* *partialDoc whose map is nil: the document null.  Its key list was never written by this
       decode: it holds whatever the pooled decoder's lastKeys held (see Pool.v, C09) *)
| KAry (self : node) (nodes : list node).

Inductive root :=
| RCon (c : con)
| RNull.                                  (* nil *partialArray: the root was replaced by null *)

Inductive errclass :=
| ETestFailed | EMissing | EInvalidIndex | EInvalid | EExpectedObject
| ECopyLimit (limit total : Z)
| EAtoi | EDecode | EOther.

Inductive res (A : Type) :=
| Ok (a : A)
| Err (e : errclass)
| Panic.
Arguments Ok {A} a.
Arguments Err {A} e.
Arguments Panic {A}.

Record opts := mkOpts {
  o_neg : bool;       (* SupportNegativeIndices *)
  o_limit : Z;        (* AccumulatedCopySizeLimit *)
  o_allow : bool;     (* AllowMissingPathOnRemove *)
  o_ensure : bool;    (* EnsurePathExistsOnAdd *)
  o_esc : bool;       (* EscapeHTML *)
  o_stale : list bytes; (* what a pooled decodeState's lastKeys holds when this call decodes a
                           null into a partialDoc: residue of an earlier call (C09/C10) *)
  o_nullsz : option Z (* None: a copied null is counted as the code counts it (0 for a nil node, 4
                         for a stored raw null); Some z: every copied null counts z bytes.  C12 lets
                         a copied null count 0 or 4; the correspondence evaluates both. *)
}.

(* ---- decoding a raw message one level (json.UnmarshalValid into map / slice) ---- *)
Definition child (t : tjson) : node := match t with TNull => NNil | _ => NRaw t end.

(* the Go map: last value wins; only lookups and len observe it *)
Fixpoint build_obj (ms : list (bytes * tjson)) (acc : list (bytes * node)) : list (bytes * node) :=
  match ms with
  | [] => acc
  | (k, v) :: r => build_obj r (aset (unquote k) (child v) acc)
  end.

Definition doc_of (ms : list (bytes * tjson)) : list bytes * list (bytes * node) :=
  (map (fun kv => unquote (fst kv)) ms, build_obj ms []).

(* ---- rendering back to a spelled tree (RedirectMarshalJSON / TrustMarshalJSON) ---- *)
Fixpoint render (esc : bool) (n : node) : tjson :=
  match n with
  | NNil => TNull
  | NRaw t => t
  | NDoc keys obj =>
      TObj (map (fun k => (quote esc k,
                           match (fix look (m : list (bytes * node)) : option tjson :=
                                    match m with
                                    | [] => None
                                    | (k', v) :: r => if bseq k k' then Some (render esc v) else look r
                                    end) obj with
                           | Some t => t
                           | None => TNull
                           end)) keys)
  | NAry ns => TArr (map (render esc) ns)
  end.

Definition node_of_con (c : con) : node :=
  match c with
  | KDoc _ keys obj => NDoc keys obj
  | KDocNil _ _ => NNil
  | KAry _ ns => NAry ns
  end.

(* ---- partialDoc / partialArray methods ---- *)
Definition resolve_idx_get (o : opts) (len : Z) (key : bytes) : res nat :=
  match atoi key with
  | None => Err EAtoi
  | Some idx =>
      if (idx <? 0)%Z then
        if negb (o_neg o) then Err EInvalidIndex
        else if (idx <? - len)%Z then Err EInvalidIndex
        else let idx := (idx + len)%Z in
             if (len <=? idx)%Z then Err EInvalidIndex else Ok (Z.to_nat idx)
      else if (len <=? idx)%Z then Err EInvalidIndex else Ok (Z.to_nat idx)
  end.

Definition zlen {A} (l : list A) : Z := Z.of_nat (length l).

Definition con_get (o : opts) (c : con) (key : bytes) : res node :=
  match c with
  | KDoc self keys obj =>
      match key with
      | [] => Ok self
      | _ => match aget key obj with Some v => Ok v | None => Err EMissing end
      end
  | KDocNil self _ =>
      match key with [] => Ok self | _ => Err EExpectedObject end
  | KAry self ns =>
      match key with
      | [] => Ok self
      | _ => match resolve_idx_get o (zlen ns) key with
             | Ok i => Ok (nth i ns NNil)
             | Err e => Err e
             | Panic => Panic
             end
      end
  end.

(* partialDoc.set / add *)
Definition doc_set (keys : list bytes) (obj : list (bytes * node)) (key : bytes) (v : node)
  : list bytes * list (bytes * node) :=
  ((if kmem key keys then keys else keys ++ [key]), aset key v obj).

(* partialArray.set: d.nodes[idx] = val panics when idx is out of range *)
Definition ary_set (o : opts) (ns : list node) (key : bytes) (v : node) : res (list node) :=
  match atoi key with
  | None => Err EAtoi
  | Some idx =>
      let len := zlen ns in
      if (idx <? 0)%Z then
        if negb (o_neg o) then Err EInvalidIndex
        else if (idx <? - len)%Z then Err EInvalidIndex
        else let idx := (idx + len)%Z in
             if (len <=? idx)%Z then Panic
             else Ok (firstn (Z.to_nat idx) ns ++ v :: skipn (S (Z.to_nat idx)) ns)
      else if (len <=? idx)%Z then Panic
           else Ok (firstn (Z.to_nat idx) ns ++ v :: skipn (S (Z.to_nat idx)) ns)
  end.

Definition ary_add (o : opts) (ns : list node) (key : bytes) (v : node) : res (list node) :=
  if bseq key [x2d] then Ok (ns ++ [v]) else
  match atoi key with
  | None => Err EAtoi
  | Some idx =>
      let sz := (zlen ns + 1)%Z in
      if (sz <=? idx)%Z then Err EInvalidIndex
      else if (idx <? 0)%Z then
        if negb (o_neg o) then Err EInvalidIndex
        else if (idx <? - sz)%Z then Err EInvalidIndex
        else let idx := (idx + sz)%Z in
             (* copy(ary[0:idx], cur.nodes[0:idx]): panics if idx > len(cur.nodes), which the
                checks above exclude only for idx < sz *)
             if (zlen ns <? idx)%Z then Panic
             else Ok (firstn (Z.to_nat idx) ns ++ v :: skipn (Z.to_nat idx) ns)
      else Ok (firstn (Z.to_nat idx) ns ++ v :: skipn (Z.to_nat idx) ns)
  end.

(* returns None when the remove is skipped (AllowMissingPathOnRemove) *)
Definition ary_remove (o : opts) (ns : list node) (key : bytes) : res (list node) :=
  match atoi key with
  | None => Err EAtoi
  | Some idx =>
      let len := zlen ns in
      if (len <=? idx)%Z then (if o_allow o then Ok ns else Err EInvalidIndex)
      else if (idx <? 0)%Z then
        if negb (o_neg o) then Err EInvalidIndex
        else if (idx <? - len)%Z then (if o_allow o then Ok ns else Err EInvalidIndex)
        else let idx := (idx + len)%Z in
             Ok (firstn (Z.to_nat idx) ns ++ skipn (S (Z.to_nat idx)) ns)
      else Ok (firstn (Z.to_nat idx) ns ++ skipn (S (Z.to_nat idx)) ns)
  end.

Definition con_add (o : opts) (c : con) (key : bytes) (v : node) : res con :=
  match c with
  | KDoc self keys obj => let (k', o') := doc_set keys obj key v in Ok (KDoc self k' o')
  | KDocNil _ _ => Err EExpectedObject
  | KAry self ns =>
      match ary_add o ns key v with
      | Ok ns' => Ok (KAry self ns') | Err e => Err e | Panic => Panic
      end
  end.

Definition con_set (o : opts) (c : con) (key : bytes) (v : node) : res con :=
  match c with
  | KDoc self keys obj => let (k', o') := doc_set keys obj key v in Ok (KDoc self k' o')
  | KDocNil _ _ => Err EExpectedObject
  | KAry self ns =>
      match ary_set o ns key v with
      | Ok ns' => Ok (KAry self ns') | Err e => Err e | Panic => Panic
      end
  end.

Definition con_remove (o : opts) (c : con) (key : bytes) : res con :=
  match c with
  | KDoc self keys obj =>
      if amem key obj then
        (* idx := first index in keys; keys[0:idx] with idx = -1 panics *)
        if kmem key keys then Ok (KDoc self (kdel1 key keys) (adel key obj)) else Panic
      else if o_allow o then Ok c else Err EMissing
  | KDocNil _ _ => Err EExpectedObject
  | KAry self ns =>
      match ary_remove o ns key with
      | Ok ns' => Ok (KAry self ns') | Err e => Err e | Panic => Panic
      end
  end.

(* ---- lazy parsing: intoDoc / intoAry as the walk uses them ---- *)
(* findObject: isArray(next.raw) ? intoAry : intoDoc.  None = the error branch. *)
Definition into_con (n : node) : option con :=
  match n with
  | NNil => None
  | NRaw (TObj ms) => let (k, o) := doc_of ms in Some (KDoc NNil k o)
  | NRaw (TArr l) => Some (KAry NNil (map child l))
  | NRaw _ => None
  | NDoc keys obj => Some (KDoc NNil keys obj)
  | NAry ns => Some (KAry NNil ns)
  end.

(* put a (possibly updated) child container back where get found it.  The node for the empty
   token is handed out fresh on every get (fix 1ccc25a): what is done to it is not kept *)
Definition con_put (o : opts) (c : con) (key : bytes) (ch : node) : con :=
  match c with
  | KDoc self keys obj =>
      match key with
      | [] => c
      | _ => KDoc self keys (aset key ch obj)
      end
  | KDocNil self st => c
  | KAry self ns =>
      match key with
      | [] => c
      | _ => match resolve_idx_get o (zlen ns) key with
             | Ok i => KAry self (firstn i ns ++ ch :: skipn (S i) ns)
             | _ => c
             end
      end
  end.

(* the walk of findObject along the decoded parts, then f at the container found.
   Result: (None, c') if findObject returns nil — c' still carries the parsing done on the way. *)
Fixpoint walk {A} (o : opts) (parts : list bytes) (c : con) (f : con -> A * con) {struct parts}
  : option A * con :=
  match parts with
  | [] => let (a, c') := f c in (Some a, c')
  | p :: rest =>
      let key := decode_token p in
      match con_get o c key with
      | Ok next =>
          match into_con next with
          | Some ch =>
              let (r, ch') := walk o rest ch f in
              (r, con_put o c key (node_of_con ch'))
          | None => (None, c)
          end
      | _ => (None, c)
      end
  end.

(* findObject: split the path; fewer than two pieces: "" is the document itself, anything else
   (no leading '/') is nil *)
Inductive found (A : Type) :=
| FoundRoot                   (* path "" : (doc, "") *)
| FoundNil                    (* nil container *)
| FoundAt (a : A).
Arguments FoundRoot {A}.
Arguments FoundNil {A}.
Arguments FoundAt {A} a.

Definition split_path (path : bytes) : option (list bytes * bytes) :=
  match split_slash path with
  | _ :: p :: ps =>
      let all := p :: ps in
      Some (removelast all, decode_token (last all []))
  | _ => None
  end.

Definition find {A} (o : opts) (c : con) (path : bytes) (f : con -> bytes -> A * con)
  : found A * con :=
  match split_path path with
  | None =>
      match path with
      | [] => let (a, c') := f c [] in (FoundAt a, c')
      | _ => (FoundNil, c)
      end
  | Some (parts, key) =>
      match walk o parts c (fun c' => f c' key) with
      | (Some a, c') => (FoundAt a, c')
      | (None, c') => (FoundNil, c')
      end
  end.

(* ---- equal ---- *)
Fixpoint tsize (t : tjson) : nat :=
  match t with
  | TArr l => S (fold_right (fun x a => tsize x + a) 0 l)
  | TObj ms => S (fold_right (fun x a => tsize (snd x) + a) 0 ms)
  | _ => 1
  end%nat.

Fixpoint nsize (n : node) : nat :=
  match n with
  | NNil => 1
  | NRaw t => tsize t
  | NDoc _ obj => S (fold_right (fun x a => nsize (snd x) + a) 0 obj)
  | NAry ns => S (fold_right (fun x a => nsize x + a) 0 ns)
  end%nat.

Definition is_null (n : node) : bool :=
  match n with
  | NNil => true
  | NRaw TNull => true
  | _ => false
  end.

(* one level of tryDoc / tryAry *)
Inductive shape :=
| SLeaf (t : tjson)
| SDoc (obj : list (bytes * node))
| SAry (ns : list node).

Definition shape_of (n : node) : shape :=
  match n with
  | NNil => SLeaf TNull
  | NRaw (TObj ms) => SDoc (snd (doc_of ms))
  | NRaw (TArr l) => SAry (map child l)
  | NRaw t => SLeaf t
  | NDoc _ obj => SDoc obj
  | NAry ns => SAry ns
  end.

Definition leaf_equal (a b : tjson) : bool :=
  match a, b with
  | TStr x, TStr y => bseq (unquote x) (unquote y)
  | _, _ => bseq (print false a) (print false b)
  end.

Fixpoint equal (fuel : nat) (n o : node) {struct fuel} : bool :=
  match fuel with
  | O => false
  | S f =>
      if is_null n || is_null o then is_null n && is_null o else
      match shape_of n, shape_of o with
      | SLeaf a, SLeaf b => leaf_equal a b
      | SLeaf _, _ => false
      | SDoc m, SDoc m' =>
          (length m =? length m')%nat &&
          forallb (fun kv => match aget (fst kv) m' with
                             | Some ov => equal f (snd kv) ov
                             | None => false
                             end) m
      | SDoc _, _ => false
      | SAry l, SAry l' =>
          (length l =? length l')%nat &&
          (fix go (l l' : list node) : bool :=
             match l, l' with
             | x :: r, y :: r' => equal f x y && go r r'
             | _, _ => true
             end) l l'
      | SAry _, _ => false
      end
  end.

Definition node_equal (n o : node) : bool := equal (nsize n + nsize o) n o.

(* what a successful equal leaves behind in n: every container below it parsed *)
Fixpoint deep_t (t : tjson) : node :=
  match t with
  | TNull => NNil
  | TObj ms =>
      NDoc (map (fun kv => unquote (fst kv)) ms)
           ((fix go (ms : list (bytes * tjson)) (acc : list (bytes * node)) :=
               match ms with
               | [] => acc
               | (k, v) :: r => go r (aset (unquote k) (deep_t v) acc)
               end) ms [])
  | TArr l => NAry (map deep_t l)
  | _ => NRaw t
  end.

Fixpoint deep (n : node) : node :=
  match n with
  | NNil => NNil
  | NRaw TNull => n                 (* a stored raw null stays a raw node *)
  | NRaw t => deep_t t
  | NDoc keys obj => NDoc keys (map (fun kv => (fst kv, deep (snd kv))) obj)
  | NAry ns => NAry (map deep ns)
  end.

(* ---- operations ---- *)
Inductive opk := KAdd | KRemove | KReplace | KMove | KCopy | KTest | KUnknown.

(* an Operation: map[string]*json.RawMessage; None = the member is JSON null (nil pointer) *)
Definition operation := list (bytes * option tjson).

Definition op_str (op : operation) (name : bytes) : res bytes :=
  match aget name op with
  | Some (Some (TStr b)) => Ok (unquote b)
  | Some (Some _) => Err EDecode
  | _ => Err EMissing
  end.

Definition op_kind (op : operation) : opk :=
  match op_str op (B "op") with
  | Ok s =>
      if bseq s (B "add") then KAdd else if bseq s (B "remove") then KRemove
      else if bseq s (B "replace") then KReplace else if bseq s (B "move") then KMove
      else if bseq s (B "copy") then KCopy else if bseq s (B "test") then KTest else KUnknown
  | _ => KUnknown
  end.

(* op.value(): nil when the member is absent *)
Definition op_value (op : operation) : option node :=
  match aget (B "value") op with
  | Some None => Some (NRaw TNull)
  | Some (Some t) => Some (NRaw t)
  | None => None
  end.

Definition root_of_value (o : opts) (t : tjson) : res root :=
  match t with
  | TObj ms => let (k, o) := doc_of ms in Ok (RCon (KDoc (NRaw t) k o))
  | TArr l => Ok (RCon (KAry (NRaw t) (map child l)))
  | TNull => Ok (RCon (KDocNil (NRaw t) (o_stale o)))
  | _ => Err EDecode
  end.

(* lift an operation on the container found to the root *)
Definition on_root {A} (r : root) (f : con -> found A * con) : found A * root :=
  match r with
  | RNull => (FoundNil, RNull)
  | RCon c => let (a, c') := f c in (a, RCon c')
  end.

(* ensurePathExists *)
Fixpoint pad_nulls (o : opts) (c : con) (from : nat) (count : nat) : con :=
  match count with
  | O => c
  | S k =>
      match con_add o c (itoa (N.of_nat from)) (NRaw TNull) with
      | Ok c' => pad_nulls o c' (S from) k
      | _ => pad_nulls o c (S from) k
      end
  end.

Definition ignore_err (c : con) (r : res con) : con := match r with Ok c' => c' | _ => c end.

(* returns (error?, updated container) *)
Fixpoint ensure (o : opts) (parts : list bytes) (c : con) {struct parts} : option errclass * con :=
  match parts with
  | [] => (None, c)
  | [_] => (None, c)
  | part :: ((nextp :: _) as rest) =>
      let key := decode_token part in
      let existing :=
        match con_get o c key with
        | Ok NNil => None
        | Ok n => Some n
        | _ => None
        end in
      match existing with
      | None =>
          (* pad the current array up to the index *)
          let c1 :=
            match atoi part, c with
            | Some idx, KAry _ ns =>
                if (zlen ns + 1 <=? idx)%Z
                then pad_nulls o c (length ns) (Z.to_nat (idx - zlen ns))
                else c
            | _, _ => c
            end in
          let next_idx := atoi nextp in
          match next_idx, bseq nextp [x2d] with
          | None, false =>
              (* create an object *)
              (* doc.add(key, newNode) then newNode.intoDoc: the node sits where add put it (or
                 nowhere, when add failed) and is filled in place: same as adding the filled node *)
              let (e, ch') := ensure o rest (KDoc NNil [] []) in
              (e, ignore_err c1 (con_add o c1 key (node_of_con ch')))
          | _, _ =>
              let ai := match next_idx with Some i => i | None => 0%Z end in
              if (ai <? 0)%Z && negb (o_neg o) then (Some EInvalidIndex, c1)
              else if (ai <? -1)%Z then (Some EInvalidIndex, c1)
              else
                let ai := if (ai <? 0)%Z then 0%Z else ai in
                let ch := pad_nulls o (KAry NNil []) 0 (Z.to_nat ai) in
                let (e, ch') := ensure o rest ch in
                (e, ignore_err c1 (con_add o c1 key (node_of_con ch')))
          end
      | Some n =>
          match n with
          | NRaw (TArr _) | NAry _ =>
              match into_con n with
              | Some ch => let (e, ch') := ensure o rest ch in (e, con_put o c key (node_of_con ch'))
              | None => (Some EOther, c)
              end
          | _ =>
              match into_con n with
              | Some ((KDoc _ _ _) as ch) =>
                  let (e, ch') := ensure o rest ch in (e, con_put o c key (node_of_con ch'))
              | _ => (None, c)   (* an existing value that is not a container: nothing to create; the
                                    add that follows reports the unreachable path (fix 584e880) *)
              end
          end
      end
  end.

Definition ensure_path (o : opts) (c : con) (path : bytes) : option errclass * con :=
  match split_slash path with
  | _ :: p :: ps => ensure o (p :: ps) c
  | _ => (None, c)
  end.

(* the state threaded through a patch: the root and the copy-size accumulator *)
Record state := mkState { s_root : root; s_acc : Z }.

Definition escape_tree (esc : bool) : tjson -> tjson :=
  if esc then
    (fix go (t : tjson) : tjson :=
       match t with
       | TStr b => TStr (html_escape b)
       | TArr l => TArr (map go l)
       | TObj ms => TObj (map (fun kv => (html_escape (fst kv), go (snd kv))) ms)
       | _ => t
       end)
  else fun t => t.

(* deepCopy: marshal with the escape setting, wrap as a fresh raw node; size = bytes written *)
Definition deep_copy (o : opts) (n : node) : node * Z :=
  match n with
  | NNil => (NNil, match o_nullsz o with Some z => z | None => 0%Z end)
  | _ =>
      let t := render (o_esc o) n in
      (NRaw (escape_tree (o_esc o) t),
       match n, o_nullsz o with
       | NRaw TNull, Some z => z
       | _, _ => zlen (print (o_esc o) t)
       end)
  end.

Definition copy_too_deep (o : opts) (n : node) : bool :=
  match n with
  | NNil => false
  | _ => (max_depth <? tdepth (render (o_esc o) n))%N
  end.

Definition root_node (r : root) : node :=
  match r with
  | RCon c => node_of_con c
  | RNull => NNil
  end.

Definition op_add (o : opts) (st : state) (op : operation) : res state :=
  match op_str op (B "path") with
  | Err _ | Panic => Err EMissing
  | Ok path =>
      match path with
      | [] =>
          match op_value op with
          | None => Panic                     (* val.raw on a nil node *)
          | Some (NRaw t) =>
              match root_of_value o t with
              | Ok r => Ok (mkState r (s_acc st))
              | Err e => Err e
              | Panic => Panic
              end
          | Some _ => Panic
          end
      | _ =>
          match s_root st with
          | RNull => Err EMissing
          | RCon c =>
              let (e, c1) := if o_ensure o then ensure_path o c path else (None, c) in
              match e with
              | Some err => Err err
              | None =>
                  let v := match op_value op with Some v => v | None => NNil end in
                  match find o c1 path (fun c' key => (con_add o c' key v,
                                                       match con_add o c' key v with Ok c'' => c'' | _ => c' end)) with
                  | (FoundAt (Ok _), c2) => Ok (mkState (RCon c2) (s_acc st))
                  | (FoundAt (Err e), _) => Err e
                  | (FoundAt Panic, _) => Panic
                  | (_, _) => Err EMissing
                  end
              end
          end
      end
  end.

Definition op_remove (o : opts) (st : state) (op : operation) : res state :=
  match op_str op (B "path") with
  | Err _ | Panic => Err EMissing
  | Ok path =>
      match s_root st with
      | RNull => if o_allow o then Ok st else Err EMissing
      | RCon c =>
          match find o c path (fun c' key => (con_remove o c' key,
                                              match con_remove o c' key with Ok c'' => c'' | _ => c' end)) with
          | (FoundAt (Ok _), c2) => Ok (mkState (RCon c2) (s_acc st))
          | (FoundAt (Err e), _) => Err e
          | (FoundAt Panic, _) => Panic
          | (_, c2) => if o_allow o then Ok (mkState (RCon c2) (s_acc st)) else Err EMissing
          end
      end
  end.

Definition op_replace (o : opts) (st : state) (op : operation) : res state :=
  match op_str op (B "path") with
  | Err e => Err e
  | Panic => Panic
  | Ok path =>
      match path with
      | [] =>
          match op_value op with
          | None => Panic
          | Some (NRaw (TObj ms)) => let (k, ob) := doc_of ms in Ok (mkState (RCon (KDoc NNil k ob)) (s_acc st))
          | Some (NRaw (TArr l)) => Ok (mkState (RCon (KAry NNil (map child l))) (s_acc st))
          | Some (NRaw TNull) => Ok (mkState RNull (s_acc st))
          | Some _ => Err EOther
          end
      | _ =>
          match s_root st with
          | RNull => Err EMissing
          | RCon c =>
              let v := match op_value op with Some v => v | None => NNil end in
              match find o c path (fun c' key =>
                                     match con_get o c' key with
                                     | Ok _ =>
                                         (con_set o c' key v, match con_set o c' key v with Ok c'' => c'' | _ => c' end)
                                     | Err _ => (Err EMissing, c')
                                     | Panic => (Panic, c')
                                     end) with
              | (FoundAt (Ok _), c2) => Ok (mkState (RCon c2) (s_acc st))
              | (FoundAt (Err e), _) => Err e
              | (FoundAt Panic, _) => Panic
              | (_, _) => Err EMissing
              end
          end
      end
  end.

Definition op_move (o : opts) (st : state) (op : operation) : res state :=
  match op_str op (B "from") with
  | Err e => Err e
  | Panic => Panic
  | Ok from =>
      match from with
      | [] => Err EInvalid
      | _ =>
          match s_root st with
          | RNull => Err EMissing
          | RCon c =>
              (* get, then remove, at the source *)
              match find o c from (fun c' key =>
                                     match con_get o c' key with
                                     | Ok v =>
                                         match con_remove o c' key with
                                         | Ok c'' => (Ok v, c'')
                                         | Err e => (Err e, c')
                                         | Panic => (Panic, c')
                                         end
                                     | Err e => (Err e, c')
                                     | Panic => (Panic, c')
                                     end) with
              | (FoundAt (Ok v), c1) =>
                  match op_str op (B "path") with
                  | Err e => Err e
                  | Panic => Panic
                  | Ok path =>
                      match find o c1 path (fun c' key => (con_add o c' key v,
                                                           match con_add o c' key v with Ok c'' => c'' | _ => c' end)) with
                      | (FoundAt (Ok _), c2) => Ok (mkState (RCon c2) (s_acc st))
                      | (FoundAt (Err e), _) => Err e
                      | (FoundAt Panic, _) => Panic
                      | (_, _) => Err EMissing
                      end
                  end
              | (FoundAt (Err e), _) => Err e
              | (FoundAt Panic, _) => Panic
              | (_, _) => Err EMissing
              end
          end
      end
  end.

Definition op_test (o : opts) (st : state) (op : operation) : res state :=
  match op_str op (B "path") with
  | Err e => Err e
  | Panic => Panic
  | Ok path =>
      let ov := match op_value op with Some v => v | None => NNil end in
      match path with
      | [] =>
          let self := root_node (s_root st) in
          let eq :=
            match s_root st with
            | RCon (KDocNil _ _) =>
                (* a non-nil *partialDoc with a nil map: not null; equal to an empty object only *)
                if is_null ov then false
                else match shape_of ov with SDoc [] => true | _ => false end
            | _ => node_equal self ov
            end in
          if eq then
            match s_root st with
            | RCon (KDoc s k ob) =>
                match deep (NDoc k ob) with
                | NDoc k' ob' => Ok (mkState (RCon (KDoc s k' ob')) (s_acc st))
                | _ => Ok st
                end
            | RCon (KAry s ns) => Ok (mkState (RCon (KAry s (map deep ns))) (s_acc st))
            | _ => Ok st
            end
          else Err ETestFailed
      | _ =>
          match s_root st with
          | RNull => Err EMissing
          | RCon c =>
              match find o c path (fun c' key =>
                                     match con_get o c' key with
                                     | Ok v =>
                                         if is_null v then
                                           ((if is_null ov then Ok tt else Err ETestFailed), c')
                                         else if is_null ov then (Err ETestFailed, c')
                                         else if node_equal v ov then (Ok tt, con_put o c' key (deep v))
                                         else (Err ETestFailed, c')
                                     | Err EMissing =>
                                         ((if is_null ov then Ok tt else Err ETestFailed), c')
                                     | Err e => (Err e, c')
                                     | Panic => (Panic, c')
                                     end) with
              | (FoundAt (Ok _), c2) => Ok (mkState (RCon c2) (s_acc st))
              | (FoundAt (Err e), _) => Err e
              | (FoundAt Panic, _) => Panic
              | (_, _) => Err EMissing
              end
          end
      end
  end.

Definition op_copy (o : opts) (st : state) (op : operation) : res state :=
  match op_str op (B "from") with
  | Err e => Err e
  | Panic => Panic
  | Ok from =>
      match s_root st with
      | RNull => Err EMissing
      | RCon c =>
          (* first walk: resolve the source (parses along the way) *)
          match find o c from (fun c' key => (con_get o c' key, c')) with
          | (FoundAt (Ok _), c1) =>
              match op_str op (B "path") with
              | Err _ | Panic => Err EMissing
              | Ok path =>
                  (* second walk: resolve the destination parent; the third re-reads the source
                     in its then-current parse state (rule 1 of DESIGN 3.3) *)
                  match find o c1 path (fun c' key => (tt, c')) with
                  | (FoundAt _, c2) =>
                      let src :=
                        match from with
                        | [] => Ok (node_of_con c2)
                        | _ => match find o c2 from (fun c' key => (con_get o c' key, c')) with
                               | (FoundAt r, _) => r
                               | _ => Err EMissing
                               end
                        end in
                      match src with
                      | Ok v =>
                          (* deepCopy refuses a value whose encoding nests deeper than the decoder
                             accepts (fix dc05ac4): it would be stored raw and parsed lazily by a
                             decoder that assumes valid input *)
                          if copy_too_deep o v then Err EInvalid else
                          let (cp, sz) := deep_copy o v in
                          let acc := (s_acc st + sz)%Z in
                          if (0 <? o_limit o)%Z && (o_limit o <? acc)%Z then Err (ECopyLimit (o_limit o) acc)
                          else
                            match find o c2 path (fun c' key => (con_add o c' key cp,
                                                                 match con_add o c' key cp with Ok c'' => c'' | _ => c' end)) with
                            | (FoundAt (Ok _), c3) => Ok (mkState (RCon c3) acc)
                            | (FoundAt (Err e), _) => Err e
                            | (FoundAt Panic, _) => Panic
                            | (_, _) => Err EMissing
                            end
                      | Err e => Err e
                      | Panic => Panic
                      end
                  | (_, _) => Err EMissing
                  end
              end
          | (FoundAt (Err e), _) => Err e
          | (FoundAt Panic, _) => Panic
          | (_, _) => Err EMissing
          end
      end
  end.

Definition step (o : opts) (st : state) (op : operation) : res state :=
  match op_kind op with
  | KAdd => op_add o st op
  | KRemove => op_remove o st op
  | KReplace => op_replace o st op
  | KMove => op_move o st op
  | KTest => op_test o st op
  | KCopy => op_copy o st op
  | KUnknown => Err EOther
  end.

(* returns the final state, or the index of the failing operation and its error *)
Inductive applied :=
| AOk (st : state)
| AErr (index : nat) (e : errclass)
| APanic (index : nat).

Fixpoint apply_from (o : opts) (i : nat) (st : state) (p : list operation) : applied :=
  match p with
  | [] => AOk st
  | op :: rest =>
      match step o st op with
      | Ok st' => apply_from o (S i) st' rest
      | Err e => AErr i e
      | Panic => APanic i
      end
  end.

(* ---- DecodePatch ---- *)
Definition operation_of (ms : list (bytes * tjson)) : operation :=
  (fix go (ms : list (bytes * tjson)) (acc : operation) : operation :=
     match ms with
     | [] => acc
     | (k, v) :: r => go r (aset (unquote k) (match v with TNull => None | _ => Some v end) acc)
     end) ms [].

Definition validate_operation (op : operation) : bool :=
  (match op_kind op with
   | KAdd | KReplace => amem (B "value") op
   | KMove | KCopy => match op_str op (B "from") with Ok _ => true | _ => false end
   | KRemove | KTest => true
   | KUnknown => false
   end)
  && match op_str op (B "path") with Ok _ => true | _ => false end.

Definition decode_patch_t (t : tjson) : option (list operation) :=
  match t with
  | TNull => Some []
  | TArr els =>
      if forallb (fun e => match e with TObj _ | TNull => true | _ => false end) els then
        let ops := map (fun e => match e with TObj ms => operation_of ms | _ => [] end) els in
        if forallb validate_operation ops then Some ops else None
      else None
  | _ => None
  end.

Definition api_decode (bs : bytes) : option (list operation) :=
  match parse bs with
  | Some t => decode_patch_t t
  | None => None
  end.

(* ---- Apply ---- *)
Inductive apply_result :=
| ROut (out : bytes)
| RErr (index : option nat) (e : errclass)     (* index = None: before or after the operations *)
| RPanic.

Definition load_doc (o : opts) (t : tjson) : res root :=
  match t with
  | TObj ms => let (k, ob) := doc_of ms in Ok (RCon (KDoc (NRaw t) k ob))
  | TArr l => Ok (RCon (KAry (NRaw t) (map child l)))
  | TNull => Ok (RCon (KDocNil (NRaw t) (o_stale o)))
  | _ => Err EDecode
  end.

Definition marshal_root (o : opts) (r : root) : res tjson :=
  match r with
  | RNull => Ok TNull
  | RCon (KDocNil _ _) => Err EExpectedObject
  | RCon c => Ok (render (o_esc o) (node_of_con c))
  end.

Definition output (o : opts) (indent : bytes) (t : tjson) : bytes :=
  match indent with
  | [] => print (o_esc o) t
  | _ => pp (o_esc o) indent 0 t
  end.

Definition apply_tree (o : opts) (indent : bytes) (p : list operation) (doc : tjson) : apply_result :=
  match load_doc o doc with
  | Err e => RErr None e
  | Panic => RPanic
  | Ok r =>
      match apply_from o 0 (mkState r 0) p with
      | AErr i e => RErr (Some i) e
      | APanic _ => RPanic
      | AOk st =>
          match marshal_root o (s_root st) with
          | Ok t => ROut (output o indent t)
          | Err e => RErr None e
          | Panic => RPanic
          end
      end
  end.

Definition api_apply (o : opts) (indent : bytes) (p : list operation) (doc : bytes) : apply_result :=
  match doc with
  | [] => ROut []
  | _ =>
      match parse doc with
      | None => RErr None EInvalid
      | Some t => apply_tree o indent p t
      end
  end.

(* ---- Equal ---- *)
Definition api_equal (a b : bytes) : bool :=
  match parse a, parse b with
  | Some ta, Some tb => node_equal (NRaw ta) (NRaw tb)
  | _, _ => false
  end.
