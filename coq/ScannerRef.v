(* ScannerRef.v — the JSON scanner of scanner.go written for proving: one transition function by
   case analysis on the state, the innermost parse state and the byte.  ScannerTie.v proves that the
   scanner re-translated from the Go source on every run (gen/ScannerGen.v) IS this automaton, for
   every state, every stack and every byte.  No proofs here. *)
From JP Require Import Bytes.
From JP.gen Require Import ScannerGen.
Local Open Scope Z_scope.

Definition go (s : scanner) (x : st) (op : Z) : scanner * Z := (set_step s x, op).
Definition fail (s : scanner) (c : byte) : scanner * Z := scanner_error s c.

Definition ref_ws (c : byte) : bool := match c with x20 | x09 | x0d | x0a => true | _ => false end.
Definition ref_digit (c : byte) : bool :=
  match c with x30 | x31 | x32 | x33 | x34 | x35 | x36 | x37 | x38 | x39 => true | _ => false end.
Definition ref_digit19 (c : byte) : bool :=
  match c with x31 | x32 | x33 | x34 | x35 | x36 | x37 | x38 | x39 => true | _ => false end.
Definition ref_hex (c : byte) : bool :=
  ref_digit c || match c with x61 | x62 | x63 | x64 | x65 | x66 | x41 | x42 | x43 | x44 | x45 | x46 => true | _ => false end.

(* after a complete value *)
Definition ref_end_value (s : scanner) (c : byte) : scanner * Z :=
  match parseState s with
  | [] =>
      let s := set_endTop (set_step s St_stateEndTop) true in
      if ref_ws c then (s, scanEnd) else (fst (scanner_error s c), scanEnd)
  | top :: _ =>
      if ref_ws c then go s St_stateEndValue scanSkipSpace else
      match top, c with
      | parseObjectKey, x3a =>
          go (set_parseState s (ps_settop (parseState s) parseObjectValue)) St_stateBeginValue scanObjectKey
      | parseObjectValue, x2c =>
          go (set_parseState s (ps_settop (parseState s) parseObjectKey)) St_stateBeginString scanObjectValue
      | parseObjectValue, x7d => (scanner_popParseState s, scanEndObject)
      | parseArrayValue, x2c => go s St_stateBeginValue scanArrayValue
      | parseArrayValue, x5d => (scanner_popParseState s, scanEndArray)
      | _, _ => fail s c
      end
  end.

Definition ref_begin_value (s : scanner) (c : byte) : scanner * Z :=
  if ref_ws c then (s, scanSkipSpace) else
  match c with
  | x7b => scanner_pushParseState (set_step s St_stateBeginStringOrEmpty) c parseObjectKey scanBeginObject
  | x5b => scanner_pushParseState (set_step s St_stateBeginValueOrEmpty) c parseArrayValue scanBeginArray
  | x22 => go s St_stateInString scanBeginLiteral
  | x2d => go s St_stateNeg scanBeginLiteral
  | x30 => go s St_state0 scanBeginLiteral
  | x74 => go s St_stateT scanBeginLiteral
  | x66 => go s St_stateF scanBeginLiteral
  | x6e => go s St_stateN scanBeginLiteral
  | _ => if ref_digit19 c then go s St_state1 scanBeginLiteral else fail s c
  end.

Definition ref_begin_string (s : scanner) (c : byte) : scanner * Z :=
  if ref_ws c then (s, scanSkipSpace) else
  match c with x22 => go s St_stateInString scanBeginLiteral | _ => fail s c end.

(* number tails: what may follow the integer part / the fraction / the exponent digits *)
Definition ref_after_int (s : scanner) (c : byte) : scanner * Z :=
  match c with
  | x2e => go s St_stateDot scanContinue
  | x65 | x45 => go s St_stateE scanContinue
  | _ => ref_end_value s c
  end.

Definition ref_lit (s : scanner) (c : byte) (want : byte) (next : st) : scanner * Z :=
  if Byte.eqb c want then go s next scanContinue else fail s c.

Definition ref_step (s : scanner) (c : byte) : scanner * Z :=
  match step s with
  | St_stateBeginValue => ref_begin_value s c
  | St_stateBeginValueOrEmpty =>
      if ref_ws c then (s, scanSkipSpace) else
      match c with x5d => ref_end_value s c | _ => ref_begin_value s c end
  | St_stateBeginString => ref_begin_string s c
  | St_stateBeginStringOrEmpty =>
      if ref_ws c then (s, scanSkipSpace) else
      match c with
      | x7d => ref_end_value (set_parseState s (ps_settop (parseState s) parseObjectValue)) c
      | _ => ref_begin_string s c
      end
  | St_stateEndValue => ref_end_value s c
  | St_stateEndTop => if ref_ws c then (s, scanEnd) else (fst (scanner_error s c), scanEnd)
  | St_stateInString =>
      match c with
      | x22 => go s St_stateEndValue scanContinue
      | x5c => go s St_stateInStringEsc scanContinue
      | _ => if (bn c <? 32)%N then fail s c else (s, scanContinue)
      end
  | St_stateInStringEsc =>
      match c with
      | x62 | x66 | x6e | x72 | x74 | x5c | x2f | x22 => go s St_stateInString scanContinue
      | x75 => go s St_stateInStringEscU scanContinue
      | _ => fail s c
      end
  | St_stateInStringEscU => if ref_hex c then go s St_stateInStringEscU1 scanContinue else fail s c
  | St_stateInStringEscU1 => if ref_hex c then go s St_stateInStringEscU12 scanContinue else fail s c
  | St_stateInStringEscU12 => if ref_hex c then go s St_stateInStringEscU123 scanContinue else fail s c
  | St_stateInStringEscU123 => if ref_hex c then go s St_stateInString scanContinue else fail s c
  | St_stateNeg =>
      match c with
      | x30 => go s St_state0 scanContinue
      | _ => if ref_digit19 c then go s St_state1 scanContinue else fail s c
      end
  | St_state1 => if ref_digit c then go s St_state1 scanContinue else ref_after_int s c
  | St_state0 => ref_after_int s c
  | St_stateDot => if ref_digit c then go s St_stateDot0 scanContinue else fail s c
  | St_stateDot0 =>
      if ref_digit c then (s, scanContinue) else
      match c with x65 | x45 => go s St_stateE scanContinue | _ => ref_end_value s c end
  | St_stateE =>
      match c with
      | x2b | x2d => go s St_stateESign scanContinue
      | _ => if ref_digit c then go s St_stateE0 scanContinue else fail s c
      end
  | St_stateESign => if ref_digit c then go s St_stateE0 scanContinue else fail s c
  | St_stateE0 => if ref_digit c then (s, scanContinue) else ref_end_value s c
  | St_stateT => ref_lit s c x72 St_stateTr
  | St_stateTr => ref_lit s c x75 St_stateTru
  | St_stateTru => ref_lit s c x65 St_stateEndValue
  | St_stateF => ref_lit s c x61 St_stateFa
  | St_stateFa => ref_lit s c x6c St_stateFal
  | St_stateFal => ref_lit s c x73 St_stateFals
  | St_stateFals => ref_lit s c x65 St_stateEndValue
  | St_stateN => ref_lit s c x75 St_stateNu
  | St_stateNu => ref_lit s c x6c St_stateNul
  | St_stateNul => ref_lit s c x6c St_stateEndValue
  | St_stateError => (s, scanError)
  end.

(* eof: the scanner accepts iff it has seen a complete top-level value (a pending number is
   completed by feeding a space) and no error *)
Definition ref_accepts_at_eof (s : scanner) : bool :=
  if err s then false
  else if endTop s then true
  else endTop (fst (ref_step s x20)).
