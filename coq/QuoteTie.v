(* QuoteTie.v -- the translated string encoder (gen/QuoteGen.v, written by tools/goquote2v from
   encodeState.string of v5/internal/json/encode.go) computes the hand-written model Strings.quote.

     quote_run_is_quote      : quote_run esc s out0 = QOk (out0 ++ [x22] ++ quote esc s ++ [x22])
                               for EVERY byte string s (ill-formed UTF-8 included) and every content out0
                               of the buffer: the translated function never runs out of fuel, no index or
                               slice expression is out of range, and what it appends is the model between
                               two quotes
     quote_full_gen_is_quote : quote_full_gen esc s = [x22] ++ quote esc s ++ [x22]
     quote_gen_is_quote      : quote_gen esc s = quote esc s        (quote_gen: between the two quotes)

   What is modelled and not translated: utf8.DecodeRuneInString (Utf8Rune.decode_rune); see the header
   of gen/QuoteGen.v and of tools/goquote2v/main.go for the reading of the buffer writes.

   The proof is written against the MEANING of one loop step (three step lemmas that say which state
   follows, proved by evaluating the generated term), not against its text: harmless rewrites of the Go
   source go through, behavioural ones fail in the step lemma of the branch they touch.

   Loop invariant (fixed esc, s, and the text T the function has to produce in the end):
     0 <= start <= i <= len s   and   out ++ s[start:i] ++ quote esc s[i:] = T
   The part of s before i has been consumed: its encoding is in out except for the pending run
   s[start:i] of bytes that stand for themselves; quote of the rest is still to come. *)
From Coq Require Import Lia.
From JP Require Import Bytes Strings Utf8Rune Codec.
From JP.gen Require Import TablesGen QuoteGen.
Local Open Scope Z_scope.

(* ------------------------------------------------------------------ lists, len, at_, slice *)

Lemma qt_skipn_skipn {A} a b (l : list A) : skipn a (skipn b l) = skipn (b + a) l.
Proof.
  revert l. induction b as [|b IH]; intro l; [reflexivity|].
  destruct l as [|x l]; [now rewrite !skipn_nil|]. cbn [Nat.add skipn]. apply IH.
Qed.

Lemma qt_firstn_add {A} a k (u : list A) : (a <= length u)%nat -> firstn (a + k) u = firstn a u ++ firstn k (skipn a u).
Proof.
  revert u. induction a as [|a IH]; intros u L; [reflexivity|].
  destruct u as [|x u]; [simpl in L; lia|]. cbn [Nat.add firstn skipn app]. f_equal. apply IH. simpl in L. lia.
Qed.

Lemma len_nonneg s : 0 <= len s.
Proof. unfold len. lia. Qed.

Lemma slice_empty s a : slice s a a = [].
Proof. unfold slice. now rewrite Z.sub_diag. Qed.

Lemma slice_to_end s a : 0 <= a -> slice s a (len s) = skipn (Z.to_nat a) s.
Proof.
  intro H. unfold slice, len. apply firstn_all2. rewrite skipn_length. lia.
Qed.

Lemma at_skipn s i c r : 0 <= i -> skipn (Z.to_nat i) s = c :: r -> at_ s i = c.
Proof.
  intros H E. unfold at_. rewrite <- (firstn_skipn (Z.to_nat i) s), E.
  assert (L : length (firstn (Z.to_nat i) s) = Z.to_nat i).
  { apply firstn_length_le. apply (f_equal (@length _)) in E. rewrite skipn_length in E. simpl in E. lia. }
  rewrite <- L at 1. apply nth_middle.
Qed.

(* moving the loop variable forward over k bytes of the rest *)
Lemma advance s i k t :
  0 <= i -> i <= len s -> skipn (Z.to_nat i) s = t -> (k <= length t)%nat ->
  i + Z.of_nat k <= len s /\
  skipn (Z.to_nat (i + Z.of_nat k)) s = skipn k t /\
  forall start, 0 <= start <= i -> slice s start (i + Z.of_nat k) = slice s start i ++ firstn k t.
Proof.
  intros H0 H1 E K.
  assert (Lt : length t = (length s - Z.to_nat i)%nat) by (rewrite <- E; apply skipn_length).
  unfold len in *. split; [lia|]. split.
  - rewrite <- E, qt_skipn_skipn. f_equal. lia.
  - intros start Hs. unfold slice.
    replace (Z.to_nat (i + Z.of_nat k - start)) with (Z.to_nat (i - start) + k)%nat by lia.
    rewrite qt_firstn_add by (rewrite skipn_length; lia).
    f_equal. f_equal. rewrite qt_skipn_skipn, <- E. f_equal. lia.
Qed.

(* ------------------------------------------------------------------ bytes as integers *)

Lemma bz_lt128 c : (bz c <? 128) = (bn c <? 128)%N.
Proof. destruct c; reflexivity. Qed.

Lemma bz_is c k : (k < 256)%N -> bz c = Z.of_N k -> c = nb k.
Proof. intros _ H. rewrite <- (nb_bn c). f_equal. unfold bz in H. lia. Qed.

(* ------------------------------------------------------------------ the model of DecodeRune *)

Lemma utf8_len_inv c r : (bn c <? 128)%N = false ->
  match utf8_len (c :: r) with
  | 0%nat => True
  | 1%nat => False
  | 2%nat => exists c1 r', r = c1 :: r' /\ 194 <= bz c < 224 /\ 128 <= bz c1 <= 191
  | 3%nat => exists c1 c2 r', r = c1 :: c2 :: r' /\ 224 <= bz c < 240 /\ 128 <= bz c1 <= 191 /\ 128 <= bz c2 <= 191
  | 4%nat => exists c1 c2 c3 r', r = c1 :: c2 :: c3 :: r' /\ 240 <= bz c < 245 /\ (bz c = 240 -> 144 <= bz c1) /\
               128 <= bz c1 <= 191 /\ 128 <= bz c2 <= 191 /\ 128 <= bz c3 <= 191
  | _ => False
  end.
Proof.
  intro H. unfold utf8_len. cbv zeta. rewrite H. unfold bz.
  destruct (bn c <? 194)%N eqn:E1; [exact I|]. apply N.ltb_ge in E1.
  destruct (bn c <? 224)%N eqn:E2.
  { apply N.ltb_lt in E2. destruct r as [|c1 r']; [exact I|]. destruct (cont c1) eqn:C; [|exact I].
    unfold cont, in_range in C. apply andb_prop in C as [C1 C2]. apply N.leb_le in C1, C2.
    exists c1, r'. split; [reflexivity|]. lia. }
  apply N.ltb_ge in E2.
  destruct (bn c <? 240)%N eqn:E3.
  { apply N.ltb_lt in E3. destruct r as [|c1 [|c2 r']]; try exact I.
    destruct (in_range _ _ c1 && cont c2) eqn:C; [|exact I].
    apply andb_prop in C as [C1 C2]. unfold cont, in_range in C1, C2.
    apply andb_prop in C1 as [C1 C1'], C2 as [C2 C2']. apply N.leb_le in C1, C1', C2, C2'.
    exists c1, c2, r'. split; [reflexivity|].
    destruct (bn c =? 224)%N, (bn c =? 237)%N; lia. }
  apply N.ltb_ge in E3.
  destruct (bn c <? 245)%N eqn:E4; [|exact I]. apply N.ltb_lt in E4.
  destruct r as [|c1 [|c2 [|c3 r']]]; try exact I.
  destruct (in_range _ _ c1 && cont c2 && cont c3) eqn:C; [|exact I].
  apply andb_prop in C as [C C3]. apply andb_prop in C as [C1 C2]. unfold cont, in_range in C1, C2, C3.
  apply andb_prop in C1 as [C1 C1'], C2 as [C2 C2'], C3 as [C3 C3']. apply N.leb_le in C1, C1', C2, C2', C3, C3'.
  exists c1, c2, c3, r'. split; [reflexivity|].
  destruct (bn c =? 240)%N eqn:Q; [apply N.eqb_eq in Q | apply N.eqb_neq in Q]; destruct (bn c =? 244)%N; lia.
Qed.

Lemma is_ls_inv s d r' : is_ls s = Some (d, r') ->
  (s = xe2 :: x80 :: xa8 :: r' /\ d = x38) \/ (s = xe2 :: x80 :: xa9 :: r' /\ d = x39).
Proof.
  unfold is_ls. intro H.
  destruct s as [|a s]; [discriminate|]. destruct a; try discriminate.
  destruct s as [|a s]; [discriminate|]. destruct a; try discriminate.
  destruct s as [|a s]; [discriminate|]. destruct a; try discriminate; injection H as <- <-; auto.
Qed.

(* what the generated code can see of decode_rune at a byte >= 0x80 *)
Lemma decode_rune_multi c r : (bn c <? 128)%N = false ->
  match utf8_len (c :: r) with
  | O => decode_rune (c :: r) = (65533, 1)
  | S n =>
      exists rv, decode_rune (c :: r) = (rv, Z.of_nat (S n)) /\ (2 <= S n)%nat /\
        match is_ls (c :: r) with
        | Some (d, _) => S n = 3%nat /\ ((rv = 8232 /\ d = x38) \/ (rv = 8233 /\ d = x39))
        | None => rv <> 8232 /\ rv <> 8233
        end
  end.
Proof.
  intro H. pose proof (utf8_len_inv c r H) as I. unfold decode_rune.
  destruct (utf8_len (c :: r)) as [|[|[|[|[|k]]]]] eqn:E; try contradiction.
  - destruct r; reflexivity.
  - (* two bytes *)
    destruct I as (c1 & r' & -> & B0 & B1). eexists. split; [reflexivity|]. split; [lia|].
    destruct (is_ls (c :: c1 :: r')) as [[d r'']|] eqn:L.
    + exfalso. rewrite (is_ls_valid _ _ _ L) in E. discriminate E.
    + assert (0 <= bz c mod 32 < 32) by (apply Z.mod_pos_bound; lia).
      assert (0 <= bz c1 mod 64 < 64) by (apply Z.mod_pos_bound; lia). lia.
  - (* three bytes *)
    destruct I as (c1 & c2 & r' & -> & B0 & B1 & B2). eexists. split; [reflexivity|]. split; [lia|].
    destruct (is_ls (c :: c1 :: c2 :: r')) as [[d r'']|] eqn:L.
    + split; [reflexivity|].
      apply is_ls_inv in L as [[L ->]|[L ->]]; injection L as -> -> -> _; [left|right]; split; reflexivity.
    + assert (M0 : bz c = 224 + bz c mod 16) by (Z.div_mod_to_equations; lia).
      assert (M1 : bz c1 = 128 + bz c1 mod 64) by (Z.div_mod_to_equations; lia).
      assert (M2 : bz c2 = 128 + bz c2 mod 64) by (Z.div_mod_to_equations; lia).
      assert (R0 : 0 <= bz c mod 16 < 16) by (apply Z.mod_pos_bound; lia).
      assert (R1 : 0 <= bz c1 mod 64 < 64) by (apply Z.mod_pos_bound; lia).
      assert (R2 : 0 <= bz c2 mod 64 < 64) by (apply Z.mod_pos_bound; lia).
      split; intro Q; exfalso.
      * assert (A0 : bz c = Z.of_N 226) by lia. assert (A1 : bz c1 = Z.of_N 128) by lia.
        assert (A2 : bz c2 = Z.of_N 168) by lia.
        apply bz_is in A0, A1, A2; try reflexivity. subst c c1 c2. discriminate L.
      * assert (A0 : bz c = Z.of_N 226) by lia. assert (A1 : bz c1 = Z.of_N 128) by lia.
        assert (A2 : bz c2 = Z.of_N 169) by lia.
        apply bz_is in A0, A1, A2; try reflexivity. subst c c1 c2. discriminate L.
  - (* four bytes *)
    destruct I as (c1 & c2 & c3 & r' & -> & B0 & B01 & B1 & B2 & B3). eexists. split; [reflexivity|]. split; [lia|].
    destruct (is_ls (c :: c1 :: c2 :: c3 :: r')) as [[d r'']|] eqn:L.
    + exfalso. rewrite (is_ls_valid _ _ _ L) in E. discriminate E.
    + assert (M0 : bz c = 240 + bz c mod 8) by (Z.div_mod_to_equations; lia).
      assert (M1 : bz c1 = 128 + bz c1 mod 64) by (Z.div_mod_to_equations; lia).
      assert (R2 : 0 <= bz c2 mod 64 < 64) by (apply Z.mod_pos_bound; lia).
      assert (R3 : 0 <= bz c3 mod 64 < 64) by (apply Z.mod_pos_bound; lia).
      lia.
Qed.

(* ------------------------------------------------------------------ the model, one character *)

Lemma quote_nil esc : quote esc [] = [].
Proof. reflexivity. Qed.

Lemma qt_quote_invalid esc c r : (bn c <? 128)%N = false -> utf8_len (c :: r) = 0%nat ->
  quote esc (c :: r) = [x5c; x75; x66; x66; x66; x64] ++ quote esc r.
Proof.
  intros H E. unfold quote at 1. cbn [length]. rewrite quote_go_S, H, E. reflexivity.
Qed.

(* ------------------------------------------------------------------ one step of the loop *)

Section Step.
  Variables (esc : bool) (s : bytes) (i start : Z) (out : bytes) (c : byte) (r : bytes).
  Hypothesis Hstart : 0 <= start <= i.
  Hypothesis Hi : i <= len s.
  Hypothesis Hrest : skipn (Z.to_nat i) s = c :: r.

  Let F1 : in_idx i (len s) = true.
  Proof.
    assert (L : (length (c :: r) = length s - Z.to_nat i)%nat) by (rewrite <- Hrest; apply skipn_length).
    unfold in_idx, len in *. simpl in L. apply andb_true_intro. split; [apply Z.leb_le | apply Z.ltb_lt]; lia.
  Qed.
  Let F2 : at_ s i = c.
  Proof. apply (at_skipn s i c r); [lia | exact Hrest]. Qed.
  Let F3 : in_slice start i (len s) = true.
  Proof. unfold in_slice. rewrite !andb_true_iff, !Z.leb_le. lia. Qed.
  Let F4 : in_slice i (len s) (len s) = true.
  Proof. unfold in_slice. rewrite !andb_true_iff, !Z.leb_le. lia. Qed.
  Let F5 : slice s i (len s) = c :: r.
  Proof. rewrite slice_to_end by lia. exact Hrest. Qed.
  Let F6 : (start <? i) = false -> slice s start i = [].
  Proof. intro H. apply Z.ltb_ge in H. replace start with i by lia. apply slice_empty. Qed.

  Ltac eval_step :=
    lazy -[app Z.add]; rewrite <- ?app_assoc; cbn [app]; reflexivity.

  Ltac open_step :=
    unfold quote_step; cbv zeta; rewrite ?F1, ?F2, ?F3, ?F4, ?F5; cbv zeta.

  (* a byte below 0x80: it stays pending, or the pending run and its escape are written *)
  Lemma step_ascii : (bn c <? 128)%N = true ->
    quote_step esc s i start out =
    if tbl htmlSafeSet c || (negb esc && tbl safeSet c) then SNext (i + 1) start out
    else SNext (i + 1) (i + 1) (out ++ slice s start i ++ qchar esc c).
  Proof.
    intro Hc. open_step. clear F1 F2 F3 F4 F5.
    generalize F6. generalize (slice s start i) as m. generalize (start <? i) as lt.
    clear F6 Hstart Hi Hrest. intros lt m Fm. revert Hc.
    destruct lt; [clear Fm | rewrite (Fm eq_refl); clear Fm m];
      destruct esc; destruct c; intro Hc; try discriminate Hc; eval_step.
  Qed.

  (* a byte from 0x80 on that does not start a well-formed sequence *)
  Lemma step_invalid : (bn c <? 128)%N = false -> utf8_len (c :: r) = 0%nat ->
    quote_step esc s i start out =
    SNext (i + 1) (i + 1) (out ++ slice s start i ++ [x5c; x75; x66; x66; x66; x64]).
  Proof.
    intros Hc E. pose proof (decode_rune_multi c r Hc) as D. rewrite E in D.
    open_step. rewrite bz_lt128, Hc, D. cbv beta iota zeta. clear F1 F2 F3 F4 F5 D.
    generalize F6. generalize (slice s start i) as m. generalize (start <? i) as lt. intros lt m Fm.
    destruct lt; [|rewrite (Fm eq_refl)]; eval_step.
  Qed.

  (* U+2028 / U+2029 *)
  Lemma step_ls d r' : (bn c <? 128)%N = false -> is_ls (c :: r) = Some (d, r') ->
    quote_step esc s i start out =
    SNext (i + 3) (i + 3) (out ++ slice s start i ++ [x5c; x75; x32; x30; x32; d]).
  Proof.
    intros Hc L. pose proof (decode_rune_multi c r Hc) as D.
    rewrite (is_ls_valid c r _ L), L in D. destruct D as (rv & D & _ & _ & V).
    open_step. rewrite bz_lt128, Hc, D. cbv beta iota zeta. clear F1 F2 F3 F4 F5 D.
    generalize F6. generalize (slice s start i) as m. generalize (start <? i) as lt. intros lt m Fm.
    destruct V as [[-> ->]|[-> ->]]; (destruct lt; [|rewrite (Fm eq_refl)]); eval_step.
  Qed.

  (* any other well-formed sequence of n+1 bytes stays pending *)
  Lemma step_multi n : (bn c <? 128)%N = false -> utf8_len (c :: r) = S n -> is_ls (c :: r) = None ->
    quote_step esc s i start out = SNext (i + Z.of_nat (S n)) start out.
  Proof.
    intros Hc E L. pose proof (decode_rune_multi c r Hc) as D. rewrite E, L in D.
    destruct D as (rv & D & K & V1 & V2).
    open_step. rewrite bz_lt128, Hc, D. cbv beta iota zeta. clear F1 F2 F3 F4 F5 D.
    assert (K1 : (Z.of_nat (S n) =? 1) = false) by (apply Z.eqb_neq; lia).
    assert (K0 : (Z.of_nat (S n) =? 0) = false) by (apply Z.eqb_neq; lia).
    generalize dependent (Z.of_nat (S n)). intros k K1 K0.
    apply Z.eqb_neq in V1, V2.
    pose proof V1 as V1'. pose proof V2 as V2'. pose proof K1 as K1'. pose proof K0 as K0'.
    rewrite Z.eqb_sym in V1', V2', K1', K0'.
    generalize (slice s start i) as m. generalize (start <? i) as lt. intros lt m.
    destruct (rv =? 65533) eqn:V0; pose proof V0 as V0'; rewrite Z.eqb_sym in V0';
      rewrite ?V0', ?V1, ?V2, ?K1, ?K0, ?V1', ?V2', ?K1', ?K0'; cbn [andb orb negb];
      rewrite ?V0', ?V1, ?V2, ?K1, ?K0, ?V1', ?V2', ?K1', ?K0'; cbn [andb orb negb]; reflexivity.
  Qed.
End Step.

(* ------------------------------------------------------------------ the invariant *)

Definition Inv (esc : bool) (s T : bytes) (i start : Z) (out : bytes) : Prop :=
  0 <= start <= i /\ i <= len s /\ out ++ slice s start i ++ quote esc (skipn (Z.to_nat i) s) = T.

Lemma step_keeps_inv esc s T i start out :
  Inv esc s T i start out -> i < len s ->
  exists i' start' out', quote_step esc s i start out = SNext i' start' out' /\ i < i' /\ Inv esc s T i' start' out'.
Proof.
  intros (Hs & Hi & HT) Hlt.
  destruct (skipn (Z.to_nat i) s) as [|c r] eqn:Hrest.
  { exfalso. apply (f_equal (@length _)) in Hrest. rewrite skipn_length in Hrest. unfold len in Hlt. simpl in Hrest. lia. }
  assert (A : forall k, (k <= length (c :: r))%nat ->
             i + Z.of_nat k <= len s /\ skipn (Z.to_nat (i + Z.of_nat k)) s = skipn k (c :: r) /\
             forall st, 0 <= st <= i -> slice s st (i + Z.of_nat k) = slice s st i ++ firstn k (c :: r)).
  { intros k K. apply advance; [lia | exact Hi | exact Hrest | exact K]. }
  destruct (bn c <? 128)%N eqn:Hc.
  - (* ASCII *)
    destruct (A 1%nat) as (A1 & A2 & A3); [simpl; lia|]. change (Z.of_nat 1) with 1 in *.
    rewrite (quote_ascii esc c r Hc) in HT.
    rewrite (step_ascii esc s i start out c r Hs Hi Hrest Hc).
    destruct (tbl htmlSafeSet c || (negb esc && tbl safeSet c)) eqn:Safe.
    + exists (i + 1), start, out. split; [reflexivity|]. split; [lia|]. split; [lia|]. split; [exact A1|].
      rewrite A2, (A3 start Hs). cbn [skipn firstn]. rewrite <- HT. unfold qchar. rewrite Safe.
      rewrite <- !app_assoc. reflexivity.
    + exists (i + 1), (i + 1), (out ++ slice s start i ++ qchar esc c). split; [reflexivity|].
      split; [lia|]. split; [lia|]. split; [exact A1|].
      rewrite A2, slice_empty. cbn [skipn app]. rewrite <- HT, <- !app_assoc. reflexivity.
  - destruct (utf8_len (c :: r)) as [|n] eqn:E.
    + (* ill-formed *)
      destruct (A 1%nat) as (A1 & A2 & A3); [simpl; lia|]. change (Z.of_nat 1) with 1 in *.
      rewrite (qt_quote_invalid esc c r Hc E) in HT.
      rewrite (step_invalid esc s i start out c r Hs Hi Hrest Hc E).
      eexists _, _, _. split; [reflexivity|]. split; [lia|]. split; [lia|]. split; [exact A1|].
      rewrite A2, slice_empty. cbn [skipn app]. rewrite <- HT, <- !app_assoc. reflexivity.
    + pose proof (utf8_len_le (c :: r)) as Le. rewrite E in Le.
      destruct (A (S n) Le) as (A1 & A2 & A3).
      rewrite (quote_multi esc c r n Hc E) in HT.
      destruct (is_ls (c :: r)) as [[d r']|] eqn:L.
      * (* U+2028, U+2029 *)
        assert (N3 : S n = 3%nat) by (rewrite <- E; apply (is_ls_valid c r _ L)).
        rewrite N3 in *. change (Z.of_nat 3) with 3 in *.
        rewrite (step_ls esc s i start out c r Hs Hi Hrest d r' Hc L).
        eexists _, _, _. split; [reflexivity|]. split; [lia|]. split; [lia|]. split; [exact A1|].
        rewrite A2, slice_empty.
        assert (R : skipn 3 (c :: r) = r').
        { apply is_ls_inv in L as [[-> _]|[-> _]]; reflexivity. }
        rewrite R. cbn [app]. rewrite <- HT, <- !app_assoc. reflexivity.
      * (* another well-formed sequence *)
        rewrite (step_multi esc s i start out c r Hs Hi Hrest n Hc E L).
        eexists _, _, _. split; [reflexivity|]. split; [lia|]. split; [lia|]. split; [exact A1|].
        rewrite A2, (A3 start Hs). rewrite <- HT, <- !app_assoc. reflexivity.
Qed.

(* the loop ends, within its fuel, at i = len s with the invariant *)
Lemma loop_runs esc s T : forall fuel i start out,
  Inv esc s T i start out -> (Z.to_nat (len s - i) < fuel)%nat ->
  exists start' out', quote_loop fuel esc s i start out = LDone (len s) start' out' /\ Inv esc s T (len s) start' out'.
Proof.
  induction fuel as [|fuel IH]; intros i start out I F; [lia|].
  cbn [quote_loop]. destruct (i <? len s) eqn:C.
  - apply Z.ltb_lt in C. destruct (step_keeps_inv esc s T i start out I C) as (i' & start' & out' & -> & Lt & I').
    apply IH; [exact I'|]. destruct I' as (_ & Hi' & _). lia.
  - apply Z.ltb_ge in C. destruct I as (Hs & Hi & HT). assert (i = len s) by lia. subst i.
    exists start, out. split; [reflexivity|]. split; [exact Hs|]. split; [lia | exact HT].
Qed.

(* ------------------------------------------------------------------ the tie *)

Theorem quote_run_is_quote : forall esc s out0,
  quote_run esc s out0 = QOk (out0 ++ [x22] ++ quote esc s ++ [x22]).
Proof.
  intros esc s out0. set (T := (out0 ++ [x22]) ++ quote esc s).
  assert (I0 : Inv esc s T 0 0 (out0 ++ [x22])).
  { split; [lia|]. split; [apply len_nonneg|]. rewrite slice_empty. reflexivity. }
  destruct (loop_runs esc s T (S (length s)) 0 0 (out0 ++ [x22]) I0) as (start & out & L & (Hs & _ & HT)).
  { unfold len. lia. }
  unfold quote_run. cbv zeta. rewrite L.
  rewrite slice_to_end in HT by lia.
  assert (G : in_slice start (len s) (len s) = true).
  { unfold in_slice. rewrite !andb_true_iff, !Z.leb_le. lia. }
  assert (Q : skipn (Z.to_nat (len s)) s = []).
  { apply skipn_all2. unfold len. lia. }
  rewrite Q, quote_nil, app_nil_r in HT.
  assert (R : out0 ++ [x22] ++ quote esc s ++ [x22] = (out ++ skipn (Z.to_nat start) s) ++ [x22]).
  { rewrite HT. unfold T. rewrite <- !app_assoc. reflexivity. }
  rewrite R. rewrite ?G, ?slice_to_end by lia. cbn [negb].
  destruct (start <? len s) eqn:C; [reflexivity|].
  apply Z.ltb_ge in C. assert (E : skipn (Z.to_nat start) s = []).
  { apply skipn_all2. unfold len in *. lia. }
  rewrite E, app_nil_r. reflexivity.
Qed.

Theorem quote_full_gen_is_quote : forall esc s, quote_full_gen esc s = [x22] ++ quote esc s ++ [x22].
Proof. intros esc s. unfold quote_full_gen. rewrite quote_run_is_quote. reflexivity. Qed.

(* the bytes between the first and the last byte of what the function writes: Strings.quote models
   the body of the string literal without its two quotes *)
Definition quote_gen (esc : bool) (s : bytes) : bytes := removelast (tl (quote_full_gen esc s)).

Theorem quote_gen_is_quote : forall esc s, quote_gen esc s = quote esc s.
Proof.
  intros esc s. unfold quote_gen. rewrite quote_full_gen_is_quote. cbn [app tl].
  apply removelast_last.
Qed.

(* the fuel never runs out and nothing is out of range, said separately *)
Corollary quote_run_total : forall esc s out0, quote_run esc s out0 <> QFuel /\ quote_run esc s out0 <> QPanic.
Proof. intros esc s out0. rewrite quote_run_is_quote. split; discriminate. Qed.

(* ------------------------------------------------------------------ examples
   The right-hand sides are what the Go encoder of the fork writes for these strings (Encoder.Encode of
   the string with SetEscapeHTML false / true, run once on a copy of v5/internal/json): the translated
   function computes them by vm_compute, and by the theorem so does the model.
   controls (with backspace and form feed, which this fork writes as u-escapes), quotes and backslash,
   the HTML characters, U+2028 / U+2029 next to U+202A, two-, three- and four-byte sequences with a
   well-formed U+FFFD, ill-formed bytes (lone lead and continuation bytes, over-long form, truncated
   sequence, surrogate, beyond U+10FFFF), and a pending run followed by an ill-formed byte. *)
Example ex_empty_false :
  quote_full_gen false [] =
  [x22; x22].
Proof. vm_compute. reflexivity. Qed.

Example ex_empty_true :
  quote_full_gen true [] =
  [x22; x22].
Proof. vm_compute. reflexivity. Qed.

Example ex_controls_false :
  quote_full_gen false [x61; x00; x01; x08; x09; x0a; x0c; x0d; x1f; x7f; x20; x62] =
  [x22; x61; x5c; x75; x30; x30; x30; x30; x5c; x75; x30; x30; x30; x31; x5c; x75; x30; x30; x30; x38; x5c; x74; x5c; x6e; x5c; x75; x30; x30; x30; x63; x5c; x72; x5c; x75; x30; x30; x31; x66; x7f; x20; x62; x22].
Proof. vm_compute. reflexivity. Qed.

Example ex_controls_true :
  quote_full_gen true [x61; x00; x01; x08; x09; x0a; x0c; x0d; x1f; x7f; x20; x62] =
  [x22; x61; x5c; x75; x30; x30; x30; x30; x5c; x75; x30; x30; x30; x31; x5c; x75; x30; x30; x30; x38; x5c; x74; x5c; x6e; x5c; x75; x30; x30; x30; x63; x5c; x72; x5c; x75; x30; x30; x31; x66; x7f; x20; x62; x22].
Proof. vm_compute. reflexivity. Qed.

Example ex_quotes_false :
  quote_full_gen false [x73; x61; x79; x20; x22; x68; x69; x22; x20; x5c; x20; x2f; x20; x27] =
  [x22; x73; x61; x79; x20; x5c; x22; x68; x69; x5c; x22; x20; x5c; x5c; x20; x2f; x20; x27; x22].
Proof. vm_compute. reflexivity. Qed.

Example ex_quotes_true :
  quote_full_gen true [x73; x61; x79; x20; x22; x68; x69; x22; x20; x5c; x20; x2f; x20; x27] =
  [x22; x73; x61; x79; x20; x5c; x22; x68; x69; x5c; x22; x20; x5c; x5c; x20; x2f; x20; x27; x22].
Proof. vm_compute. reflexivity. Qed.

Example ex_html_false :
  quote_full_gen false [x3c; x61; x20; x68; x72; x65; x66; x3d; x22; x78; x22; x3e; x26; x61; x6d; x70; x3b; x3c; x2f; x61; x3e] =
  [x22; x3c; x61; x20; x68; x72; x65; x66; x3d; x5c; x22; x78; x5c; x22; x3e; x26; x61; x6d; x70; x3b; x3c; x2f; x61; x3e; x22].
Proof. vm_compute. reflexivity. Qed.

Example ex_html_true :
  quote_full_gen true [x3c; x61; x20; x68; x72; x65; x66; x3d; x22; x78; x22; x3e; x26; x61; x6d; x70; x3b; x3c; x2f; x61; x3e] =
  [x22; x5c; x75; x30; x30; x33; x63; x61; x20; x68; x72; x65; x66; x3d; x5c; x22; x78; x5c; x22; x5c; x75; x30; x30; x33; x65; x5c; x75; x30; x30; x32; x36; x61; x6d; x70; x3b; x5c; x75; x30; x30; x33; x63; x2f; x61; x5c; x75; x30; x30; x33; x65; x22].
Proof. vm_compute. reflexivity. Qed.

Example ex_ls_false :
  quote_full_gen false [x78; xe2; x80; xa8; x79; xe2; x80; xa9; x7a; xe2; x80; xaa] =
  [x22; x78; x5c; x75; x32; x30; x32; x38; x79; x5c; x75; x32; x30; x32; x39; x7a; xe2; x80; xaa; x22].
Proof. vm_compute. reflexivity. Qed.

Example ex_ls_true :
  quote_full_gen true [x78; xe2; x80; xa8; x79; xe2; x80; xa9; x7a; xe2; x80; xaa] =
  [x22; x78; x5c; x75; x32; x30; x32; x38; x79; x5c; x75; x32; x30; x32; x39; x7a; xe2; x80; xaa; x22].
Proof. vm_compute. reflexivity. Qed.

Example ex_astral_false :
  quote_full_gen false [xf0; x9f; x98; x80; x20; x61; x6e; x64; x20; xc3; xa9; x20; x61; x6e; x64; x20; xef; xbf; xbd] =
  [x22; xf0; x9f; x98; x80; x20; x61; x6e; x64; x20; xc3; xa9; x20; x61; x6e; x64; x20; xef; xbf; xbd; x22].
Proof. vm_compute. reflexivity. Qed.

Example ex_astral_true :
  quote_full_gen true [xf0; x9f; x98; x80; x20; x61; x6e; x64; x20; xc3; xa9; x20; x61; x6e; x64; x20; xef; xbf; xbd] =
  [x22; xf0; x9f; x98; x80; x20; x61; x6e; x64; x20; xc3; xa9; x20; x61; x6e; x64; x20; xef; xbf; xbd; x22].
Proof. vm_compute. reflexivity. Qed.

Example ex_illformed_false :
  quote_full_gen false [xff; x20; x61; x20; xc0; x80; x20; xe2; x80; x20; xed; xa0; x80; x20; xf4; x90; x80; x80; x20; xe2] =
  [x22; x5c; x75; x66; x66; x66; x64; x20; x61; x20; x5c; x75; x66; x66; x66; x64; x5c; x75; x66; x66; x66; x64; x20; x5c; x75; x66; x66; x66; x64; x5c; x75; x66; x66; x66; x64; x20; x5c; x75; x66; x66; x66; x64; x5c; x75; x66; x66; x66; x64; x5c; x75; x66; x66; x66; x64; x20; x5c; x75; x66; x66; x66; x64; x5c; x75; x66; x66; x66; x64; x5c; x75; x66; x66; x66; x64; x5c; x75; x66; x66; x66; x64; x20; x5c; x75; x66; x66; x66; x64; x22].
Proof. vm_compute. reflexivity. Qed.

Example ex_illformed_true :
  quote_full_gen true [xff; x20; x61; x20; xc0; x80; x20; xe2; x80; x20; xed; xa0; x80; x20; xf4; x90; x80; x80; x20; xe2] =
  [x22; x5c; x75; x66; x66; x66; x64; x20; x61; x20; x5c; x75; x66; x66; x66; x64; x5c; x75; x66; x66; x66; x64; x20; x5c; x75; x66; x66; x66; x64; x5c; x75; x66; x66; x66; x64; x20; x5c; x75; x66; x66; x66; x64; x5c; x75; x66; x66; x66; x64; x5c; x75; x66; x66; x66; x64; x20; x5c; x75; x66; x66; x66; x64; x5c; x75; x66; x66; x66; x64; x5c; x75; x66; x66; x66; x64; x5c; x75; x66; x66; x66; x64; x20; x5c; x75; x66; x66; x66; x64; x22].
Proof. vm_compute. reflexivity. Qed.

Example ex_pending_then_bad_false :
  quote_full_gen false [x61; x62; x63; x80] =
  [x22; x61; x62; x63; x5c; x75; x66; x66; x66; x64; x22].
Proof. vm_compute. reflexivity. Qed.

Example ex_pending_then_bad_true :
  quote_full_gen true [x61; x62; x63; x80] =
  [x22; x61; x62; x63; x5c; x75; x66; x66; x66; x64; x22].
Proof. vm_compute. reflexivity. Qed.

Example ex_model_agrees :
  quote false [x61; xe2; x80; xa8; xff; x3c; x0a] = quote_gen false [x61; xe2; x80; xa8; xff; x3c; x0a] /\
  quote true [x61; xe2; x80; xa8; xff; x3c; x0a] =
    [x61; x5c; x75; x32; x30; x32; x38; x5c; x75; x66; x66; x66; x64; x5c; x75; x30; x30; x33; x63; x5c; x6e] /\
  quote_run true [x3c] [x7b] = QOk [x7b; x22; x5c; x75; x30; x30; x33; x63; x22].
Proof. vm_compute. repeat split. Qed.

Print Assumptions quote_run_is_quote.
Print Assumptions quote_gen_is_quote.
