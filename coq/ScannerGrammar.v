(* ScannerGrammar.v — the automaton of ScannerCorrect.v run over a text computes the same verdict as
   the recursive-descent reader Text.parse: token by token (white space, strings, literals,
   numbers), then values / elements / members by induction on the reader's fuel. *)
From Coq Require Import Lia.
From JP Require Import Bytes Json Text Scan ScannerRef ScannerTie ScannerCorrect.
From JP.gen Require Import ScannerGen.

Definition afinal (x : st) (stk : list ps) (bs : bytes) : bool :=
  match arun x stk bs with Some (x', stk') => aaccept x' stk' | None => false end.

Lemma afinal_nil x stk : afinal x stk [] = aaccept x stk.
Proof. reflexivity. Qed.

Lemma afinal_cons x stk c r :
  afinal x stk (c :: r) = match astep x stk c with Some (x', stk') => afinal x' stk' r | None => false end.
Proof. unfold afinal. cbn [arun]. destruct (astep x stk c) as [[x' stk']|]; reflexivity. Qed.

Ltac bytecases c := destruct c; try discriminate; try reflexivity.

(* ---- strings ---- *)
Lemma str_plain stk c : Byte.eqb c x22 = false -> Byte.eqb c x5c = false -> (bn c <? 32)%N = false ->
  astep St_stateInString stk c = Some (St_stateInString, stk).
Proof. bytecases c. Qed.

Lemma str_ctrl stk c : (bn c <? 32)%N = true -> astep St_stateInString stk c = None.
Proof. bytecases c. Qed.

Lemma str_hex x x' stk c :
  (x, x') = (St_stateInStringEscU, St_stateInStringEscU1) \/ (x, x') = (St_stateInStringEscU1, St_stateInStringEscU12) \/
  (x, x') = (St_stateInStringEscU12, St_stateInStringEscU123) \/ (x, x') = (St_stateInStringEscU123, St_stateInString) ->
  astep x stk c = if is_hex c then Some (x', stk) else None.
Proof. intros [E|[E|[E|E]]]; inversion E; subst; bytecases c. Qed.

Lemma afinal_false_nil x stk : is_endtop x = false ->
  match astep x stk x20 with Some (x', _) => is_endtop x' | None => false end = false -> afinal x stk [] = false.
Proof. intros A B. rewrite afinal_nil. unfold aaccept. now rewrite A, B. Qed.

Lemma scan_string_auto : forall (n : nat) (s : bytes) stk, (length s <= n)%nat ->
  afinal St_stateInString stk s =
  match scan_string s with Some (_, rest) => afinal St_stateEndValue stk rest | None => false end.
Proof.
  induction n as [|n IH]; intros s stk L.
  - destruct s; [reflexivity | simpl in L; lia].
  - destruct s as [|c r]; [reflexivity|]. simpl in L. rewrite afinal_cons. cbn [scan_string].
    destruct (Byte.eqb c x22) eqn:Q.
    { apply Byte.byte_dec_bl in Q. subst c. reflexivity. }
    destruct (Byte.eqb c x5c) eqn:Bs.
    { apply Byte.byte_dec_bl in Bs. subst c. change (astep St_stateInString stk x5c) with (Some (St_stateInStringEsc, stk)). cbv beta iota.
      destruct r as [|e r']; [reflexivity|]. rewrite afinal_cons. simpl in L.
      destruct e; try reflexivity;
        try (change (astep St_stateInStringEsc stk ?e) with (Some (St_stateInString, stk)); cbv beta iota;
             rewrite (IH r' stk) by lia; destruct (scan_string r') as [[b rest]|]; reflexivity).
      change (astep St_stateInStringEsc stk x75) with (Some (St_stateInStringEscU, stk)). cbv beta iota.
      destruct r' as [|h1 r']; [reflexivity|]. rewrite afinal_cons, (str_hex _ St_stateInStringEscU1) by auto.
      destruct (is_hex h1); [|destruct r' as [|? [|? [|? ?]]]; reflexivity].
      destruct r' as [|h2 r']; [reflexivity|]. rewrite afinal_cons, (str_hex _ St_stateInStringEscU12) by auto.
      destruct (is_hex h2); [|destruct r' as [|? [|? ?]]; reflexivity].
      destruct r' as [|h3 r']; [reflexivity|]. rewrite afinal_cons, (str_hex _ St_stateInStringEscU123) by auto.
      destruct (is_hex h3); [|destruct r' as [|? ?]; reflexivity].
      destruct r' as [|h4 r']; [reflexivity|]. rewrite afinal_cons, (str_hex _ St_stateInString) by auto 6.
      destruct (is_hex h4); [|reflexivity]. cbn [andb]. simpl in L.
      rewrite (IH r' stk) by lia. destruct (scan_string r') as [[b rest]|]; reflexivity. }
    assert (scan_string (c :: r) = if (bn c <? 32)%N then None else
              match scan_string r with Some (b, rest) => Some (c :: b, rest) | None => None end) as E.
    { destruct c; try discriminate; reflexivity. }
    cbn [scan_string] in E. rewrite E. clear E.
    destruct (bn c <? 32)%N eqn:Ct.
    + now rewrite str_ctrl.
    + rewrite str_plain by assumption. rewrite (IH r stk) by lia. destruct (scan_string r) as [[b rest]|]; reflexivity.
Qed.

(* ---- white space ---- *)
Definition skips_ws (x : st) : bool :=
  match x with
  | St_stateBeginValue | St_stateBeginValueOrEmpty | St_stateBeginString | St_stateBeginStringOrEmpty => true
  | _ => false
  end.

Lemma ws_step x stk c : skips_ws x = true -> is_ws c = true -> astep x stk c = Some (x, stk).
Proof. destruct x; try discriminate; intros _; bytecases c. Qed.

Lemma ws_skip x stk : skips_ws x = true -> forall s, afinal x stk s = afinal x stk (skip_ws s).
Proof.
  intros X. induction s as [|c r IH]; [reflexivity|]. cbn [skip_ws]. destruct (is_ws c) eqn:W; [|reflexivity].
  rewrite afinal_cons, ws_step by assumption. exact IH.
Qed.

Definition all_ws (s : bytes) : bool := match skip_ws s with [] => true | _ => false end.

Lemma top_step x c : x = St_stateEndValue \/ x = St_stateEndTop ->
  astep x [] c = if is_ws c then Some (St_stateEndTop, []) else None.
Proof. intros [->| ->]; bytecases c. Qed.

Lemma afinal_endtop s : afinal St_stateEndTop [] s = all_ws s.
Proof.
  induction s as [|c r IH]; [reflexivity|]. rewrite afinal_cons, top_step by auto. unfold all_ws. cbn [skip_ws].
  destruct (is_ws c); [exact IH | reflexivity].
Qed.

Lemma afinal_endvalue_top s : afinal St_stateEndValue [] s = all_ws s.
Proof.
  destruct s as [|c r]; [reflexivity|]. rewrite afinal_cons, top_step by auto. unfold all_ws. cbn [skip_ws].
  destruct (is_ws c); [apply afinal_endtop | reflexivity].
Qed.

Lemma skip_ws_idem s : skip_ws (skip_ws s) = skip_ws s.
Proof. induction s as [|c r IH]; [reflexivity|]. cbn [skip_ws]. destruct (is_ws c) eqn:W; [exact IH|]. cbn [skip_ws]. now rewrite W. Qed.

Lemma endvalue_ws_step p l c : is_ws c = true -> astep St_stateEndValue (p :: l) c = Some (St_stateEndValue, p :: l).
Proof. destruct p; bytecases c. Qed.

Lemma endvalue_ws_skip stk s : afinal St_stateEndValue stk s = afinal St_stateEndValue stk (skip_ws s).
Proof.
  destruct stk as [|p l].
  - rewrite !afinal_endvalue_top. unfold all_ws. now rewrite skip_ws_idem.
  - induction s as [|c r IH]; [reflexivity|]. cbn [skip_ws]. destruct (is_ws c) eqn:W; [|reflexivity].
    rewrite afinal_cons, endvalue_ws_step by assumption. exact IH.
Qed.

(* ---- literals ---- *)
Lemma strip_prefix_cons w pat c s :
  strip_prefix (w :: pat) (c :: s) = if Byte.eqb w c then strip_prefix pat s else None.
Proof. reflexivity. Qed.

Lemma lit_auto x stk want next pat (K : bytes -> bool) :
  (forall c, astep x stk c = if Byte.eqb want c then Some (next, stk) else None) ->
  aaccept x stk = false ->
  (forall s, afinal next stk s = match strip_prefix pat s with Some rest => K rest | None => false end) ->
  forall s, afinal x stk s = match strip_prefix (want :: pat) s with Some rest => K rest | None => false end.
Proof.
  intros St Ac Nx [|c s].
  - rewrite afinal_nil. exact Ac.
  - rewrite afinal_cons, St, strip_prefix_cons. destruct (Byte.eqb want c); [apply Nx | reflexivity].
Qed.

Lemma lit_end stk s : afinal St_stateEndValue stk s =
  match strip_prefix [] s with Some rest => afinal St_stateEndValue stk rest | None => false end.
Proof. destruct s; reflexivity. Qed.

Lemma lit_true stk s : afinal St_stateT stk s =
  match strip_prefix (B "rue") s with Some rest => afinal St_stateEndValue stk rest | None => false end.
Proof.
  revert s. apply (lit_auto _ _ _ St_stateTr); [intro c; bytecases c | reflexivity |].
  apply (lit_auto _ _ _ St_stateTru); [intro c; bytecases c | reflexivity |].
  apply (lit_auto _ _ _ St_stateEndValue); [intro c; bytecases c | reflexivity |]. apply lit_end.
Qed.

Lemma lit_false stk s : afinal St_stateF stk s =
  match strip_prefix (B "alse") s with Some rest => afinal St_stateEndValue stk rest | None => false end.
Proof.
  revert s. apply (lit_auto _ _ _ St_stateFa); [intro c; bytecases c | reflexivity |].
  apply (lit_auto _ _ _ St_stateFal); [intro c; bytecases c | reflexivity |].
  apply (lit_auto _ _ _ St_stateFals); [intro c; bytecases c | reflexivity |].
  apply (lit_auto _ _ _ St_stateEndValue); [intro c; bytecases c | reflexivity |]. apply lit_end.
Qed.

Lemma lit_null stk s : afinal St_stateN stk s =
  match strip_prefix (B "ull") s with Some rest => afinal St_stateEndValue stk rest | None => false end.
Proof.
  revert s. apply (lit_auto _ _ _ St_stateNu); [intro c; bytecases c | reflexivity |].
  apply (lit_auto _ _ _ St_stateNul); [intro c; bytecases c | reflexivity |].
  apply (lit_auto _ _ _ St_stateEndValue); [intro c; bytecases c | reflexivity |]. apply lit_end.
Qed.

(* ---- numbers ---- *)
Definition hd_ok (P : byte -> bool) (s : bytes) : Prop := match s with c :: _ => P c = true | [] => True end.
Definition nondigit (c : byte) : bool := negb (is_digit c).

Lemma take_digits_cons c r : take_digits (c :: r) =
  if is_digit c then (c :: fst (take_digits r), snd (take_digits r)) else ([], c :: r).
Proof. cbn [take_digits]. destruct (is_digit c); [|reflexivity]. destruct (take_digits r); reflexivity. Qed.

Lemma take_digits_hd s : hd_ok nondigit (snd (take_digits s)).
Proof.
  induction s as [|c r IH]; [exact I|]. rewrite take_digits_cons. destruct (is_digit c) eqn:D; [exact IH|].
  cbn. unfold nondigit. now rewrite D.
Qed.

Lemma digits_loop x stk : (forall c, is_digit c = true -> astep x stk c = Some (x, stk)) ->
  forall s, afinal x stk s = afinal x stk (snd (take_digits s)).
Proof.
  intros Lp. induction s as [|c r IH]; [reflexivity|]. rewrite take_digits_cons. destruct (is_digit c) eqn:D; [|reflexivity].
  cbn [snd]. rewrite afinal_cons, Lp by assumption. exact IH.
Qed.

(* a state that needs one digit, then loops in x0 *)
Lemma digits1 x x0 stk :
  (forall c, astep x stk c = if is_digit c then Some (x0, stk) else None) -> aaccept x stk = false ->
  (forall c, is_digit c = true -> astep x0 stk c = Some (x0, stk)) ->
  forall s, afinal x stk s = match take_digits s with ([], _) => false | (_, rest) => afinal x0 stk rest end.
Proof.
  intros St Ac Lp [|c r]; [exact Ac|]. rewrite afinal_cons, St, take_digits_cons. destruct (is_digit c); [|reflexivity].
  apply digits_loop. exact Lp.
Qed.

(* a state that behaves like EndValue on the bytes satisfying P *)
Definition endlike (x : st) (stk : list ps) (P : byte -> bool) : Prop :=
  aaccept x stk = aaccept St_stateEndValue stk /\
  forall c, P c = true -> astep x stk c = astep St_stateEndValue stk c.

Lemma endlike_final x stk P s : endlike x stk P -> hd_ok P s -> afinal x stk s = afinal St_stateEndValue stk s.
Proof. intros [A B] H. destruct s as [|c r]; [exact A|]. rewrite !afinal_cons, (B c H). reflexivity. Qed.

Definition is_e (c : byte) : bool := Byte.eqb c x65 || Byte.eqb c x45.
Definition is_sign (c : byte) : bool := Byte.eqb c x2b || Byte.eqb c x2d.

Lemma E0_loop stk c : is_digit c = true -> astep St_stateE0 stk c = Some (St_stateE0, stk).
Proof. bytecases c. Qed.
Lemma Dot0_loop stk c : is_digit c = true -> astep St_stateDot0 stk c = Some (St_stateDot0, stk).
Proof. bytecases c. Qed.
Lemma S1_loop stk c : is_digit c = true -> astep St_state1 stk c = Some (St_state1, stk).
Proof. bytecases c. Qed.

Lemma E0_endlike stk : endlike St_stateE0 stk nondigit.
Proof. split; [destruct stk as [|[] l]; reflexivity|]. intros c H. destruct stk as [|[] l]; bytecases c. Qed.

Lemma ESign_step stk c : astep St_stateESign stk c = if is_digit c then Some (St_stateE0, stk) else None.
Proof. bytecases c. Qed.
Lemma E_step stk c : astep St_stateE stk c =
  if is_sign c then Some (St_stateESign, stk) else if is_digit c then Some (St_stateE0, stk) else None.
Proof. bytecases c. Qed.
Lemma Dot_step stk c : astep St_stateDot stk c = if is_digit c then Some (St_stateDot0, stk) else None.
Proof. bytecases c. Qed.

Lemma E0_final stk s : afinal St_stateE0 stk s = afinal St_stateEndValue stk (snd (take_digits s)).
Proof. rewrite (digits_loop _ _ (E0_loop stk)). apply (endlike_final _ _ _ _ (E0_endlike stk)). apply take_digits_hd. Qed.

Lemma scan_exp_cons c r : scan_exp (c :: r) =
  if is_e c then
    let r' := match r with sg :: r'' => if is_sign sg then r'' else r | [] => r end in
    match take_digits r' with
    | ([], _) => None
    | (d, rest) => Some (c :: (match r with sg :: _ => if is_sign sg then [sg] else [] | [] => [] end) ++ d, rest)
    end
  else Some ([], c :: r).
Proof.
  unfold scan_exp, is_e, is_sign. destruct (Byte.eqb c x65 || Byte.eqb c x45); [|reflexivity].
  destruct r as [|sg r'']; [reflexivity|]. destruct (Byte.eqb sg x2b || Byte.eqb sg x2d); reflexivity.
Qed.

Lemma sign_nondigit c : is_sign c = true -> is_digit c = false.
Proof. bytecases c. Qed.

(* the exponent part, from any state that moves to E on e/E and otherwise ends the value *)
Lemma exp_auto x stk P :
  (forall c, is_e c = true -> astep x stk c = Some (St_stateE, stk)) ->
  endlike x stk (fun c => negb (is_e c) && P c) ->
  forall s, hd_ok P s ->
  afinal x stk s = match scan_exp s with Some (_, rest) => afinal St_stateEndValue stk rest | None => false end.
Proof.
  intros He El [|c r] Hd.
  - destruct El as [A _]. exact A.
  - rewrite scan_exp_cons. destruct (is_e c) eqn:Ec.
    + rewrite afinal_cons, He by assumption. cbv zeta.
      assert (forall s, afinal St_stateESign stk s = match take_digits s with ([], _) => false | (_, rest) => afinal St_stateE0 stk rest end) as ES.
      { apply (digits1 _ St_stateE0); [apply ESign_step | reflexivity | apply E0_loop]. }
      destruct r as [|sg r''].
      * reflexivity.
      * rewrite afinal_cons, E_step. destruct (is_sign sg) eqn:Sg.
        { rewrite ES. destruct (take_digits r'') as [[|d0 d] rest] eqn:T; [reflexivity|].
          apply (endlike_final _ _ _ _ (E0_endlike stk)). pose proof (take_digits_hd r'') as H2. rewrite T in H2. exact H2. }
        { rewrite take_digits_cons. destruct (is_digit sg) eqn:D; [|reflexivity]. rewrite E0_final. reflexivity. }
    + apply (endlike_final _ _ _ _ El). cbn. rewrite Ec. cbn. exact Hd.
Qed.

Definition num_tail (stk : list ps) (s2 : bytes) : bool :=
  match scan_frac s2 with
  | None => false
  | Some (_, s3) => match scan_exp s3 with None => false | Some (_, s4) => afinal St_stateEndValue stk s4 end
  end.

Definition notdot (c : byte) : bool := negb (Byte.eqb c x2e).

Lemma scan_frac_cons c r : scan_frac (c :: r) =
  if Byte.eqb c x2e then match take_digits r with ([], _) => None | (d, rest) => Some (x2e :: d, rest) end
  else Some ([], c :: r).
Proof. destruct c; reflexivity. Qed.

Lemma Dot0_e stk c : is_e c = true -> astep St_stateDot0 stk c = Some (St_stateE, stk).
Proof. bytecases c. Qed.
Lemma Dot0_endlike stk : endlike St_stateDot0 stk (fun c => negb (is_e c) && nondigit c).
Proof. split; [destruct stk as [|[] l]; reflexivity|]. intros c H. destruct stk as [|[] l]; bytecases c. Qed.
Lemma S0_e stk c : is_e c = true -> astep St_state0 stk c = Some (St_stateE, stk).
Proof. bytecases c. Qed.
Lemma S0_endlike stk : endlike St_state0 stk (fun c => negb (is_e c) && notdot c).
Proof. split; [destruct stk as [|[] l]; reflexivity|]. intros c H. destruct stk as [|[] l]; bytecases c. Qed.
Lemma S1_e stk c : is_e c = true -> astep St_state1 stk c = Some (St_stateE, stk).
Proof. bytecases c. Qed.
Lemma S1_endlike stk : endlike St_state1 stk (fun c => negb (is_e c) && (nondigit c && notdot c)).
Proof. split; [destruct stk as [|[] l]; reflexivity|]. intros c H. destruct stk as [|[] l]; bytecases c. Qed.

(* fraction and exponent after the integer part, from state 0 or state 1 *)
Lemma tail_auto x stk P :
  astep x stk x2e = Some (St_stateDot, stk) ->
  (forall c, is_e c = true -> astep x stk c = Some (St_stateE, stk)) ->
  endlike x stk (fun c => negb (is_e c) && (P c && notdot c)) ->
  forall s, hd_ok P s -> afinal x stk s = num_tail stk s.
Proof.
  intros Hd He El [|c r] Hs.
  - destruct El as [A _]. exact A.
  - unfold num_tail. rewrite scan_frac_cons. destruct (Byte.eqb c x2e) eqn:Dt.
    + apply Byte.byte_dec_bl in Dt. subst c. rewrite afinal_cons, Hd.
      rewrite (digits1 _ St_stateDot0 stk (Dot_step stk) eq_refl (Dot0_loop stk)).
      destruct (take_digits r) as [[|d0 d] rest] eqn:T; [reflexivity|].
      apply (exp_auto _ _ nondigit (Dot0_e stk) (Dot0_endlike stk)).
      pose proof (take_digits_hd r) as H2. rewrite T in H2. exact H2.
    + apply (exp_auto x stk (fun c => P c && notdot c) He El). cbn. unfold notdot. rewrite Dt. cbn in Hs. rewrite Hs. reflexivity.
Qed.

Definition tt_ (c : byte) : bool := true.

Lemma int_auto y stk c r :
  astep y stk c = (if Byte.eqb c x30 then Some (St_state0, stk) else if is_digit19 c then Some (St_state1, stk) else None) ->
  afinal y stk (c :: r) = match scan_int (c :: r) with None => false | Some (_, s2) => num_tail stk s2 end.
Proof.
  intros St. rewrite afinal_cons, St. unfold scan_int. destruct (Byte.eqb c x30).
  - apply (tail_auto _ _ tt_); [reflexivity | apply S0_e | apply S0_endlike | destruct r; exact eq_refl || exact I].
  - destruct (is_digit19 c); [|reflexivity]. rewrite (digits_loop _ _ (S1_loop stk)).
    destruct (take_digits r) as [d rest] eqn:T. cbn [snd].
    apply (tail_auto _ _ nondigit); [reflexivity | apply S1_e | apply S1_endlike |].
    pose proof (take_digits_hd r) as H2. rewrite T in H2. exact H2.
Qed.

Lemma Neg_step stk c : astep St_stateNeg stk c =
  if Byte.eqb c x30 then Some (St_state0, stk) else if is_digit19 c then Some (St_state1, stk) else None.
Proof. bytecases c. Qed.

Definition special (c : byte) : bool :=
  is_ws c || match c with x7b | x5b | x22 | x74 | x66 | x6e => true | _ => false end.

Lemma BV_num_step stk c : special c = false -> Byte.eqb c x2d = false ->
  astep St_stateBeginValue stk c =
  if Byte.eqb c x30 then Some (St_state0, stk) else if is_digit19 c then Some (St_state1, stk) else None.
Proof. bytecases c. Qed.

Definition num_verdict (stk : list ps) (s : bytes) : bool :=
  match scan_number s with Some (_, rest) => afinal St_stateEndValue stk rest | None => false end.

Lemma scan_number_cons c r : scan_number (c :: r) =
  match scan_int (if Byte.eqb c x2d then r else c :: r) with
  | None => None
  | Some (i, s2) =>
      match scan_frac s2 with
      | None => None
      | Some (f, s3) =>
          match scan_exp s3 with
          | None => None
          | Some (e, s4) => Some ((if Byte.eqb c x2d then [x2d] else []) ++ i ++ f ++ e, s4)
          end
      end
  end.
Proof. destruct c; reflexivity. Qed.

Lemma scan_number_verdict stk c r :
  num_verdict stk (c :: r) =
  match scan_int (if Byte.eqb c x2d then r else c :: r) with None => false | Some (_, s2) => num_tail stk s2 end.
Proof.
  unfold num_verdict, num_tail. rewrite scan_number_cons.
  destruct (scan_int _) as [[i s2]|]; [|reflexivity]. destruct (scan_frac s2) as [[f s3]|]; [|reflexivity].
  destruct (scan_exp s3) as [[e s4]|]; reflexivity.
Qed.

(* a value that starts with a byte that is not white space and not the first byte of an object, array, string or literal *)
Lemma number_auto stk c r : special c = false ->
  afinal St_stateBeginValue stk (c :: r) = num_verdict stk (c :: r).
Proof.
  intros Sp. rewrite scan_number_verdict. destruct (Byte.eqb c x2d) eqn:M.
  - apply Byte.byte_dec_bl in M. subst c. rewrite afinal_cons. change (astep St_stateBeginValue stk x2d) with (Some (St_stateNeg, stk)).
    cbv beta iota. destruct r as [|c2 r2]; [reflexivity|]. apply int_auto. apply Neg_step.
  - apply int_auto. apply BV_num_step; assumption.
Qed.

(* ---- how much the reader consumes ---- *)
Lemma skip_ws_len s : (length (skip_ws s) <= length s)%nat.
Proof. induction s as [|c r IH]; [apply le_n|]. cbn [skip_ws]. destruct (is_ws c); simpl in *; lia. Qed.

Lemma scan_string_len : forall (n : nat) s b rest, (length s <= n)%nat -> scan_string s = Some (b, rest) -> (length rest < length s)%nat.
Proof.
  induction n as [|n IH]; intros s b rest L H.
  - destruct s; [discriminate | simpl in L; lia].
  - destruct s as [|c r]; [discriminate|]. simpl in L.
    assert (G : forall r0 (pre : bytes), (length r0 <= length r)%nat ->
                match scan_string r0 with Some (b1, rest1) => Some (pre ++ b1, rest1) | None => None end = Some (b, rest) ->
                (length rest < length (c :: r))%nat).
    { intros r0 pre L0 E. destruct (scan_string r0) as [[b1 rest1]|] eqn:S0; [|discriminate]. inversion E; subst.
      assert (length rest < length r0)%nat by (eapply IH; [|exact S0]; lia). simpl; lia. }
    cbn [scan_string] in H. destruct c;
      try match type of H with context [(bn ?c <? 32)%N] =>
            let v := eval vm_compute in (bn c <? 32)%N in change (bn c <? 32)%N with v in H; cbv iota in H end;
      try (exact (G r [_] (le_n _) H)); try discriminate.
    + inversion H; subst. simpl. lia.
    + destruct r as [|e r']; [discriminate|]. destruct e; try discriminate;
        try (refine (G r' [_; _] _ H); simpl; lia).
      destruct r' as [|h1 [|h2 [|h3 [|h4 r'']]]]; try discriminate.
      destruct (is_hex h1 && is_hex h2 && is_hex h3 && is_hex h4); [|discriminate].
      refine (G r'' [_; _; _; _; _; _] _ H); simpl; lia.
Qed.

Lemma take_digits_len s : (length (snd (take_digits s)) <= length s)%nat.
Proof. induction s as [|c r IH]; [apply le_n|]. rewrite take_digits_cons. destruct (is_digit c); simpl in *; lia. Qed.

Lemma scan_number_len s lit rest : scan_number s = Some (lit, rest) -> (length rest < length s)%nat.
Proof.
  destruct s as [|c r]; [discriminate|]. rewrite scan_number_cons.
  destruct (scan_int _) as [[i s2]|] eqn:I; [|discriminate]. destruct (scan_frac s2) as [[f s3]|] eqn:F; [|discriminate].
  destruct (scan_exp s3) as [[e s4]|] eqn:E; [|discriminate]. intro H. inversion H; subst. clear H.
  assert (length s2 < length (c :: r))%nat as L2.
  { assert (forall s, scan_int s = Some (i, s2) -> (length s2 < length s)%nat) as K.
    { intros [|c0 r0]; [discriminate|]. unfold scan_int. destruct (Byte.eqb c0 x30).
      - intro H. inversion H. simpl. lia.
      - destruct (is_digit19 c0); [|discriminate]. pose proof (take_digits_len r0). destruct (take_digits r0). intro H'. inversion H'; subst. simpl in *. lia. }
    apply K in I. destruct (Byte.eqb c x2d); simpl in *; lia. }
  assert (length s3 <= length s2)%nat as L3.
  { destruct s2 as [|c2 r2]; [inversion F; apply le_n|]. rewrite scan_frac_cons in F. destruct (Byte.eqb c2 x2e).
    - pose proof (take_digits_len r2). destruct (take_digits r2) as [[|d0 d] rs]; [discriminate|]. inversion F; subst. simpl in *. lia.
    - inversion F. apply le_n. }
  assert (length rest <= length s3)%nat as L4.
  { destruct s3 as [|c3 r3]; [inversion E; apply le_n|]. rewrite scan_exp_cons in E. destruct (is_e c3); [|inversion E; apply le_n].
    cbv zeta in E. set (r' := match r3 with sg :: r'' => if is_sign sg then r'' else r3 | [] => r3 end) in E.
    assert (length r' <= length r3)%nat. { subst r'. destruct r3 as [|sg r'']; [apply le_n|]. destruct (is_sign sg); simpl; lia. }
    pose proof (take_digits_len r'). destruct (take_digits r') as [[|d0 d] rs]; [discriminate|]. inversion E; subst. simpl in *. lia. }
  lia.
Qed.

Lemma strip_prefix_len pat : forall s rest, strip_prefix pat s = Some rest -> (length rest <= length s)%nat.
Proof.
  induction pat as [|w pat IH]; intros s rest H.
  - destruct s; inversion H; apply le_n.
  - destruct s as [|c s]; [discriminate|]. rewrite strip_prefix_cons in H. destruct (Byte.eqb w c); [|discriminate].
    apply IH in H. simpl. lia.
Qed.

Lemma skip_ws_cons_len s c r : skip_ws s = c :: r -> (length r < length s)%nat.
Proof. intro H. pose proof (skip_ws_len s) as L. rewrite H in L. simpl in L. lia. Qed.

Lemma parse_len : forall f,
  (forall d s t rest, parse_value f d s = Some (t, rest) -> (length rest < length s)%nat) /\
  (forall d s l rest, parse_elems f d s = Some (l, rest) -> (length rest < length s)%nat) /\
  (forall d s ms rest, parse_members f d s = Some (ms, rest) -> (length rest < length s)%nat).
Proof.
  induction f as [|f [IV [IE IM]]]; [repeat split; intros; discriminate|]. repeat split.
  - intros d s t rest H. cbn [parse_value] in H. destruct (skip_ws s) as [|c r] eqn:W; [discriminate|].
    apply skip_ws_cons_len in W.
    assert (N : forall lit, match scan_number (c :: r) with Some (lit0, rest0) => Some (lit lit0, rest0) | None => None end = Some (t, rest) ->
                (length rest < length s)%nat).
    { intros lit E. destruct (scan_number (c :: r)) as [[l0 r0]|] eqn:Sn; [|discriminate]. inversion E; subst.
      apply scan_number_len in Sn. simpl in Sn. lia. }
    assert (P : forall pat v, match strip_prefix pat r with Some rest0 => Some (v, rest0) | None => None end = Some (t, rest) ->
                (length rest < length s)%nat).
    { intros pat v E. destruct (strip_prefix pat r) as [r0|] eqn:Sp; [|discriminate]. inversion E; subst. apply strip_prefix_len in Sp. lia. }
    destruct c; try (apply (N TNum); exact H); try (eapply P; exact H).
    + destruct (scan_string r) as [[b r0]|] eqn:Ss; [|discriminate]. inversion H; subst.
      apply (scan_string_len _ _ _ _ (le_n _)) in Ss. lia.
    + destruct (d =? 0)%N; [discriminate|]. destruct (skip_ws r) as [|c2 r2] eqn:W2.
      * destruct (parse_elems f (d - 1) r) as [[l r0]|] eqn:Pe; [|discriminate]. inversion H; subst. apply IE in Pe. lia.
      * assert (D : match parse_elems f (d - 1) r with Some (l, rest0) => Some (TArr l, rest0) | None => None end = Some (t, rest) ->
                    (length rest < length s)%nat).
        { destruct (parse_elems f (d - 1) r) as [[l r0]|] eqn:Pe; [|discriminate]. intro E; inversion E; subst. apply IE in Pe. lia. }
        apply skip_ws_cons_len in W2. destruct c2; try (exact (D H)). inversion H; subst. lia.
    + destruct (d =? 0)%N; [discriminate|]. destruct (skip_ws r) as [|c2 r2] eqn:W2.
      * destruct (parse_members f (d - 1) r) as [[l r0]|] eqn:Pe; [|discriminate]. inversion H; subst. apply IM in Pe. lia.
      * assert (D : match parse_members f (d - 1) r with Some (l, rest0) => Some (TObj l, rest0) | None => None end = Some (t, rest) ->
                    (length rest < length s)%nat).
        { destruct (parse_members f (d - 1) r) as [[l r0]|] eqn:Pe; [|discriminate]. intro E; inversion E; subst. apply IM in Pe. lia. }
        apply skip_ws_cons_len in W2. destruct c2; try (exact (D H)). inversion H; subst. lia.
  - intros d s l rest H. cbn [parse_elems] in H. destruct (parse_value f d s) as [[v r0]|] eqn:Pv; [|discriminate].
    apply IV in Pv. destruct (skip_ws r0) as [|c r] eqn:W; [discriminate|]. apply skip_ws_cons_len in W.
    destruct c; try discriminate.
    + destruct (parse_elems f d r) as [[l0 r1]|] eqn:Pe; [|discriminate]. inversion H; subst. apply IE in Pe. lia.
    + inversion H; subst. lia.
  - intros d s ms rest H. cbn [parse_members] in H. destruct (skip_ws s) as [|c r] eqn:W; [discriminate|].
    apply skip_ws_cons_len in W. destruct c; try discriminate.
    destruct (scan_string r) as [[k r0]|] eqn:Ss; [|discriminate]. apply (scan_string_len _ _ _ _ (le_n _)) in Ss.
    destruct (skip_ws r0) as [|c1 r1] eqn:W1; [discriminate|]. apply skip_ws_cons_len in W1. destruct c1; try discriminate.
    destruct (parse_value f d r1) as [[v r2]|] eqn:Pv; [|discriminate]. apply IV in Pv.
    destruct (skip_ws r2) as [|c3 r3] eqn:W3; [discriminate|]. apply skip_ws_cons_len in W3. destruct c3; try discriminate.
    + destruct (parse_members f d r3) as [[l0 r4]|] eqn:Pe; [|discriminate]. inversion H; subst. apply IM in Pe. lia.
    + inversion H; subst. lia.
Qed.

(* ---- nesting ---- *)
Definition dep (stk : list ps) (d : N) : Prop := (N.of_nat (length stk) + d = max_depth)%N.

Definition verdict {A} (r : option (A * bytes)) (stk : list ps) : bool :=
  match r with Some (_, rest) => afinal St_stateEndValue stk rest | None => false end.

Lemma verdict_map {A B} (g : A -> B) (r : option (A * bytes)) stk :
  verdict (match r with Some (a, rest) => Some (g a, rest) | None => None end) stk = verdict r stk.
Proof. destruct r as [[a rest]|]; reflexivity. Qed.

Lemma push_test stk p d : dep stk d -> (ps_len (p :: stk) <=? maxNestingDepth)%Z = negb (d =? 0)%N.
Proof.
  unfold dep, ps_len, maxNestingDepth, max_depth. intro D. cbn [length].
  destruct (Z.leb_spec (Z.of_nat (S (length stk))) 10000); destruct (N.eqb_spec d 0); cbn; try reflexivity; lia.
Qed.

Lemma push_arr stk d : dep stk d ->
  astep St_stateBeginValue stk x5b =
  if (d =? 0)%N then None else Some (St_stateBeginValueOrEmpty, parseArrayValue :: stk).
Proof.
  intro D. pose proof (push_test stk parseArrayValue d D) as T.
  unfold astep, canon. cbn -[Z.leb ps_len maxNestingDepth]. unfold scanner_pushParseState. cbn -[Z.leb ps_len maxNestingDepth]. rewrite T. destruct (d =? 0)%N; reflexivity.
Qed.

Lemma push_obj stk d : dep stk d ->
  astep St_stateBeginValue stk x7b =
  if (d =? 0)%N then None else Some (St_stateBeginStringOrEmpty, parseObjectKey :: stk).
Proof.
  intro D. pose proof (push_test stk parseObjectKey d D) as T.
  unfold astep, canon. cbn -[Z.leb ps_len maxNestingDepth]. unfold scanner_pushParseState. cbn -[Z.leb ps_len maxNestingDepth]. rewrite T. destruct (d =? 0)%N; reflexivity.
Qed.

Definition popped (l : list ps) : st := match l with [] => St_stateEndTop | _ => St_stateEndValue end.

Lemma pop_test p q l : (ps_len (p :: q :: l) + -1 =? 0)%Z = false.
Proof. unfold ps_len. cbn [length]. apply Z.eqb_neq. lia. Qed.

Lemma pop_arr l : astep St_stateEndValue (parseArrayValue :: l) x5d = Some (popped l, l).
Proof.
  destruct l as [|q l]; [reflexivity|]. pose proof (pop_test parseArrayValue q l) as T.
  unfold astep, canon. cbn -[Z.eqb ps_len Z.add]. unfold scanner_popParseState. cbn -[Z.eqb ps_len Z.add]. cbn -[Z.eqb ps_len Z.add] in T. rewrite T. reflexivity.
Qed.

Lemma pop_obj l : astep St_stateEndValue (parseObjectValue :: l) x7d = Some (popped l, l).
Proof.
  destruct l as [|q l]; [reflexivity|]. pose proof (pop_test parseObjectValue q l) as T.
  unfold astep, canon. cbn -[Z.eqb ps_len Z.add]. unfold scanner_popParseState. cbn -[Z.eqb ps_len Z.add]. cbn -[Z.eqb ps_len Z.add] in T. rewrite T. reflexivity.
Qed.

Lemma empty_arr l : astep St_stateBeginValueOrEmpty (parseArrayValue :: l) x5d = Some (popped l, l).
Proof.
  destruct l as [|q l]; [reflexivity|]. pose proof (pop_test parseArrayValue q l) as T.
  unfold astep, canon. cbn -[Z.eqb ps_len Z.add]. unfold scanner_popParseState. cbn -[Z.eqb ps_len Z.add]. cbn -[Z.eqb ps_len Z.add] in T. rewrite T. reflexivity.
Qed.

Lemma empty_obj l : astep St_stateBeginStringOrEmpty (parseObjectKey :: l) x7d = Some (popped l, l).
Proof.
  destruct l as [|q l]; [reflexivity|]. pose proof (pop_test parseObjectValue q l) as T.
  unfold astep, canon. cbn -[Z.eqb ps_len Z.add]. unfold scanner_popParseState. cbn -[Z.eqb ps_len Z.add]. cbn -[Z.eqb ps_len Z.add] in T. rewrite T. reflexivity.
Qed.

Lemma popped_final l s : afinal (popped l) l s = afinal St_stateEndValue l s.
Proof. destruct l as [|q l]; [|reflexivity]. cbn [popped]. now rewrite afinal_endtop, afinal_endvalue_top. Qed.

Lemma bvoe_other stk c : is_ws c = false -> Byte.eqb c x5d = false ->
  astep St_stateBeginValueOrEmpty stk c = astep St_stateBeginValue stk c.
Proof. bytecases c. Qed.

Lemma bsoe_other stk c : is_ws c = false -> Byte.eqb c x7d = false ->
  astep St_stateBeginStringOrEmpty stk c = astep St_stateBeginString stk c.
Proof. bytecases c. Qed.

Lemma skip_ws_hd s c r : skip_ws s = c :: r -> is_ws c = false.
Proof.
  induction s as [|a s IH]; [discriminate|]. cbn [skip_ws]. destruct (is_ws a) eqn:W; [exact IH|].
  intro H. inversion H; subst. exact W.
Qed.
