(* Abs.v — the value a model node denotes (abstraction function from the lazily parsed
   representation to decoded ordered JSON), the representation invariant, and the lemmas that
   relate the representation's bookkeeping (ordered key list + member map) to association lists.
   Proof infrastructure for the refinement theorems (merge, equal, apply). *)
From Coq Require Import Lia.
From JP Require Import Bytes Json Text Strings Den ImplV5 DecodeFacts JsonFacts.

Definition or_null (o : option ojson) : ojson := match o with Some c => c | None => ONull end.

(* ---- the value of a node ---- *)
Fixpoint aval (n : node) : ojson :=
  match n with
  | NNil => ONull
  | NRaw t => den t
  | NDoc keys obj =>
      OObj (map (fun k => (k,
                           match (fix look (m : list (bytes * node)) : option ojson :=
                                    match m with
                                    | [] => None
                                    | (k', v) :: r => if bseq k k' then Some (aval v) else look r
                                    end) obj with
                           | Some j => j
                           | None => ONull
                           end)) keys)
  | NAry ns => OArr (map aval ns)
  end.

Definition abs_members (keys : list bytes) (obj : list (bytes * node)) : list (bytes * ojson) :=
  map (fun k => (k, or_null (option_map aval (aget k obj)))) keys.

Lemma aval_doc keys obj : aval (NDoc keys obj) = OObj (abs_members keys obj).
Proof.
  simpl. f_equal. unfold abs_members. apply map_ext. intro k. f_equal.
  induction obj as [|[k' v] obj IH]; simpl; auto. destruct (bseq k k'); auto.
Qed.

(* ---- induction on nodes ---- *)
Section NodeInd.
  Variable P : node -> Prop.
  Hypothesis Hnil : P NNil.
  Hypothesis Hraw : forall t, P (NRaw t).
  Hypothesis Hdoc : forall keys obj, Forall (fun kv => P (snd kv)) obj -> P (NDoc keys obj).
  Hypothesis Hary : forall ns, Forall P ns -> P (NAry ns).
  Fixpoint node_rect' (n : node) : P n :=
    match n with
    | NNil => Hnil
    | NRaw t => Hraw t
    | NDoc keys obj =>
        Hdoc keys obj ((fix go (m : list (bytes * node)) : Forall (fun kv => P (snd kv)) m :=
                          match m with
                          | [] => Forall_nil _
                          | kv :: r => Forall_cons _ (node_rect' (snd kv)) (go r)
                          end) obj)
    | NAry ns =>
        Hary ns ((fix go (l : list node) : Forall P l :=
                    match l with
                    | [] => Forall_nil _
                    | x :: r => Forall_cons _ (node_rect' x) (go r)
                    end) ns)
    end.
End NodeInd.

Section TjsonInd.
  Variable P : tjson -> Prop.
  Hypothesis Hnull : P TNull.
  Hypothesis Htrue : P TTrue.
  Hypothesis Hfalse : P TFalse.
  Hypothesis Hnum : forall l, P (TNum l).
  Hypothesis Hstr : forall s, P (TStr s).
  Hypothesis Harr : forall l, Forall P l -> P (TArr l).
  Hypothesis Hobj : forall ms, Forall (fun kv => P (snd kv)) ms -> P (TObj ms).
  Fixpoint tjson_rect' (t : tjson) : P t :=
    match t with
    | TNull => Hnull | TTrue => Htrue | TFalse => Hfalse
    | TNum l => Hnum l | TStr s => Hstr s
    | TArr l =>
        Harr l ((fix go (l : list tjson) : Forall P l :=
                   match l with [] => Forall_nil _ | x :: r => Forall_cons _ (tjson_rect' x) (go r) end) l)
    | TObj ms =>
        Hobj ms ((fix go (m : list (bytes * tjson)) : Forall (fun kv => P (snd kv)) m :=
                    match m with [] => Forall_nil _ | kv :: r => Forall_cons _ (tjson_rect' (snd kv)) (go r) end) ms)
    end.
End TjsonInd.

(* ---- the representation invariant ---- *)
Definition keys_agree (keys : list bytes) (obj : list (bytes * node)) : Prop :=
  NoDup keys /\ NoDup (map fst obj) /\ (forall k, In k keys <-> In k (map fst obj)).

Fixpoint nwf (n : node) : Prop :=
  match n with
  | NNil => True
  | NRaw t => tnodup t = true
  | NDoc keys obj =>
      keys_agree keys obj /\
      (fix all (m : list (bytes * node)) : Prop :=
         match m with [] => True | kv :: r => nwf (snd kv) /\ all r end) obj
  | NAry ns =>
      (fix all (l : list node) : Prop := match l with [] => True | x :: r => nwf x /\ all r end) ns
  end.

Lemma nwf_doc keys obj : nwf (NDoc keys obj) <-> keys_agree keys obj /\ Forall (fun kv => nwf (snd kv)) obj.
Proof.
  cbn [nwf]. split; intros [H1 H2]; (split; [exact H1|]); clear H1.
  - induction obj as [|kv obj IH]; constructor; destruct H2; auto.
  - induction obj as [|kv obj IH]; [exact I|]. inversion H2 as [|? ? Ha Hb]; subst. split; [exact Ha | apply IH; exact Hb].
Qed.

Lemma nwf_ary ns : nwf (NAry ns) <-> Forall nwf ns.
Proof.
  cbn [nwf]. split; intro H.
  - induction ns as [|x ns IH]; constructor; destruct H; auto.
  - induction ns as [|x ns IH]; [exact I|]. inversion H as [|? ? Ha Hb]; subst. split; [exact Ha | apply IH; exact Hb].
Qed.

Arguments nwf : simpl never.
Lemma nwf_nil : nwf NNil. Proof. exact I. Qed.
Lemma nwf_raw t : nwf (NRaw t) <-> tnodup t = true. Proof. reflexivity. Qed.

(* ---- den on texts without duplicate names ---- *)
Lemma alast_notin {A} k (m : list (bytes * A)) d : ~ In k (map fst m) -> alast k m d = d.
Proof.
  revert d. induction m as [|[k' v] m IH]; intros d H; simpl; auto.
  simpl in H. assert (bseq k k' = false) by (apply bseq_neq; intro; subst; auto).
  rewrite H0. apply IH. auto.
Qed.

Lemma resolve_dups_nodup {A} (m : list (bytes * A)) : NoDup (map fst m) -> resolve_dups m = m.
Proof.
  unfold resolve_dups. intro N.
  assert (G : forall pre suf, m = pre ++ suf -> NoDup (map fst suf) ->
              (forall kv, In kv suf -> ~ In (fst kv) (map fst pre) -> alast (fst kv) m (snd kv) = snd kv) ).
  { intros pre suf E Ns kv Hin Hpre. subst m. clear N.
    assert (W : forall d, alast (fst kv) (pre ++ suf) d = alast (fst kv) suf d).
    { induction pre as [|[k' v'] pre IHp]; intro d; simpl; auto.
      simpl in Hpre. assert (bseq (fst kv) k' = false) by (apply bseq_neq; intro E; apply Hpre; left; auto).
      rewrite H. apply IHp. intro; apply Hpre; right; auto. }
    rewrite W. clear W Hpre. induction suf as [|[k' v'] suf IHs]; [destruct Hin|].
    simpl in Ns. inversion Ns; subst. destruct Hin as [E|Hin].
    - subst kv. simpl. rewrite bseq_refl. apply alast_notin; auto.
    - simpl. assert (bseq (fst kv) k' = false).
      { apply bseq_neq. intro E. apply H1. rewrite <- E. apply in_map_iff. exists kv; auto. }
      rewrite H. apply IHs; auto. }
  assert (M : forall l, (forall kv, In kv l -> alast (fst kv) m (snd kv) = snd kv) ->
                        map (fun kv => (fst kv, alast (fst kv) m (snd kv))) l = l).
  { induction l as [|[k v] l IH]; intro H; simpl; auto. f_equal.
    - f_equal. apply (H (k, v)). now left.
    - apply IH. intros; apply H; now right. }
  apply M. intros kv Hin. apply (G [] m eq_refl N kv Hin). simpl. tauto.
Qed.

Definition den_members (ms : list (bytes * tjson)) : list (bytes * ojson) :=
  map (fun kv => (unquote (fst kv), den (snd kv))) ms.

Lemma den_members_keys ms : map fst (den_members ms) = map (fun kv => unquote (fst kv)) ms.
Proof. unfold den_members. rewrite map_map. reflexivity. Qed.

Lemma tnodup_obj ms :
  tnodup (TObj ms) = true <->
  NoDup (map (fun kv => unquote (fst kv)) ms) /\ Forall (fun kv => tnodup (snd kv) = true) ms.
Proof.
  unfold tnodup. cbn [den]. fold (den_members ms). rewrite onodup_obj.
  assert (K : map fst (resolve_dups (den_members ms)) = map (fun kv => unquote (fst kv)) ms).
  { unfold resolve_dups. rewrite map_map. simpl. rewrite <- den_members_keys. reflexivity. }
  rewrite K. split; intros [N F]; split; auto.
  - rewrite resolve_dups_nodup in F by (rewrite den_members_keys; auto).
    unfold den_members in F. rewrite Forall_map in F. exact F.
  - rewrite resolve_dups_nodup by (rewrite den_members_keys; auto).
    unfold den_members. rewrite Forall_map. exact F.
Qed.

Lemma den_obj_nodup ms : tnodup (TObj ms) = true -> den (TObj ms) = OObj (den_members ms).
Proof.
  intro H. apply tnodup_obj in H as [N _]. cbn [den]. fold (den_members ms).
  rewrite resolve_dups_nodup; auto. rewrite den_members_keys; auto.
Qed.

Lemma tnodup_arr l : tnodup (TArr l) = true <-> Forall (fun x => tnodup x = true) l.
Proof. unfold tnodup. cbn [den]. rewrite onodup_arr, Forall_map. reflexivity. Qed.

(* ---- bookkeeping: ordered key list + member map ---- *)
Lemma aset_notin {A} k (v : A) m : ~ In k (map fst m) -> aset k v m = m ++ [(k, v)].
Proof.
  induction m as [|[k' v'] m IH]; simpl; intro H; auto.
  assert (bseq k k' = false) by (apply bseq_neq; intro; subst; auto). rewrite H0. f_equal. apply IH. auto.
Qed.

Lemma build_obj_nodup ms : forall acc,
  NoDup (map fst acc ++ map (fun kv => unquote (fst kv)) ms) ->
  build_obj ms acc = acc ++ map (fun kv => (unquote (fst kv), child (snd kv))) ms.
Proof.
  induction ms as [|[k v] ms IH]; intros acc N; simpl.
  - now rewrite app_nil_r.
  - simpl in N. rewrite aset_notin.
    + rewrite IH.
      * rewrite <- app_assoc. reflexivity.
      * rewrite map_app. simpl. rewrite <- app_assoc. exact N.
    + intro Hin. apply NoDup_remove_2 in N. apply N. apply in_or_app. now left.
Qed.

Fixpoint build_with (f : tjson -> node) (ms : list (bytes * tjson)) (acc : list (bytes * node)) : list (bytes * node) :=
  match ms with
  | [] => acc
  | (k, v) :: r => build_with f r (aset (unquote k) (f v) acc)
  end.

Lemma build_with_nodup f ms : forall acc,
  NoDup (map fst acc ++ map (fun kv => unquote (fst kv)) ms) ->
  build_with f ms acc = acc ++ map (fun kv => (unquote (fst kv), f (snd kv))) ms.
Proof.
  induction ms as [|[k v] ms IH]; intros acc N; simpl.
  - now rewrite app_nil_r.
  - simpl in N. rewrite aset_notin.
    + rewrite IH.
      * rewrite <- app_assoc. reflexivity.
      * rewrite map_app. simpl. rewrite <- app_assoc. exact N.
    + intro Hin. apply NoDup_remove_2 in N. apply N. apply in_or_app. now left.
Qed.

Lemma doc_of_nodup ms :
  NoDup (map (fun kv => unquote (fst kv)) ms) ->
  doc_of ms = (map (fun kv => unquote (fst kv)) ms, map (fun kv => (unquote (fst kv), child (snd kv))) ms).
Proof. intro N. unfold doc_of. rewrite build_obj_nodup; auto. Qed.

Lemma aval_child t : aval (child t) = den t.
Proof. destruct t; reflexivity. Qed.

Lemma abs_members_self obj :
  NoDup (map fst obj) -> abs_members (map fst obj) obj = map (fun kv => (fst kv, aval (snd kv))) obj.
Proof.
  intro N. unfold abs_members. rewrite map_map. apply map_ext_in. intros [k v] Hin. simpl.
  rewrite (In_aget_nodup k v obj N Hin). reflexivity.
Qed.

Lemma keys_agree_self {obj : list (bytes * node)} : NoDup (map fst obj) -> keys_agree (map fst obj) obj.
Proof. intro N. repeat split; auto. Qed.

(* lazy parsing does not change the value: the container a raw object/array is parsed into
   denotes the same value, and satisfies the invariant *)
Lemma parsed_obj ms :
  tnodup (TObj ms) = true ->
  let (keys, obj) := doc_of ms in
  aval (NDoc keys obj) = den (TObj ms) /\ nwf (NDoc keys obj).
Proof.
  intro T. pose proof (den_obj_nodup ms T) as D. apply tnodup_obj in T as [N F].
  rewrite doc_of_nodup by auto. rewrite D.
  set (obj := map (fun kv => (unquote (fst kv), child (snd kv))) ms).
  assert (K : map fst obj = map (fun kv => unquote (fst kv)) ms) by (unfold obj; rewrite map_map; reflexivity).
  rewrite <- K. split.
  - rewrite aval_doc, abs_members_self by (rewrite K; auto). f_equal.
    unfold obj, den_members. rewrite map_map. apply map_ext. intros [k v]. simpl. now rewrite aval_child.
  - apply nwf_doc. split; [apply keys_agree_self; rewrite K; auto|].
    unfold obj. rewrite Forall_map. rewrite Forall_forall in *. intros [k v] Hin. simpl.
    specialize (F _ Hin). simpl in F. destruct v; try exact I; exact F.
Qed.

Lemma parsed_arr l :
  tnodup (TArr l) = true -> aval (NAry (map child l)) = den (TArr l) /\ nwf (NAry (map child l)).
Proof.
  intro T. apply tnodup_arr in T. split.
  - simpl. f_equal. rewrite map_map. apply map_ext. intro t. apply aval_child.
  - apply nwf_ary. rewrite Forall_map. rewrite Forall_forall in *. intros t Hin. specialize (T _ Hin).
    destruct t; try exact I; exact T.
Qed.

(* set / add of a member *)
Lemma abs_members_ext keys obj obj' :
  (forall k, In k keys -> aget k obj' = aget k obj) -> abs_members keys obj' = abs_members keys obj.
Proof. intro H. unfold abs_members. apply map_ext_in. intros k Hin. now rewrite H. Qed.

Lemma abs_doc_set keys obj k v :
  keys_agree keys obj ->
  let (keys', obj') := doc_set keys obj k v in
  abs_members keys' obj' = aset k (aval v) (abs_members keys obj) /\ keys_agree keys' obj'.
Proof.
  intros [Nk [No Ag]]. unfold doc_set.
  destruct (kmem k keys) eqn:M.
  - apply kmem_In in M. split.
    + unfold abs_members. clear Ag No. induction keys as [|k' keys IH]; [destruct M|].
      inversion Nk; subst. simpl. destruct (bseq k k') eqn:E.
      * apply bseq_eq in E. subst k'. rewrite aget_aset_same. simpl. f_equal.
        apply map_ext_in. intros k2 Hin. rewrite aget_aset_other; auto. apply bseq_neq. intro; subst; auto.
      * assert (bseq k' k = false) by (rewrite bseq_sym; auto). rewrite aget_aset_other by auto. f_equal.
        apply IH; auto. destruct M; auto. subst. rewrite bseq_refl in E. discriminate.
    + repeat split; auto.
      * apply NoDup_keys_aset; auto.
      * intro H. rewrite keys_aset. apply Ag in H as H'. destruct (amem k obj); auto. apply in_or_app; auto.
      * rewrite keys_aset. intro H. destruct (amem k obj) eqn:Am; [apply Ag; auto|].
        apply in_app_or in H as [H|[H|[]]]; [apply Ag; auto | subst; auto].
  - apply kmem_false_In in M. assert (Mo : ~ In k (map fst obj)) by (intro H; apply Ag in H; auto).
    split.
    + unfold abs_members. rewrite map_app. simpl. rewrite aget_aset_same. simpl.
      rewrite (aset_notin k (aval v)) by (rewrite map_map; simpl; rewrite map_id; exact M).
      f_equal. apply map_ext_in. intros k2 Hin. rewrite aget_aset_other; auto. apply bseq_neq. intro; subst; auto.
    + repeat split.
      * apply NoDup_app_intro; auto. { constructor; [intros []|constructor]. } intros x H1 [H2|[]]. subst; auto.
      * apply NoDup_keys_aset; auto.
      * intro H. rewrite keys_aset. replace (amem k obj) with false by (symmetry; destruct (amem k obj) eqn:Am; auto; apply amem_In in Am; contradiction).
        apply in_app_or in H as [H|H]; apply in_or_app; [left; apply Ag; auto | right; auto].
      * rewrite keys_aset. replace (amem k obj) with false by (symmetry; destruct (amem k obj) eqn:Am; auto; apply amem_In in Am; contradiction).
        intro H. apply in_app_or in H as [H|H]; apply in_or_app; [left; apply Ag; auto | right; auto].
Qed.

Lemma kdel1_notin k keys : ~ In k keys -> kdel1 k keys = keys.
Proof.
  induction keys as [|k' keys IH]; simpl; auto. intro H.
  assert (bseq k k' = false) by (apply bseq_neq; intro; subst; auto). rewrite H0. f_equal. auto.
Qed.

Lemma In_kdel1 k keys x : NoDup keys -> (In x (kdel1 k keys) <-> In x keys /\ x <> k).
Proof.
  induction keys as [|k' keys IH]; simpl; intro N; [tauto|]. inversion N; subst.
  destruct (bseq k k') eqn:E.
  - apply bseq_eq in E. subst k'. split; [intro H; split; auto; intro; subst; auto | intros [[H|H] H']; auto; congruence].
  - apply bseq_neq in E. simpl. rewrite IH by auto. split; [intros [H|[H H']]; subst; auto | intros [[H|H] H']; auto].
Qed.

Lemma NoDup_kdel1 k keys : NoDup keys -> NoDup (kdel1 k keys).
Proof.
  induction keys as [|k' keys IH]; simpl; auto. intro N. inversion N; subst.
  destruct (bseq k k'); auto. constructor; auto. intro H. apply In_kdel1 in H; auto. tauto.
Qed.

Lemma In_keys_adel {A} k (m : list (bytes * A)) x : In x (map fst (adel k m)) <-> In x (map fst m) /\ x <> k.
Proof.
  induction m as [|[k' v] m IH]; simpl; [tauto|].
  destruct (bseq k k') eqn:E.
  - apply bseq_eq in E. subst k'. rewrite IH. split; [tauto | intros [[H|H] H']; auto; congruence].
  - apply bseq_neq in E. simpl. rewrite IH. split; [intros [H|[H H']]; subst; auto | intros [[H|H] H']; auto].
Qed.

Lemma abs_del keys obj k :
  keys_agree keys obj ->
  abs_members (kdel1 k keys) (adel k obj) = adel k (abs_members keys obj) /\
  keys_agree (kdel1 k keys) (adel k obj).
Proof.
  intros [Nk [No Ag]]. split.
  - unfold abs_members. clear Ag No. induction keys as [|k' keys IH]; simpl; auto.
    inversion Nk; subst. destruct (bseq k k') eqn:E.
    + apply bseq_eq in E. subst k'.
      rewrite (adel_notin k (map (fun k0 => (k0, or_null (option_map aval (aget k0 obj)))) keys))
        by (rewrite map_map; simpl; rewrite map_id; auto).
      apply map_ext_in. intros k2 Hin. rewrite aget_adel_other; auto. apply bseq_neq. intro; subst; auto.
    + simpl. rewrite aget_adel_other by (rewrite bseq_sym; auto). f_equal. apply IH; auto.
  - repeat split.
    + apply NoDup_kdel1; auto.
    + apply NoDup_keys_adel; auto.
    + intro H. apply In_kdel1 in H as [H1 H2]; auto. apply In_keys_adel. split; auto. apply Ag; auto.
    + intro H. apply In_keys_adel in H as [H1 H2]. apply In_kdel1; auto. split; auto. apply Ag; auto.
Qed.

Lemma aget_abs_members keys obj k :
  aget k (abs_members keys obj) = if kmem k keys then Some (or_null (option_map aval (aget k obj))) else None.
Proof.
  unfold abs_members. induction keys as [|k' keys IH]; simpl; auto.
  destruct (bseq k k') eqn:E; simpl; auto. apply bseq_eq in E. subst. reflexivity.
Qed.

Lemma aget_abs_members_agree keys obj k :
  keys_agree keys obj -> aget k (abs_members keys obj) = option_map aval (aget k obj).
Proof.
  intros [Nk [No Ag]]. rewrite aget_abs_members. destruct (kmem k keys) eqn:M.
  - apply kmem_In in M. apply Ag in M. apply aget_Some_in in M as [v ->]. reflexivity.
  - apply kmem_false_In in M. destruct (aget k obj) eqn:E; auto. apply aget_In_fst in E. apply Ag in E. contradiction.
Qed.
