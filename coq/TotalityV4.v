(* TotalityV4.v — C04 for the LEGACY root package (ImplV4: patch.go at the repository root, v4 API).

   The legacy Apply never panics: for EVERY setting of the package variables SupportNegativeIndices /
   AccumulatedCopySizeLimit, EVERY indent, EVERY document byte string and EVERY operation list
   (arbitrary op names, path / from bytes, missing or null members, hand-assembled or decoded: the
   legacy DecodePatch validates nothing, so no hypothesis on the patch may be assumed), the outcome
   of api_apply4 is an output or an error (api_apply4_never_panics); likewise one operation in any
   state (step4_never_panics) and the operation loop (apply4_from_never_panics).
   No state invariant is needed: a legacy partialDoc is a bare map (no key list to get out of step
   with), so every panic producer of the container methods is excluded by arithmetic alone.

   History.  An earlier version of this file found that the patch  [{"op":"replace","path":""}]
   (replace of the whole document, no value member), which the legacy DecodePatch accepts, panicked
   on every document that loads (Patch.replace dereferenced the nil *lazyNode returned by
   op.value()).  That was confirmed against the Go code and repaired (fix 1a7093a: ErrMissing);
   ImplV4.step4 follows the repaired code, and formerly_panicking_inputs below records the inputs. *)
From Coq Require Import Lia.
From JP Require Import Bytes Json Text Strings Den Pointer ImplV5 ImplMerge ImplV4 ImplFacts.

(* ---- the container methods ---- *)
Lemma resolve_idx_get_nopanic4 o len key : resolve_idx_get o len key <> Panic.
Proof.
  unfold resolve_idx_get. destruct (atoi key) as [idx|]; [|discriminate].
  destruct (idx <? 0)%Z.
  - destruct (negb (o_neg o)); [discriminate|]. destruct (idx <? - len)%Z; [discriminate|].
    destruct (len <=? idx + len)%Z; discriminate.
  - destruct (len <=? idx)%Z; discriminate.
Qed.

Lemma ary_remove_nopanic4 o ns key : ary_remove o ns key <> Panic.
Proof.
  unfold ary_remove. destruct (atoi key) as [idx|]; [|discriminate].
  destruct (zlen ns <=? idx)%Z; [destruct (o_allow o); discriminate|].
  destruct (idx <? 0)%Z; [|discriminate].
  destruct (negb (o_neg o)); [discriminate|]. destruct (idx <? - zlen ns)%Z; [destruct (o_allow o)|]; discriminate.
Qed.

Lemma con4_get_nopanic g c key : con4_get g c key <> Panic.
Proof.
  destruct c as [obj| |ns]; simpl; try discriminate.
  pose proof (resolve_idx_get_nopanic4 (o5 g) (zlen ns) key) as R.
  destruct (resolve_idx_get (o5 g) (zlen ns) key); try discriminate. congruence.
Qed.

Lemma con4_add_nopanic g c key v : con4_add g c key v <> Panic.
Proof.
  destruct c as [obj| |ns]; simpl; try discriminate.
  pose proof (ary_add_never_panics (o5 g) ns key v) as R.
  destruct (ary_add (o5 g) ns key v); try discriminate. congruence.
Qed.

Lemma con4_remove_nopanic g c key : con4_remove g c key <> Panic.
Proof.
  destruct c as [obj| |ns]; simpl; try discriminate.
  - destruct (amem key obj); discriminate.
  - pose proof (ary_remove_nopanic4 (o5 g) ns key) as R.
    destruct (ary_remove (o5 g) ns key); try discriminate. congruence.
Qed.

(* partialArray.set indexes (d)[idx] without a bound check: safe only after the get that replace
   performs first *)
Lemma con4_set_after_get_nopanic g c key v x : con4_get g c key = Ok x -> con4_set g c key v <> Panic.
Proof.
  intro G. destruct c as [obj| |ns]; simpl in *; try discriminate.
  destruct (resolve_idx_get (o5 g) (zlen ns) key) as [i| |] eqn:R; try discriminate.
  rewrite (ary_set_after_get (o5 g) ns key v i R). discriminate.
Qed.

(* without the get it does panic: the unchecked index of partialArray.set *)
Example con4_set_alone_can_panic :
  con4_set (mkOpts4 false 0%Z None) (DAry []) (B "0") NNil = Panic.
Proof. vm_compute. reflexivity. Qed.

Lemma op_str_nopanic4 op name : op_str op name <> Panic.
Proof. unfold op_str. destruct (aget name op) as [[[]|]|]; discriminate. Qed.

(* ---- findObject: the walk never panics, whatever the tokens; the leaf action decides ---- *)
Lemma walk4_nopanic {A} g parts : forall c (f : con4 -> res A * con4),
  (forall c0, fst (f c0) <> Panic) -> fst (walk4 g parts c f) <> Some Panic.
Proof.
  induction parts as [|p rest IH]; intros c f Hf; cbn [walk4].
  - specialize (Hf c). destruct (f c) as [a c']. cbn [fst] in *. intro E. inversion E. congruence.
  - destruct (con4_get g c (decode_token p)) as [next| |]; try (cbn [fst]; discriminate).
    destruct (into_con4 next) as [ch|]; [|cbn [fst]; discriminate].
    specialize (IH ch f Hf). destruct (walk4 g rest ch f) as [r ch']. cbn [fst] in *. exact IH.
Qed.

Lemma find4_nopanic {A} g c path (f : con4 -> bytes -> res A * con4) :
  (forall c0 key, fst (f c0 key) <> Panic) -> fst (find4 g c path f) <> Some Panic.
Proof.
  intro Hf. unfold find4. destruct (split_path path) as [[parts key]|]; [|cbn [fst]; discriminate].
  apply walk4_nopanic. intro c0. apply Hf.
Qed.

Lemma lift4_nopanic {A} (r : option (res A) * con4) st (k : A -> con4 -> res state4) :
  fst r <> Some Panic -> (forall a c, k a c <> Panic) -> lift4 r st k <> Panic.
Proof.
  intros Hr Hk. unfold lift4. destruct r as [[[a|e|]|] c]; cbn [fst] in Hr; try discriminate; [apply Hk | congruence].
Qed.

Lemma upd_nopanic {A} (r : res con4) c (a : A) : r <> Panic -> fst (upd r c a) <> Panic.
Proof. intro H. unfold upd. destruct r; cbn [fst]; try discriminate. congruence. Qed.

Lemma ok_state_nopanic (f : con4 -> state4) : forall (u : unit) (c : con4), Ok (f c) <> (Panic : res state4).
Proof. intros u c. discriminate. Qed.

(* add at the leaf: used by add, move and copy *)
Lemma find4_add_nopanic g c path v st (f : con4 -> state4) :
  lift4 (find4 g c path (fun c' key => upd (con4_add g c' key v) c' tt)) st (fun _ c2 => Ok (f c2)) <> Panic.
Proof.
  apply lift4_nopanic; [|intros a c0; discriminate].
  apply find4_nopanic. intros c0 key. apply upd_nopanic. apply con4_add_nopanic.
Qed.

(* ---- one operation ---- *)
Lemma step4_add_safe g st op : op_kind op = KAdd -> step4 g st op <> Panic.
Proof.
  intro K. unfold step4. rewrite K.
  destruct (op_str op (B "path")) as [path| |]; try discriminate.
  apply (find4_add_nopanic g (r4 st) path _ st (fun c2 => mkState4 c2 (acc4 st))).
Qed.

Lemma step4_remove_safe g st op : op_kind op = KRemove -> step4 g st op <> Panic.
Proof.
  intro K. unfold step4. rewrite K.
  destruct (op_str op (B "path")) as [path| |]; try discriminate.
  apply lift4_nopanic; [|intros a c0; discriminate].
  apply find4_nopanic. intros c0 key. apply upd_nopanic. apply con4_remove_nopanic.
Qed.

(* replace of the whole document: every shape of the value member, including its absence, is an
   outcome or an error; elsewhere the unchecked partialArray.set runs only after a successful get *)
Lemma step4_replace_safe g st op : op_kind op = KReplace -> step4 g st op <> Panic.
Proof.
  intro K. unfold step4. rewrite K.
  pose proof (op_str_nopanic4 op (B "path")) as NPp.
  destruct (op_str op (B "path")) as [path| |]; [|discriminate|congruence].
  destruct path as [|b path].
  - destruct (op_value4 op) as [v|]; [|discriminate].
    destruct v as [|t|ks obj|ns]; try discriminate. destruct t; discriminate.
  - apply lift4_nopanic; [|intros a c0; discriminate].
    apply find4_nopanic. intros c0 key.
    pose proof (con4_get_nopanic g c0 key) as NG.
    destruct (con4_get g c0 key) as [x|e|] eqn:G; [|cbn [fst]; discriminate|congruence].
    apply upd_nopanic. eapply con4_set_after_get_nopanic; eauto.
Qed.

Lemma step4_move_safe g st op : op_kind op = KMove -> step4 g st op <> Panic.
Proof.
  intro K. unfold step4. rewrite K.
  pose proof (op_str_nopanic4 op (B "from")) as NPf. pose proof (op_str_nopanic4 op (B "path")) as NPp.
  destruct (op_str op (B "from")) as [from| |]; [|discriminate|congruence].
  apply lift4_nopanic.
  - apply find4_nopanic. intros c0 key.
    pose proof (con4_get_nopanic g c0 key) as NG.
    destruct (con4_get g c0 key) as [x|e|]; [|cbn [fst]; discriminate|congruence].
    apply upd_nopanic. apply con4_remove_nopanic.
  - intros v c1. destruct (op_str op (B "path")) as [path| |]; [|discriminate|congruence].
    apply (find4_add_nopanic g c1 path v st (fun c2 => mkState4 c2 (acc4 st))).
Qed.

Lemma find4_get_nopanic g c path :
  fst (find4 g c path (fun c' key => (con4_get g c' key, c'))) <> Some Panic.
Proof. apply find4_nopanic. intros c0 key. cbn [fst]. apply con4_get_nopanic. Qed.

Lemma step4_copy_safe g st op : op_kind op = KCopy -> step4 g st op <> Panic.
Proof.
  intro K. unfold step4. rewrite K.
  pose proof (op_str_nopanic4 op (B "from")) as NPf.
  destruct (op_str op (B "from")) as [from| |]; [|discriminate|congruence].
  apply lift4_nopanic; [apply find4_get_nopanic|].
  intros x c1. destruct (op_str op (B "path")) as [path| |]; try discriminate.
  destruct (find4 g c1 path (fun c' _ => (tt, c'))) as [[u|] c2]; [|discriminate].
  apply lift4_nopanic; [apply find4_get_nopanic|].
  intros v c3. destruct (deep_copy4 g v) as [cp sz].
  destruct ((0 <? g_limit g)%Z && (g_limit g <? acc4 st + sz)%Z); [discriminate|].
  apply (find4_add_nopanic g c2 path cp st (fun c4 => mkState4 c4 (acc4 st + sz)%Z)).
Qed.

Lemma step4_test_safe g st op : op_kind op = KTest -> step4 g st op <> Panic.
Proof.
  intro K. unfold step4. rewrite K.
  pose proof (op_str_nopanic4 op (B "path")) as NPp.
  destruct (op_str op (B "path")) as [path| |]; [|discriminate|congruence].
  destruct path as [|b path].
  - match goal with |- (if ?c then _ else _) <> _ => destruct c end; discriminate.
  - apply lift4_nopanic; [|intros a c0; discriminate].
    apply find4_nopanic. intros c0 key.
    pose proof (con4_get_nopanic g c0 key) as NG.
    destruct (con4_get g c0 key) as [x|e|]; [|cbn [fst]; discriminate|congruence].
    destruct (is_null4 x).
    + cbn [fst]. destruct (null4 _); discriminate.
    + destruct (op_value4 op) as [ov|]; cbn [fst]; [|discriminate].
      destruct (node_equal4 x ov); discriminate.
Qed.

(* every operation (any member list whatsoever), every state, every setting *)
Theorem step4_never_panics g st op : step4 g st op <> Panic.
Proof.
  destruct (op_kind op) eqn:K.
  - now apply step4_add_safe.
  - now apply step4_remove_safe.
  - now apply step4_replace_safe.
  - now apply step4_move_safe.
  - now apply step4_copy_safe.
  - now apply step4_test_safe.
  - unfold step4. rewrite K. discriminate.
Qed.

(* ---- the whole patch ---- *)
Theorem apply4_from_never_panics g : forall p i st, fst (apply4_from g i st p) <> Panic.
Proof.
  induction p as [|op p IH]; intros i st; cbn [apply4_from]; [cbn [fst]; discriminate|].
  pose proof (step4_never_panics g st op) as NP.
  destruct (step4 g st op) as [st'|e|]; [|cbn [fst]; discriminate|congruence].
  apply IH.
Qed.

(* the main theorem, unconditional: every setting of SupportNegativeIndices /
   AccumulatedCopySizeLimit, every indent, every document byte string, every operation list *)
Theorem api_apply4_never_panics g indent p doc : api_apply4 g indent p doc <> Panic4.
Proof.
  unfold api_apply4. destruct doc as [|b doc]; [discriminate|].
  destruct (parse (b :: doc)) as [t|]; [|discriminate].
  match goal with |- match ?s with Some _ => _ | None => _ end <> _ => destruct s as [c|] end; [|discriminate].
  pose proof (apply4_from_never_panics g p 0%nat (mkState4 c 0)) as AP.
  destruct (apply4_from g 0 (mkState4 c 0) p) as [[st|e|] i]; cbn [fst] in AP; try discriminate. congruence.
Qed.

(* the outcome is always an output or an error *)
Corollary api_apply4_total g indent p doc :
  (exists out, api_apply4 g indent p doc = Out4 out) \/ (exists i e, api_apply4 g indent p doc = Err4 i e).
Proof.
  pose proof (api_apply4_never_panics g indent p doc) as NP.
  destruct (api_apply4 g indent p doc) as [out|i e|]; [left; eauto | right; eauto | congruence].
Qed.

(* DecodePatch then Apply / ApplyIndent: all byte strings on both sides *)
Corollary decode4_apply4_never_panics g indent patch doc p :
  api_decode4 patch = Some p -> api_apply4 g indent p doc <> Panic4.
Proof. intros _. apply api_apply4_never_panics. Qed.

(* ---- the inputs that panicked before fix 1a7093a ---- *)
(* patch text   [{"op":"replace","path":""}]     (accepted by the legacy DecodePatch, rejected by v5's)
   documents    {}    []    null    {"a":[1,2]}
   now: the replace is reported as a missing value at operation 0 *)
Definition bad_patch4 : bytes := B "[{""op"":""replace"",""path"":""""}]".

Example replace_without_value_decodes :
  api_decode4 bad_patch4 = Some [[(B "op", Some (TStr (B "replace"))); (B "path", Some (TStr []))]].
Proof. vm_compute. reflexivity. Qed.

Example formerly_panicking_inputs :
  match api_decode4 bad_patch4 with
  | Some p =>
      api_apply4 (mkOpts4 true 0%Z None) [] p (B "{}") = Err4 (Some 0%nat) EMissing /\
      api_apply4 (mkOpts4 true 0%Z None) [] p (B "[]") = Err4 (Some 0%nat) EMissing /\
      api_apply4 (mkOpts4 true 0%Z None) [] p (B "null") = Err4 (Some 0%nat) EMissing /\
      api_apply4 (mkOpts4 false 7%Z None) (B "  ") p (B "{""a"":[1,2]}") = Err4 (Some 0%nat) EMissing
  | None => False
  end.
Proof. vm_compute. repeat split; reflexivity. Qed.

(* the same in every state and setting: a replace of the whole document without value is ErrMissing *)
Theorem replace_root_without_value g st op :
  op_kind op = KReplace -> op_str op (B "path") = Ok [] -> aget (B "value") op = None ->
  step4 g st op = Err EMissing.
Proof. intros K P V. unfold step4. rewrite K, P. unfold op_value4. rewrite V. reflexivity. Qed.

(* the v5 DecodePatch rejects the same text *)
Example v5_rejects_bad_patch4 : api_decode bad_patch4 = None.
Proof. vm_compute. reflexivity. Qed.

(* other unvalidated shapes that the legacy DecodePatch accepts: error or output *)
Definition run4 (g : opts4) (patch doc : String.string) : option result4 :=
  match api_decode4 (B patch) with Some p => Some (api_apply4 g [] p (B doc)) | None => None end.
Arguments run4 g (patch doc)%string_scope.

Definition g4d : opts4 := mkOpts4 true 0%Z None.   (* the default package variables *)

Example legacy_unvalidated_operations :
  run4 g4d "[{""op"":""add"",""path"":""""}]" "{}" = Some (Err4 (Some 0%nat) EMissing) /\
  run4 g4d "[{""op"":""replace"",""path"":"""",""value"":null}]" "{}" = Some (Err4 (Some 0%nat) EOther) /\
  run4 g4d "[{""op"":""test"",""path"":""""}]" "null" = Some (Err4 (Some 0%nat) ETestFailed) /\
  run4 g4d "[{""op"":""replace"",""path"":""/a""}]" "{""a"":1}" = Some (Out4 (B "{""a"":null}")) /\
  run4 g4d "[{""op"":""copy"",""path"":""/a""}]" "{""a"":1}" = Some (Err4 (Some 0%nat) EMissing) /\
  run4 g4d "[{""op"":""move"",""path"":""/a""}]" "{""a"":1}" = Some (Err4 (Some 0%nat) EMissing) /\
  run4 g4d "[{""op"":""add"",""path"":""/a"",""value"":1}]" "null" = Some (Err4 (Some 0%nat) EInvalid) /\
  run4 g4d "[{""op"":""replace"",""path"":""/-1"",""value"":1}]" "[]" = Some (Err4 (Some 0%nat) EMissing) /\
  run4 g4d "[{""op"":""add"",""path"":""/-2"",""value"":1}]" "[]" = Some (Err4 (Some 0%nat) EInvalidIndex) /\
  run4 g4d "[null,{}]" "{}" = Some (Err4 (Some 0%nat) EOther).
Proof. vm_compute. repeat split; reflexivity. Qed.

Print Assumptions step4_never_panics.
Print Assumptions apply4_from_never_panics.
Print Assumptions api_apply4_never_panics.
Print Assumptions api_apply4_total.
Print Assumptions decode4_apply4_never_panics.
