(* Cli.v — model of the json-patch command (v5/cmd/json-patch/main.go): read every -p file and
   decode it (any failure: no output, non-zero exit), read the document from standard input, apply
   the patches in command-line order with the library's default options, print the result.
   No proofs here. *)
From JP Require Import Bytes Json Text ImplV5.

(* what reading the path given with -p yields *)
Inductive pfile := PFile (content : bytes) | PUnreadable.

(* NewApplyOptions: negative indices on, no copy limit, EscapeHTML on *)
Definition default_opts : opts := mkOpts true 0 false false true [] None.

Fixpoint decode_all (files : list pfile) : option (list (list operation)) :=
  match files with
  | [] => Some []
  | PUnreadable :: _ => None
  | PFile b :: r =>
      match api_decode b with
      | None => None
      | Some p => match decode_all r with Some ps => Some (p :: ps) | None => None end
      end
  end.

Fixpoint fold_apply (patches : list (list operation)) (doc : bytes) : option bytes :=
  match patches with
  | [] => Some doc
  | p :: r =>
      match api_apply default_opts [] p doc with
      | ROut out => fold_apply r out
      | _ => None
      end
  end.

(* Some out: stdout = out, exit status 0.  None: nothing on stdout, error on stderr, exit status
   non-zero (log.Fatalf) *)
Definition cli_run (files : list pfile) (stdin : bytes) : option bytes :=
  match decode_all files with
  | None => None
  | Some patches => fold_apply patches stdin
  end.
