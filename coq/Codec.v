(* Codec.v — the string codec of the embedded encoding/json fork, on the model (Strings.v):
   UTF-8 validity, enough-fuel lemmas, and the round trips
     unquote (quote esc s) = s            for valid UTF-8 s   (decode after encode is the identity)
     unquote (html_escape b) = unquote b  for string bodies the scanner accepts (escaping never
                                          changes the value)
   and their lift to trees (den/escape_tree); StrInv.v builds the round trip of deepCopy on them. *)
From Coq Require Import Lia.
From JP Require Import Bytes Json Text Strings Den DecodeFacts JsonFacts.
From JP.gen Require Import TablesGen.

(* ---- bytes ---- *)
Lemma bn_lt_256 c : (bn c < 256)%N.
Proof. unfold bn. destruct c; vm_compute; reflexivity. Qed.

Lemma nb_bn c : nb (bn c) = c.
Proof. destruct c; reflexivity. Qed.

(* ---- enough fuel ---- *)
Lemma skipn_length_le {A} n (l : list A) : (length (skipn n l) <= length l)%nat.
Proof. rewrite skipn_length. lia. Qed.

Lemma utf8_len_le s : (utf8_len s <= length s)%nat.
Proof.
  unfold utf8_len. destruct s as [|c r]; [lia|]. simpl length.
  destruct (bn c <? 128); [lia|]. destruct (bn c <? 194); [lia|].
  destruct (bn c <? 224).
  { destruct r as [|c1 r]; [lia|]. destruct (cont c1); simpl; lia. }
  destruct (bn c <? 240).
  { destruct r as [|c1 [|c2 r]]; try lia. destruct (_ && _); simpl; lia. }
  destruct (bn c <? 245); [|lia].
  destruct r as [|c1 [|c2 [|c3 r]]]; try lia. destruct (_ && _); simpl; lia.
Qed.

Lemma unquote_go_fuel : forall f s, (length s <= f)%nat -> unquote_go f s = unquote_go (length s) s.
Proof.
  induction f as [f IH] using (well_founded_induction lt_wf). intros s L.
  destruct s as [|c r]; [destruct f; reflexivity|].
  destruct f as [|f]; [simpl in L; lia|]. simpl length. cbn [unquote_go].
  assert (R : forall t, (length t <= length r)%nat -> unquote_go f t = unquote_go (length r) t).
  { intros t Lt. simpl in L. rewrite (IH f) by lia.
    destruct (Nat.eq_dec (length r) f) as [->|Ne]; [symmetry; apply IH; lia|].
    symmetry. apply IH; simpl in *; lia. }
  destruct (Byte.eqb c x5c).
  - destruct r as [|e r']; [reflexivity|].
    assert (R' : unquote_go f r' = unquote_go (length (e :: r')) r') by (apply R; simpl; lia).
    destruct e; try (rewrite R'; reflexivity).
    (* \u *)
    destruct (getu4 (c :: x75 :: r')) as [rr|]; [|reflexivity].
    assert (S6 : forall t : bytes, (length (skipn 6 t) <= length t)%nat) by (intro; apply skipn_length_le).
    assert (L1 : (length (skipn 6 (c :: x75 :: r')) <= length (x75 :: r'))%nat).
    { change (skipn 6 (c :: x75 :: r')) with (skipn 4 r'). pose proof (skipn_length_le 4 r'). cbn [length]. lia. }
    destruct (is_surrogate rr).
    + destruct (getu4 (skipn 6 (c :: x75 :: r'))) as [rr1|].
      * destruct ((rr <? 56320) && (56320 <=? rr1) && (rr1 <? 57344)).
        -- rewrite (R (skipn 6 (skipn 6 (c :: x75 :: r')))); [reflexivity|].
           pose proof (S6 (skipn 6 (c :: x75 :: r'))). lia.
        -- rewrite (R _ L1). reflexivity.
      * rewrite (R _ L1). reflexivity.
    + rewrite (R _ L1). reflexivity.
  - destruct (bn c <? 128); [rewrite (R r) by lia; reflexivity|].
    pose proof (utf8_len_le (c :: r)) as UL.
    destruct (utf8_len (c :: r)) as [|n] eqn:E; [rewrite (R r) by lia; reflexivity|].
    rewrite (R (skipn (S n) (c :: r))); [reflexivity|]. simpl. apply skipn_length_le.
Qed.

Lemma quote_go_fuel : forall f esc s, (length s <= f)%nat -> quote_go f esc s = quote_go (length s) esc s.
Proof.
  induction f as [f IH] using (well_founded_induction lt_wf). intros esc s L.
  destruct s as [|c r]; [destruct f; reflexivity|].
  destruct f as [|f]; [simpl in L; lia|]. simpl length. cbn [quote_go].
  assert (R : forall t, (length t <= length r)%nat -> quote_go f esc t = quote_go (length r) esc t).
  { intros t Lt. simpl in L. rewrite (IH f) by lia.
    destruct (Nat.eq_dec (length r) f) as [->|Ne]; [symmetry; apply IH; lia|].
    symmetry. apply IH; simpl in *; lia. }
  destruct (bn c <? 128).
  - rewrite (R r) by lia. reflexivity.
  - pose proof (utf8_len_le (c :: r)) as UL.
    destruct (utf8_len (c :: r)) as [|n] eqn:E; [rewrite (R r) by lia; reflexivity|].
    assert (Rs : quote_go f esc (skipn (S n) (c :: r)) = quote_go (length r) esc (skipn (S n) (c :: r))).
    { apply R. simpl. apply skipn_length_le. }
    destruct c; try (rewrite Rs; reflexivity).
    destruct r as [|c1 r1]; [rewrite Rs; reflexivity|].
    destruct c1; try (rewrite Rs; reflexivity).
    destruct r1 as [|c2 r2]; [rewrite Rs; reflexivity|].
    destruct c2; try (rewrite Rs; reflexivity); rewrite (R r2) by (simpl; lia); reflexivity.
Qed.

(* ---- one-step equations, with the canonical fuel ---- *)
Lemma unquote_go_S f c r :
  unquote_go (S f) (c :: r) =
  if Byte.eqb c x5c then
    match r with
    | [] => []
    | e :: r' =>
        match e with
        | x62 => x08 :: unquote_go f r'
        | x66 => x0c :: unquote_go f r'
        | x6e => x0a :: unquote_go f r'
        | x72 => x0d :: unquote_go f r'
        | x74 => x09 :: unquote_go f r'
        | x75 =>
            match getu4 (c :: r) with
            | None => []
            | Some rr =>
                let rest := skipn 6 (c :: r) in
                if is_surrogate rr then
                  match getu4 rest with
                  | Some rr1 =>
                      if (rr <? 56320) && (56320 <=? rr1) && (rr1 <? 57344) then
                        encode_rune (65536 + (rr - 55296) * 1024 + (rr1 - 56320)) ++ unquote_go f (skipn 6 rest)
                      else replacement ++ unquote_go f rest
                  | None => replacement ++ unquote_go f rest
                  end
                else encode_rune rr ++ unquote_go f rest
            end
        | _ => e :: unquote_go f r'
        end
    end
  else if bn c <? 128 then c :: unquote_go f r
  else match utf8_len (c :: r) with
       | O => replacement ++ unquote_go f r
       | n => firstn n (c :: r) ++ unquote_go f (skipn n (c :: r))
       end.
Proof. reflexivity. Qed.

Lemma unquote_cons c r : unquote (c :: r) = unquote_go (S (length r)) (c :: r).
Proof. reflexivity. Qed.

Lemma unquote_plain c r : Byte.eqb c x5c = false -> (bn c <? 128) = true -> unquote (c :: r) = c :: unquote r.
Proof. intros H1 H2. rewrite unquote_cons, unquote_go_S, H1, H2. reflexivity. Qed.

Lemma unquote_multi c r n :
  (bn c <? 128) = false -> utf8_len (c :: r) = S n ->
  unquote (c :: r) = firstn (S n) (c :: r) ++ unquote (skipn (S n) (c :: r)).
Proof.
  intros H2 E. assert (H1 : Byte.eqb c x5c = false) by (destruct c; try reflexivity; discriminate).
  rewrite unquote_cons, unquote_go_S, H1, H2, E. cbv zeta. f_equal.
  apply unquote_go_fuel. cbn [skipn]. apply skipn_length_le.
Qed.

Lemma unquote_invalid c r :
  (bn c <? 128) = false -> utf8_len (c :: r) = O -> unquote (c :: r) = replacement ++ unquote r.
Proof.
  intros H2 E. assert (H1 : Byte.eqb c x5c = false) by (destruct c; try reflexivity; discriminate).
  rewrite unquote_cons, unquote_go_S, H1, H2, E. reflexivity.
Qed.

(* \uXXXX that is not a surrogate *)
Lemma unquote_u4 a b c d r :
  is_hex a && is_hex b && is_hex c && is_hex d = true -> is_surrogate (hex4 a b c d) = false ->
  unquote (x5c :: x75 :: a :: b :: c :: d :: r) = encode_rune (hex4 a b c d) ++ unquote r.
Proof.
  intros H S. rewrite unquote_cons, unquote_go_S. change (Byte.eqb x5c x5c) with true. cbv iota.
  assert (G : getu4 (x5c :: x75 :: a :: b :: c :: d :: r) = Some (hex4 a b c d)) by (unfold getu4; now rewrite H).
  rewrite G. cbv zeta. rewrite S. change (skipn 6 (x5c :: x75 :: a :: b :: c :: d :: r)) with r.
  f_equal. apply unquote_go_fuel. cbn [length]. lia.
Qed.

Lemma unquote_esc e r :
  match e with x75 => False | _ => True end ->
  unquote (x5c :: e :: r) =
  (match e with x62 => x08 | x66 => x0c | x6e => x0a | x72 => x0d | x74 => x09 | _ => e end) :: unquote r.
Proof.
  intro H. rewrite unquote_cons, unquote_go_S. change (Byte.eqb x5c x5c) with true. cbv iota.
  assert (F : unquote_go (length (e :: r)) r = unquote r) by (apply unquote_go_fuel; cbn [length]; lia).
  rewrite F. destruct e; try contradiction; reflexivity.
Qed.

(* ---- valid UTF-8, as the walk of DecodeRune ---- *)
Inductive utf8 : bytes -> Prop :=
| U_nil : utf8 []
| U_ascii c r : (bn c <? 128) = true -> utf8 r -> utf8 (c :: r)
| U_multi c r n : (bn c <? 128) = false -> utf8_len (c :: r) = S n -> utf8 (skipn (S n) (c :: r)) -> utf8 (c :: r).

(* the length of the sequence at the head depends on that sequence only *)
Lemma utf8_len_prefix c r n Q :
  (bn c <? 128) = false -> utf8_len (c :: r) = S n -> utf8_len (firstn (S n) (c :: r) ++ Q) = S n.
Proof.
  intros H E. unfold utf8_len in E. rewrite H in E.
  destruct (bn c <? 194) eqn:H1; [discriminate|].
  destruct (bn c <? 224) eqn:H2.
  { destruct r as [|c1 r]; [discriminate|]. destruct (cont c1) eqn:C; [|discriminate].
    inversion E; subst. cbn [firstn app utf8_len]. now rewrite H, H1, H2, C. }
  destruct (bn c <? 240) eqn:H3.
  { destruct r as [|c1 [|c2 r]]; try discriminate. destruct (_ && _) eqn:C; [|discriminate].
    inversion E; subst. cbn [firstn app utf8_len]. now rewrite H, H1, H2, H3, C. }
  destruct (bn c <? 245) eqn:H4; [|discriminate].
  destruct r as [|c1 [|c2 [|c3 r]]]; try discriminate. destruct (_ && _) eqn:C; [|discriminate].
  inversion E; subst. cbn [firstn app utf8_len]. now rewrite H, H1, H2, H3, H4, C.
Qed.

Lemma utf8_len_firstn_length c r n :
  utf8_len (c :: r) = S n -> length (firstn (S n) (c :: r)) = S n.
Proof. intro E. apply firstn_length_le. rewrite <- E. apply utf8_len_le. Qed.

(* ---- encoding one character ---- *)
(* what encodeState.string writes for one ASCII byte *)
Definition qchar (esc : bool) (c : byte) : bytes :=
  if tbl htmlSafeSet c || (negb esc && tbl safeSet c) then [c]
  else match c with
       | x5c | x22 => [x5c; c]
       | x0a => [x5c; x6e]
       | x0d => [x5c; x72]
       | x09 => [x5c; x74]
       | _ => B "\u00" ++ [hexdigit (bn c / 16); hexdigit (bn c mod 16)]
       end.

Lemma quote_ascii esc c r : (bn c <? 128) = true -> quote esc (c :: r) = qchar esc c ++ quote esc r.
Proof.
  intro H. unfold quote, qchar. cbn [length quote_go]. rewrite H.
  destruct (tbl htmlSafeSet c || (negb esc && tbl safeSet c)); [reflexivity|].
  destruct c; try reflexivity.
Qed.


Lemma safe_facts c : tbl htmlSafeSet c || tbl safeSet c = true ->
  Byte.eqb c x5c = false /\ (bn c <? 128) = true.
Proof. destruct c; vm_compute; intro H; try discriminate; split; reflexivity. Qed.

Lemma hexenc_facts c : (bn c <? 128) = true ->
  is_hex x30 && is_hex x30 && is_hex (hexdigit (bn c / 16)) && is_hex (hexdigit (bn c mod 16)) = true /\
  hex4 x30 x30 (hexdigit (bn c / 16)) (hexdigit (bn c mod 16)) = bn c.
Proof. destruct c; vm_compute; intro H; try discriminate; split; reflexivity. Qed.

Lemma encode_rune_ascii c : (bn c <? 128) = true -> encode_rune (bn c) = [c].
Proof. intro H. unfold encode_rune. rewrite H. now rewrite nb_bn. Qed.

Lemma not_surrogate_small n : (n <? 128) = true -> is_surrogate n = false.
Proof. intro H. apply N.ltb_lt in H. unfold is_surrogate. apply andb_false_iff. left. apply N.leb_gt. lia. Qed.

Lemma qchar_roundtrip esc c Q : (bn c <? 128) = true -> unquote (qchar esc c ++ Q) = c :: unquote Q.
Proof.
  intro H. unfold qchar.
  destruct (tbl htmlSafeSet c || (negb esc && tbl safeSet c)) eqn:S.
  - assert (S' : tbl htmlSafeSet c || tbl safeSet c = true).
    { apply orb_true_iff in S as [S|S]; [now rewrite S|]. apply andb_prop in S as [_ S]. rewrite S. apply orb_true_r. }
    destruct (safe_facts c S') as [F1 F2]. apply unquote_plain; auto.
  - assert (U : unquote ((B "\u00" ++ [hexdigit (bn c / 16); hexdigit (bn c mod 16)]) ++ Q) = c :: unquote Q).
    { destruct (hexenc_facts c H) as [F1 F2].
      change ((B "\u00" ++ [hexdigit (bn c / 16); hexdigit (bn c mod 16)]) ++ Q)
        with (x5c :: x75 :: x30 :: x30 :: hexdigit (bn c / 16) :: hexdigit (bn c mod 16) :: Q).
      rewrite unquote_u4 by (try exact F1; rewrite F2; apply not_surrogate_small; exact H).
      rewrite F2, (encode_rune_ascii c H). reflexivity. }
    destruct c; try exact U; try discriminate.
    + exact (unquote_esc x74 Q I).
    + exact (unquote_esc x6e Q I).
    + exact (unquote_esc x72 Q I).
    + exact (unquote_esc x22 Q I).
    + exact (unquote_esc x5c Q I).
Qed.

Lemma quote_go_S f esc c r :
  quote_go (S f) esc (c :: r) =
  if bn c <? 128 then
    if tbl htmlSafeSet c || (negb esc && tbl safeSet c) then c :: quote_go f esc r
    else
      match c with
      | x5c | x22 => x5c :: c :: quote_go f esc r
      | x0a => x5c :: x6e :: quote_go f esc r
      | x0d => x5c :: x72 :: quote_go f esc r
      | x09 => x5c :: x74 :: quote_go f esc r
      | _ => [x5c; x75; x30; x30] ++ [hexdigit (bn c / 16); hexdigit (bn c mod 16)] ++ quote_go f esc r
      end
  else
    match utf8_len (c :: r) with
    | O => [x5c; x75; x66; x66; x66; x64] ++ quote_go f esc r
    | n =>
        match c :: r with
        | xe2 :: x80 :: xa8 :: r' => [x5c; x75; x32; x30; x32; x38] ++ quote_go f esc r'
        | xe2 :: x80 :: xa9 :: r' => [x5c; x75; x32; x30; x32; x39] ++ quote_go f esc r'
        | _ => firstn n (c :: r) ++ quote_go f esc (skipn n (c :: r))
        end
    end.
Proof. reflexivity. Qed.

Definition is_ls (s : bytes) : option (byte * bytes) :=
  match s with
  | xe2 :: x80 :: xa8 :: r' => Some (x38, r')
  | xe2 :: x80 :: xa9 :: r' => Some (x39, r')
  | _ => None
  end.

Lemma quote_multi esc c r n :
  (bn c <? 128) = false -> utf8_len (c :: r) = S n ->
  quote esc (c :: r) =
  match is_ls (c :: r) with
  | Some (d, r') => [x5c; x75; x32; x30; x32; d] ++ quote esc r'
  | None => firstn (S n) (c :: r) ++ quote esc (skipn (S n) (c :: r))
  end.
Proof.
  intros H E. unfold quote at 1. cbn [length]. rewrite quote_go_S, H, E.
  assert (F : forall t, (length t <= length r)%nat -> quote_go (length r) esc t = quote esc t).
  { intros t L. apply quote_go_fuel. exact L. }
  unfold is_ls.
  destruct c; try (rewrite F by (cbn [skipn]; apply skipn_length_le); reflexivity).
  destruct r as [|c1 r1]; [rewrite F by (cbn [skipn]; apply skipn_length_le); reflexivity|].
  destruct c1; try (rewrite F by (cbn [skipn]; apply skipn_length_le); reflexivity).
  destruct r1 as [|c2 r2]; [rewrite F by (cbn [skipn]; apply skipn_length_le); reflexivity|].
  destruct c2; try (rewrite F by (cbn [skipn]; apply skipn_length_le); reflexivity);
    rewrite F by (cbn [length]; lia); reflexivity.
Qed.

Lemma firstn_app_exact {A} n (l Q : list A) : length l = n -> firstn n (l ++ Q) = l /\ skipn n (l ++ Q) = Q.
Proof.
  intro L. subst n. split.
  - rewrite firstn_app, Nat.sub_diag, firstn_all. simpl. apply app_nil_r.
  - rewrite skipn_app, Nat.sub_diag, skipn_all. reflexivity.
Qed.

(* decode after encode is the identity on valid UTF-8, with or without HTML escaping *)
Theorem unquote_quote esc s : utf8 s -> unquote (quote esc s) = s.
Proof.
  induction 1 as [|c r H U IH|c r n H E U IH].
  - reflexivity.
  - rewrite quote_ascii, qchar_roundtrip, IH by exact H. reflexivity.
  - rewrite (quote_multi esc c r n H E).
    destruct (is_ls (c :: r)) as [[d r']|] eqn:L.
    + (* U+2028 / U+2029 are written as escapes *)
      unfold is_ls in L. destruct c; try discriminate. destruct r as [|c1 r1]; try discriminate.
      destruct c1; try discriminate. destruct r1 as [|c2 r2]; try discriminate.
      destruct c2; try discriminate; inversion L; subst d r';
        (assert (n = 2%nat) by (vm_compute in E; congruence); subst n; cbn [skipn] in IH;
         cbn [app]; rewrite unquote_u4 by reflexivity; rewrite IH; reflexivity).
    + pose proof (utf8_len_firstn_length c r n E) as FL.
      assert (Hd : exists t, firstn (S n) (c :: r) = c :: t) by (cbn [firstn]; eauto).
      destruct Hd as [t Ht]. rewrite Ht. cbn [app].
      rewrite (unquote_multi c (t ++ quote esc (skipn (S n) (c :: r))) n H).
      * change (c :: t ++ quote esc (skipn (S n) (c :: r))) with ((c :: t) ++ quote esc (skipn (S n) (c :: r))).
        rewrite <- Ht. destruct (firstn_app_exact (S n) (firstn (S n) (c :: r)) (quote esc (skipn (S n) (c :: r))) FL) as [F1 F2].
        rewrite F1, F2, IH. apply firstn_skipn.
      * change (c :: t ++ quote esc (skipn (S n) (c :: r))) with ((c :: t) ++ quote esc (skipn (S n) (c :: r))).
        rewrite <- Ht. apply utf8_len_prefix; auto.
Qed.

(* ---- HTML escaping of a compacted text never changes what its strings denote ---- *)
Definition he_special (c : byte) : bool := match c with x3c | x3e | x26 | xe2 => true | _ => false end.

Lemma he_plain c r : he_special c = false -> html_escape (c :: r) = c :: html_escape r.
Proof. destruct c; try reflexivity; discriminate. Qed.

Lemma he_cont c r : cont c = true -> html_escape (c :: r) = c :: html_escape r.
Proof. intro H. apply he_plain. destruct c; try reflexivity; discriminate. Qed.

(* string bodies as the scanner accepts them (RFC 8259 section 7), in valid UTF-8 *)
Definition simple_esc (e : byte) : bool :=
  match e with x62 | x66 | x6e | x72 | x74 | x5c | x2f | x22 => true | _ => false end.

Inductive sbody : bytes -> Prop :=
| SB_nil : sbody []
| SB_esc e r : simple_esc e = true -> sbody r -> sbody (x5c :: e :: r)
| SB_u a b c d r : is_hex a && is_hex b && is_hex c && is_hex d = true -> sbody r ->
                   sbody (x5c :: x75 :: a :: b :: c :: d :: r)
| SB_ascii c r : (bn c <? 128) = true -> (bn c <? 32) = false -> Byte.eqb c x22 = false -> Byte.eqb c x5c = false ->
                 sbody r -> sbody (c :: r)
| SB_high c r : (bn c <? 128) = false -> sbody r -> sbody (c :: r).

(* (any byte >= 0x80 is accepted inside a string by the scanner, whether or not it is part of a
   well-formed UTF-8 sequence: sbody is exactly what Text.scan_string reads, see scan_string_sbody) *)
Lemma sbody_high_inv c r : (bn c <? 128) = false -> sbody (c :: r) -> sbody r.
Proof.
  intros H S. inversion S as [|e r' He Sr|a b c' d r' Hh Sr|c0 r' H1 H2 H3 H4 Sr|c0 r' H1 Sr]; subst; auto;
    try (vm_compute in H; discriminate); congruence.
Qed.

Lemma cont_high c : cont c = true -> (bn c <? 128) = false.
Proof. unfold cont, in_range. intro H. apply andb_prop in H as [A _]. apply N.leb_le in A. apply N.ltb_ge. lia. Qed.

Lemma in_range_cont lo hi c : (128 <= lo)%N -> (hi <= 191)%N -> in_range lo hi c = true -> cont c = true.
Proof.
  unfold cont, in_range. intros L Hh H. apply andb_prop in H as [A B]. apply N.leb_le in A, B.
  apply andb_true_intro. split; apply N.leb_le; lia.
Qed.

(* the bytes of a well-formed multi-byte sequence are all >= 0x80: the rest after it is a body *)
Lemma sbody_skip_multi c r k : (bn c <? 128) = false -> utf8_len (c :: r) = S k -> sbody (c :: r) ->
  sbody (skipn (S k) (c :: r)).
Proof.
  intros H E S. apply sbody_high_inv in S; [|exact H]. unfold utf8_len in E. rewrite H in E.
  destruct (bn c <? 194) eqn:H1; [discriminate|].
  destruct (bn c <? 224) eqn:H2.
  { destruct r as [|c1 r]; [discriminate|]. destruct (cont c1) eqn:C; [|discriminate].
    inversion E; subst. cbn [skipn]. apply (sbody_high_inv c1); [apply cont_high; exact C | exact S]. }
  destruct (bn c <? 240) eqn:H3.
  { destruct r as [|c1 [|c2 r]]; try discriminate. destruct (_ && _) eqn:C; [|discriminate].
    inversion E; subst. apply andb_prop in C as [C1 C2]. cbn [skipn].
    assert (K1 : cont c1 = true).
    { apply (in_range_cont (if bn c =? 224 then 160 else 128) (if bn c =? 237 then 159 else 191));
        [destruct (bn c =? 224); lia | destruct (bn c =? 237); lia | exact C1]. }
    apply (sbody_high_inv c2); [apply cont_high; exact C2|]. apply (sbody_high_inv c1); [apply cont_high; exact K1 | exact S]. }
  destruct (bn c <? 245) eqn:H4; [|discriminate].
  destruct r as [|c1 [|c2 [|c3 r]]]; try discriminate. destruct (_ && _) eqn:C; [|discriminate].
  inversion E; subst. apply andb_prop in C as [C12 C3]. apply andb_prop in C12 as [C1 C2]. cbn [skipn].
  assert (K1 : cont c1 = true).
  { apply (in_range_cont (if bn c =? 240 then 144 else 128) (if bn c =? 244 then 143 else 191));
      [destruct (bn c =? 240); lia | destruct (bn c =? 244); lia | exact C1]. }
  apply (sbody_high_inv c3); [apply cont_high; exact C3|]. apply (sbody_high_inv c2); [apply cont_high; exact C2|].
  apply (sbody_high_inv c1); [apply cont_high; exact K1 | exact S].
Qed.

Lemma is_hex_not_special a : is_hex a = true -> he_special a = false.
Proof. destruct a; try reflexivity; discriminate. Qed.

(* a multi-byte sequence other than U+2028/9 passes through unchanged *)
Lemma lead_special c : (bn c <? 128) = false -> he_special c = true -> c = xe2.
Proof. destruct c; intros H1 H2; try discriminate; reflexivity. Qed.

Lemma he_lead c r : (bn c <? 128) = false -> is_ls (c :: r) = None -> html_escape (c :: r) = c :: html_escape r.
Proof.
  intros H L. destruct (he_special c) eqn:Sp; [|apply he_plain; exact Sp].
  apply lead_special in Sp; auto. subst c.
  destruct r as [|c1 r1]; [reflexivity|].
  destruct (Byte.eqb c1 x80) eqn:E1.
  - apply Byte.byte_dec_bl in E1. subst c1. destruct r1 as [|c2 r2]; [reflexivity|].
    destruct c2; try reflexivity; discriminate.
  - destruct c1; try reflexivity; discriminate.
Qed.

Lemma he_chunk c r n :
  (bn c <? 128) = false -> utf8_len (c :: r) = S n -> is_ls (c :: r) = None ->
  html_escape (c :: r) = firstn (S n) (c :: r) ++ html_escape (skipn (S n) (c :: r)).
Proof.
  intros H E L. rewrite (he_lead c r H L). unfold utf8_len in E. rewrite H in E.
  destruct (bn c <? 194) eqn:H1; [discriminate|].
  destruct (bn c <? 224) eqn:H2.
  { destruct r as [|c1 r]; [discriminate|]. destruct (cont c1) eqn:C; [|discriminate].
    inversion E; subst. cbn [firstn skipn app]. rewrite (he_cont c1) by exact C. reflexivity. }
  destruct (bn c <? 240) eqn:H3.
  { destruct r as [|c1 [|c2 r]]; try discriminate. destruct (_ && _) eqn:C; [|discriminate].
    inversion E; subst. apply andb_prop in C as [C1 C2]. cbn [firstn skipn app].
    assert (K1 : cont c1 = true).
    { unfold cont, in_range in *. apply andb_prop in C1 as [A1 A2]. apply andb_true_intro. split.
      - apply N.leb_le in A1. apply N.leb_le. destruct (bn c =? 224); lia.
      - apply N.leb_le in A2. apply N.leb_le. destruct (bn c =? 237); lia. }
    rewrite (he_cont c1), (he_cont c2) by auto. reflexivity. }
  destruct (bn c <? 245) eqn:H4; [|discriminate].
  destruct r as [|c1 [|c2 [|c3 r]]]; try discriminate. destruct (_ && _) eqn:C; [|discriminate].
  inversion E; subst. apply andb_prop in C as [C12 C3]. apply andb_prop in C12 as [C1 C2]. cbn [firstn skipn app].
  assert (K1 : cont c1 = true).
  { unfold cont, in_range in *. apply andb_prop in C1 as [A1 A2]. apply andb_true_intro. split.
    - apply N.leb_le in A1. apply N.leb_le. destruct (bn c =? 240); lia.
    - apply N.leb_le in A2. apply N.leb_le. destruct (bn c =? 244); lia. }
  rewrite (he_cont c1), (he_cont c2), (he_cont c3) by auto. reflexivity.
Qed.

Lemma he_u4 a b c d r :
  is_hex a && is_hex b && is_hex c && is_hex d = true ->
  html_escape (x5c :: x75 :: a :: b :: c :: d :: r) = x5c :: x75 :: a :: b :: c :: d :: html_escape r.
Proof.
  intro H. apply andb_prop in H as [H Hd]. apply andb_prop in H as [H Hc]. apply andb_prop in H as [Ha Hb].
  rewrite (he_plain x5c), (he_plain x75), (he_plain a), (he_plain b), (he_plain c), (he_plain d)
    by (try reflexivity; apply is_hex_not_special; assumption).
  reflexivity.
Qed.

Lemma getu4_not_backslash c r : Byte.eqb c x5c = false -> getu4 (c :: r) = None.
Proof. intro H. unfold getu4. destruct c; try reflexivity; discriminate. Qed.

Definition low_surrogate (v : N) : bool := (56320 <=? v) && (v <? 57344).

Lemma is_ls_valid c r x : is_ls (c :: r) = Some x -> utf8_len (c :: r) = 3%nat.
Proof.
  unfold is_ls. destruct c; try discriminate. destruct r as [|c1 r1]; try discriminate. destruct c1; try discriminate.
  destruct r1 as [|c2 r2]; try discriminate. destruct c2; try discriminate; reflexivity.
Qed.

Lemma is_ls_invalid c r : utf8_len (c :: r) = 0%nat -> is_ls (c :: r) = None.
Proof. intro E. destruct (is_ls (c :: r)) eqn:L; [|reflexivity]. apply is_ls_valid in L. congruence. Qed.

(* what a surrogate escape sees when it looks ahead, before and after escaping *)
Lemma lookahead_he r : sbody r ->
  (exists a b c d r2, r = x5c :: x75 :: a :: b :: c :: d :: r2 /\
     is_hex a && is_hex b && is_hex c && is_hex d = true /\ sbody r2) \/
  (getu4 r = None /\ match getu4 (html_escape r) with Some v => low_surrogate v = false | None => True end).
Proof.
  intro S. inversion S as [|e r' He Sr|a b c d r' Hh Sr|c r' H1 H2 H3 H4 Sr|c r' H1 Sr]; subst.
  - right. split; reflexivity.
  - right. assert (Ne : he_special e = false) by (destruct e; try reflexivity; discriminate).
    rewrite (he_plain x5c) by reflexivity. rewrite (he_plain e) by exact Ne.
    split; unfold getu4; destruct e; try reflexivity; discriminate.
  - left. exists a, b, c, d, r'. auto.
  - right. split; [apply getu4_not_backslash; exact H4|].
    destruct (he_special c) eqn:Sp.
    + destruct c; try discriminate; reflexivity.
    + rewrite he_plain by exact Sp. rewrite getu4_not_backslash by exact H4. exact I.
  - right. assert (NB : Byte.eqb c x5c = false) by (destruct c; try reflexivity; discriminate).
    split; [apply getu4_not_backslash; exact NB|].
    destruct (utf8_len (c :: r')) as [|n] eqn:E.
    { rewrite (he_lead c r' H1 (is_ls_invalid _ _ E)). rewrite getu4_not_backslash by exact NB. exact I. }
    destruct (is_ls (c :: r')) as [[d r2]|] eqn:L.
    + unfold is_ls in L. destruct c; try discriminate. destruct r' as [|c1 r1]; try discriminate.
      destruct c1; try discriminate. destruct r1 as [|c2 r2']; try discriminate.
      destruct c2; try discriminate; reflexivity.
    + rewrite (he_chunk c r' n H1 E L). cbn [firstn app]. rewrite getu4_not_backslash by exact NB. exact I.
Qed.

Lemma encode_rune_special c : he_special c = true -> (bn c <? 128) = true ->
  unquote ([x5c; x75; x30; x30; hexdigit (bn c / 16); hexdigit (bn c mod 16)]) = [c].
Proof.
  intros _ H. destruct (hexenc_facts c H) as [F1 F2].
  rewrite unquote_u4 by (try exact F1; rewrite F2; apply not_surrogate_small; exact H).
  rewrite F2, (encode_rune_ascii c H). reflexivity.
Qed.

(* the first byte of an escaped text is the first byte of the text, or a backslash *)
Lemma he_head r : match r, html_escape r with
                  | [], [] => True
                  | c :: _, d :: _ => d = c \/ d = x5c
                  | _, _ => False
                  end.
Proof.
  destruct r as [|c r]; [exact I|]. destruct (he_special c) eqn:S.
  - destruct c; try discriminate; try (right; reflexivity).
    destruct r as [|c1 r1]; [left; reflexivity|]. destruct c1; try (left; reflexivity).
    destruct r1 as [|c2 r2]; [left; reflexivity|]. destruct c2; try (left; reflexivity); right; reflexivity.
  - rewrite he_plain by exact S. left. reflexivity.
Qed.

(* escaping does not turn an ill-formed sequence into a well-formed one: continuation bytes pass
   through, every other byte is replaced by something that starts with a non-continuation byte *)
Lemma he_first_noncont c1 r1 : cont c1 = false -> exists h t, html_escape (c1 :: r1) = h :: t /\ cont h = false.
Proof.
  intro C. pose proof (he_head (c1 :: r1)) as Hd. destruct (html_escape (c1 :: r1)) as [|h t] eqn:E; cbv iota beta in Hd; rewrite E in Hd; [contradiction|].
  exists h, t. split; [reflexivity|]. destruct Hd as [-> | ->]; [exact C | reflexivity].
Qed.

Lemma in_range_noncont lo hi c : (128 <= lo)%N -> (hi <= 191)%N -> cont c = false -> in_range lo hi c = false.
Proof.
  intros A B C. destruct (in_range lo hi c) eqn:R; [|reflexivity]. rewrite (in_range_cont lo hi c A B R) in C. discriminate.
Qed.

Lemma utf8_len_he_invalid c r : (bn c <? 128) = false -> utf8_len (c :: r) = 0%nat -> utf8_len (c :: html_escape r) = 0%nat.
Proof.
  intros H E. unfold utf8_len in *. rewrite H in *.
  destruct (bn c <? 194) eqn:H1; [reflexivity|].
  destruct (bn c <? 224) eqn:H2.
  { destruct r as [|c1 r1]; [reflexivity|]. destruct (cont c1) eqn:C; [discriminate|].
    destruct (he_first_noncont c1 r1 C) as [h [t [-> Ch]]]. now rewrite Ch. }
  destruct (bn c <? 240) eqn:H3.
  { set (lo := if bn c =? 224 then 160 else 128) in *. set (hi := if bn c =? 237 then 159 else 191) in *.
    assert (Lo : (128 <= lo)%N) by (subst lo; destruct (bn c =? 224); lia).
    assert (Hi : (hi <= 191)%N) by (subst hi; destruct (bn c =? 237); lia).
    destruct r as [|c1 r1]; [reflexivity|].
    destruct (cont c1) eqn:C1.
    - rewrite (he_cont c1 r1 C1). destruct r1 as [|c2 r2]; [reflexivity|].
      destruct (in_range lo hi c1) eqn:R1.
      + cbn [andb] in E. destruct (cont c2) eqn:C2; [discriminate|].
        destruct (he_first_noncont c2 r2 C2) as [h [t [-> Ch]]]. now rewrite Ch.
      + destruct (html_escape (c2 :: r2)); reflexivity.
    - destruct (he_first_noncont c1 r1 C1) as [h [t [-> Ch]]].
      destruct t; [reflexivity|]. now rewrite (in_range_noncont lo hi h Lo Hi Ch). }
  destruct (bn c <? 245) eqn:H4; [|reflexivity].
  set (lo := if bn c =? 240 then 144 else 128) in *. set (hi := if bn c =? 244 then 143 else 191) in *.
  assert (Lo : (128 <= lo)%N) by (subst lo; destruct (bn c =? 240); lia).
  assert (Hi : (hi <= 191)%N) by (subst hi; destruct (bn c =? 244); lia).
  destruct r as [|c1 r1]; [reflexivity|].
  destruct (cont c1) eqn:C1.
  - rewrite (he_cont c1 r1 C1). destruct r1 as [|c2 r2]; [reflexivity|].
    destruct (cont c2) eqn:C2.
    + rewrite (he_cont c2 r2 C2). destruct r2 as [|c3 r3]; [reflexivity|].
      destruct (in_range lo hi c1) eqn:R1; [|destruct (html_escape (c3 :: r3)); reflexivity].
      cbn [andb] in E. destruct (cont c3) eqn:C3; [discriminate|].
      destruct (he_first_noncont c3 r3 C3) as [h [t [-> Ch]]]. rewrite Ch. now rewrite andb_false_r.
    + destruct (he_first_noncont c2 r2 C2) as [h [t [-> Ch]]].
      destruct t; [reflexivity|]. rewrite Ch. now rewrite andb_false_r.
  - destruct (he_first_noncont c1 r1 C1) as [h [t [-> Ch]]].
    destruct t as [|t1 [|t2 t]]; try reflexivity. now rewrite (in_range_noncont lo hi h Lo Hi Ch).
Qed.

Theorem unquote_html_escape : forall n b, (length b <= n)%nat -> sbody b -> unquote (html_escape b) = unquote b.
Proof.
  induction n as [|n IH]; intros b L Sb.
  { destruct b; [reflexivity | simpl in L; lia]. }
  inversion Sb as [|e r He Sr|a b0 c d r Hh Sr|c r H1 H2 H3 H4 Sr|c r H1 Sr0]; subst.
  - reflexivity.
  - (* simple escape *)
    assert (Ne : he_special e = false) by (destruct e; try reflexivity; discriminate).
    rewrite (he_plain x5c) by reflexivity. rewrite (he_plain e) by exact Ne.
    assert (Nu : match e with x75 => False | _ => True end) by (destruct e; try exact I; discriminate).
    rewrite !unquote_esc by exact Nu. f_equal. apply IH; auto. simpl in L. lia.
  - (* \uXXXX *)
    rewrite (he_u4 _ _ _ _ _ Hh).
    assert (IHr : unquote (html_escape r) = unquote r) by (apply IH; auto; simpl in L; lia).
    rewrite !unquote_cons, !unquote_go_S. change (Byte.eqb x5c x5c) with true. cbv iota.
    assert (G : forall R, getu4 (x5c :: x75 :: a :: b0 :: c :: d :: R) = Some (hex4 a b0 c d)) by (intro; unfold getu4; now rewrite Hh).
    rewrite !G. cbv zeta.
    change (skipn 6 (x5c :: x75 :: a :: b0 :: c :: d :: html_escape r)) with (html_escape r).
    change (skipn 6 (x5c :: x75 :: a :: b0 :: c :: d :: r)) with r.
    assert (F1 : forall t, (length t <= length (x75 :: a :: b0 :: c :: d :: html_escape r))%nat ->
                 unquote_go (length (x75 :: a :: b0 :: c :: d :: html_escape r)) t = unquote t)
      by (intros; apply unquote_go_fuel; auto).
    assert (F2 : forall t, (length t <= length (x75 :: a :: b0 :: c :: d :: r))%nat ->
                 unquote_go (length (x75 :: a :: b0 :: c :: d :: r)) t = unquote t)
      by (intros; apply unquote_go_fuel; auto).
    rewrite (F1 (html_escape r)) by (cbn [length]; lia). rewrite (F2 r) by (cbn [length]; lia).
    destruct (is_surrogate (hex4 a b0 c d)); [|now rewrite IHr].
    destruct (lookahead_he r Sr) as [[a' [b' [c' [d' [r2 [-> [Hh' Sr2]]]]]]]|[G1 G2]].
    + rewrite (he_u4 _ _ _ _ _ Hh') in *.
      assert (G' : forall R, getu4 (x5c :: x75 :: a' :: b' :: c' :: d' :: R) = Some (hex4 a' b' c' d'))
        by (intro; unfold getu4; now rewrite Hh').
      rewrite !G'.
      change (skipn 6 (x5c :: x75 :: a' :: b' :: c' :: d' :: html_escape r2)) with (html_escape r2).
      change (skipn 6 (x5c :: x75 :: a' :: b' :: c' :: d' :: r2)) with r2.
      destruct ((hex4 a b0 c d <? 56320) && (56320 <=? hex4 a' b' c' d') && (hex4 a' b' c' d' <? 57344)).
      * rewrite (unquote_go_fuel _ (html_escape r2)) by (cbn [length]; lia).
        rewrite (unquote_go_fuel _ r2) by (cbn [length]; lia).
        f_equal. apply (IH r2); auto. simpl in L. lia.
      * now rewrite IHr.
    + rewrite G1. rewrite IHr. destruct (getu4 (html_escape r)) as [v|]; [|reflexivity].
      unfold low_surrogate in G2. rewrite <- andb_assoc, G2, andb_false_r. reflexivity.
  - (* an ASCII character *)
    destruct (he_special c) eqn:Sp.
    + assert (HE : html_escape (c :: r) = [x5c; x75; x30; x30; hexdigit (bn c / 16); hexdigit (bn c mod 16)] ++ html_escape r).
      { destruct c; try discriminate; reflexivity. }
      rewrite HE. destruct (hexenc_facts c H1) as [F1 F2]. cbn [app].
      rewrite unquote_u4 by (try exact F1; rewrite F2; apply not_surrogate_small; exact H1).
      rewrite F2, (encode_rune_ascii c H1). cbn [app]. rewrite unquote_plain by auto. f_equal.
      apply IH; auto. simpl in L. lia.
    + rewrite he_plain by exact Sp. rewrite !unquote_plain by auto. f_equal. apply IH; auto. simpl in L. lia.
  - (* a byte >= 0x80 *)
    destruct (utf8_len (c :: r)) as [|k] eqn:E.
    { (* not the start of a well-formed sequence: decoded as U+FFFD, before and after escaping *)
      rewrite (he_lead c r H1 (is_ls_invalid _ _ E)).
      rewrite (unquote_invalid c r H1 E), (unquote_invalid c (html_escape r) H1 (utf8_len_he_invalid c r H1 E)).
      f_equal. apply IH; auto. simpl in L. lia. }
    pose proof (sbody_skip_multi c r k H1 E Sb) as Sr.
    pose proof (utf8_len_le (c :: r)) as UL. rewrite E in UL.
    assert (IHs : unquote (html_escape (skipn (S k) (c :: r))) = unquote (skipn (S k) (c :: r))).
    { apply IH; auto. pose proof (skipn_length (S k) (c :: r)). simpl in *. lia. }
    destruct (is_ls (c :: r)) as [[dg r2]|] eqn:Ls.
    + unfold is_ls in Ls. destruct c; try discriminate. destruct r as [|c1 r1]; try discriminate.
      destruct c1; try discriminate. destruct r1 as [|c2 r2']; try discriminate.
      destruct c2; try discriminate; inversion Ls; subst dg r2;
        (assert (k = 2%nat) by (vm_compute in E; congruence); subst k; cbn [skipn] in IHs).
      * change (html_escape (xe2 :: x80 :: xa8 :: r2')) with ([x5c; x75; x32; x30; x32; x38] ++ html_escape r2').
        cbn [app]. rewrite unquote_u4 by reflexivity.
        rewrite (unquote_multi _ _ 2%nat H1 E). cbn [firstn skipn app]. rewrite IHs. reflexivity.
      * change (html_escape (xe2 :: x80 :: xa9 :: r2')) with ([x5c; x75; x32; x30; x32; x39] ++ html_escape r2').
        cbn [app]. rewrite unquote_u4 by reflexivity.
        rewrite (unquote_multi _ _ 2%nat H1 E). cbn [firstn skipn app]. rewrite IHs. reflexivity.
    + rewrite (he_chunk c r k H1 E Ls).
      pose proof (utf8_len_firstn_length c r k E) as FL.
      assert (Hd : exists t, firstn (S k) (c :: r) = c :: t) by (cbn [firstn]; eauto).
      destruct Hd as [t Ht]. rewrite Ht. cbn [app].
      rewrite (unquote_multi c (t ++ html_escape (skipn (S k) (c :: r))) k H1).
      * change (c :: t ++ html_escape (skipn (S k) (c :: r))) with ((c :: t) ++ html_escape (skipn (S k) (c :: r))).
        rewrite <- Ht.
        destruct (firstn_app_exact (S k) (firstn (S k) (c :: r)) (html_escape (skipn (S k) (c :: r))) FL) as [F1 F2].
        rewrite F1, F2, IHs. symmetry. apply (unquote_multi c r k H1 E).
      * change (c :: t ++ html_escape (skipn (S k) (c :: r))) with ((c :: t) ++ html_escape (skipn (S k) (c :: r))).
        rewrite <- Ht. apply utf8_len_prefix; auto.
Qed.

(* ---- what unquote produces is valid UTF-8 ---- *)
From Coq Require Import ZifyN ZifyBool.
Ltac Zify.zify_post_hook ::= Z.div_mod_to_equations.

Lemma bn_nb v : (v < 256)%N -> bn (nb v) = v.
Proof.
  intro H. unfold bn, nb. destruct (Byte.of_N v) as [b|] eqn:E.
  - apply Byte.to_of_N in E. exact E.
  - exfalso. pose proof (Byte.of_N_None_iff v) as I. apply I in E. lia.
Qed.

Lemma utf8_app_ascii c rest : (bn c <? 128) = true -> utf8 rest -> utf8 ([c] ++ rest).
Proof. intros. apply U_ascii; auto. Qed.

Lemma encode_rune_utf8 v rest :
  (v < 1114112)%N -> is_surrogate v = false -> utf8 rest -> utf8 (encode_rune v ++ rest).
Proof.
  intros Hv Hs U. unfold encode_rune.
  destruct (v <? 128) eqn:E1.
  { apply utf8_app_ascii; auto. rewrite bn_nb by lia. exact E1. }
  destruct (v <? 2048) eqn:E2.
  { cbn [app].
    assert (B1 : bn (nb (192 + v / 64)) = 192 + v / 64) by (apply bn_nb; lia).
    assert (B2 : bn (nb (128 + v mod 64)) = 128 + v mod 64) by (apply bn_nb; lia).
    apply (U_multi _ _ 1%nat).
    - rewrite B1. lia.
    - unfold utf8_len. rewrite B1. unfold cont, in_range. rewrite B2.
      replace (192 + v / 64 <? 128) with false by lia. replace (192 + v / 64 <? 194) with false by lia.
      replace (192 + v / 64 <? 224) with true by lia.
      replace ((128 <=? 128 + v mod 64) && (128 + v mod 64 <=? 191)) with true by lia. reflexivity.
    - exact U. }
  destruct (v <? 65536) eqn:E3.
  { cbn [app]. unfold is_surrogate in Hs.
    assert (B1 : bn (nb (224 + v / 4096)) = 224 + v / 4096) by (apply bn_nb; lia).
    assert (B2 : bn (nb (128 + (v / 64) mod 64)) = 128 + (v / 64) mod 64) by (apply bn_nb; lia).
    assert (B3 : bn (nb (128 + v mod 64)) = 128 + v mod 64) by (apply bn_nb; lia).
    apply (U_multi _ _ 2%nat).
    - rewrite B1. lia.
    - unfold utf8_len. rewrite B1. unfold cont, in_range. rewrite B2, B3.
      replace (224 + v / 4096 <? 128) with false by lia. replace (224 + v / 4096 <? 194) with false by lia.
      replace (224 + v / 4096 <? 224) with false by lia. replace (224 + v / 4096 <? 240) with true by lia.
      replace ((128 <=? 128 + v mod 64) && (128 + v mod 64 <=? 191)) with true by lia.
      replace (((if 224 + v / 4096 =? 224 then 160 else 128) <=? 128 + (v / 64) mod 64) &&
               (128 + (v / 64) mod 64 <=? (if 224 + v / 4096 =? 237 then 159 else 191))) with true; [reflexivity|].
      destruct (224 + v / 4096 =? 224) eqn:Q1; destruct (224 + v / 4096 =? 237) eqn:Q2; lia.
    - exact U. }
  cbn [app].
  assert (B1 : bn (nb (240 + v / 262144)) = 240 + v / 262144) by (apply bn_nb; lia).
  assert (B2 : bn (nb (128 + (v / 4096) mod 64)) = 128 + (v / 4096) mod 64) by (apply bn_nb; lia).
  assert (B3 : bn (nb (128 + (v / 64) mod 64)) = 128 + (v / 64) mod 64) by (apply bn_nb; lia).
  assert (B4 : bn (nb (128 + v mod 64)) = 128 + v mod 64) by (apply bn_nb; lia).
  apply (U_multi _ _ 3%nat).
  - rewrite B1. lia.
  - unfold utf8_len. rewrite B1. unfold cont, in_range. rewrite B2, B3, B4.
    replace (240 + v / 262144 <? 128) with false by lia. replace (240 + v / 262144 <? 194) with false by lia.
    replace (240 + v / 262144 <? 224) with false by lia. replace (240 + v / 262144 <? 240) with false by lia.
    replace (240 + v / 262144 <? 245) with true by lia.
    replace ((128 <=? 128 + v mod 64) && (128 + v mod 64 <=? 191)) with true by lia.
    replace ((128 <=? 128 + (v / 64) mod 64) && (128 + (v / 64) mod 64 <=? 191)) with true by lia.
    replace (((if 240 + v / 262144 =? 240 then 144 else 128) <=? 128 + (v / 4096) mod 64) &&
             (128 + (v / 4096) mod 64 <=? (if 240 + v / 262144 =? 244 then 143 else 191))) with true; [reflexivity|].
    destruct (240 + v / 262144 =? 240) eqn:Q1; destruct (240 + v / 262144 =? 244) eqn:Q2; lia.
  - exact U.
Qed.

(* the \uXXXX case of unquote, all branches *)
Lemma unquote_u a b c d r :
  is_hex a && is_hex b && is_hex c && is_hex d = true ->
  unquote (x5c :: x75 :: a :: b :: c :: d :: r) =
  let rr := hex4 a b c d in
  if is_surrogate rr then
    match getu4 r with
    | Some rr1 =>
        if (rr <? 56320) && (56320 <=? rr1) && (rr1 <? 57344)
        then encode_rune (65536 + (rr - 55296) * 1024 + (rr1 - 56320)) ++ unquote (skipn 6 r)
        else replacement ++ unquote r
    | None => replacement ++ unquote r
    end
  else encode_rune rr ++ unquote r.
Proof.
  intro H. rewrite unquote_cons, unquote_go_S. change (Byte.eqb x5c x5c) with true. cbv iota.
  assert (G : getu4 (x5c :: x75 :: a :: b :: c :: d :: r) = Some (hex4 a b c d)) by (unfold getu4; now rewrite H).
  rewrite G. cbv zeta. change (skipn 6 (x5c :: x75 :: a :: b :: c :: d :: r)) with r.
  rewrite (unquote_go_fuel _ r) by (cbn [length]; lia).
  rewrite (unquote_go_fuel _ (skipn 6 r)) by (pose proof (skipn_length_le 6 r); cbn [length]; lia).
  reflexivity.
Qed.

Lemma hexval_lt a : is_hex a = true -> (hexval a < 16)%N.
Proof. destruct a; intro H; try discriminate; vm_compute; reflexivity. Qed.

Lemma hex4_lt a b c d : is_hex a && is_hex b && is_hex c && is_hex d = true -> (hex4 a b c d < 65536)%N.
Proof.
  intro H. apply andb_prop in H as [H Hd]. apply andb_prop in H as [H Hc]. apply andb_prop in H as [Ha Hb].
  apply hexval_lt in Ha, Hb, Hc, Hd. unfold hex4. lia.
Qed.

Lemma replacement_utf8 rest : utf8 rest -> utf8 (replacement ++ rest).
Proof. intro U. apply (U_multi xef (xbf :: xbd :: rest) 2%nat); [reflexivity | reflexivity | exact U]. Qed.

Lemma getu4_some_inv r v : getu4 r = Some v ->
  exists a b c d r2, r = x5c :: x75 :: a :: b :: c :: d :: r2 /\
    is_hex a && is_hex b && is_hex c && is_hex d = true /\ v = hex4 a b c d.
Proof.
  unfold getu4. destruct r as [|c0 r]; try discriminate. destruct c0; try discriminate.
  destruct r as [|c1 r]; try discriminate. destruct c1; try discriminate.
  destruct r as [|a [|b [|c [|d r2]]]]; try discriminate.
  destruct (is_hex a && is_hex b && is_hex c && is_hex d) eqn:H; try discriminate.
  intro E. inversion E. exists a, b, c, d, r2. auto.
Qed.

Lemma sbody_u_inv a b c d r2 : sbody (x5c :: x75 :: a :: b :: c :: d :: r2) -> sbody r2.
Proof.
  intro S. inversion S as [|e r He Sr|a' b' c' d' r Hh Sr|c0 r H1 H2 H3 H4 Sr|c0 r H1 Sr]; subst; auto; try discriminate.
Qed.

Theorem unquote_utf8 : forall n b, (length b <= n)%nat -> sbody b -> utf8 (unquote b).
Proof.
  induction n as [|n IH]; intros b L Sb.
  { destruct b; [constructor | simpl in L; lia]. }
  inversion Sb as [|e r He Sr|a b0 c d r Hh Sr|c r H1 H2 H3 H4 Sr|c r H1 Sr0]; subst.
  - constructor.
  - assert (Nu : match e with x75 => False | _ => True end) by (destruct e; try exact I; discriminate).
    rewrite unquote_esc by exact Nu. apply U_ascii.
    + destruct e; try discriminate; reflexivity.
    + apply IH; auto. simpl in L. lia.
  - rewrite (unquote_u _ _ _ _ _ Hh). cbv zeta.
    assert (Ur : utf8 (unquote r)) by (apply IH; auto; simpl in L; lia).
    pose proof (hex4_lt _ _ _ _ Hh) as Lt.
    destruct (is_surrogate (hex4 a b0 c d)) eqn:Su.
    + destruct (getu4 r) as [rr1|] eqn:G; [|apply replacement_utf8; exact Ur].
      destruct ((hex4 a b0 c d <? 56320) && (56320 <=? rr1) && (rr1 <? 57344)) eqn:P; [|apply replacement_utf8; exact Ur].
      apply getu4_some_inv in G as [a' [b' [c' [d' [r2 [-> [Hh' ->]]]]]]].
      apply encode_rune_utf8.
      * unfold is_surrogate in Su. lia.
      * unfold is_surrogate in *. lia.
      * change (skipn 6 (x5c :: x75 :: a' :: b' :: c' :: d' :: r2)) with r2. apply IH.
        -- simpl in L. lia.
        -- eapply sbody_u_inv; eauto.
    + apply encode_rune_utf8; auto. lia.
  - rewrite unquote_plain by auto. apply U_ascii; auto. apply IH; auto. simpl in L. lia.
  - destruct (utf8_len (c :: r)) as [|k] eqn:E.
    { rewrite (unquote_invalid c r H1 E). apply replacement_utf8. apply IH; auto. simpl in L. lia. }
    pose proof (sbody_skip_multi c r k H1 E Sb) as Sr.
    rewrite (unquote_multi c r k H1 E).
    assert (Hd : exists t, firstn (S k) (c :: r) = c :: t) by (cbn [firstn]; eauto).
    destruct Hd as [t Ht]. rewrite Ht. cbn [app].
    pose proof (utf8_len_firstn_length c r k E) as FL.
    apply (U_multi c _ k H1).
    + change (c :: t ++ unquote (skipn (S k) (c :: r))) with ((c :: t) ++ unquote (skipn (S k) (c :: r))).
      rewrite <- Ht. apply utf8_len_prefix; auto.
    + change (c :: t ++ unquote (skipn (S k) (c :: r))) with ((c :: t) ++ unquote (skipn (S k) (c :: r))).
      rewrite <- Ht. rewrite (proj2 (firstn_app_exact (S k) _ _ FL)).
      apply IH; auto. pose proof (skipn_length (S k) (c :: r)). pose proof (utf8_len_le (c :: r)). simpl in *. lia.
Qed.

(* C17: encoding the decoded string and decoding again gives the same string — strings keep their
   code points, with either setting of the HTML-escaping switch *)
Corollary unquote_quote_unquote esc b : sbody b -> unquote (quote esc (unquote b)) = unquote b.
Proof. intro S. apply unquote_quote. apply (unquote_utf8 (length b)); auto. Qed.

Corollary escape_switch_same_value b : sbody b ->
  unquote (quote true (unquote b)) = unquote (quote false (unquote b)).
Proof. intro S. now rewrite !unquote_quote_unquote. Qed.

(* ---- with EscapeHTML on, none of < > & U+2028 U+2029 appears raw in what is written ---- *)
Definition ls_head (s : bytes) : bool :=
  match s with xe2 :: x80 :: xa8 :: _ | xe2 :: x80 :: xa9 :: _ => true | _ => false end.
Definition html_char (c : byte) : bool := match c with x3c | x3e | x26 => true | _ => false end.

Fixpoint has_raw (s : bytes) : bool :=
  match s with
  | [] => false
  | c :: r => html_char c || ls_head s || has_raw r
  end.

Lemma has_raw_cons_plain c r : he_special c = false -> has_raw (c :: r) = has_raw r.
Proof. intro H. cbn [has_raw]. destruct c; try discriminate; reflexivity. Qed.

Lemma has_raw_app_plain p s : forallb (fun c => negb (he_special c)) p = true -> has_raw (p ++ s) = has_raw s.
Proof.
  induction p as [|c p IH]; intro H; [reflexivity|]. cbn [forallb] in H. apply andb_prop in H as [H1 H2].
  cbn [app]. rewrite has_raw_cons_plain by (destruct (he_special c); auto; discriminate). auto.
Qed.

Theorem html_escape_no_raw : forall n b, (length b <= n)%nat -> has_raw (html_escape b) = false.
Proof.
  induction n as [|n IH]; intros b L.
  { destruct b; [reflexivity | simpl in L; lia]. }
  destruct b as [|c r]; [reflexivity|].
  assert (IHr : has_raw (html_escape r) = false) by (apply IH; simpl in L; lia).
  destruct (he_special c) eqn:S.
  - destruct c; try discriminate.
    + (* & *) change (html_escape (x26 :: r)) with ([x5c; x75; x30; x30; x32; x36] ++ html_escape r).
      rewrite has_raw_app_plain by reflexivity. exact IHr.
    + (* < *) change (html_escape (x3c :: r)) with ([x5c; x75; x30; x30; x33; x63] ++ html_escape r).
      rewrite has_raw_app_plain by reflexivity. exact IHr.
    + (* > *) change (html_escape (x3e :: r)) with ([x5c; x75; x30; x30; x33; x65] ++ html_escape r).
      rewrite has_raw_app_plain by reflexivity. exact IHr.
    + (* E2 *)
      destruct (is_ls (xe2 :: r)) as [[d r2]|] eqn:Ls.
      * unfold is_ls in Ls. destruct r as [|c1 r1]; try discriminate. destruct c1; try discriminate.
        destruct r1 as [|c2 r2']; try discriminate.
        assert (IH2 : has_raw (html_escape r2') = false) by (apply IH; simpl in L; lia).
        destruct c2; try discriminate.
        -- change (html_escape (xe2 :: x80 :: xa8 :: r2')) with ([x5c; x75; x32; x30; x32; x38] ++ html_escape r2').
           rewrite has_raw_app_plain by reflexivity. exact IH2.
        -- change (html_escape (xe2 :: x80 :: xa9 :: r2')) with ([x5c; x75; x32; x30; x32; x39] ++ html_escape r2').
           rewrite has_raw_app_plain by reflexivity. exact IH2.
      * rewrite (he_lead xe2 r eq_refl Ls). cbn [has_raw html_char orb]. rewrite IHr, orb_false_r.
        (* the escaped rest does not start with 80 A8 / 80 A9 *)
        unfold is_ls in Ls. unfold ls_head.
        destruct r as [|c1 r1]; [reflexivity|].
        pose proof (he_head (c1 :: r1)) as Hd. destruct (html_escape (c1 :: r1)) as [|d1 t1] eqn:E1; [reflexivity|].
        destruct (Byte.eqb d1 x80) eqn:Q; [|destruct d1; try reflexivity; discriminate].
        apply Byte.byte_dec_bl in Q. subst d1. cbv iota beta in Hd. rewrite E1 in Hd. destruct Hd as [Hd|Hd]; [|discriminate]. subst c1.
        rewrite (he_plain x80) in E1 by reflexivity. inversion E1; subst t1.
        destruct r1 as [|c2 r2']; [reflexivity|].
        pose proof (he_head (c2 :: r2')) as Hd2. cbv iota beta in Hd2. destruct (html_escape (c2 :: r2')) as [|d2 t2]; [reflexivity|].
        destruct Hd2 as [-> | ->]; [|reflexivity]. destruct c2; try reflexivity; discriminate.
  - rewrite he_plain by exact S. rewrite has_raw_cons_plain by exact S. exact IHr.
Qed.

(* ---- trees: escaping a compacted text never changes its value ---- *)
From JP Require Import ImplV5 Abs.

Fixpoint tsb (t : tjson) : Prop :=
  match t with
  | TStr b => sbody b
  | TArr l => (fix all (l : list tjson) : Prop := match l with [] => True | x :: r => tsb x /\ all r end) l
  | TObj ms => (fix all (m : list (bytes * tjson)) : Prop :=
                  match m with [] => True | kv :: r => (sbody (fst kv) /\ tsb (snd kv)) /\ all r end) ms
  | _ => True
  end.

Lemma tsb_arr l : tsb (TArr l) <-> Forall tsb l.
Proof.
  cbn [tsb]. split; intro H.
  - induction l as [|x l IH]; constructor; destruct H; auto.
  - induction l as [|x l IH]; [exact I|]. inversion H as [|? ? Ha Hb]; subst. split; [exact Ha | apply IH; exact Hb].
Qed.

Lemma tsb_obj ms : tsb (TObj ms) <-> Forall (fun kv => sbody (fst kv) /\ tsb (snd kv)) ms.
Proof.
  cbn [tsb]. split; intro H.
  - induction ms as [|x l IH]; constructor; destruct H; auto.
  - induction ms as [|x l IH]; [exact I|]. inversion H as [|? ? Ha Hb]; subst. split; [exact Ha | apply IH; exact Hb].
Qed.

Lemma escape_tree_true t :
  escape_tree true t =
  match t with
  | TStr b => TStr (html_escape b)
  | TArr l => TArr (map (escape_tree true) l)
  | TObj ms => TObj (map (fun kv => (html_escape (fst kv), escape_tree true (snd kv))) ms)
  | _ => t
  end.
Proof. destruct t; reflexivity. Qed.

Theorem escape_tree_den t : tsb t -> den (escape_tree true t) = den t.
Proof.
  induction t using tjson_rect'; intro S; try reflexivity.
  - rewrite escape_tree_true. cbn [den]. f_equal. apply (unquote_html_escape (length s)); auto.
  - rewrite escape_tree_true. cbn [den]. f_equal. rewrite map_map. apply map_ext_in. intros x Hx.
    apply tsb_arr in S. rewrite Forall_forall in H, S. apply (H x Hx). apply (S x Hx).
  - rewrite escape_tree_true. cbn [den]. f_equal. f_equal. rewrite map_map. apply map_ext_in. intros kv Hk.
    apply tsb_obj in S. rewrite Forall_forall in H, S. destruct (S kv Hk) as [S1 S2]. cbn [fst snd]. f_equal.
    + apply (unquote_html_escape (length (fst kv))); auto.
    + apply (H kv Hk). exact S2.
Qed.

(* the key list of an object is its member names, decoded, in document order *)
Theorem keys_in_document_order ms : fst (doc_of ms) = map (fun kv => unquote (fst kv)) ms.
Proof. reflexivity. Qed.
