(* Bytes.v — byte strings (Go []byte / string contents) and small helpers.  No proofs here. *)
From Coq Require Export String.   (* first, so that List's names (length, concat) win below *)
From Coq Require Export List NArith ZArith Bool.
From Coq.Strings Require Export Byte.
Export ListNotations.
Open Scope N_scope.

Definition bytes := list byte.

(* a Go string literal as bytes *)
Definition B (s : String.string) : bytes := String.list_byte_of_string s.
Arguments B s%string_scope.

Definition bn (b : byte) : N := Byte.to_N b.
Definition nb (n : N) : byte := match Byte.of_N n with Some b => b | None => x00 end.

Fixpoint bseq (a b : bytes) : bool :=
  match a, b with
  | [], [] => true
  | x :: a', y :: b' => Byte.eqb x y && bseq a' b'
  | _, _ => false
  end.

Definition is_digit (b : byte) : bool := (48 <=? bn b) && (bn b <=? 57).
Definition is_digit19 (b : byte) : bool := (49 <=? bn b) && (bn b <=? 57).
Definition is_hex (b : byte) : bool :=
  is_digit b || ((97 <=? bn b) && (bn b <=? 102)) || ((65 <=? bn b) && (bn b <=? 70)).
(* JSON insignificant whitespace: space, \t, \r, \n (scanner.go isSpace) *)
Definition is_ws (b : byte) : bool :=
  match b with x20 | x09 | x0d | x0a => true | _ => false end.

Definition hexdigit (n : N) : byte :=
  nth (N.to_nat n) (B "0123456789abcdef") x30.

Definition hexval (b : byte) : N :=
  if is_digit b then bn b - 48
  else if (97 <=? bn b) && (bn b <=? 102) then bn b - 87
  else bn b - 55.

Fixpoint skip_ws (s : bytes) : bytes :=
  match s with
  | c :: r => if is_ws c then skip_ws r else s
  | [] => []
  end.

(* association lists keyed by byte strings: the operations of a Go map[string]T *)
Section Assoc.
  Context {A : Type}.
  Fixpoint aget (k : bytes) (m : list (bytes * A)) : option A :=
    match m with
    | [] => None
    | (k', v) :: r => if bseq k k' then Some v else aget k r
    end.
  (* replace in place if present, else append *)
  Fixpoint aset (k : bytes) (v : A) (m : list (bytes * A)) : list (bytes * A) :=
    match m with
    | [] => [(k, v)]
    | (k', v') :: r => if bseq k k' then (k', v) :: r else (k', v') :: aset k v r
    end.
  Fixpoint adel (k : bytes) (m : list (bytes * A)) : list (bytes * A) :=
    match m with
    | [] => []
    | (k', v') :: r => if bseq k k' then adel k r else (k', v') :: adel k r
    end.
  Definition amem (k : bytes) (m : list (bytes * A)) : bool :=
    match aget k m with Some _ => true | None => false end.
End Assoc.

Fixpoint kmem (k : bytes) (ks : list bytes) : bool :=
  match ks with
  | [] => false
  | k' :: r => bseq k k' || kmem k r
  end.

(* remove the first occurrence (partialDoc.remove: the first index whose key matches) *)
Fixpoint kdel1 (k : bytes) (ks : list bytes) : list bytes :=
  match ks with
  | [] => []
  | k' :: r => if bseq k k' then r else k' :: kdel1 k r
  end.

Fixpoint knodup (ks : list bytes) : bool :=
  match ks with
  | [] => true
  | k :: r => negb (kmem k r) && knodup r
  end.
