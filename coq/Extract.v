(* Extract.v — extraction of the executable model to OCaml for the correspondence oracle.
   ExtrOcamlBasic only: bool, option, unit, list, prod, sumbool, sumor, andb, orb.  nat, N, Z,
   positive and Byte.byte stay the extracted inductive types. *)
Require Extraction.
Require Import ExtrOcamlBasic.
From JP Require Import Bytes Json Text Strings Scan Den Pointer Rfc6902 Rfc7396 ImplV5 ImplMerge Domain ImplV4 Cli.
From JP.gen Require Import ScannerGen.
Extraction Language OCaml.
Set Extraction Optimize.
Extraction "model.ml"
  Bytes.bseq Json.jeq Json.oeqb Json.onodup Text.parse Text.print Text.pp Strings.unquote Strings.quote
  Den.den Den.tnodup Pointer.atoi Rfc6902.rfc_apply Rfc7396.merge_patch Rfc7396.mm Rfc7396.compatible
  Rfc7396.no_null_member Rfc7396.diff
  ImplV5.api_decode ImplV5.api_apply ImplV5.api_equal ImplV5.apply_tree ImplV5.op_kind ImplV5.op_str ImplV5.op_value
  ImplMerge.api_merge ImplMerge.api_create
  Domain.den_op Domain.in_domain_C01 Domain.root_container Domain.dialect_of Domain.c14_path_ok
  Domain.canonical_spelling Domain.pointer_ok Domain.copies_fit
  ImplV4.api_apply4 ImplV4.api_decode4 ImplV4.api_merge4 ImplV4.api_equal4 ImplV4.mkOpts4 ImplV4.api_no_null_copy4
  Cli.cli_run
  Scan.valid_gen Scan.compact_go Scan.indent_go
  ScannerGen.scanner_reset ScannerGen.step_fn ScannerGen.scanner_eof ScannerGen.mkScanner.
